package main

import (
	"encoding/json"
	"fmt"
	"math/big"
	"strings"
	"time"
	"unicode/utf8"

	apifu "github.com/ccbrown/api-fu"
	"github.com/ccbrown/api-fu/pagination"

	"verifharness/hx"
)

const findingF16b = "F-16b-limit-cut-inside-equal-timestamps"

// Case is one replayable unit.
type Case struct {
	Kind  string  `json:"kind"` // served | walk | queries | codec
	D     []TEdge `json:"data"` // the data set, in the application's order
	Tie   string  `json:"tie"`
	Async string  `json:"async"`
	Empty string  `json:"empty_as"` // how the getter represents an empty range: empty | typed-nil | untyped-nil
	// how the getter hands replies over: "" = a fresh []TEdge, "store-window" = a sub-slice of its own
	// long-lived []any store (then a follow-up request on the same store must see the whole data set)
	ReplyAs string `json:"reply_as,omitempty"`
	Seed    uint64 `json:"seed"`
	Req     *TReq  `json:"req,omitempty"`
	Walk    *TWalk `json:"walk,omitempty"`
	Q       *QCase `json:"queries,omitempty"`
	Codec   *TEdge `json:"codec,omitempty"`
	// kind multi: several resolutions of one connection field in one request (multi.go)
	Multi *TMulti `json:"multi,omitempty"`
	// kind codectie: one codec operation on a TimeBasedCursor, model against code (codec.go)
	CodecTie *TCodecTie `json:"codec_tie,omitempty"`
}

type TWalk struct {
	Forward   bool   `json:"forward"`
	N         int    `json:"n"`
	AtOrAfter *int64 `json:"at_or_after_time"`
	BeforeT   *int64 `json:"before_time"`
	// far-away bounds as text (see TReq)
	AtOrAfterText string `json:"at_or_after_text,omitempty"`
	BeforeText    string `json:"before_text,omitempty"`
}

// QCase: pagination.TimeBasedRangeQueries called directly.
type QCase struct {
	After, Before      *TEdge
	AtOrAfter, BeforeT *int64
	Limit              int
}

type harness struct {
	queue    []Case
	shrunk   map[string]int
	run      *hx.Run
	model    *hx.Model
	w        *world
	verbose  bool
	announce func(c Case)
}

// failure describes how a case failed.
type failure struct {
	What string
	Kind string // property | correspondence | crash
	Mode string // which oracle: filter | timeref | flags | cover | walk | error | shape | …
}

func (f failure) ok() bool { return f.What == "" }

func optI(p *int) hx.Sexp {
	if p == nil {
		return hx.A("none")
	}
	return hx.I(int64(*p))
}

func optI64(p *int64) hx.Sexp {
	if p == nil {
		return hx.A("none")
	}
	return hx.I(*p)
}

func edgeS(e TEdge) hx.Sexp { return hx.L(hx.I(e.T), hx.A(e.Id)) }

func optEdgeS(e *TEdge) hx.Sexp {
	if e == nil {
		return hx.A("none")
	}
	return edgeS(*e)
}

func edgesS(es []TEdge) hx.Sexp {
	out := make([]hx.Sexp, len(es))
	for i, e := range es {
		out[i] = edgeS(e)
	}
	return hx.L(out...)
}

func callS(c getterCall) hx.Sexp { return hx.L(hx.A(c.Min), hx.A(c.Max), hx.I(int64(c.Limit))) }

// ---- served -------------------------------------------------------------------------------------------

func curArgS(a *CurArg) (hx.Sexp, string) {
	if a == nil {
		return hx.A("none"), ""
	}
	c, ok, p := decode(a.S)
	if p != "" {
		return hx.Sexp{}, "DeserializeCursor panicked on " + fmt.Sprintf("%q", a.S) + ": " + p
	}
	if utf8.ValidString(a.S) && (!ok || utf8.ValidString(c.Id)) {
		// the driver decodes the string itself with the codec model
		return hx.N("s", hx.A(a.S), hx.A("model")), ""
	}
	if !ok {
		return hx.N("s", hx.A(a.S), hx.A("invalid")), ""
	}
	return hx.N("s", hx.A(a.S), edgeS(c)), ""
}

func findById(D []TEdge, id string) (TEdge, bool) {
	for _, e := range D {
		if e.Id == id {
			return e, true
		}
	}
	return TEdge{}, false
}

// pageOf identifies the returned edges by their node (= id), independently of the cursor codec.
func pageOf(D []TEdge, o servedObs) ([]TEdge, string) {
	var es []TEdge
	for _, se := range o.Edges {
		e, ok := findById(D, se.Node)
		if !ok {
			return nil, fmt.Sprintf("edge with an unknown node %q", se.Node)
		}
		if se.Cursor != emit(e) {
			return nil, fmt.Sprintf("edge %v carries cursor %q, its cursor serialises to %q", e, se.Cursor, emit(e))
		}
		es = append(es, e)
	}
	return es, ""
}

// servedCanon renders the implementation's observable in the model's reply syntax.
func servedCanon(D []TEdge, o servedObs) (canon string, problem string) {
	if len(o.Errors) > 0 {
		if len(o.Errors) != 1 || !o.NullData {
			return "", fmt.Sprintf("unexpected error shape: %v (data null: %v)", o.Errors, o.NullData)
		}
		cls, ok := errClasses[o.Errors[0]]
		if !ok {
			cls = "other:" + o.Errors[0]
		}
		return hx.N("error", hx.A(cls)).String(), ""
	}
	if o.NullData {
		return "", "null connection without an error"
	}
	es, p := pageOf(D, o)
	if p != "" {
		return "", p
	}
	pi := hx.A("none")
	if o.HasPI {
		cur := func(s string) (hx.Sexp, string) {
			if s == "" {
				return hx.A("none"), ""
			}
			c, ok, _ := decode(s)
			if !ok || emit(c) != s {
				return hx.Sexp{}, fmt.Sprintf("page-info cursor %q is not a serialised cursor", s)
			}
			return edgeS(c), ""
		}
		s, p1 := cur(o.Start)
		e, p2 := cur(o.End)
		if p1+p2 != "" {
			return "", p1 + p2
		}
		pi = hx.N("pi", hx.B(o.HasPrev), hx.B(o.HasNext), s, e)
	}
	var calls []hx.Sexp
	for _, c := range o.Calls {
		calls = append(calls, callS(c))
	}
	return hx.N("ok", edgesS(es), pi, optI(o.TC), hx.N("calls", calls...)).String(), ""
}

func posOf(a *CurArg) (*TEdge, bool) {
	if a == nil {
		return nil, true
	}
	if a.Kind == "emitted" {
		return &TEdge{a.T, a.Id}, true
	}
	// a raw string: whatever position the real decoder assigns (C09 covers arbitrary strings; here
	// the raw strings only make sure the struct-typed cursor never crashes the server)
	c, ok, _ := decode(a.S)
	if !ok {
		return nil, false
	}
	return &c, true
}

// servedOracle states the property on the response, model-free.
func servedOracle(D []TEdge, r TReq, o servedObs) failure {
	if o.Panic != "" {
		return failure{"the server panicked: " + o.Panic, "crash", "crash"}
	}
	if o.Malformed != "" {
		return failure{o.Malformed, "property", "shape"}
	}
	canon, problem := servedCanon(D, o)
	if problem != "" {
		return failure{problem, "property", "shape"}
	}
	isErr := strings.HasPrefix(canon, "(error")
	countErr := (r.First == nil) == (r.Last == nil) || (r.First != nil && *r.First < 0) || (r.Last != nil && *r.Last < 0)
	after, okA := posOf(r.After)
	before, okB := posOf(r.Before)
	if countErr || !okA || !okB {
		if !isErr {
			return failure{"invalid arguments did not yield an error: " + canon, "property", "error"}
		}
		if len(o.Calls) > 0 {
			return failure{"the getter was called although the arguments are invalid", "property", "error"}
		}
		return failure{}
	}
	if isErr {
		return failure{"a request with valid arguments and server-emitted cursors was answered with an error: " + canon, "property", "error"}
	}
	f := filters{After: after, Before: before, AtOrAfter: r.AtOrAfter, BeforeT: r.BeforeT}
	page, _ := pageOf(D, o)
	// every returned edge satisfies every filter the client supplied
	for _, e := range page {
		if v := violatedFilter(f, e); v != "" {
			return failure{fmt.Sprintf("returned edge (%s, %q) violates the client's %s filter", rfc3339(e.T), e.Id, v), "property", "filter"}
		}
	}
	// the union of the issued range queries covers every edge of the answer
	want := timeRef(D, f, r.First, r.Last)
	if len(o.Calls) > 0 {
		for _, e := range want {
			covered := false
			for _, c := range o.Calls {
				mn, _ := new(big.Int).SetString(c.Min, 10)
				mx, _ := new(big.Int).SetString(c.Max, 10)
				t := big.NewInt(e.T)
				if mn.Cmp(t) <= 0 && t.Cmp(mx) <= 0 {
					covered = true
				}
			}
			if !covered {
				return failure{fmt.Sprintf("no issued range query covers the edge (%s, %q) of the answer; queries: %v", rfc3339(e.T), e.Id, callTriples(o.Calls)), "property", "cover"}
			}
		}
	}
	// result == TimeRef
	if !sameEdges(page, want) {
		return failure{fmt.Sprintf("returned %v, TimeRef selects %v", ids(page), ids(want)), "property", "timeref"}
	}
	if r.SelPI {
		if !o.HasPI {
			return failure{"pageInfo missing", "property", "shape"}
		}
		ws, we := "", ""
		if len(page) > 0 {
			ws, we = emit(page[0]), emit(page[len(page)-1])
		}
		if o.Start != ws || o.End != we {
			return failure{fmt.Sprintf("startCursor/endCursor %q/%q, the first/last returned edge has %q/%q", o.Start, o.End, ws, we), "property", "flags"}
		}
		m := matchingEdges(D, f)
		if r.First != nil && o.HasNext != (len(m) > *r.First) {
			return failure{fmt.Sprintf("hasNextPage is %v with %d matching edges and first: %d", o.HasNext, len(m), *r.First), "property", "flags"}
		}
		if r.Last != nil && o.HasPrev != (len(m) > *r.Last) {
			return failure{fmt.Sprintf("hasPreviousPage is %v with %d matching edges and last: %d", o.HasPrev, len(m), *r.Last), "property", "flags"}
		}
	}
	return failure{}
}

func ids(es []TEdge) []string {
	out := []string{}
	for _, e := range es {
		out = append(out, fmt.Sprintf("(%s,%s)", rfc3339(e.T)[11:], e.Id))
	}
	return out
}

func callTriples(cs []getterCall) []string {
	var out []string
	for _, c := range cs {
		out = append(out, fmt.Sprintf("[%s,%s,%d]", c.Min, c.Max, c.Limit))
	}
	return out
}

// storeOracle (store-window replies only; must run right after the case's own request): the
// connection must not have written into the application's store — stated on the property itself:
// a follow-up request for everything, served from the store as the request left it, returns the
// whole data set in (time, id) order.
func (h *harness) storeOracle(c Case) failure {
	if c.ReplyAs != "store-window" {
		return failure{}
	}
	n := len(c.D) + 1
	o := h.w.followUp(c.D, c.Tie, c.Seed, TReq{First: &n})
	h.run.Count("store-follow-up-checked")
	if o.Panic != "" {
		return failure{"the follow-up request on the application's store panicked: " + o.Panic, "crash", "crash"}
	}
	var got []string
	for _, e := range o.Edges {
		got = append(got, e.Node)
	}
	var want []string
	for _, e := range sortedEdges(c.D) {
		want = append(want, e.Id)
	}
	if len(o.Errors) > 0 || strings.Join(got, ",") != strings.Join(want, ",") {
		return failure{fmt.Sprintf("the request damaged the application's edge store (the getter returns windows of its own sorted []any store): a follow-up request for all edges returns %v %v, the data set is %v", got, o.Errors, want), "property", "store"}
	}
	return failure{}
}

// deliveryOracle: the response must not depend on how the getter delivers its replies (slice,
// promise, mixed) nor on how it represents an empty range. Evaluated on one case in four (by the
// case's seed) and on every case of the one-by-one path: the same case is served again with the
// plain synchronous getter returning non-nil slices and the bodies must be identical.
func (h *harness) deliveryOracle(c Case, o servedObs, always bool) failure {
	plain := c.Async == "sync" && (c.Empty == "" || c.Empty == "empty")
	if plain || o.Panic != "" || (!always && c.Seed%4 != 0) {
		return failure{}
	}
	ref := h.w.serveAs(c.D, c.Tie, "sync", "empty", c.ReplyAs, c.Seed, *c.Req)
	h.run.Count("delivery-independence-checked")
	if ref.Panic == "" && ref.Body != o.Body {
		return failure{fmt.Sprintf("the response depends on the getter's delivery: with %s delivery and empty ranges as %q the server answers %s, with a synchronous getter returning non-nil slices %s", c.Async, c.Empty, o.Body, ref.Body), "property", "delivery"}
	}
	return failure{}
}

func (h *harness) evalServedObs(c Case) (o servedObs, f failure) {
	r := *c.Req
	if h.announce != nil {
		h.announce(c)
	}
	o = h.w.serveAs(c.D, c.Tie, c.Async, c.Empty, c.ReplyAs, c.Seed, r)
	canon, _ := servedCanon(c.D, o)
	if h.verbose {
		fmt.Printf("request:        %s\n", func() string { q, v := r.build(); b, _ := json.Marshal(v); return q + " " + string(b) }())
		fmt.Printf("getter calls:   %v\n", func() string { b, _ := json.Marshal(o.Calls); return string(b) }())
		fmt.Printf("response:       %s\n", o.Body)
		fmt.Printf("implementation: %s\n", canon)
	}
	fStore := h.storeOracle(c)
	if f = servedOracle(c.D, r, o); f.ok() {
		f = fStore
	}
	if f.ok() {
		f = h.deliveryOracle(c, o, true)
	}
	if !f.ok() {
		if h.verbose && h.model != nil {
			if line, p := h.modelLine(c, o); p == "" {
				rep, _ := h.model.Ask(line)
				fmt.Printf("model:          %s\n", rep)
			}
		}
		return o, f
	}
	if h.model == nil {
		return o, failure{}
	}
	line, p := h.modelLine(c, o)
	if p != "" {
		return o, failure{p, "crash", "crash"}
	}
	rep, err := h.model.Ask(line)
	if err != nil {
		return o, failure{"model driver failed: " + err.Error(), "correspondence", "model"}
	}
	if h.verbose {
		fmt.Printf("model:          %s\n", rep)
	}
	if rep != canon {
		return o, failure{fmt.Sprintf("time-based connection field: implementation %s, model %s", canon, rep), "correspondence", "model"}
	}
	// oracle agreement: Lean Spec.timeRef against the Go TimeRef
	if !strings.HasPrefix(canon, "(error") {
		after, _ := posOf(r.After)
		before, _ := posOf(r.Before)
		want := timeRef(c.D, filters{after, before, r.AtOrAfter, r.BeforeT}, r.First, r.Last)
		srep, err := h.model.Ask(hx.N("timeref", edgesS(sortedEdges(c.D)), optEdgeS(after), optEdgeS(before), boundAtom(r.AtOrAfter, r.AtOrAfterText), boundAtom(r.BeforeT, r.BeforeText), optI(r.First), optI(r.Last)).String())
		if err != nil {
			return o, failure{"model driver failed: " + err.Error(), "correspondence", "model"}
		}
		if srep != edgesS(want).String() {
			return o, failure{fmt.Sprintf("the Lean TimeRef says %s, the Go TimeRef says %s", srep, edgesS(want).String()), "correspondence", "spec"}
		}
	}
	return o, failure{}
}

func (h *harness) modelLine(c Case, o servedObs) (string, string) {
	r := *c.Req
	aS, p1 := curArgS(r.After)
	bS, p2 := curArgS(r.Before)
	if p1+p2 != "" {
		return "", p1 + p2
	}
	tbl := []hx.Sexp{}
	for _, gc := range o.Calls {
		tbl = append(tbl, hx.L(callS(gc), edgesS(gc.Reply)))
	}
	return hx.N("tconn", hx.N("table", tbl...), hx.I(int64(len(c.D))), hx.B(r.SelPI), hx.B(r.SelTC), optI(r.First), optI(r.Last), aS, bS, boundAtom(r.AtOrAfter, r.AtOrAfterText), boundAtom(r.BeforeT, r.BeforeText)).String(), ""
}

// ---- walks --------------------------------------------------------------------------------------------

func (h *harness) evalWalk(c Case) failure {
	wk := *c.Walk
	want := matchingEdges(c.D, filters{AtOrAfter: wk.AtOrAfter, BeforeT: wk.BeforeT})
	var visited []TEdge
	var cur *CurArg
	pages := 0
	var realPages [][]TEdge // in the order visited
	var sent []string       // the cursor strings the client sent, in order
	tbl := []hx.Sexp{}
	tblSeen := map[string]string{}
	tblConsistent := true
	for {
		if pages > len(c.D)+2 {
			return failure{fmt.Sprintf("the walk does not terminate: %d pages over %d edges", pages, len(c.D)), "property", "walk"}
		}
		n := wk.N
		r := TReq{SelPI: true, SelTC: pages%3 == 0, AtOrAfter: wk.AtOrAfter, BeforeT: wk.BeforeT, AtOrAfterText: wk.AtOrAfterText, BeforeText: wk.BeforeText}
		if wk.Forward {
			r.First, r.After = &n, cur
		} else {
			r.Last, r.Before = &n, cur
		}
		step := Case{Kind: "served", D: c.D, Tie: c.Tie, Async: c.Async, Empty: c.Empty, ReplyAs: c.ReplyAs, Seed: c.Seed + uint64(pages), Req: &r}
		o, f := h.evalServedObs(step)
		if !f.ok() {
			f.What = fmt.Sprintf("page %d of the walk: %s", pages, f.What)
			return f
		}
		pages++
		page, _ := pageOf(c.D, o)
		realPages = append(realPages, page)
		if cur != nil {
			sent = append(sent, cur.S)
		}
		for _, gc := range o.Calls {
			k, v := callS(gc).String(), edgesS(gc.Reply).String()
			if old, ok := tblSeen[k]; ok {
				if old != v {
					tblConsistent = false // a seeded tie-break answered the same range differently on another page
				}
				continue
			}
			tblSeen[k] = v
			tbl = append(tbl, hx.L(callS(gc), edgesS(gc.Reply)))
		}
		next := func(s string) *CurArg {
			if d, ok, _ := decode(s); ok {
				return &CurArg{Kind: "emitted", T: d.T, Id: d.Id, S: s}
			}
			return &CurArg{Kind: "raw", S: s}
		}
		if wk.Forward {
			visited = append(visited, page...)
			if !o.HasNext {
				break
			}
			if o.End == "" {
				return failure{"hasNextPage is true on a page without endCursor", "property", "walk"}
			}
			cur = next(o.End)
		} else {
			visited = append(append([]TEdge{}, page...), visited...)
			if !o.HasPrev {
				break
			}
			if o.Start == "" {
				return failure{"hasPreviousPage is true on a page without startCursor", "property", "walk"}
			}
			cur = next(o.Start)
		}
	}
	if !sameEdges(visited, want) {
		return failure{fmt.Sprintf("walk with page size %d visited %v, the matching edges are %v", wk.N, ids(visited), ids(want)), "property", "walk"}
	}
	h.run.CountN("walk-pages", pages)
	// the walk tie: C09/Walk.lean's client (the subject of time_walk_exact_codec) run by the driver over
	// the time-based connection with the concrete codec model, against the walk just made: same pages,
	// same cursor strings sent. (Skipped when the getter answered one range in two ways: the model's
	// getter is a function of the range.)
	if h.model != nil && tblConsistent {
		dir := "fwd"
		inOrder := realPages
		if !wk.Forward {
			dir = "bwd"
			inOrder = nil
			for i := len(realPages) - 1; i >= 0; i-- {
				inOrder = append(inOrder, realPages[i])
			}
		}
		var ps, ss []hx.Sexp
		for _, p := range inOrder {
			ps = append(ps, edgesS(p))
		}
		for _, x := range sent {
			ss = append(ss, hx.A(x))
		}
		canon := hx.N("ok", hx.L(ps...), hx.N("sent", ss...)).String()
		line := hx.N("twalk", hx.A(dir), hx.N("table", tbl...), hx.I(int64(len(c.D))), hx.I(int64(wk.N)), hx.I(int64(len(c.D)+4)),
			boundAtom(wk.AtOrAfter, wk.AtOrAfterText), boundAtom(wk.BeforeT, wk.BeforeText)).String()
		rep, err := h.model.Ask(line)
		if err != nil {
			return failure{"model driver failed: " + err.Error(), "correspondence", "model"}
		}
		if h.verbose {
			fmt.Printf("walk: implementation %s\nwalk: model          %s\n", canon, rep)
		}
		h.run.Count("walk-tie")
		if rep != canon {
			return failure{fmt.Sprintf("walk (pages in connection order, cursor strings sent): implementation %s, model %s", canon, rep), "correspondence", "walk"}
		}
	} else if h.model != nil {
		h.run.Count("walk-tie-skipped:inconsistent-getter-table")
	}
	return failure{}
}

// ---- pagination.TimeBasedRangeQueries directly --------------------------------------------------------

func (h *harness) evalQueries(c Case) failure {
	q := *c.Q
	var a, b *apifu.TimeBasedCursor
	if q.After != nil {
		x := apifu.NewTimeBasedCursor(timeOf(q.After.T), q.After.Id)
		a = &x
	}
	if q.Before != nil {
		x := apifu.NewTimeBasedCursor(timeOf(q.Before.T), q.Before.Id)
		b = &x
	}
	var t1, t2 *time.Time
	if q.AtOrAfter != nil {
		x := timeOf(*q.AtOrAfter)
		t1 = &x
	}
	if q.BeforeT != nil {
		x := timeOf(*q.BeforeT)
		t2 = &x
	}
	var got []pagination.TimeBasedRangeQuery
	panicked := ""
	func() {
		defer func() {
			if p := recover(); p != nil {
				panicked = fmt.Sprint(p)
			}
		}()
		got = pagination.TimeBasedRangeQueries[apifu.TimeBasedCursor](a, b, t1, t2, q.Limit)
	}()
	if panicked != "" {
		return failure{"TimeBasedRangeQueries panicked: " + panicked, "crash", "crash"}
	}
	var parts []hx.Sexp
	for _, g := range got {
		parts = append(parts, hx.L(hx.A(nanosOf(g.MinTime)), hx.A(nanosOf(g.MaxTime)), hx.I(int64(g.Limit))))
	}
	canon := hx.L(parts...).String()
	if h.verbose {
		fmt.Printf("implementation: %s\n", canon)
	}
	// oracle: every instant that can hold a matching edge is covered by some query; every query lies
	// inside the time window; exactly one query carries the limit
	f := filters{After: q.After, Before: q.Before, AtOrAfter: q.AtOrAfter, BeforeT: q.BeforeT}
	probeTimes := map[int64]bool{}
	for _, p := range []*int64{q.AtOrAfter, q.BeforeT} {
		if p != nil {
			for d := int64(-2); d <= 2; d++ {
				probeTimes[*p+d] = true
			}
		}
	}
	for _, p := range []*TEdge{q.After, q.Before} {
		if p != nil {
			for d := int64(-2); d <= 2; d++ {
				probeTimes[p.T+d] = true
			}
		}
	}
	for _, g := range got {
		if q.AtOrAfter != nil && !g.MinTime.After(g.MaxTime) && g.MinTime.Before(timeOf(*q.AtOrAfter)) {
			return failure{fmt.Sprintf("query %s starts before atOrAfterTime", canon), "property", "filter"}
		}
		if q.BeforeT != nil && !g.MinTime.After(g.MaxTime) && !g.MaxTime.Before(timeOf(*q.BeforeT)) {
			return failure{fmt.Sprintf("query %s reaches beforeTime", canon), "property", "filter"}
		}
	}
	for t := range probeTimes {
		for _, id := range []string{"", "m", "zz"} {
			e := TEdge{t, id}
			if violatedFilter(f, e) != "" {
				continue
			}
			covered := false
			for _, g := range got {
				if !timeOf(t).Before(g.MinTime) && !timeOf(t).After(g.MaxTime) {
					covered = true
				}
			}
			if !covered {
				return failure{fmt.Sprintf("an edge (%d, %q) would match every filter but no range query covers it: %s", t, id, canon), "property", "cover"}
			}
		}
	}
	if h.model == nil {
		return failure{}
	}
	rep, err := h.model.Ask(hx.N("queries", optEdgeS(q.After), optEdgeS(q.Before), optI64(q.AtOrAfter), optI64(q.BeforeT), hx.I(int64(q.Limit))).String())
	if err != nil {
		return failure{"model driver failed: " + err.Error(), "correspondence", "model"}
	}
	if h.verbose {
		fmt.Printf("model:          %s\n", rep)
	}
	if rep != canon {
		return failure{fmt.Sprintf("TimeBasedRangeQueries: implementation %s, model %s", canon, rep), "correspondence", "model"}
	}
	return failure{}
}

func (h *harness) evalCodec(c Case) failure {
	e := *c.Codec
	s := emit(e)
	d, ok, p := decode(s)
	if p != "" {
		return failure{"DeserializeCursor panicked on an emitted cursor: " + p, "crash", "crash"}
	}
	if !ok || d != e || s == "" {
		return failure{fmt.Sprintf("Deserialize(Serialize(%v)) = %v (accepted: %v)", e, d, ok), "property", "codec"}
	}
	return failure{}
}

// ---- dispatch, classification, shrinking ----------------------------------------------------------------

func (h *harness) eval(c Case) failure {
	switch c.Kind {
	case "served":
		_, f := h.evalServedObs(c)
		return f
	case "walk":
		return h.evalWalk(c)
	case "queries":
		return h.evalQueries(c)
	case "codec":
		return h.evalCodec(c)
	case "multi":
		if c.Multi == nil || len(c.Multi.Sets) == 0 || len(c.Multi.Reqs) == 0 {
			return failure{"multi case without resolutions", "correspondence", "model"}
		}
		return h.evalMulti(c)
	case "codectie":
		if c.CodecTie == nil {
			return failure{"codectie case without a tie", "correspondence", "model"}
		}
		return h.evalCodecTie(c)
	}
	return failure{"unknown case kind " + c.Kind, "correspondence", "model"}
}

// cutInsideTieGroup: did some getter call of this run (i) carry a limit that cut its range,
// (ii) cut it inside a group of equal timestamps, and (iii) reply differently from the id
// tie-break?
func cutInsideTieGroup(D []TEdge, calls []getterCall) bool {
	for _, c := range calls {
		if c.Limit == 0 || c.InRange <= len(c.Reply) || sameSet(c.Reply, c.ByIdReply) {
			continue
		}
		// the returned and the omitted edges share a timestamp at the cut
		inReply := map[string]bool{}
		for _, e := range c.Reply {
			inReply[e.Id] = true
		}
		for _, e := range c.Reply {
			for _, d := range c.ByIdReply {
				if !inReply[d.Id] && d.T == e.T {
					return true
				}
			}
		}
	}
	return false
}

func sameSet(a, b []TEdge) bool {
	if len(a) != len(b) {
		return false
	}
	m := map[TEdge]bool{}
	for _, e := range a {
		m[e] = true
	}
	for _, e := range b {
		if !m[e] {
			return false
		}
	}
	return true
}

// classify attaches the open finding F-16b to a failure — narrowly: the failure is a wrong page /
// flag / walk (never a violated filter, a crash, an uncovered edge or a correspondence break), the
// getter does not break ties by id, some limit cut fell inside a group of equal timestamps where the
// getter's choice differed from the id order, and the very same case passes with the id tie-break.
func (h *harness) classify(c Case, f failure) string {
	if f.ok() || f.Kind != "property" || !(f.Mode == "timeref" || f.Mode == "flags" || f.Mode == "walk") {
		return ""
	}
	if c.Tie == "id" || (c.Kind != "served" && c.Kind != "walk") {
		return ""
	}
	// collect the getter calls of the failing run
	var calls []getterCall
	saveAnn := h.announce
	h.announce = nil
	defer func() { h.announce = saveAnn }()
	verbose := h.verbose
	h.verbose = false
	defer func() { h.verbose = verbose }()
	if c.Kind == "served" {
		o := h.w.serveAs(c.D, c.Tie, c.Async, c.Empty, c.ReplyAs, c.Seed, *c.Req)
		calls = o.Calls
	} else {
		calls = h.walkCalls(c)
	}
	if !cutInsideTieGroup(c.D, calls) {
		return ""
	}
	byId := c
	byId.Tie = "id"
	if g := h.eval(byId); !g.ok() {
		return ""
	}
	return findingF16b
}

// walkCalls replays a walk and returns every getter call made along it.
func (h *harness) walkCalls(c Case) []getterCall {
	wk := *c.Walk
	var all []getterCall
	var cur *CurArg
	for pages := 0; pages <= len(c.D)+2; pages++ {
		n := wk.N
		r := TReq{SelPI: true, SelTC: pages%3 == 0, AtOrAfter: wk.AtOrAfter, BeforeT: wk.BeforeT, AtOrAfterText: wk.AtOrAfterText, BeforeText: wk.BeforeText}
		if wk.Forward {
			r.First, r.After = &n, cur
		} else {
			r.Last, r.Before = &n, cur
		}
		o := h.w.serveAs(c.D, c.Tie, c.Async, c.Empty, c.ReplyAs, c.Seed+uint64(pages), r)
		all = append(all, o.Calls...)
		s := o.End
		more := o.HasNext
		if !wk.Forward {
			s, more = o.Start, o.HasPrev
		}
		if !more || s == "" {
			break
		}
		d, ok, _ := decode(s)
		if !ok {
			break
		}
		cur = &CurArg{Kind: "emitted", T: d.T, Id: d.Id, S: s}
	}
	return all
}

func clone(c Case) Case {
	b, _ := json.Marshal(c)
	var d Case
	json.Unmarshal(b, &d)
	return d
}

func dec1(p **int) bool {
	if *p == nil || **p <= 0 {
		return false
	}
	v := **p - 1
	*p = &v
	return true
}

// shrink: fewer edges, fewer / simpler arguments, synchronous getter — while the case still fails
// in the same way (same kind, same oracle, same finding key).
func (h *harness) shrink(c Case, f failure, key string) (Case, failure) {
	try := func(mut func(d *Case) bool) bool {
		d := clone(c)
		if !mut(&d) {
			return false
		}
		g := h.eval(d)
		if !g.ok() && g.Kind == f.Kind && g.Mode == f.Mode && h.classify(d, g) == key {
			c, f = d, g
			return true
		}
		return false
	}
	for changed := true; changed; {
		changed = false
		for i := range c.D {
			i := i
			if try(func(d *Case) bool { d.D = append(append([]TEdge{}, d.D[:i]...), d.D[i+1:]...); return true }) {
				changed = true
				break
			}
		}
		muts := []func(d *Case) bool{
			func(d *Case) bool { ok := d.Async != "sync"; d.Async = "sync"; return ok },
			func(d *Case) bool { ok := d.Async == "mixed"; d.Async = "promise"; return ok },
			func(d *Case) bool { ok := d.Empty != "" && d.Empty != "empty"; d.Empty = "empty"; return ok },
			func(d *Case) bool { ok := d.ReplyAs != ""; d.ReplyAs = ""; return ok },
			func(d *Case) bool { ok := d.Tie == "seeded"; d.Tie = "reverse-id"; return ok },
			func(d *Case) bool { ok := d.Tie != "id"; d.Tie = "id"; return ok },
			func(d *Case) bool {
				if d.Req == nil || !d.Req.Vars {
					return false
				}
				d.Req.Vars = false
				return true
			},
			func(d *Case) bool {
				if d.Req == nil || d.Req.After == nil {
					return false
				}
				d.Req.After = nil
				return true
			},
			func(d *Case) bool {
				if d.Req == nil || d.Req.Before == nil {
					return false
				}
				d.Req.Before = nil
				return true
			},
			func(d *Case) bool {
				if d.Req == nil || d.Req.AtOrAfter == nil {
					return false
				}
				d.Req.AtOrAfter, d.Req.AtOrAfterText = nil, ""
				return true
			},
			func(d *Case) bool {
				if d.Req == nil || d.Req.BeforeT == nil {
					return false
				}
				d.Req.BeforeT, d.Req.BeforeText = nil, ""
				return true
			},
			func(d *Case) bool { return d.Req != nil && dec1(&d.Req.First) },
			func(d *Case) bool { return d.Req != nil && dec1(&d.Req.Last) },
			func(d *Case) bool { // fewer explicit nulls: drop the highest one
				if d.Req == nil || d.Req.NullMask == 0 {
					return false
				}
				for b := 5; b >= 0; b-- {
					if d.Req.NullMask&(1<<b) != 0 {
						d.Req.NullMask &^= 1 << b
						return true
					}
				}
				return false
			},
			func(d *Case) bool { // … or the lowest one
				if d.Req == nil || d.Req.NullMask == 0 {
					return false
				}
				d.Req.NullMask &= d.Req.NullMask - 1
				return true
			},
			func(d *Case) bool {
				if d.Req == nil || !d.Req.SelTC {
					return false
				}
				d.Req.SelTC = false
				return true
			},
			func(d *Case) bool {
				if d.Req == nil || !d.Req.SelPI {
					return false
				}
				d.Req.SelPI = false
				return true
			},
			func(d *Case) bool {
				if d.Walk == nil || d.Walk.AtOrAfter == nil {
					return false
				}
				d.Walk.AtOrAfter, d.Walk.AtOrAfterText = nil, ""
				return true
			},
			func(d *Case) bool {
				if d.Walk == nil || d.Walk.BeforeT == nil {
					return false
				}
				d.Walk.BeforeT, d.Walk.BeforeText = nil, ""
				return true
			},
			func(d *Case) bool {
				if d.Walk == nil || d.Walk.N <= 1 {
					return false
				}
				d.Walk.N--
				return true
			},
			func(d *Case) bool {
				if d.Q == nil || d.Q.After == nil {
					return false
				}
				d.Q.After = nil
				return true
			},
			func(d *Case) bool {
				if d.Q == nil || d.Q.Before == nil {
					return false
				}
				d.Q.Before = nil
				return true
			},
			func(d *Case) bool {
				if d.Q == nil || d.Q.AtOrAfter == nil {
					return false
				}
				d.Q.AtOrAfter = nil
				return true
			},
			func(d *Case) bool {
				if d.Q == nil || d.Q.BeforeT == nil {
					return false
				}
				d.Q.BeforeT = nil
				return true
			},
		}
		for _, m := range muts {
			if try(m) {
				changed = true
			}
		}
	}
	return c, f
}

func nontrivial(c Case) bool {
	switch c.Kind {
	case "served":
		r := c.Req
		after, okA := posOf(r.After)
		before, okB := posOf(r.Before)
		if !okA || !okB {
			return false
		}
		// equal timestamps are in play and the page is a proper non-empty part of the data
		dup := false
		seen := map[int64]bool{}
		for _, e := range c.D {
			if seen[e.T] {
				dup = true
			}
			seen[e.T] = true
		}
		want := timeRef(c.D, filters{after, before, r.AtOrAfter, r.BeforeT}, r.First, r.Last)
		return dup && len(want) > 0 && len(want) < len(c.D)
	case "walk":
		return len(c.D) > c.Walk.N
	case "queries":
		return c.Q.After != nil || c.Q.Before != nil
	case "multi":
		n := 0
		for _, s := range c.Multi.Sets {
			if len(s) > 0 {
				n++
			}
		}
		return n >= 2
	}
	return false
}

func (h *harness) count(c Case, f failure) {
	h.run.Count("kind:" + c.Kind)
	if c.Kind == "served" || c.Kind == "walk" {
		h.run.Count("getter-tie-break:" + c.Tie)
		h.run.Count("getter-delivery:" + c.Async)
		e := c.Empty
		if e == "" {
			e = "empty"
		}
		h.run.Count("getter-empty-range-as:" + e)
		if c.ReplyAs != "" {
			h.run.Count("getter-reply-as:" + c.ReplyAs)
		} else {
			h.run.Count("getter-reply-as:fresh-slice")
		}
	}
	if c.Kind == "served" {
		r := c.Req
		win := "none"
		switch {
		case r.AtOrAfter != nil && r.BeforeT != nil:
			win = "both"
		case r.AtOrAfter != nil:
			win = "atOrAfterTime"
		case r.BeforeT != nil:
			win = "beforeTime"
		}
		h.run.Count("time-window:" + win)
		if r.AtOrAfterText != "" || r.BeforeText != "" {
			h.run.Count("time-window:far-away-bound(outside int64 ns)")
		}
		f2 := filters{AtOrAfter: r.AtOrAfter, BeforeT: r.BeforeT}
		for name, a := range map[string]*CurArg{"after": r.After, "before": r.Before} {
			switch {
			case a == nil:
				h.run.Count(name + ":absent")
			case a.Kind == "raw":
				h.run.Count(name + ":raw")
			default:
				e := TEdge{a.T, a.Id}
				where := "inside-window"
				if violatedFilter(f2, e) != "" {
					where = "outside-window"
				}
				if _, ok := findById(c.D, a.Id); ok {
					h.run.Count(name + ":edge-" + where)
				} else {
					h.run.Count(name + ":foreign-" + where)
				}
			}
		}
	}
}

// check evaluates one case and records everything.
func (h *harness) check(c Case) {
	f := h.eval(c)
	h.record(c, f)
}

func (h *harness) record(c Case, f failure) {
	if c.Kind == "codectie" && c.CodecTie != nil {
		h.recordTie(*c.CodecTie, f, "")
		return
	}
	key, _ := json.Marshal(c)
	h.run.Case(string(key), nontrivial(c))
	h.count(c, f)
	fk := h.classify(c, f)
	propFail := !f.ok() && (f.Kind == "property" || f.Kind == "crash")
	switch c.Kind {
	case "served":
		h.run.Oblige("correspondence: served TimeBasedConnection = model resolveTime (edges, page info, totalCount | error class, getter (min,max,limit) triples); Lean timeRef = Go TimeRef", "correspondence", 1, f.Kind != "correspondence", f.What)
		h.run.Oblige("oracle: every returned edge satisfies every client filter", "oracle", 1, !(propFail && f.Mode == "filter"), f.What)
		h.run.Oblige("oracle: response = TimeRef (edges, cursors, required flags) for a getter that breaks ties by id", "oracle", 1, !(propFail && f.Mode != "filter" && f.Mode != "cover" && f.Mode != "delivery" && f.Mode != "store" && fk == ""), f.What)
		h.run.Oblige("oracle: the issued range queries cover every edge of the answer", "oracle", 1, !(propFail && f.Mode == "cover"), f.What)
		h.run.Oblige("oracle: replies are read-only — after a request served from windows of the application's own store a follow-up request sees the whole data set", "oracle", 1, !(propFail && f.Mode == "store"), f.What)
		h.run.Oblige("oracle: response independent of the getter's delivery (sync/promise/mixed) and of nil vs empty replies", "oracle", 1, !(propFail && f.Mode == "delivery"), f.What)
	case "walk":
		h.run.Oblige("oracle: forward/backward walks visit every matching edge exactly once (getter breaking ties by id)", "oracle", 1, f.ok() || fk != "" || f.Kind == "correspondence", f.What)
		h.run.Oblige("correspondence: the walk = model walkForward/walkBackward over the time-based connection with the concrete codec (pages, cursor strings sent)", "correspondence", 1, f.Kind != "correspondence", f.What)
	case "queries":
		h.run.Oblige("correspondence: pagination.TimeBasedRangeQueries = model timeBasedRangeQueries", "correspondence", 1, f.Kind != "correspondence", f.What)
		h.run.Oblige("oracle: range queries stay inside the time window and cover every instant that can hold a matching edge", "oracle", 1, !propFail, f.What)
	case "codec":
		h.run.Oblige("oracle: Deserialize(Serialize(c)) = c for TimeBasedCursor", "oracle", 1, f.ok(), f.What)
	case "multi":
		h.run.Oblige("correspondence: every resolution of a connection field resolved several times in one request (list of parents, aliases with a custom argument) = model resolveTime for its own data set and getter calls", "correspondence", 1, f.Kind != "correspondence", f.What)
		h.run.Oblige("oracle: every resolution of a connection field resolved several times in one request = TimeRef over its OWN data set (filters, cover, flags)", "oracle", 1, !propFail, f.What)
	}
	if f.ok() {
		return
	}
	if fk != "" {
		h.run.Count("finding:" + fk + ":" + c.Kind)
	}
	// only the first few failures of a kind are shrunk and kept (hx keeps 3 per kind and key)
	if h.shrunk == nil {
		h.shrunk = map[string]int{}
	}
	sk := f.Kind + ":" + fk
	h.shrunk[sk]++
	if h.shrunk[sk] > 3 {
		h.run.Violate(f.Kind, f.What, fk, f.Kind == "correspondence", c)
		return
	}
	if c.Kind == "multi" {
		sc, f2 := h.shrinkMulti(c, f)
		h.run.Violate(f2.Kind, f2.What, fk, f2.Kind == "correspondence", sc)
		return
	}
	sc, f2 := h.shrink(c, f, fk)
	h.run.Violate(f2.Kind, f2.What, fk, f2.Kind == "correspondence", sc)
}

// add queues a served case; flush evaluates the queue with the model requests pipelined (the
// per-request round trip to the driver dominates otherwise). A case that fails anything is handed
// to the one-by-one path (`check`), which re-evaluates, classifies and shrinks it.
func (h *harness) add(c Case) {
	if c.Kind != "served" || h.model == nil {
		h.check(c)
		return
	}
	h.queue = append(h.queue, c)
	if len(h.queue) >= 4000 {
		h.flush()
	}
}

func (h *harness) flush() {
	q := h.queue
	h.queue = nil
	if h.model == nil || len(q) == 0 {
		for _, c := range q {
			h.check(c)
		}
		return
	}
	type pending struct {
		c      Case
		canon  string
		spec   string // expected reply of the timeref request ("" = not asked)
		nlines int
	}
	var lines []string
	var ps []pending
	for _, c := range q {
		r := *c.Req
		if h.announce != nil {
			h.announce(c)
		}
		o := h.w.serveAs(c.D, c.Tie, c.Async, c.Empty, c.ReplyAs, c.Seed, r)
		fStore := h.storeOracle(c)
		if f := servedOracle(c.D, r, o); !f.ok() || !fStore.ok() {
			h.check(c)
			continue
		}
		if f := h.deliveryOracle(c, o, false); !f.ok() {
			h.check(c)
			continue
		}
		canon, _ := servedCanon(c.D, o)
		line, p := h.modelLine(c, o)
		if p != "" {
			h.check(c)
			continue
		}
		pd := pending{c: c, canon: canon, nlines: 1}
		lines = append(lines, line)
		if !strings.HasPrefix(canon, "(error") {
			after, _ := posOf(r.After)
			before, _ := posOf(r.Before)
			want := timeRef(c.D, filters{after, before, r.AtOrAfter, r.BeforeT}, r.First, r.Last)
			lines = append(lines, hx.N("timeref", edgesS(sortedEdges(c.D)), optEdgeS(after), optEdgeS(before), boundAtom(r.AtOrAfter, r.AtOrAfterText), boundAtom(r.BeforeT, r.BeforeText), optI(r.First), optI(r.Last)).String())
			pd.spec = edgesS(want).String()
			pd.nlines = 2
		}
		ps = append(ps, pd)
	}
	replies, err := h.model.AskAll(lines)
	if err != nil {
		fmt.Println("model driver failed:", err)
		for _, pd := range ps {
			h.check(pd.c)
		}
		return
	}
	i := 0
	for _, pd := range ps {
		ok := replies[i] == pd.canon && (pd.nlines == 1 || replies[i+1] == pd.spec)
		i += pd.nlines
		if !ok {
			h.check(pd.c)
			continue
		}
		h.record(pd.c, failure{})
	}
}
