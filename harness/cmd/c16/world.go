package main

import (
	"bytes"
	"encoding/json"
	"fmt"
	"math"
	"math/big"
	"net/http/httptest"
	"reflect"
	"sort"
	"strconv"
	"strings"
	"time"

	apifu "github.com/ccbrown/api-fu"
	"github.com/ccbrown/api-fu/graphql"

	"verifharness/hx"
)

func timeOf(ns int64) time.Time { return time.Unix(0, ns).UTC() }

// nanosOf is the exact nanosecond count since the Unix epoch, also for times outside the int64
// range (time.Time{} and distantFuture are, and both reach the getter).
func nanosOf(t time.Time) string {
	n := new(big.Int).Mul(big.NewInt(t.Unix()), big.NewInt(1000000000))
	n.Add(n, big.NewInt(int64(t.Nanosecond())))
	return n.String()
}

type getterCall struct {
	Min   string  `json:"min"`
	Max   string  `json:"max"`
	Limit int     `json:"limit"`
	Reply []TEdge `json:"reply"`
	// what the id tie-break would have replied, and whether the limit cut this call's range
	ByIdReply []TEdge `json:"by_id_reply"`
	InRange   int     `json:"in_range"`
}

var tieNames = []string{"id", "reverse-id", "seeded"}
var asyncNames = []string{"sync", "promise", "mixed"}

// How the getter represents an empty range: a non-nil empty slice, a typed nil slice (the usual
// `var ret []T` with no appends — through a promise too), or — synchronous returns only — an
// untyped nil (`return nil, nil`, which the adapter explicitly tolerates and the repo's own test
// getter does). An untyped nil *through a promise* is not generated: the unchanged join callback
// calls `reflect.ValueOf(nil).Len()`, which panics; nothing in the property covers it (noted in
// design-notes/C16.md).
var emptyNames = []string{"empty", "typed-nil", "untyped-nil"}

// world is the application behind the time-based connection field. Its state is set per case.
type world struct {
	api   *apifu.API
	D     []TEdge
	tie   string // id | reverse-id | seeded
	async string // sync | promise | mixed
	empty string // empty | typed-nil | untyped-nil ("" = empty)
	// reply representation and the application's long-lived edge store (store-window)
	replyAs string
	store   []any
	reuse   bool // keep the store of the previous request (follow-up requests)
	seed    uint64
	calls   []getterCall
	tc      int
	// several resolutions of one connection field in one request (multi.go): data set and recorded
	// getter calls per resolution
	multi      [][]TEdge
	multiCalls [][]getterCall
}

// getterReply implements the EdgeGetter contract: only edges with min ≤ time ≤ max; all of them for
// limit 0; for a positive (negative) limit the |limit| earliest (latest) by time. Ties at equal
// timestamps are ordered by id (tie "id"), by reverse id, or by a seeded shuffle — the two latter
// still honour min, max and limit.
func getterReply(D []TEdge, tie string, seed uint64, min, max time.Time, limit int) (reply []TEdge, inRange int) {
	var in []TEdge
	for _, e := range D {
		t := timeOf(e.T)
		if !t.Before(min) && !t.After(max) {
			in = append(in, e)
		}
	}
	r := hx.NewRand(seed ^ uint64(limit+1000)*2654435761 ^ uint64(min.UnixNano()))
	rank := map[string]int{}
	perm := make([]int, len(in))
	for i := range perm {
		perm[i] = i
	}
	hx.Shuffle(r, perm)
	for i, e := range in {
		rank[e.Id] = perm[i]
	}
	sort.SliceStable(in, func(i, j int) bool {
		if in[i].T != in[j].T {
			return in[i].T < in[j].T
		}
		switch tie {
		case "id":
			return strings.Compare(in[i].Id, in[j].Id) < 0
		case "reverse-id":
			return strings.Compare(in[i].Id, in[j].Id) > 0
		}
		return rank[in[i].Id] < rank[in[j].Id]
	})
	inRange = len(in)
	if limit > 0 && len(in) > limit {
		in = in[:limit]
	} else if limit < 0 && len(in) > -limit {
		in = in[len(in)+limit:]
	}
	return append([]TEdge{}, in...), inRange
}

// How the getter hands its reply over: a freshly built []TEdge (""), or — "store-window" — a
// sub-slice store[lo:hi] of the application's own long-lived, sorted []any edge store (the natural
// way to serve ranges from an in-memory index; the reply then has spare capacity that belongs to the
// store). The connection must treat replies as read-only: a follow-up request on the same store
// (storeOracle) has to see the whole data set.
var replyAsNames = []string{"", "store-window"}

// buildStore: the data set in time order; equal timestamps in the order the tie policy dictates
// (id, reverse id, or one seeded shuffle for the lifetime of the store).
func buildStore(D []TEdge, tie string, seed uint64) []any {
	s := append([]TEdge{}, D...)
	r := hx.NewRand(seed ^ 0x5707e)
	hx.Shuffle(r, s)
	sort.SliceStable(s, func(i, j int) bool {
		if s[i].T != s[j].T {
			return s[i].T < s[j].T
		}
		switch tie {
		case "id":
			return strings.Compare(s[i].Id, s[j].Id) < 0
		case "reverse-id":
			return strings.Compare(s[i].Id, s[j].Id) > 0
		}
		return false // seeded: the shuffled order
	})
	out := make([]any, len(s))
	for i, e := range s {
		out[i] = e
	}
	return out
}

// storeWindow: the window of the store a range query asks for (the store is in time order, so the
// range is contiguous; a limit keeps its head or its tail).
func storeWindow(store []any, min, max time.Time, limit int) (win []any, inRange int) {
	i := 0
	for i < len(store) && timeOf(store[i].(TEdge).T).Before(min) {
		i++
	}
	j := i
	for j < len(store) && !timeOf(store[j].(TEdge).T).After(max) {
		j++
	}
	inRange = j - i
	if limit > 0 && j-i > limit {
		j = i + limit
	} else if limit < 0 && j-i > -limit {
		i = j + limit
	}
	return store[i:j], inRange
}

func newWorld() *world {
	w := &world{}
	cfg := &apifu.Config{}
	cfg.AddQueryField("conn", apifu.TimeBasedConnection(&apifu.TimeBasedConnectionConfig{
		NamePrefix: "T",
		EdgeCursor: func(edge any) apifu.TimeBasedCursor {
			e := edge.(TEdge)
			return apifu.NewTimeBasedCursor(timeOf(e.T), e.Id)
		},
		EdgeFields: map[string]*graphql.FieldDefinition{
			"node": {Type: graphql.StringType, Resolve: func(ctx graphql.FieldContext) (any, error) {
				return ctx.Object.(TEdge).Id, nil
			}},
		},
		EdgeGetter: func(ctx graphql.FieldContext, minTime, maxTime time.Time, limit int) (any, error) {
			reply, inRange := getterReply(w.D, w.tie, w.seed, minTime, maxTime, limit)
			var window []any
			if w.replyAs == "store-window" {
				window, inRange = storeWindow(w.store, minTime, maxTime, limit)
				reply = make([]TEdge, len(window))
				for i, e := range window {
					reply[i] = e.(TEdge)
				}
			}
			byId, _ := getterReply(w.D, "id", w.seed, minTime, maxTime, limit)
			n := len(w.calls)
			w.calls = append(w.calls, getterCall{nanosOf(minTime), nanosOf(maxTime), limit, reply, byId, inRange})
			promise := w.async == "promise" || (w.async == "mixed" && (w.seed>>uint(n%8))&1 == 1)
			var result any = reply // non-nil, possibly empty
			if len(reply) == 0 && (w.empty == "typed-nil" || w.empty == "untyped-nil") {
				result = []TEdge(nil) // a typed nil slice
			}
			if w.replyAs == "store-window" && len(window) > 0 {
				result = window // the store's own memory, with the rest of the store as spare capacity
			}
			if promise {
				return apifu.Go(ctx.Context, func() (any, error) { return result, nil }), nil
			}
			if len(reply) == 0 && w.empty == "untyped-nil" {
				return nil, nil // explicitly tolerated by the adapter's synchronous path
			}
			return result, nil
		},
		ResolveTotalCount: func(ctx graphql.FieldContext) (any, error) {
			w.tc++
			return len(w.D), nil
		},
	}))
	w.addMultiFields(cfg)
	api, err := apifu.NewAPI(cfg)
	if err != nil {
		panic(err)
	}
	w.api = api
	return w
}

// ---- requests ---------------------------------------------------------------------------------------

// CurArg is an `after` / `before` argument.
type CurArg struct {
	// Kind "emitted": the string the server emits for the cursor (T, Id) — which may belong to no
	// edge of the data set. Kind "raw": an arbitrary string S.
	Kind string `json:"kind"`
	T    int64  `json:"t,omitempty"`
	Id   string `json:"id,omitempty"`
	S    string `json:"s"`
}

type TReq struct {
	First     *int    `json:"first"`
	Last      *int    `json:"last"`
	After     *CurArg `json:"after"`
	Before    *CurArg `json:"before"`
	AtOrAfter *int64  `json:"at_or_after_time"`
	BeforeT   *int64  `json:"before_time"`
	// Far-away bounds, outside the int64 nanosecond range (years 1678..2262), are spelled as RFC 3339
	// text; AtOrAfter / BeforeT then hold their EFFECT on int64-timed edges: math.MinInt64 for an
	// instant before every edge, math.MaxInt64 for one after every edge.
	AtOrAfterText string `json:"at_or_after_text,omitempty"`
	BeforeText    string `json:"before_text,omitempty"`
	SelPI         bool   `json:"sel_page_info"`
	SelTC         bool   `json:"sel_total_count"`
	Vars          bool   `json:"vars"`
	// NullMask: which of the ABSENT arguments are spelled as an explicit null (a literal `null`, or with
	// Vars a variable whose value is sent as null — the `first: $first, last: $last` pattern of clients
	// with one bidirectional query); bit 0 first, 1 last, 2 after, 3 before, 4 atOrAfterTime, 5 beforeTime.
	// null means absent (the Relay reference and the property's "filter the client supplied").
	NullMask int `json:"null_mask,omitempty"`
}

type servedEdge struct {
	Cursor string `json:"cursor"`
	Node   string `json:"node"`
}

type servedObs struct {
	Panic     string       `json:"panic,omitempty"`
	Status    int          `json:"status"`
	Body      string       `json:"body"`
	Errors    []string     `json:"errors,omitempty"`
	NullData  bool         `json:"null_data,omitempty"`
	Edges     []servedEdge `json:"edges"`
	HasPI     bool         `json:"has_page_info"`
	HasPrev   bool         `json:"has_prev"`
	HasNext   bool         `json:"has_next"`
	Start     string       `json:"start"`
	End       string       `json:"end"`
	TC        *int         `json:"total_count"`
	Calls     []getterCall `json:"calls"`
	Malformed string       `json:"malformed,omitempty"`
}

func gqlString(s string) string {
	b, _ := json.Marshal(s)
	return string(b)
}

// boundAtom is a time bound as the model's exact integer nanoseconds (also outside int64).
func boundAtom(p *int64, text string) hx.Sexp {
	if text != "" {
		t, err := time.Parse(time.RFC3339Nano, text)
		if err != nil {
			panic(err)
		}
		return hx.A(nanosOf(t))
	}
	if p == nil {
		return hx.A("none")
	}
	return hx.I(*p)
}

// farBound: the effect of a far-away bound on int64-timed edges.
func farBound(text string) *int64 {
	t, err := time.Parse(time.RFC3339Nano, text)
	if err != nil {
		panic(err)
	}
	v := int64(math.MaxInt64)
	if t.Year() < 1678 {
		v = math.MinInt64
	}
	return &v
}

func rfc3339(ns int64) string { return timeOf(ns).Format(time.RFC3339Nano) }

// argList renders the arguments (literal spelling, or variables with Vars — the variable names get
// the given suffix so that several connections can share one operation).
func (r TReq) argList(suffix string) (args, decls []string, vars map[string]any) {
	vars = map[string]any{}
	add := func(bit int, name, typ string, present bool, lit string, val any) {
		if !present && r.NullMask&(1<<bit) == 0 {
			return
		}
		if r.Vars {
			decls = append(decls, "$"+name+suffix+": "+typ)
			args = append(args, name+": $"+name+suffix)
			if present {
				vars[name+suffix] = val
			} else {
				vars[name+suffix] = nil
			}
			return
		}
		if !present {
			lit = "null"
		}
		args = append(args, name+": "+lit)
	}
	if r.First != nil {
		add(0, "first", "Int", true, strconv.Itoa(*r.First), *r.First)
	} else {
		add(0, "first", "Int", false, "", nil)
	}
	if r.Last != nil {
		add(1, "last", "Int", true, strconv.Itoa(*r.Last), *r.Last)
	} else {
		add(1, "last", "Int", false, "", nil)
	}
	if r.After != nil {
		add(2, "after", "String", true, gqlString(r.After.S), r.After.S)
	} else {
		add(2, "after", "String", false, "", nil)
	}
	if r.Before != nil {
		add(3, "before", "String", true, gqlString(r.Before.S), r.Before.S)
	} else {
		add(3, "before", "String", false, "", nil)
	}
	if r.AtOrAfterText != "" {
		add(4, "atOrAfterTime", "DateTime", true, gqlString(r.AtOrAfterText), r.AtOrAfterText)
	} else if r.AtOrAfter != nil {
		add(4, "atOrAfterTime", "DateTime", true, gqlString(rfc3339(*r.AtOrAfter)), rfc3339(*r.AtOrAfter))
	} else {
		add(4, "atOrAfterTime", "DateTime", false, "", nil)
	}
	if r.BeforeText != "" {
		add(5, "beforeTime", "DateTime", true, gqlString(r.BeforeText), r.BeforeText)
	} else if r.BeforeT != nil {
		add(5, "beforeTime", "DateTime", true, gqlString(rfc3339(*r.BeforeT)), rfc3339(*r.BeforeT))
	} else {
		add(5, "beforeTime", "DateTime", false, "", nil)
	}
	return args, decls, vars
}

func (r TReq) selection() string {
	sel := "edges { cursor node }"
	if r.SelPI {
		sel += " pageInfo { hasPreviousPage hasNextPage startCursor endCursor }"
	}
	if r.SelTC {
		sel += " totalCount"
	}
	return sel
}

func (r TReq) build() (query string, vars map[string]any) {
	args, decls, vars := r.argList("")
	q := "query"
	if len(decls) > 0 {
		q += "(" + strings.Join(decls, ", ") + ")"
	}
	q += " { c: conn"
	if len(args) > 0 {
		q += "(" + strings.Join(args, ", ") + ")"
	}
	q += " { " + r.selection() + " } }"
	return q, vars
}

func (w *world) serve(D []TEdge, tie, async, empty string, seed uint64, r TReq) (o servedObs) {
	return w.serveAs(D, tie, async, empty, "", seed, r)
}

// followUp serves a request on the store the previous request left behind.
func (w *world) followUp(D []TEdge, tie string, seed uint64, r TReq) servedObs {
	w.reuse = true
	defer func() { w.reuse = false }()
	return w.serveAs(D, tie, "sync", "empty", "store-window", seed, r)
}

func (w *world) serveAs(D []TEdge, tie, async, empty, replyAs string, seed uint64, r TReq) (o servedObs) {
	w.D, w.tie, w.async, w.empty, w.seed, w.replyAs = D, tie, async, empty, seed, replyAs
	if replyAs == "store-window" && !w.reuse {
		w.store = buildStore(D, tie, seed)
	}
	w.calls, w.tc = nil, 0
	query, vars := r.build()
	body, _ := json.Marshal(map[string]any{"query": query, "variables": vars})
	req := httptest.NewRequest("POST", "/graphql", bytes.NewReader(body))
	req.Header.Set("Content-Type", "application/json")
	rec := httptest.NewRecorder()
	func() {
		defer func() {
			if p := recover(); p != nil {
				o.Panic = fmt.Sprint(p)
			}
		}()
		w.api.ServeGraphQL(rec, req)
	}()
	o.Calls = w.calls
	if o.Calls == nil {
		o.Calls = []getterCall{}
	}
	if o.Panic != "" {
		return o
	}
	o.Status = rec.Code
	o.Body = rec.Body.String()
	var resp struct {
		Data *struct {
			C *struct {
				Edges    []servedEdge `json:"edges"`
				PageInfo *struct {
					HasPreviousPage bool   `json:"hasPreviousPage"`
					HasNextPage     bool   `json:"hasNextPage"`
					StartCursor     string `json:"startCursor"`
					EndCursor       string `json:"endCursor"`
				} `json:"pageInfo"`
				TotalCount *int `json:"totalCount"`
			} `json:"c"`
		} `json:"data"`
		Errors []struct {
			Message   string          `json:"message"`
			Locations json.RawMessage `json:"locations"`
			Path      json.RawMessage `json:"path"`
		} `json:"errors"`
	}
	dec := json.NewDecoder(strings.NewReader(o.Body))
	dec.DisallowUnknownFields()
	if err := dec.Decode(&resp); err != nil || o.Status != 200 {
		o.Malformed = fmt.Sprintf("status %d, undecodable response (%v)", o.Status, err)
		return o
	}
	for _, e := range resp.Errors {
		o.Errors = append(o.Errors, e.Message)
	}
	if resp.Data == nil || resp.Data.C == nil {
		o.NullData = true
		return o
	}
	c := resp.Data.C
	o.Edges = c.Edges
	if o.Edges == nil {
		o.Edges = []servedEdge{}
	}
	if c.PageInfo != nil {
		o.HasPI = true
		o.HasPrev, o.HasNext, o.Start, o.End = c.PageInfo.HasPreviousPage, c.PageInfo.HasNextPage, c.PageInfo.StartCursor, c.PageInfo.EndCursor
	}
	o.TC = c.TotalCount
	return o
}

// ---- cursor codec (the real one) -----------------------------------------------------------------

var cursorType = reflect.TypeOf(apifu.TimeBasedCursor{})

func emit(e TEdge) string {
	s, err := apifu.SerializeCursor(apifu.NewTimeBasedCursor(timeOf(e.T), e.Id))
	if err != nil {
		panic(err)
	}
	return s
}

func decode(s string) (e TEdge, ok bool, panicked string) {
	defer func() {
		if p := recover(); p != nil {
			panicked = fmt.Sprint(p)
		}
	}()
	v := apifu.DeserializeCursor(cursorType, s)
	if v == nil {
		return TEdge{}, false, ""
	}
	c := v.(apifu.TimeBasedCursor)
	return TEdge{c.Nano, c.Id}, true, ""
}

var errClasses = map[string]string{
	"The `first` argument cannot be negative.":                "first-negative",
	"You cannot provide both `first` and `last` arguments.":   "both",
	"The `last` argument cannot be negative.":                 "last-negative",
	"You must provide either the `first` or `last` argument.": "neither",
	"Invalid after cursor.":                                   "invalid-after",
	"Invalid before cursor.":                                  "invalid-before",
}
