package main

// TimeRef — an independent Go rendering of the property statement: the edges whose (time, id)
// cursor lies strictly between the after and before cursors and whose time lies in
// [atOrAfterTime, beforeTime), ordered by (time, id), truncated by first/last. Shares nothing with
// /repo or with the Lean model; the Lean Spec (ApiFu.C16.timeRef) is compared with it on every
// served case ("oracle agreement").

import (
	"sort"
	"strings"
)

// TEdge is an edge of the data set, identified by (T, Id); T is nanoseconds since the Unix epoch.
type TEdge struct {
	T  int64  `json:"t"`
	Id string `json:"id"`
}

func edgeLess(a, b TEdge) bool {
	return a.T < b.T || (a.T == b.T && strings.Compare(a.Id, b.Id) < 0)
}

func sortedEdges(d []TEdge) []TEdge {
	s := append([]TEdge{}, d...)
	sort.Slice(s, func(i, j int) bool { return edgeLess(s[i], s[j]) })
	return s
}

type filters struct {
	After, Before      *TEdge // cursor positions
	AtOrAfter, BeforeT *int64
}

// violatedFilter names the first client filter the edge fails ("" if none).
func violatedFilter(f filters, e TEdge) string {
	if f.AtOrAfter != nil && e.T < *f.AtOrAfter {
		return "atOrAfterTime"
	}
	if f.BeforeT != nil && !(e.T < *f.BeforeT) {
		return "beforeTime"
	}
	if f.After != nil && !edgeLess(*f.After, e) {
		return "after"
	}
	if f.Before != nil && !edgeLess(e, *f.Before) {
		return "before"
	}
	return ""
}

func matchingEdges(d []TEdge, f filters) []TEdge {
	var m []TEdge
	for _, e := range sortedEdges(d) {
		if violatedFilter(f, e) == "" {
			m = append(m, e)
		}
	}
	return m
}

func timeRef(d []TEdge, f filters, first, last *int) []TEdge {
	m := matchingEdges(d, f)
	if (first != nil && *first < 0) || (last != nil && *last < 0) {
		return nil // an error, not a page
	}
	if first != nil && len(m) > *first {
		m = m[:*first]
	}
	if last != nil && len(m) > *last {
		m = m[len(m)-*last:]
	}
	return m
}

func sameEdges(a, b []TEdge) bool {
	if len(a) != len(b) {
		return false
	}
	for i := range a {
		if a[i] != b[i] {
			return false
		}
	}
	return true
}
