// Several resolutions of one time-based connection field in ONE request.
//
// The same connection field (one *TimeBasedConnectionConfig, one field definition) is resolved more
// than once while a single request is served — under each object of a list of parents
// (`owners(n: k) { events(ARGS) { … } }`, the usual "connection on a node type" shape) or under
// aliases that differ in an application-defined argument (`r0: setConn(set: 0, ARGS) r1:
// setConn(set: 1, ARGS)`) — and every resolution has its OWN data set, which the getter finds through
// ctx.Object / ctx.Arguments. The paging and time arguments of the resolutions are identical or
// different. Every resolution must be answered as if it were alone: response = TimeRef over its own
// data set, and the model's answer for its own getter calls. (Seeded change C16-22: a per-request
// memo of range-query results keyed without the parent / custom arguments gave one parent the
// other's edges; invisible with a single resolution per request.)
package main

import (
	"bytes"
	"encoding/json"
	"fmt"
	"net/http/httptest"
	"strings"
	"time"

	apifu "github.com/ccbrown/api-fu"
	"github.com/ccbrown/api-fu/graphql"

	"verifharness/hx"
)

// TMulti: resolution i works on Sets[i] with the arguments Reqs[i].
type TMulti struct {
	Shape string    `json:"shape"` // parents | aliases
	Sets  [][]TEdge `json:"sets"`
	Reqs  []TReq    `json:"reqs"` // shape parents: all equal (one argument list in the query)
}

type ownerObj struct{ idx int }

// multiGetter is the EdgeGetter of both multi connections: the data set is chosen by `set`.
func (w *world) multiGetter(ctx graphql.FieldContext, set int, minTime, maxTime time.Time, limit int) (any, error) {
	if set < 0 || set >= len(w.multi) {
		return nil, fmt.Errorf("no such set")
	}
	reply, inRange := getterReply(w.multi[set], w.tie, w.seed, minTime, maxTime, limit)
	byId, _ := getterReply(w.multi[set], "id", w.seed, minTime, maxTime, limit)
	n := len(w.multiCalls[set])
	w.multiCalls[set] = append(w.multiCalls[set], getterCall{nanosOf(minTime), nanosOf(maxTime), limit, reply, byId, inRange})
	promise := w.async == "promise" || (w.async == "mixed" && (w.seed>>uint((n+set)%8))&1 == 1)
	var result any = reply
	if len(reply) == 0 && (w.empty == "typed-nil" || w.empty == "untyped-nil") {
		result = []TEdge(nil)
	}
	if promise {
		return apifu.Go(ctx.Context, func() (any, error) { return result, nil }), nil
	}
	if len(reply) == 0 && w.empty == "untyped-nil" {
		return nil, nil
	}
	return result, nil
}

func multiEdgeFields() map[string]*graphql.FieldDefinition {
	return map[string]*graphql.FieldDefinition{
		"node": {Type: graphql.StringType, Resolve: func(ctx graphql.FieldContext) (any, error) {
			return ctx.Object.(TEdge).Id, nil
		}},
	}
}

func multiCursor(edge any) apifu.TimeBasedCursor {
	e := edge.(TEdge)
	return apifu.NewTimeBasedCursor(timeOf(e.T), e.Id)
}

// addMultiFields: `owners(n: Int!): [Owner]` with `Owner.events` (data set by parent object) and
// `setConn(set: Int!, …)` (data set by a custom argument).
func (w *world) addMultiFields(cfg *apifu.Config) {
	ownerType := &graphql.ObjectType{
		Name: "Owner",
		Fields: map[string]*graphql.FieldDefinition{
			"idx": {Type: graphql.IntType, Resolve: func(ctx graphql.FieldContext) (any, error) { return ctx.Object.(ownerObj).idx, nil }},
			"events": apifu.TimeBasedConnection(&apifu.TimeBasedConnectionConfig{
				NamePrefix: "OwnerEvents",
				EdgeCursor: multiCursor,
				EdgeFields: multiEdgeFields(),
				EdgeGetter: func(ctx graphql.FieldContext, minTime, maxTime time.Time, limit int) (any, error) {
					return w.multiGetter(ctx, ctx.Object.(ownerObj).idx, minTime, maxTime, limit)
				},
				ResolveTotalCount: func(ctx graphql.FieldContext) (any, error) {
					return len(w.multi[ctx.Object.(ownerObj).idx]), nil
				},
			}),
		},
	}
	cfg.AddQueryField("owners", &graphql.FieldDefinition{
		Type:      graphql.NewListType(ownerType),
		Arguments: map[string]*graphql.InputValueDefinition{"n": {Type: graphql.NewNonNullType(graphql.IntType)}},
		Resolve: func(ctx graphql.FieldContext) (any, error) {
			var out []ownerObj
			for i := 0; i < ctx.Arguments["n"].(int); i++ {
				out = append(out, ownerObj{i})
			}
			return out, nil
		},
	})
	cfg.AddQueryField("setConn", apifu.TimeBasedConnection(&apifu.TimeBasedConnectionConfig{
		NamePrefix: "SetEvents",
		EdgeCursor: multiCursor,
		EdgeFields: multiEdgeFields(),
		Arguments:  map[string]*graphql.InputValueDefinition{"set": {Type: graphql.NewNonNullType(graphql.IntType)}},
		EdgeGetter: func(ctx graphql.FieldContext, minTime, maxTime time.Time, limit int) (any, error) {
			return w.multiGetter(ctx, ctx.Arguments["set"].(int), minTime, maxTime, limit)
		},
		ResolveTotalCount: func(ctx graphql.FieldContext) (any, error) {
			return len(w.multi[ctx.Arguments["set"].(int)]), nil
		},
	}))
}

func (m TMulti) build() (query string, vars map[string]any) {
	vars = map[string]any{}
	var decls, body []string
	if m.Shape == "parents" {
		r := m.Reqs[0]
		args, d, v := r.argList("")
		decls = append(decls, d...)
		for k, x := range v {
			vars[k] = x
		}
		a := ""
		if len(args) > 0 {
			a = "(" + strings.Join(args, ", ") + ")"
		}
		body = append(body, fmt.Sprintf("owners(n: %d) { idx events%s { %s } }", len(m.Sets), a, r.selection()))
	} else {
		for i, r := range m.Reqs {
			args, d, v := r.argList(fmt.Sprintf("_%d", i))
			decls = append(decls, d...)
			for k, x := range v {
				vars[k] = x
			}
			args = append([]string{fmt.Sprintf("set: %d", i)}, args...)
			body = append(body, fmt.Sprintf("r%d: setConn(%s) { %s }", i, strings.Join(args, ", "), r.selection()))
		}
	}
	q := "query"
	if len(decls) > 0 {
		q += "(" + strings.Join(decls, ", ") + ")"
	}
	return q + " { " + strings.Join(body, " ") + " }", vars
}

type connJSON struct {
	Edges    []servedEdge `json:"edges"`
	PageInfo *struct {
		HasPreviousPage bool   `json:"hasPreviousPage"`
		HasNextPage     bool   `json:"hasNextPage"`
		StartCursor     string `json:"startCursor"`
		EndCursor       string `json:"endCursor"`
	} `json:"pageInfo"`
	TotalCount *int `json:"totalCount"`
}

func (c *connJSON) obs(calls []getterCall, body string) servedObs {
	o := servedObs{Status: 200, Body: body, Calls: calls}
	if o.Calls == nil {
		o.Calls = []getterCall{}
	}
	if c == nil {
		o.NullData = true
		return o
	}
	o.Edges = c.Edges
	if o.Edges == nil {
		o.Edges = []servedEdge{}
	}
	if c.PageInfo != nil {
		o.HasPI = true
		o.HasPrev, o.HasNext, o.Start, o.End = c.PageInfo.HasPreviousPage, c.PageInfo.HasNextPage, c.PageInfo.StartCursor, c.PageInfo.EndCursor
	}
	o.TC = c.TotalCount
	return o
}

// serveMulti serves the request once and splits the response and the getter calls by resolution.
func (w *world) serveMulti(m TMulti, tie, async, empty string, seed uint64) (obs []servedObs, problem string) {
	w.tie, w.async, w.empty, w.seed, w.replyAs = tie, async, empty, seed, ""
	w.multi = m.Sets
	w.multiCalls = make([][]getterCall, len(m.Sets))
	query, vars := m.build()
	body, _ := json.Marshal(map[string]any{"query": query, "variables": vars})
	req := httptest.NewRequest("POST", "/graphql", bytes.NewReader(body))
	req.Header.Set("Content-Type", "application/json")
	rec := httptest.NewRecorder()
	panicked := ""
	func() {
		defer func() {
			if p := recover(); p != nil {
				panicked = fmt.Sprint(p)
			}
		}()
		w.api.ServeGraphQL(rec, req)
	}()
	if panicked != "" {
		return nil, "the server panicked: " + panicked
	}
	text := rec.Body.String()
	var resp struct {
		Data   map[string]json.RawMessage `json:"data"`
		Errors []struct {
			Message string `json:"message"`
		} `json:"errors"`
	}
	if err := json.Unmarshal([]byte(text), &resp); err != nil || rec.Code != 200 {
		return nil, fmt.Sprintf("status %d, undecodable response (%v): %s", rec.Code, err, text)
	}
	if len(resp.Errors) > 0 {
		return nil, fmt.Sprintf("a request with valid arguments was answered with errors: %s", text)
	}
	if m.Shape == "parents" {
		var owners []struct {
			Idx    int       `json:"idx"`
			Events *connJSON `json:"events"`
		}
		if err := json.Unmarshal(resp.Data["owners"], &owners); err != nil || len(owners) != len(m.Sets) {
			return nil, "unexpected owners list: " + text
		}
		for i, ow := range owners {
			if ow.Idx != i {
				return nil, "owners out of order: " + text
			}
			obs = append(obs, ow.Events.obs(w.multiCalls[i], text))
		}
		return obs, ""
	}
	for i := range m.Sets {
		var c *connJSON
		if raw, ok := resp.Data[fmt.Sprintf("r%d", i)]; !ok || json.Unmarshal(raw, &c) != nil {
			return nil, fmt.Sprintf("resolution r%d missing: %s", i, text)
		}
		obs = append(obs, c.obs(w.multiCalls[i], text))
	}
	return obs, ""
}

// evalMulti: every resolution against the oracle (TimeRef over its own data set) and the model.
func (h *harness) evalMulti(c Case) failure {
	m := *c.Multi
	obs, problem := h.w.serveMulti(m, c.Tie, c.Async, c.Empty, c.Seed)
	if problem != "" {
		kind := "property"
		if strings.HasPrefix(problem, "the server panicked") {
			kind = "crash"
		}
		return failure{problem, kind, "shape"}
	}
	for i, o := range obs {
		r := m.Reqs[0]
		if m.Shape != "parents" {
			r = m.Reqs[i]
		}
		if h.verbose {
			canon, _ := servedCanon(m.Sets[i], o)
			fmt.Printf("resolution %d: implementation %s\n", i, canon)
		}
		if f := servedOracle(m.Sets[i], r, o); !f.ok() {
			f.What = fmt.Sprintf("resolution %d of %d of the same connection field in one request (%s), data set %v: %s", i, len(obs), m.Shape, ids(m.Sets[i]), f.What)
			return f
		}
		if h.model == nil {
			continue
		}
		canon, _ := servedCanon(m.Sets[i], o)
		line, p := h.modelLine(Case{D: m.Sets[i], Req: &r}, o)
		if p != "" {
			return failure{p, "crash", "crash"}
		}
		rep, err := h.model.Ask(line)
		if err != nil {
			return failure{"model driver failed: " + err.Error(), "correspondence", "model"}
		}
		if h.verbose {
			fmt.Printf("resolution %d: model          %s\n", i, rep)
		}
		if rep != canon {
			return failure{fmt.Sprintf("resolution %d of %d (%s): implementation %s, model %s", i, len(obs), m.Shape, canon, rep), "correspondence", "model"}
		}
	}
	return failure{}
}

// shrinkMulti: fewer resolutions (at least two stay), fewer edges.
func (h *harness) shrinkMulti(c Case, f failure) (Case, failure) {
	try := func(d Case) bool {
		g := h.eval(d)
		if !g.ok() && g.Kind == f.Kind {
			c, f = d, g
			return true
		}
		return false
	}
	for changed := true; changed; {
		changed = false
		m := *c.Multi
		for i := 0; len(m.Sets) > 2 && i < len(m.Sets); i++ {
			d := clone(c)
			d.Multi.Sets = append(append([][]TEdge{}, m.Sets[:i]...), m.Sets[i+1:]...)
			if m.Shape != "parents" {
				d.Multi.Reqs = append(append([]TReq{}, m.Reqs[:i]...), m.Reqs[i+1:]...)
			}
			if try(d) {
				changed = true
				break
			}
		}
		if changed {
			continue
		}
		for i := range m.Sets {
			for j := range m.Sets[i] {
				d := clone(c)
				d.Multi.Sets[i] = append(append([]TEdge{}, m.Sets[i][:j]...), m.Sets[i][j+1:]...)
				if try(d) {
					changed = true
					break
				}
			}
			if changed {
				break
			}
		}
	}
	return c, f
}

// genMulti: 2–3 resolutions; data sets over the same instants with ids unique per set (an edge that
// turns up under the wrong resolution is recognisable), equal or different sizes; identical arguments
// (always so under a list of parents) or different ones per alias; every delivery / empty policy (ties by id).
func (h *harness) genMulti(times []int64) {
	R := h.run.Rand.Fork()
	mkSet := func(si, n int) []TEdge {
		var s []TEdge
		for j := 0; j < n; j++ {
			s = append(s, TEdge{hx.Pick(R, times), fmt.Sprintf("s%d%c", si, 'a'+j)})
		}
		hx.Shuffle(R, s)
		return s
	}
	mkReq := func(sets [][]TEdge, si int) TReq {
		r := TReq{SelPI: R.Chance(3, 4), SelTC: R.Chance(1, 4), Vars: R.Chance(1, 3), NullMask: nullMask(R)}
		n := R.Range(0, 4)
		if R.Bool() {
			r.First = ip(n)
		} else {
			r.Last = ip(n)
		}
		if R.Chance(1, 3) {
			r.AtOrAfter = i64(hx.Pick(R, times))
		}
		if R.Chance(1, 3) {
			r.BeforeT = i64(hx.Pick(R, times) + 1)
		}
		// cursors: of an edge of this or of ANOTHER resolution's set (a valid position in both)
		pick := func() *CurArg {
			s := sets[si]
			if R.Chance(1, 3) {
				s = sets[R.Intn(len(sets))]
			}
			if len(s) == 0 || R.Bool() {
				return nil
			}
			e := hx.Pick(R, s)
			return &CurArg{Kind: "emitted", T: e.T, Id: e.Id, S: emit(e)}
		}
		r.After, r.Before = pick(), pick()
		return r
	}
	for i := 0; i < h.run.Scale(1500, 20000); i++ {
		k := R.Range(2, 3)
		var sets [][]TEdge
		for si := 0; si < k; si++ {
			sets = append(sets, mkSet(si, R.Range(0, 4)))
		}
		shape := hx.Pick(R, []string{"parents", "aliases", "aliases"})
		m := TMulti{Shape: shape, Sets: sets}
		if shape == "parents" || R.Bool() {
			r := mkReq(sets, 0)
			for si := 0; si < k; si++ {
				m.Reqs = append(m.Reqs, r) // identical paging and time arguments for every resolution
			}
		} else {
			for si := 0; si < k; si++ {
				m.Reqs = append(m.Reqs, mkReq(sets, si))
			}
		}
		// the getter cuts ties in id order: with another tie-break the open finding F-16b applies to
		// every resolution on its own, which the single-connection cases already report
		tie := "id"
		h.check(Case{Kind: "multi", Tie: tie, Async: hx.Pick(R, asyncNames), Empty: hx.Pick(R, emptyNames), Seed: R.Uint64() >> 1, Multi: &m})
	}
}

func nullMask(r *hx.Rand) int {
	if r.Chance(1, 3) {
		return r.Intn(64)
	}
	return 0
}
