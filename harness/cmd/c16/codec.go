// Codec tie for C16: the Lean model of the cursor codec (lean/ApiFu/C09/Codec.lean, instantiated at
// TimeBasedCursor{Nano int64; Id string} in lean/ApiFu/C16/PropsCodec.lean) against
// apifu.SerializeCursor / apifu.DeserializeCursor for the time-based cursor: verdict and value
// compared exactly. Driver operations (c16model, C09/CodecDriver.lean):
//
//	(cursor-enc (struct (Nano i64) (Id str)) (v NANO (s IDHEX)))   -> (ok text)
//	(cursor-dec (struct (Nano i64) (Id str)) "text")               -> invalid | (ok (v NANO (s IDHEX)))
//
// Generated: nanoseconds at the int64 limits and at every msgpack width boundary ± 1 × ids of length
// 0,1,31,32,255,256 (65535/65536 once) with arbitrary bytes (Go strings are byte strings); every
// emitted cursor decoded back; for a sample every truncation and single-byte corruption at the
// msgpack level and at the text level; hand-built alternatives the decoder accepts (compact
// integers, other key order, duplicate / unknown keys with values of every msgpack kind, array
// form, nil) and rejects; random byte soup. Model-free oracle: Deserialize(Serialize(c)) = c, the
// text is not empty, no panic. (The general tie over every modelled cursor type is in cmd/c09.)
package main

import (
	"encoding/base64"
	"encoding/hex"
	"fmt"
	"reflect"
	"strconv"
	"strings"

	apifu "github.com/ccbrown/api-fu"

	"verifharness/hx"
)

type TCodecTie struct {
	Op    string `json:"op"` // enc | dec
	Nano  int64  `json:"nano,omitempty"`
	IdHex string `json:"id_hex,omitempty"`
	Text  string `json:"text,omitempty"`
}

const tbcTySexp = "(struct (Nano i64) (Id str))"

const (
	obTbcTie    = "correspondence: SerializeCursor/DeserializeCursor of TimeBasedCursor = model tbcEnc/tbcDec (verdict and value), well-formed and malformed input"
	obTbcOracle = "oracle: TimeBasedCursor codec round trip, non-empty text, no panic"
)

func tbcVal(nano int64, id string) string {
	return "(v " + strconv.FormatInt(nano, 10) + " " + hx.L(hx.A("s"), hx.A(hex.EncodeToString([]byte(id)))).String() + ")"
}

func (c TCodecTie) modelLine() string {
	if c.Op == "enc" {
		id, _ := hex.DecodeString(c.IdHex)
		return "(cursor-enc " + tbcTySexp + " " + tbcVal(c.Nano, string(id)) + ")"
	}
	return "(cursor-dec " + tbcTySexp + " " + hx.A(c.Text).String() + ")"
}

func (c TCodecTie) real() (reply, oracle, panicked string) {
	defer func() {
		if p := recover(); p != nil {
			panicked = fmt.Sprint(p)
		}
	}()
	if c.Op == "enc" {
		id, err := hex.DecodeString(c.IdHex)
		if err != nil {
			return "bad-case", "", ""
		}
		v := apifu.TimeBasedCursor{Nano: c.Nano, Id: string(id)}
		s, err := apifu.SerializeCursor(v)
		if err != nil {
			return "error", "SerializeCursor fails on a TimeBasedCursor: " + err.Error(), ""
		}
		back := apifu.DeserializeCursor(cursorType, s)
		if back == nil || !reflect.DeepEqual(back, v) || s == "" {
			oracle = fmt.Sprintf("Deserialize(Serialize(TimeBasedCursor{%d, %q})) = %v (text %q)", c.Nano, id, back, s)
		}
		return hx.L(hx.A("ok"), hx.A(s)).String(), oracle, ""
	}
	d := apifu.DeserializeCursor(cursorType, c.Text)
	if d == nil {
		return "invalid", "", ""
	}
	tc, ok := d.(apifu.TimeBasedCursor)
	if !ok {
		return "invalid", fmt.Sprintf("DeserializeCursor returned a %T", d), ""
	}
	return "(ok " + tbcVal(tc.Nano, tc.Id) + ")", "", ""
}

func (c TCodecTie) judge(reply, oracle, panicked, model string, haveModel bool) failure {
	if panicked != "" {
		return failure{fmt.Sprintf("the cursor codec panicked on %s: %s", c.modelLine(), panicked), "crash", "crash"}
	}
	if oracle != "" {
		return failure{oracle, "property", "codec"}
	}
	if haveModel && model != reply {
		return failure{fmt.Sprintf("codec model and code disagree on %s: model %s, code %s", c.modelLine(), model, reply), "correspondence", "codec"}
	}
	return failure{}
}

func (h *harness) evalCodecTie(c Case) failure {
	t := *c.CodecTie
	reply, oracle, panicked := t.real()
	model := ""
	if h.model != nil {
		m, err := h.model.Ask(t.modelLine())
		if err != nil {
			return failure{"model: " + err.Error(), "correspondence", "model"}
		}
		model = m
	}
	if h.verbose {
		fmt.Printf("request: %s\ncode:    %s\nmodel:   %s\n", t.modelLine(), reply, model)
	}
	return t.judge(reply, oracle, panicked, model, h.model != nil)
}

func (h *harness) recordTie(c TCodecTie, f failure, reply string) {
	h.run.Case(c.Op+"|"+strconv.FormatInt(c.Nano, 10)+"|"+c.IdHex+"|"+c.Text, true)
	h.run.Count("kind:codectie")
	h.run.Count("codectie:" + c.Op)
	if c.Op == "dec" {
		if reply == "invalid" {
			h.run.Count("codectie:dec:invalid")
		} else {
			h.run.Count("codectie:dec:accepted")
		}
	}
	h.run.Oblige(obTbcTie, "correspondence", 1, f.Kind != "correspondence", f.What)
	h.run.Oblige(obTbcOracle, "oracle", 1, f.Kind != "property" && f.Kind != "crash", f.What)
	if !f.ok() {
		cc := c
		h.run.Violate(f.Kind, f.What, "", f.Kind == "correspondence", Case{Kind: "codectie", CodecTie: &cc})
	}
}

func (h *harness) tieBatch(cases []TCodecTie) {
	if len(cases) == 0 {
		return
	}
	type res struct{ reply, oracle, panicked string }
	rs := make([]res, len(cases))
	lines := make([]string, len(cases))
	for i, c := range cases {
		r, o, p := c.real()
		rs[i] = res{r, o, p}
		lines[i] = c.modelLine()
	}
	var models []string
	if h.model != nil {
		var err error
		if models, err = h.model.AskAll(lines); err != nil {
			fmt.Println("model driver failed:", err)
			models = nil
		}
	}
	for i, c := range cases {
		m := ""
		if models != nil {
			m = models[i]
		}
		h.recordTie(c, c.judge(rs[i].reply, rs[i].oracle, rs[i].panicked, m, models != nil), rs[i].reply)
	}
}

func (h *harness) genCodecTie() {
	R := h.run.Rand.Fork()
	var batch []TCodecTie
	flush := func() { h.tieBatch(batch); batch = batch[:0] }
	add := func(c TCodecTie) {
		batch = append(batch, c)
		if len(batch) >= 4000 {
			flush()
		}
	}
	b64 := func(b []byte) string { return base64.RawURLEncoding.EncodeToString(b) }
	rb := func(n int) string {
		b := make([]byte, n)
		for i := range b {
			switch R.Intn(3) {
			case 0:
				b[i] = byte(R.Intn(256))
			case 1:
				b[i] = "\x00\x7f\x80\xff\xc0\xa0"[R.Intn(6)]
			default:
				b[i] = byte('a' + R.Intn(26))
			}
		}
		return string(b)
	}
	var nanos []int64
	for _, k := range []uint{0, 5, 7, 8, 15, 16, 31, 32, 53, 62} {
		for d := int64(-1); d <= 1; d++ {
			nanos = append(nanos, int64(1)<<k+d, -(int64(1)<<k)+d)
		}
	}
	nanos = append(nanos, 1<<63-1, 1<<63-2, -(1 << 63), -(1<<63)+1, base, base+1e9)
	for i := 0; i < h.run.Scale(40, 600); i++ {
		n := int64(R.Uint64() >> uint(R.Intn(64)))
		if R.Bool() {
			n = -n
		}
		nanos = append(nanos, n)
	}
	var emitted []string
	enc := func(n int64, id string) {
		add(TCodecTie{Op: "enc", Nano: n, IdHex: hex.EncodeToString([]byte(id))})
		func() {
			defer func() { recover() }()
			if s, err := apifu.SerializeCursor(apifu.TimeBasedCursor{Nano: n, Id: id}); err == nil {
				emitted = append(emitted, s)
			}
		}()
	}
	for _, n := range nanos {
		for _, l := range []int{0, 1, 31, 32} {
			enc(n, rb(l))
		}
		enc(n, rb(R.Intn(40)))
	}
	for _, l := range []int{255, 256, 65535, 65536} {
		enc(hx.Pick(R, nanos), rb(l))
	}
	flush()
	for _, s := range emitted {
		add(TCodecTie{Op: "dec", Text: s})
	}
	// corruptions of a sample
	corrupt := []byte{0x00, 0x7f, 0x80, 0x8f, 0x90, 0xa0, 0xbf, 0xc0, 0xc1, 0xc2, 0xc4, 0xcc, 0xcf, 0xd0, 0xd3, 0xd9, 0xdc, 0xde, 0xdf, 0xe0, 0xff}
	for i := 0; i < h.run.Scale(25, 300); i++ {
		s := hx.Pick(R, emitted)
		if len(s) > 90 {
			continue
		}
		raw, err := base64.RawURLEncoding.DecodeString(s)
		if err != nil {
			continue
		}
		for k := range raw {
			add(TCodecTie{Op: "dec", Text: b64(raw[:k])})
			for _, x := range append(append([]byte{}, corrupt...), raw[k]^1, raw[k]+1) {
				if x != raw[k] {
					m := append([]byte{}, raw...)
					m[k] = x
					add(TCodecTie{Op: "dec", Text: b64(m)})
				}
			}
		}
		for k := range s {
			add(TCodecTie{Op: "dec", Text: s[:k]})
			for _, x := range []string{"A", "_", "=", "\n", "é", "+"} {
				add(TCodecTie{Op: "dec", Text: s[:k] + x + s[k+1:]})
			}
		}
		k := R.Intn(len(s) + 1)
		add(TCodecTie{Op: "dec", Text: s[:k] + "\r\n" + s[k:]})
	}
	// hand-built alternatives
	cat := func(parts ...[]byte) []byte {
		var out []byte
		for _, p := range parts {
			out = append(out, p...)
		}
		return out
	}
	kN, kI := []byte{0xa4, 'N', 'a', 'n', 'o'}, []byte{0xa2, 'I', 'd'}
	nanoForms := [][]byte{{0x05}, {0xff}, {0xe0}, {0xc0}, {0xcc, 0xff}, {0xcd, 0xff, 0xff}, {0xce, 0xff, 0xff, 0xff, 0xff}, {0xcf, 0xff, 0xff, 0xff, 0xff, 0xff, 0xff, 0xff, 0xff},
		{0xd0, 0x80}, {0xd1, 0x80, 0}, {0xd2, 0x80, 0, 0, 0}, {0xd3, 0x80, 0, 0, 0, 0, 0, 0, 0}, {0xca, 0, 0, 0, 0}, {0xa1, '5'}, {0xc3}, {0xcd, 1}}
	idForms := [][]byte{{0xa0}, {0xa2, 'h', 'i'}, {0xc0}, {0xd9, 2, 'h', 'i'}, {0xda, 0, 2, 'h', 'i'}, {0xdb, 0, 0, 0, 2, 'h', 'i'}, {0xc4, 2, 0xff, 0}, {0xc5, 0, 1, 'x'}, {0xc6, 0, 0, 0, 1, 'x'},
		{0xa2, 'h'}, {0x05}, {0xc3}, {0x90}, {0xdb, 0xff, 0xff, 0xff, 0xff, 'x'}}
	unknown := [][]byte{{0xc0}, {0xc2}, {0x7f}, {0xcb, 1, 2, 3, 4, 5, 6, 7, 8}, {0xa1, 'x'}, {0xc4, 1, 0}, {0x92, 1, 0x91, 2}, {0x81, 0xa1, 'k', 0x90}, {0xdc, 0, 1, 1}, {0xdd, 0, 0, 0, 1, 1}, {0xde, 0, 1, 1, 2}, {0xdf, 0, 0, 0, 1, 1, 2},
		{0xd4, 1, 2}, {0xd5, 1, 2, 3}, {0xd6, 1, 2, 3, 4, 5}, {0xd7, 1, 1, 2, 3, 4, 5, 6, 7, 8}, {0xd8, 1, 1, 2, 3, 4, 5, 6, 7, 8, 1, 2, 3, 4, 5, 6, 7, 8}, {0xc7, 1, 5, 9}, {0xc8, 0, 1, 5, 9}, {0xc9, 0, 0, 0, 1, 5, 9}, {0xc7, 2, 5, 9}, {0xc1}, {0x91, 0xc1}}
	dec := func(b []byte) {
		add(TCodecTie{Op: "dec", Text: b64(b)})
		add(TCodecTie{Op: "dec", Text: b64(cat(b, []byte{0xc1}))})
	}
	for _, nf := range nanoForms {
		for _, idf := range idForms {
			dec(cat([]byte{0x82}, kN, nf, kI, idf))
			dec(cat([]byte{0x82}, kI, idf, kN, nf))
			dec(cat([]byte{0x92}, nf, idf))
		}
		dec(cat([]byte{0x81}, kN, nf))
		dec(cat([]byte{0x91}, nf))
		dec(cat([]byte{0x83}, kN, []byte{0x01}, kI, []byte{0xa1, 'a'}, kN, nf))
	}
	for _, u := range unknown {
		dec(cat([]byte{0x83}, []byte{0xa1, 'z'}, u, kN, []byte{0x07}, kI, []byte{0xa1, 'a'}))
		dec(cat([]byte{0x83}, kN, []byte{0x07}, []byte{0xa0}, u, kI, []byte{0xa1, 'a'}))
		dec(cat([]byte{0x93}, []byte{0x07}, []byte{0xa1, 'a'}, u))
		for k := range u {
			dec(cat([]byte{0x83}, kN, []byte{0x07}, kI, []byte{0xa1, 'a'}, []byte{0xa1, 'z'}, u[:k]))
		}
	}
	for _, b := range [][]byte{{}, {0xc0}, {0x80}, {0x90}, {0xde, 0, 0}, {0xdf, 0, 0, 0, 0}, {0xdc, 0, 0}, {0xdd, 0, 0, 0, 0}, {0xdf, 0xff, 0xff, 0xff, 0xff}, {0xdd, 0xff, 0xff, 0xff, 0xff, 1}, {0xde, 0, 1}, {0x81}, {0x81, 0xa4, 'n', 'a', 'n', 'o', 1}, {0x81, 0xc0, 1}, {0x81, 0x01, 1}, {0xc1}, {0x01}, {0xa0}, {0xd4, 0, 0x80}} {
		dec(b)
	}
	for i := 0; i < h.run.Scale(1500, 30000); i++ {
		b := make([]byte, R.Intn(14))
		for j := range b {
			if R.Bool() {
				b[j] = hx.Pick(R, corrupt)
			} else {
				b[j] = byte(R.Intn(256))
			}
		}
		add(TCodecTie{Op: "dec", Text: b64(b)})
	}
	add(TCodecTie{Op: "dec", Text: strings.Repeat("A", 300)})
	flush()
}
