// Harness for C07 — tokens and string values follow the spec's lexical grammar.
//
// Real side: scanner.New(src, mode) … Scan/Token/Literal/StringValue/Position/Errors.
// Model side: lean/ApiFu/C07 (driver c07model), which answers every text with
//
//	<model tokens>|<model errors>|<ok|err>|<reference-lexer tokens>|<ok|err>|<loose-reference tokens>
//
// Per text we compare
//
//	(tie)    the real scanner's full observable (kind, offset, length, line, column, decoded value as
//	         code points; errors as line:column) with the model's, byte for byte in a canonical form;
//	(spec)   for valid UTF-8: the real scanner's observable with the Lean *reference lexer*
//	         (Spec.lexAll, written from the grammar): verdict ok ⇒ identical tokens and no error,
//	         verdict error ⇒ at least one error and identical tokens before the first lexical error.
//	         Where the June-2018 text leaves the reading open (D1 dangling exponent, D2 BOM inside the
//	         text, D3 `"""` without a closing `"""`) the scanner implements the strict reading; an output
//	         that agrees with the pure longest-match reading (Spec.lexAllLoose) is not reported as a
//	         property violation either (it still breaks the tie);
//	(go)     model-free oracles on the real output: no crash, progress, tokens in order and (without
//	         errors) tiling the text, positions equal an independent line/column count, every literal
//	         matches the regular expression of its kind, quoted strings decode like JSON strings,
//	         skip-ignored mode = filter of ScanIgnored mode.
//
// A tie disagreement is reported as a property violation when one of the oracles fails on the real
// output, as a correspondence violation (no failing input) otherwise.
package main

import (
	"encoding/hex"
	"encoding/json"
	"fmt"
	"os"
	"regexp"
	"strconv"
	"strings"
	"sync/atomic"
	"time"
	"unicode/utf8"

	"github.com/ccbrown/api-fu/graphql/scanner"
	"github.com/ccbrown/api-fu/graphql/token"

	"verifharness/hx"
)

const badBase = 0x110000

// Case is one source text and scanner mode. Src travels as hex (it may be invalid UTF-8).
type Case struct {
	SrcHex string `json:"src_hex"`
	Mode   int    `json:"mode"` // 1 = ScanIgnored, 0 = skip ignored tokens
	Text   string `json:"text,omitempty"`
	Family string `json:"family,omitempty"`
}

func mkCase(src []byte, mode int, family string) Case {
	return Case{SrcHex: hex.EncodeToString(src), Mode: mode, Text: strconv.QuoteToASCII(string(src)), Family: family}
}

func (c Case) src() []byte { b, _ := hex.DecodeString(c.SrcHex); return b }

// ---- decoding (DESIGN §6.2) -------------------------------------------------------------------

// decode splits src the way the scanner walks it: one element per utf8.DecodeRune step; an invalid
// byte b is the element badBase+b. bound[byteOffset] = element index at element boundaries, else -1.
func decode(src []byte) (elems []int, bound []int, valid bool) {
	bound = make([]int, len(src)+1)
	for i := range bound {
		bound[i] = -1
	}
	valid = true
	for i := 0; i < len(src); {
		r, size := utf8.DecodeRune(src[i:])
		bound[i] = len(elems)
		if r == utf8.RuneError && size == 1 {
			elems = append(elems, badBase+int(src[i]))
			valid = false
		} else {
			elems = append(elems, int(r))
		}
		i += size
	}
	bound[len(src)] = len(elems)
	return
}

// posAt is the independent line/column count: LF, CR and CRLF each end a line once.
func posAt(elems []int, idx int) (line, col int) {
	line, col = 1, 1
	for i := 0; i < idx && i < len(elems); i++ {
		c := elems[i]
		if c == '\n' || (c == '\r' && !(i+1 < len(elems) && elems[i+1] == '\n')) {
			line++
			col = 1
		} else {
			col++
		}
	}
	return
}

// ---- the real side ------------------------------------------------------------------------------

type tokObs struct {
	Kind      int
	ByteOff   int // inferred (the scanner does not export it), -1 when the literal cannot be located
	ByteLen   int
	Off, Len  int // in elements; -1 when not on element boundaries
	Line, Col int
	Literal   string
	Value     string
}

type obs struct {
	Toks  []tokObs
	Errs  [][2]int
	Panic string
	Stuck bool // more Scan() calls than the text has bytes
}

var currentCase atomic.Value // Case being run by the real scanner (for the watchdog)
var caseStarted atomic.Int64

func runReal(c Case) (o obs, elems []int, valid bool) {
	src := c.src()
	var bound []int
	elems, bound, valid = decode(src)
	currentCase.Store(c)
	caseStarted.Store(time.Now().UnixNano())
	defer caseStarted.Store(0)
	defer func() {
		if p := recover(); p != nil {
			o.Panic = fmt.Sprint(p)
		}
	}()
	mode := scanner.Mode(0)
	if c.Mode == 1 {
		mode = scanner.ScanIgnored
	}
	s := scanner.New(src, mode)
	prevEnd := 0
	for n := 0; s.Scan(); n++ {
		if n > len(src) {
			o.Stuck = true
			break
		}
		lit := s.Literal()
		pos := s.Position()
		t := tokObs{Kind: int(s.Token()), ByteLen: len(lit), Line: pos.Line, Col: pos.Column, Literal: lit, Value: s.StringValue(), ByteOff: -1, Off: -1, Len: -1}
		// locate the literal: first occurrence at or after the previous token's end whose independent
		// position agrees with the reported one, else the first occurrence
		first := -1
		for off := prevEnd; off+len(lit) <= len(src); off++ {
			if string(src[off:off+len(lit)]) != lit {
				continue
			}
			if first < 0 {
				first = off
			}
			if bound[off] >= 0 {
				if l, cc := posAt(elems, bound[off]); l == pos.Line && cc == pos.Column {
					t.ByteOff = off
					break
				}
			}
		}
		if t.ByteOff < 0 {
			t.ByteOff = first
		}
		if t.ByteOff >= 0 {
			end := t.ByteOff + t.ByteLen
			if bound[t.ByteOff] >= 0 && bound[end] >= 0 {
				t.Off = bound[t.ByteOff]
				t.Len = bound[end] - bound[t.ByteOff]
			}
			prevEnd = end
		}
		o.Toks = append(o.Toks, t)
	}
	for _, e := range s.Errors() {
		o.Errs = append(o.Errs, [2]int{e.Line, e.Column})
	}
	return
}

func valueStr(t tokObs) string {
	if t.Kind != int(token.STRING_VALUE) {
		return ""
	}
	var b strings.Builder
	first := true
	for i := 0; i < len(t.Value); {
		r, size := utf8.DecodeRuneInString(t.Value[i:])
		if !first {
			b.WriteByte('.')
		}
		first = false
		if r == utf8.RuneError && size == 1 {
			fmt.Fprintf(&b, "%d", badBase+int(t.Value[i]))
		} else {
			b.WriteString(strconv.Itoa(int(r)))
		}
		i += size
	}
	return b.String()
}

func tokStr(t tokObs) string {
	return fmt.Sprintf("%d:%d:%d:%d:%d:%s", t.Kind, t.Off, t.Len, t.Line, t.Col, valueStr(t))
}

func toksStr(ts []tokObs) string {
	parts := make([]string, len(ts))
	for i, t := range ts {
		parts[i] = tokStr(t)
	}
	return strings.Join(parts, ",")
}

func errsStr(es [][2]int) string {
	parts := make([]string, len(es))
	for i, e := range es {
		parts[i] = fmt.Sprintf("%d:%d", e[0], e[1])
	}
	return strings.Join(parts, ",")
}

func requestLine(mode int, elems []int) string {
	var b strings.Builder
	b.WriteString("L ")
	b.WriteString(strconv.Itoa(mode))
	for _, e := range elems {
		b.WriteByte(' ')
		b.WriteString(strconv.Itoa(e))
	}
	return b.String()
}

// ---- oracles ------------------------------------------------------------------------------------

var (
	reName  = regexp.MustCompile(`^[_A-Za-z][_0-9A-Za-z]*$`)
	reInt   = regexp.MustCompile(`^-?(0|[1-9][0-9]*)$`)
	reFloat = regexp.MustCompile(`^-?(0|[1-9][0-9]*)(\.[0-9]+([eE][+-]?[0-9]+)?|[eE][+-]?[0-9]+)$`)
	rePunct = regexp.MustCompile(`^([!$():=@\[\]{|}]|\.\.\.)$`)
	reSurr  = regexp.MustCompile(`(?i)\\u+d[89a-f]`)
)

// goOracle evaluates the model-free oracles on the real output. "" = all hold.
func goOracle(c Case, o obs, elems []int, valid bool) string {
	src := c.src()
	if o.Panic != "" {
		return "panic: " + o.Panic
	}
	if o.Stuck {
		return "Scan() returned true more often than the text has bytes (no progress)"
	}
	end := 0
	for i, t := range o.Toks {
		if t.ByteLen < 1 {
			return fmt.Sprintf("token %d is empty", i)
		}
		if t.ByteOff < 0 {
			return fmt.Sprintf("token %d: literal %q does not occur in the text after the previous token", i, t.Literal)
		}
		if t.ByteOff < end {
			return fmt.Sprintf("token %d overlaps its predecessor", i)
		}
		if !valid {
			end = t.ByteOff + t.ByteLen
			continue
		}
		if t.Off < 0 {
			return fmt.Sprintf("token %d (%q at byte %d) does not lie on character boundaries", i, t.Literal, t.ByteOff)
		}
		if l, cc := posAt(elems, t.Off); l != t.Line || cc != t.Col {
			return fmt.Sprintf("token %d (%q at offset %d) reports position %d:%d, counting line terminators gives %d:%d", i, t.Literal, t.Off, t.Line, t.Col, l, cc)
		}
		if t.Kind != int(token.STRING_VALUE) && t.Value != t.Literal {
			return fmt.Sprintf("token %d: StringValue %q differs from the literal %q", i, t.Value, t.Literal)
		}
		if c.Mode == 1 && len(o.Errs) == 0 && t.ByteOff != end {
			return fmt.Sprintf("no error reported but bytes %d..%d belong to no token", end, t.ByteOff)
		}
		end = t.ByteOff + t.ByteLen
		if len(o.Errs) > 0 {
			continue
		}
		// without errors every literal is a word of its kind's grammar
		ok := true
		switch token.Token(t.Kind) {
		case token.NAME:
			ok = reName.MatchString(t.Literal)
		case token.INT_VALUE:
			ok = reInt.MatchString(t.Literal)
		case token.FLOAT_VALUE:
			ok = reFloat.MatchString(t.Literal)
		case token.PUNCTUATOR:
			ok = rePunct.MatchString(t.Literal)
		case token.WHITE_SPACE:
			ok = t.Literal == " " || t.Literal == "\t"
		case token.COMMA:
			ok = t.Literal == ","
		case token.LINE_TERMINATOR:
			ok = t.Literal == "\n" || t.Literal == "\r" || t.Literal == "\r\n"
		case token.UNICODE_BOM:
			ok = t.Literal == "\ufeff" // at offset 0 by the strict reading (D2); position is left to the reference lexers
		case token.COMMENT:
			ok = strings.HasPrefix(t.Literal, "#") && !strings.ContainsAny(t.Literal, "\r\n")
		case token.STRING_VALUE:
			ok = strings.HasPrefix(t.Literal, `"`) && strings.HasSuffix(t.Literal, `"`) && len(t.Literal) >= 2
			if ok && !strings.HasPrefix(t.Literal, `"""`) && !reSurr.MatchString(t.Literal) && !strings.Contains(t.Literal, "\t") {
				// GraphQL's quoted-string escapes are JSON's: a second, unrelated decoder
				var v string
				if err := json.Unmarshal([]byte(t.Literal), &v); err != nil {
					return fmt.Sprintf("token %d: %s accepted without error but it is not a well-formed string (%v)", i, strconv.QuoteToASCII(t.Literal), err)
				} else if v != t.Value {
					return fmt.Sprintf("token %d: %s decoded to %s, JSON decoding gives %s", i, strconv.QuoteToASCII(t.Literal), strconv.QuoteToASCII(t.Value), strconv.QuoteToASCII(v))
				}
			}
		default:
			ok = false
		}
		if !ok {
			return fmt.Sprintf("token %d: literal %s is not a word of kind %d although no error was reported", i, strconv.QuoteToASCII(t.Literal), t.Kind)
		}
	}
	if valid && c.Mode == 1 && len(o.Errs) == 0 && end != len(src) {
		return fmt.Sprintf("no error reported but bytes %d..%d belong to no token", end, len(src))
	}
	return ""
}

// modeOracle: the tokens seen when ignored tokens are skipped are the non-ignored tokens of the
// ScanIgnored run, and the errors are the same.
func modeOracle(full, skip obs) string {
	var want []tokObs
	for _, t := range full.Toks {
		if !token.Token(t.Kind).IsIgnored() {
			want = append(want, t)
		}
	}
	a, b := toksStr(want), toksStr(skip.Toks)
	if a != b {
		return fmt.Sprintf("tokens with ignored tokens skipped [%s] are not the non-ignored tokens of the ScanIgnored run [%s]", b, a)
	}
	if errsStr(full.Errs) != errsStr(skip.Errs) {
		return fmt.Sprintf("errors differ between modes: [%s] vs [%s]", errsStr(skip.Errs), errsStr(full.Errs))
	}
	return ""
}

// specOracle compares the real output with the reference lexer's reply (verdict, tokens).
func specOracle(o obs, verdict, specToks string) string {
	real := toksStr(o.Toks)
	switch verdict {
	case "ok":
		if len(o.Errs) > 0 {
			return fmt.Sprintf("the grammar lexes the text without error as [%s]; the scanner reports errors [%s]", specToks, errsStr(o.Errs))
		}
		if real != specToks {
			return fmt.Sprintf("no error reported, tokens [%s]; the grammar gives [%s]", real, specToks)
		}
	case "err":
		if len(o.Errs) == 0 {
			return fmt.Sprintf("the grammar has no token sequence for the text (lexical error after [%s]); the scanner reports no error, tokens [%s]", specToks, real)
		}
		if specToks != "" && real != specToks && !strings.HasPrefix(real, specToks+",") {
			return fmt.Sprintf("tokens before the first lexical error are [%s] by the grammar; the scanner gives [%s]", specToks, real)
		}
	default:
		return "unexpected reference verdict " + verdict
	}
	return ""
}

// ---- evaluation -----------------------------------------------------------------------------------

type harness struct {
	run      *hx.Run
	model    *hx.Model
	reported map[string]int
}

type verdict struct {
	kind  string // "" ok | property | correspondence | crash
	what  string
	real  string
	mod   string
	spec  string
	loose string
}

// judge evaluates one case given the driver's reply ("" when running without the model).
func (h *harness) judge(c Case, reply string, count bool) verdict {
	o, elems, valid := runReal(c)
	var v verdict
	v.real = toksStr(o.Toks) + "|" + errsStr(o.Errs)
	if o.Panic != "" {
		v.real = "panic: " + o.Panic
	}
	gw := goOracle(c, o, elems, valid)
	if gw == "" && c.Mode == 1 && valid {
		gw = h.parserOracle(c, o)
	}
	if gw == "" {
		gw = disciplineOracle(c, o)
	}
	if gw == "" && c.Mode == 1 {
		c0 := c
		c0.Mode = 0
		o0, _, _ := runReal(c0)
		if o0.Panic != "" {
			gw = "panic with ignored tokens skipped: " + o0.Panic
		} else {
			gw = modeOracle(o, o0)
		}
	}
	sw, tie := "", ""
	specVerdict := ""
	if reply != "" {
		parts := strings.Split(reply, "|")
		if len(parts) != 6 {
			v.kind, v.what = "correspondence", fmt.Sprintf("unexpected driver reply %q", reply)
			return v
		}
		v.mod = parts[0] + "|" + parts[1]
		v.spec = parts[2] + "|" + parts[3]
		v.loose = parts[4] + "|" + parts[5]
		specVerdict = parts[2]
		if v.mod != v.real {
			tie = fmt.Sprintf("scanner and model disagree: scanner [%s], model [%s]", v.real, v.mod)
		}
		if valid && o.Panic == "" {
			sw = specOracle(o, parts[2], parts[3])
			if sw != "" && (parts[4] != parts[2] || parts[5] != parts[3]) && specOracle(o, parts[4], parts[5]) == "" {
				sw = "" // agrees with the other reading of D1–D3
				if count {
					h.run.Count("oracle:accepted-by-loose-reading-only")
				}
			}
			if count && (parts[4] != parts[2] || parts[5] != parts[3]) {
				h.run.Count("reference:strict-and-loose-readings-differ")
			}
		}
	}
	if count {
		h.count(c, o, valid, specVerdict)
	}
	switch {
	case o.Panic != "" || o.Stuck:
		v.kind, v.what = "crash", gw
	case sw != "":
		v.kind, v.what = "property", sw
	case gw != "":
		v.kind, v.what = "property", gw
	case tie != "":
		v.kind, v.what = "correspondence", tie
	}
	return v
}

func (h *harness) count(c Case, o obs, valid bool, specVerdict string) {
	run := h.run
	run.Count("family:" + c.Family)
	run.Count("mode:" + strconv.Itoa(c.Mode))
	if !valid {
		run.Count("input:invalid-utf8")
	}
	if specVerdict != "" {
		run.Count("reference:" + specVerdict)
	}
	if len(o.Errs) > 0 {
		run.Count("scanner:with-errors")
	} else {
		run.Count("scanner:no-error")
	}
	nontrivial := len(o.Errs) > 0
	for _, t := range o.Toks {
		run.Count("token-kind:" + strconv.Itoa(t.Kind))
		if t.Kind == int(token.STRING_VALUE) {
			if strings.HasPrefix(t.Literal, `"""`) {
				run.Count("string:block")
				if strings.ContainsAny(t.Literal, "\r\n") {
					run.Count("string:block-multiline")
				}
			} else if strings.Contains(t.Literal, `\`) {
				run.Count("string:with-escape")
			}
		}
		if t.Kind == int(token.STRING_VALUE) || t.Kind == int(token.INT_VALUE) || t.Kind == int(token.FLOAT_VALUE) || t.Line > 1 {
			nontrivial = true
		}
	}
	run.Case(c.SrcHex+"/"+strconv.Itoa(c.Mode), nontrivial)
}

const (
	obTie  = "tie: scanner observable = model observable (tokens: kind, offset, length, line, column, decoded value; errors: line, column)"
	obSpec = "oracle: scanner = Lean reference lexer Spec.lexAll on valid UTF-8 (tokens and error verdict)"
	obGo   = "oracle (model-free): no crash, progress, tiling, positions, per-kind literal grammar, JSON string decoding, skip-ignored = filter"
)

func (h *harness) ask(c Case) string {
	if h.model == nil {
		return ""
	}
	elems, _, _ := decode(c.src())
	rep, err := h.model.Ask(requestLine(c.Mode, elems))
	if err != nil {
		fmt.Fprintln(os.Stderr, "model driver failed:", err)
		os.Exit(2)
	}
	return rep
}

func (h *harness) report(c Case, v verdict) {
	// shrink: drop elements (whole characters / invalid bytes) while the case still fails the same way
	cur, curV := c, v
	for changed := true; changed; {
		changed = false
		src := cur.src()
		for i := 0; i < len(src); {
			_, size := utf8.DecodeRune(src[i:])
			cand := mkCase(append(append([]byte{}, src[:i]...), src[i+size:]...), cur.Mode, cur.Family)
			if v2 := h.judge(cand, h.ask(cand), false); v2.kind == curV.kind {
				cur, curV, changed = cand, v2, true
				break
			}
			i += size
		}
	}
	what := fmt.Sprintf("%s (mode %d): %s", strconv.QuoteToASCII(string(cur.src())), cur.Mode, curV.what)
	h.run.Violate(curV.kind, what, "", curV.kind == "correspondence", cur)
}

func (h *harness) evalBatch(cases []Case) {
	if len(cases) == 0 {
		return
	}
	replies := make([]string, len(cases))
	if h.model != nil {
		lines := make([]string, len(cases))
		for i, c := range cases {
			elems, _, _ := decode(c.src())
			lines[i] = requestLine(c.Mode, elems)
		}
		var err error
		replies, err = h.model.AskAll(lines)
		if err != nil {
			fmt.Fprintln(os.Stderr, "model driver failed:", err)
			os.Exit(2)
		}
	}
	nTie, nSpec := 0, 0
	tieOK, specOK, goOK := true, true, true
	detTie, detSpec, detGo := "", "", ""
	for i, c := range cases {
		v := h.judge(c, replies[i], true)
		if h.model != nil {
			nTie++
			if utf8.Valid(c.src()) {
				nSpec++
			}
		}
		if v.kind == "" {
			continue
		}
		switch v.kind {
		case "correspondence":
			tieOK = false
			detTie = v.what
		case "crash":
			goOK = false
			detGo = v.what
		default:
			if strings.Contains(v.what, "grammar") {
				specOK = false
				detSpec = v.what
			} else {
				goOK = false
				detGo = v.what
			}
			if v.mod != "" && v.mod != v.real {
				tieOK = false
				detTie = "scanner and model disagree on " + c.Text
			}
		}
		// shrink and report the first few failures of each kind; the rest is only counted
		if h.reported[v.kind] < 4 {
			h.reported[v.kind]++
			h.report(c, v)
		} else {
			h.run.Count("further-failing-cases:" + v.kind)
		}
	}
	h.run.Oblige(obTie, "correspondence", nTie, tieOK, detTie)
	h.run.Oblige(obSpec, "oracle", nSpec, specOK, detSpec)
	h.run.Oblige(obGo, "oracle", len(cases), goOK, detGo)
}

// ---- generators -----------------------------------------------------------------------------------

type batcher struct {
	h     *harness
	cases []Case
	n     int
}

func (b *batcher) add(src []byte, mode int, family string) {
	b.cases = append(b.cases, mkCase(src, mode, family))
	b.n++
	if len(b.cases) >= 20000 {
		b.flush()
	}
}

func (b *batcher) flush() {
	b.h.evalBatch(b.cases)
	b.cases = b.cases[:0]
}

// words enumerates prefix+w+suffix for every w over alphabet with minLen ≤ |w| ≤ maxLen.
func words(b *batcher, family string, alphabet []string, minLen, maxLen int, prefix, suffix string, mode func(n int) int) {
	idx := make([]int, maxLen)
	for n := minLen; n <= maxLen; n++ {
		for i := range idx {
			idx[i] = 0
		}
		for {
			var sb strings.Builder
			sb.WriteString(prefix)
			for i := 0; i < n; i++ {
				sb.WriteString(alphabet[idx[i]])
			}
			sb.WriteString(suffix)
			b.add([]byte(sb.String()), mode(b.n), family)
			k := n - 1
			for k >= 0 {
				idx[k]++
				if idx[k] < len(alphabet) {
					break
				}
				idx[k] = 0
				k--
			}
			if k < 0 {
				break
			}
		}
	}
}

var dense = []string{`"`, `\`, "u", "n", "0", "1", "a", "e", "E", "_", ".", "-", "+", " ", "\t", "\n", "\r", "#", ",", "{", "$",
	"\ufffd", "\ufeff", "\u00e9", "\U0001F600", "\u0001"}

func randomToken(r *hx.Rand) string {
	names := []string{"a", "_", "query", "e", "E1", "x_9", "true", "null", "u00e9", "n", "z", "Z", "A", "azAZ_09", "_0"}
	punct := []string{"!", "$", "(", ")", "...", ":", "=", "@", "[", "]", "{", "|", "}"}
	digits := func(n int) string {
		var sb strings.Builder
		for i := 0; i < n; i++ {
			sb.WriteByte(byte('0' + r.Intn(10)))
		}
		return sb.String()
	}
	intPart := func() string {
		s := ""
		if r.Chance(1, 3) {
			s = "-"
		}
		if r.Chance(1, 4) {
			return s + "0"
		}
		return s + string(rune('1'+r.Intn(9))) + digits(r.Intn(4))
	}
	strChars := []string{"a", "b", " ", "é", "\ufffd", "\ufeff", "#", ",", "'", "\t", "/", "\uffff", "\u2028", "\u0122", "\u015c", "\u010a", "\u0431"}
	esc := []string{`\"`, `\\`, `\/`, `\b`, `\f`, `\n`, `\r`, `\t`, `\u0041`, `\u00e9`, `\uFFFF`, `\u0000`, `\uD800`, `\udfff`, `\u12aB`,
		"\\u004\u0131", "\\u\u0430041", "\\\u016e", "\\\u0175", "\\u00\U0001f631" + "1", "\\\u0122"}
	switch r.Intn(16) {
	case 0, 1:
		return hx.Pick(r, names)
	case 2, 3:
		return hx.Pick(r, punct)
	case 4:
		return intPart()
	case 5:
		s := intPart()
		if r.Bool() {
			s += "." + digits(1+r.Intn(3))
		}
		if r.Bool() || !strings.Contains(s, ".") {
			s += hx.Pick(r, []string{"e", "E"}) + hx.Pick(r, []string{"", "+", "-"}) + digits(1+r.Intn(3))
		}
		return s
	case 6, 7:
		var sb strings.Builder
		sb.WriteByte('"')
		for i, n := 0, r.Intn(8); i < n; i++ {
			if r.Chance(1, 3) {
				sb.WriteString(hx.Pick(r, esc))
			} else {
				sb.WriteString(hx.Pick(r, strChars))
			}
		}
		sb.WriteByte('"')
		return sb.String()
	case 8, 9, 10:
		var sb strings.Builder
		sb.WriteString(`"""`)
		blk := []string{"a", "b", " ", " ", "  ", "\t", "\n", "\n", "\r", "\r\n", `"`, `""`, `\"""`, `\`, `\\`, `\n`, "é", "    ", "\n  ", "\n    ", "\n \t", "\ufeff"}
		for i, n := 0, r.Intn(12); i < n; i++ {
			sb.WriteString(hx.Pick(r, blk))
		}
		sb.WriteString(`"""`)
		return sb.String()
	case 11:
		return "#" + hx.Pick(r, []string{"", " c", "\"x", "é\ufffd", " a,b", "\ufeff", "\t#"})
	case 12:
		return hx.Pick(r, []string{" ", "\t", ",", "  ", " \t"})
	case 13:
		return hx.Pick(r, []string{"\n", "\r", "\r\n", "\n\r", "\r\r\n", "\n\n"})
	case 14:
		return hx.Pick(r, []string{"\ufeff", "\ufffd", "\u0001", "\U0001F600", "%", "~", "-", ".", "..", "+", "\\", "'", "?", "\u007f", "\u0000", "\v", "é",
			"\u0131", "\u0161", "\u0141", "\u015f", "\u0120", "\u010a", "\u010d", "\u012c", "\u017b", "\u0122", "\u0123", "\u012e", "\u012d", "\u0165", "\uff11", "\U00010031", "\U0001f661", "\u0431"})
	default:
		return hx.Pick(r, []string{"0", "00", "01", "1.", "1.e1", "1e", "1e+", "-", "-a", "1a", "1_", "0x1", ".5", "1..2", "1...2", "-0.0e-0", "0e0", `""`, `""""`, `"""""`, `""""""`, `"\u00"`, `"\u`, `"\`, `"`, `"""`, `"""\`})
	}
}

func randomText(r *hx.Rand, maxTokens int) []byte {
	var sb strings.Builder
	if r.Chance(1, 8) {
		sb.WriteString("\ufeff")
	}
	for i, n := 0, r.Range(1, maxTokens); i < n; i++ {
		sb.WriteString(randomToken(r))
		if r.Chance(1, 2) {
			sb.WriteString(hx.Pick(r, []string{" ", " ", "\n", "\r\n", "\r", ",", "\t", " # c\n"}))
		}
	}
	b := []byte(sb.String())
	// token-level noise: delete / duplicate / replace one character
	if r.Chance(1, 4) && len(b) > 0 {
		rs := []rune(string(b))
		i := r.Intn(len(rs))
		switch r.Intn(3) {
		case 0:
			rs = append(rs[:i], rs[i+1:]...)
		case 1:
			rs = append(rs[:i+1], rs[i:]...)
		default:
			rs[i] = []rune(hx.Pick(r, dense))[0]
		}
		b = []byte(string(rs))
	}
	return b
}

func malformed(r *hx.Rand) []byte {
	b := randomText(r, 6)
	junk := [][]byte{{0xff}, {0xc3}, {0xc3, 0x28}, {0xe2, 0x82}, {0xf0, 0x9f, 0x98}, {0xed, 0xa0, 0x80}, {0xc0, 0x80}, {0x80}, {0xf8, 0x88, 0x80, 0x80, 0x80}, {0xef, 0xbf}, {0xf4, 0x90, 0x80, 0x80}}
	for i, n := 0, r.Range(1, 3); i < n; i++ {
		at := r.Intn(len(b) + 1)
		j := hx.Pick(r, junk)
		b = append(append(append([]byte{}, b[:at]...), j...), b[at:]...)
	}
	if r.Chance(1, 5) {
		n := r.Range(1, 12)
		b = make([]byte, n)
		for i := range b {
			b[i] = byte(r.Intn(256))
		}
	}
	return b
}

// ---- main -----------------------------------------------------------------------------------------

func main() {
	run := hx.Init("C07")
	h := &harness{run: run, reported: map[string]int{}}
	if run.ModelPath != "" {
		m, err := hx.StartModel(run.ModelPath)
		if err != nil {
			fmt.Fprintln(os.Stderr, "cannot start model:", err)
			os.Exit(2)
		}
		h.model = m
		defer m.Close()
	}
	run.SetRule("source texts: exhaustive words over a 26-symbol lexically dense alphabet and over string / unicode-escape / block-string / indentation / number / line-terminator sub-alphabets, random token soups with one-character noise, and an invalid-UTF-8 stream; each through scanner.New(src, mode) and the Lean model + reference lexer; distinct = distinct (text, mode); non-trivial = the scanner reports an error, or yields a string/int/float token, or a token on a line > 1")

	// watchdog: a text on which the real scanner does not return is reported with its replay
	go func() {
		for {
			time.Sleep(time.Second)
			if t0 := caseStarted.Load(); t0 != 0 && time.Since(time.Unix(0, t0)) > 20*time.Second {
				c := currentCase.Load().(Case)
				run.Violate("crash", strconv.QuoteToASCII(string(c.src()))+": the scanner does not terminate (20 s)", "", false, c)
				run.Oblige(obGo, "oracle", 1, false, "scanner does not terminate on "+c.Text)
				run.Finish(nil)
				os.Exit(0)
			}
		}
	}()

	if run.Replay != "" {
		var lc layoutCase
		if hx.LoadReplayCase(run.Replay, &lc) == nil && len(lc.Docs) > 0 {
			h.replayLayout(lc)
			run.Finish(h.model)
			return
		}
		var c Case
		if err := hx.LoadReplayCase(run.Replay, &c); err != nil {
			fmt.Fprintln(os.Stderr, err)
			os.Exit(2)
		}
		v := h.judge(c, h.ask(c), true)
		fmt.Printf("replay %s mode %d\n scanner:   %s\n model:     %s\n reference: %s\n loose ref: %s\n verdict:   kind=%q %s\n", strconv.QuoteToASCII(string(c.src())), c.Mode, v.real, v.mod, v.spec, v.loose, v.kind, v.what)
		if v.kind != "" {
			run.Violate(v.kind, v.what, "", v.kind == "correspondence", c)
		}
		run.Finish(h.model)
		return
	}

	b := &batcher{h: h}
	for _, f := range run.CorpusFiles() {
		var c Case
		if hx.LoadReplayCase(f, &c) == nil && (c.SrcHex != "" || strings.Contains(f, "empty")) {
			c.Family = "corpus"
			if c.Text == "" {
				c.Text = strconv.QuoteToASCII(string(c.src()))
			}
			b.cases = append(b.cases, c)
			b.n++
		}
	}
	b.flush()

	all1 := func(int) int { return 1 }
	mixed := func(n int) int { // every fourth text also exercises the model in skip-ignored mode
		if n%4 == 3 {
			return 0
		}
		return 1
	}
	thorough := run.Thorough()
	// 1. the dense alphabet
	words(b, "dense", dense, 0, run.Scale(3, 4), "", "", mixed)
	// 2. quoted strings: after an opening quote
	strAlpha := []string{`"`, `\`, "u", "0", "A", "n", "\n", "z", "\u0001"}
	words(b, "string", strAlpha, 0, run.Scale(5, 6), `"`, "", all1)
	// 3. unicode escapes: "\uXXXX" with every combination of hex-ish symbols
	hexAlpha := []string{"0", "9", "a", "f", "A", "F", "g", "G", `"`, `\`, "D", "8"}
	words(b, "unicode-escape", hexAlpha, 4, 4, `"\u`, `"`, all1)
	if thorough {
		words(b, "unicode-escape", hexAlpha, 0, 3, `"\u`, `"`, all1)
		words(b, "unicode-escape", hexAlpha, 5, 5, `"\u`, ``, all1)
	}
	// 4. block strings: delimiters, backslashes, line ends
	blkAlpha := []string{`"`, `\`, " ", "\n", "\r", "a", "\u0001", "\t"}
	words(b, "block-string", blkAlpha, 0, run.Scale(5, 6), `"""`, "", all1)
	// 5. block strings: indentation and blank lines between complete delimiters
	indAlpha := []string{" ", "\t", "\n", "\r", "a"}
	words(b, "block-indent", indAlpha, 0, run.Scale(7, 9), `"""`, `"""`, all1)
	// 6. numbers
	numAlpha := []string{"-", "0", "1", "9", ".", "e", "E", "+", "a", " "}
	words(b, "number", numAlpha, 0, run.Scale(5, 6), "", "", mixed)
	// 7. line terminators and positions
	ltAlpha := []string{"\n", "\r", "a", " ", "#", `"`, ","}
	words(b, "line-terminator", ltAlpha, 0, run.Scale(5, 7), "", "", mixed)
	// 8. range boundaries: names and digits with the characters just outside [_A-Za-z0-9]
	nameAlpha := []string{"a", "z", "A", "Z", "_", "0", "9", "@", "[", "`", "{", "/", ":"}
	words(b, "name-boundary", nameAlpha, 0, run.Scale(4, 5), "", "", mixed)
	// 9. every pair of ASCII characters (punctuator set, stray characters), alone and after a token
	ascii := make([]string, 128)
	for i := range ascii {
		ascii[i] = string(rune(i))
	}
	words(b, "ascii-pairs", ascii, 1, 2, "", "", mixed)
	words(b, "ascii-after-name", ascii, 1, 1, "a", "b", all1)
	// 10. every ASCII character after a backslash, in quoted and block strings; hex digit boundaries
	words(b, "escape-ascii", ascii, 1, 1, `"\`, `"`, all1)
	words(b, "escape-ascii", ascii, 1, 1, `"""\`, `"""`, all1)
	hexEdge := []string{"/", "0", "9", ":", "@", "A", "F", "G", "`", "a", "f", "g"}
	words(b, "unicode-escape-boundary", hexEdge, 4, 4, `"\u`, `"`, all1)
	// 11. SourceCharacter boundaries inside and outside strings and comments
	srcEdge := []string{"\u001f", " ", "\u007f", "\u000b", "\u000c", "\uffff", "\U00010000", "\ufffd", "\ufeff", "a", "\n"}
	for i, e := range srcEdge {
		if u, err := strconv.Unquote(`"` + e + `"`); err == nil {
			srcEdge[i] = u
		}
	}
	for _, pre := range []string{"", `"`, "#", `"""`, `"\`, `"""\`} {
		words(b, "source-boundary", srcEdge, 1, 3, pre, "", all1)
	}
	// 12. truncation aliases: for every ASCII character a the runes a+0x100, a+0x400, a+0x10000 and a+0x1F600
	// (congruent to a modulo 2^8, the third also modulo 2^16) in every position where the scanner tests
	// an ASCII class — a table lookup or a narrowing conversion must not take them for a
	aliasContexts := [][2]string{
		{"", ""}, {"a", ""}, {"", "a"}, {"a", "b"}, {"1", ""}, {"1", "5"}, {"-", ""}, {"-", "1"}, {"1.", ""}, {"1.", "5"}, {"1", ".5"},
		{"1e", ""}, {"1e", "5"}, {"1", "+5"}, {"1e+", ""}, {"1.5", "3"}, {"..", ""}, {"", ".."}, {".", "."},
		{`"`, `"`}, {`"\`, `"`}, {`"\u004`, `"`}, {`"\u`, `041"`}, {`"\u0`, `41"`}, {`"\u00`, `1"`}, {`"a`, ""}, {"", `a"`}, {`"`, `""`}, {`""`, `"`}, {"", `""x"""`},
		{`"""`, `"""`}, {`"""\`, `"""`}, {`"""a""`, ""}, {`"""a`, `""`}, {`"""\"`, `""x"""`}, {`"""\""`, `"x"""`}, {"\"\"\"\n  a\n", "  b\n\"\"\""}, {"\"\"\"a", "b\"\"\""},
		{"#", "\nx"}, {"#c", "x"}, {"a", "#c"}, {"\r", "x"}, {"", "\nx"}, {"{", "}"}, {"\ufeff", "a"},
	}
	for a := 0; a < 128; a++ {
		for _, off := range []int{0, 0x80, 0x100, 0x400, 0x10000, 0x1F600} { // 0: every ASCII character itself (bit-folding tests: r|0x20, r&^0x20, r^0x30 …); 0x80: Latin-1
			r := string(rune(a + off))
			for _, c := range aliasContexts {
				b.add([]byte(c[0]+r+c[1]), mixed(b.n), "truncation-alias")
			}
		}
	}
	// Unicode look-alikes of the ASCII classes (digits, letters, spaces, line separators, quotes, backslash)
	for _, r := range []string{"\uff10", "\uff19", "\u0660", "\u0669", "\u00b2", "\uff21", "\uff5a", "\uff3f", "\u00aa", "\u0131", "\u0430", "\u0441",
		"\u00a0", "\u3000", "\u2000", "\u1680", "\u0085", "\u2028", "\u2029", "\uff02", "\u201c", "\uff3c", "\uff0c", "\uff0e", "\uff0d", "\uff0b", "\uff03", "\U0001f631", "\U00010030", "\U0001d7ce"} {
		for _, c := range aliasContexts {
			b.add([]byte(c[0]+r+c[1]), mixed(b.n), "unicode-lookalike")
		}
	}
	b.flush()
	run.SetExhaustive(true)
	run.Note("exhaustive parts: dense^≤%d, \"·string^≤%d, \"\\u·hex^4·\", \"\"\"·block^≤%d, \"\"\"·indent^≤%d·\"\"\", number^≤%d, lineterm^≤%d, name-boundary^≤%d, ascii^≤2, a·ascii·b, backslash·ascii in both string kinds, \\u·hexedge^4, {,\",#,\"\"\",\"\\,\"\"\"\\}·srcedge^≤3 (%d texts)",
		run.Scale(3, 4), run.Scale(5, 6), run.Scale(5, 6), run.Scale(7, 9), run.Scale(5, 6), run.Scale(5, 7), run.Scale(4, 5), b.n)

	// 12b. a quoted string whose decoded value BlockStringValue would change, after one or two block strings
	// (and other tokens) — for the reading-discipline oracle (discipline.go)
	for _, blk := range []string{`""""""`, `"""a"""`, "\"\"\"\n  a\n   b\n\"\"\"", `"""\""""""`} {
		for _, sep := range []string{"", " ", "\n", ",x ", " 1 ", `"q"`, ` """z""" `} {
			for _, q := range []string{`"\n"`, `"\r"`, `"a\r\nb"`, `"\n  a\n  b\n"`, `" \n\n x \n "`, `"\t\n a"`, `"  a\n b"`, `"\u000a \u000d"`, `"a"`, `""`} {
				for _, tail := range []string{"", " " + q, "\n" + blk + q} {
					b.add([]byte(blk+sep+q+tail), mixed(b.n), "string-after-block")
				}
			}
		}
	}
	// 13. parser route: valid documents with lexical junk between any two tokens and after the last one (parse.go)
	h.runJunkDocuments(b)
	// 13b. layouts: lexeme sequences under two random layouts each (layout.go)
	h.runLayouts(b, run.Scale(6000, 80000))
	// 14. random longer texts
	for i, n := 0, run.Scale(20000, 300000); i < n; i++ {
		r := run.Rand.Fork()
		src := randomText(r, run.Scale(14, 30))
		mode := 1
		if r.Chance(1, 4) {
			mode = 0
		}
		b.add(src, mode, "random")
		if i < 3 {
			run.Sample(mkCase(src, mode, "random"))
		}
	}
	// 15. invalid UTF-8
	for i, n := 0, run.Scale(5000, 60000); i < n; i++ {
		r := run.Rand.Fork()
		src := malformed(r)
		b.add(src, 1, "malformed")
		if i < 2 {
			run.Sample(mkCase(src, 1, "malformed"))
		}
	}
	b.flush()
	run.Finish(h.model)
}
