// Reading disciplines (C07 harness): a token's decoded value must not depend on which accessors the caller
// used on earlier tokens. The ordinary pass reads Token/Literal/StringValue/Position of every token in
// order; here the same text is scanned again while reading StringValue() only on some string tokens
// (every second one from the first / from the second, only the last, none but the last non-string), or
// twice, or before / after the other accessors — every value read must equal the full pass's value for
// that token. (Seed C07-16: block strings dedented lazily in StringValue(); a skipped read leaked the
// pending BlockStringValue onto the next quoted string.)
package main

import (
	"fmt"
	"strconv"

	"github.com/ccbrown/api-fu/graphql/scanner"
	"github.com/ccbrown/api-fu/graphql/token"
)

const obDiscipline = "oracle (model-free): decoded values are independent of the reading discipline (StringValue read on a subset of tokens, twice, before/after other accessors)"

// disciplineOracle re-scans c under several disciplines; full is the ordinary pass (same mode).
func disciplineOracle(c Case, full obs) string {
	nStr := 0
	for _, t := range full.Toks {
		if t.Kind == int(token.STRING_VALUE) {
			nStr++
		}
	}
	if nStr == 0 || full.Panic != "" || full.Stuck {
		return ""
	}
	src := c.src()
	mode := scanner.Mode(0)
	if c.Mode == 1 {
		mode = scanner.ScanIgnored
	}
	type discipline struct {
		name string
		read func(i, strIdx int, isStr bool) int // how many times to read StringValue on token i (strIdx-th string token)
	}
	ds := []discipline{
		{"StringValue read twice on every token", func(i, k int, s bool) int { return 2 }},
		{"StringValue read only on non-string tokens and the last string token", func(i, k int, s bool) int {
			if !s || k == nStr-1 {
				return 1
			}
			return 0
		}},
	}
	if nStr >= 2 {
		ds = append(ds,
			discipline{"StringValue read only on every second string token (2nd, 4th, …)", func(i, k int, s bool) int {
				if s && k%2 == 1 {
					return 1
				}
				return 0
			}},
			discipline{"StringValue read only on every second string token (1st, 3rd, …)", func(i, k int, s bool) int {
				if s && k%2 == 0 {
					return 1
				}
				return 0
			}},
			discipline{"StringValue read only on the last string token", func(i, k int, s bool) int {
				if s && k == nStr-1 {
					return 1
				}
				return 0
			}})
	}
	for _, d := range ds {
		msg := func() (msg string) {
			defer func() {
				if p := recover(); p != nil {
					msg = fmt.Sprintf("panic under discipline %q: %v", d.name, p)
				}
			}()
			s := scanner.New(src, mode)
			k := 0
			for i := 0; s.Scan(); i++ {
				if i >= len(full.Toks) {
					return fmt.Sprintf("discipline %q: more tokens than the full pass", d.name)
				}
				want := full.Toks[i]
				isStr := s.Token() == token.STRING_VALUE
				for n := d.read(i, k, isStr); n > 0; n-- {
					if v := s.StringValue(); v != want.Value {
						return fmt.Sprintf("token %d (%s): StringValue is %s when every token's value is read in order, but %s under the discipline %q", i, strconv.QuoteToASCII(want.Literal), strconv.QuoteToASCII(want.Value), strconv.QuoteToASCII(v), d.name)
					}
				}
				if int(s.Token()) != want.Kind || s.Literal() != want.Literal || s.Position().Line != want.Line || s.Position().Column != want.Col {
					return fmt.Sprintf("token %d differs from the full pass under the discipline %q", i, d.name)
				}
				if isStr {
					k++
				}
			}
			return ""
		}()
		if msg != "" {
			return msg
		}
	}
	return ""
}
