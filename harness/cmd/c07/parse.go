// Parser route of the C07 harness: the scanner's verdict and decoded values as they reach users of
// parser.ParseDocument / parser.ParseValue (the property's observe_at names the parser route).
//
//	(parse-error)  every text on which the scanner reports a lexical error makes ParseDocument report at
//	               least one error — "always produce an error, never a silently different value" must
//	               hold at the entry point applications use, not only at scanner.Errors();
//	(parse-exact)  family document+junk: an otherwise valid document with stray characters, lone `.`/`..`,
//	               a misplaced BOM, U+FFFD, control / supplementary characters (also inside a comment)
//	               inserted between any two tokens, before the first and after the last one (with and
//	               without trailing trivia): the scanner skips them, so the parser sees the clean token
//	               stream and its error list must be exactly the scanner's errors, position by position;
//	(parse-value)  a text that is one error-free String / Int / Float token (plus ignored tokens) parses
//	               through ParseValue to a node carrying exactly the scanner's decoded value / literal.
package main

import (
	"fmt"
	"strconv"
	"strings"

	"github.com/ccbrown/api-fu/graphql/ast"
	"github.com/ccbrown/api-fu/graphql/parser"
	"github.com/ccbrown/api-fu/graphql/token"
)

const obParse = "oracle (parser route): lexical error ⇒ ParseDocument reports an error; document+junk: parser errors = scanner errors; single value token: ParseValue carries the scanner's decoded value"

func parseDocumentErrs(src []byte) (locs [][2]int, panicked bool) {
	defer func() {
		if recover() != nil {
			panicked = true // crash-freedom of the parser is C03/C06's business
		}
	}()
	_, errs := parser.ParseDocument(src)
	for _, e := range errs {
		locs = append(locs, [2]int{e.Location.Line, e.Location.Column})
	}
	return
}

// parserOracle is evaluated on every case (mode 1 run of the real scanner in o).
func (h *harness) parserOracle(c Case, o obs) string {
	src := c.src()
	if len(o.Errs) > 0 {
		locs, panicked := parseDocumentErrs(src)
		if panicked {
			h.run.Count("parser:panic-ignored")
		} else if len(locs) == 0 {
			return fmt.Sprintf("the scanner reports lexical errors [%s] but parser.ParseDocument reports no error at all", errsStr(o.Errs))
		}
		return ""
	}
	// one value token?
	var val *tokObs
	n := 0
	for i := range o.Toks {
		if !token.Token(o.Toks[i].Kind).IsIgnored() {
			n++
			val = &o.Toks[i]
		}
	}
	if n != 1 {
		return ""
	}
	var v ast.Value
	var errs []*parser.Error
	panicked := false
	func() {
		defer func() {
			if recover() != nil {
				panicked = true
			}
		}()
		v, errs = parser.ParseValue(src)
	}()
	if panicked {
		h.run.Count("parser:panic-ignored")
		return ""
	}
	switch token.Token(val.Kind) {
	case token.STRING_VALUE:
		sv, ok := v.(*ast.StringValue)
		if len(errs) != 0 || !ok {
			return fmt.Sprintf("error-free string token %s does not parse as a StringValue through ParseValue (%d errors)", strconv.QuoteToASCII(val.Literal), len(errs))
		}
		if sv.Value != val.Value {
			return fmt.Sprintf("ParseValue gives the string %s, the scanner decoded %s", strconv.QuoteToASCII(sv.Value), strconv.QuoteToASCII(val.Value))
		}
		h.run.Count("parser:value-checked")
	case token.INT_VALUE:
		iv, ok := v.(*ast.IntValue)
		if len(errs) != 0 || !ok || iv.Value != val.Literal {
			return fmt.Sprintf("error-free Int token %q does not reach ParseValue as an IntValue with that literal", val.Literal)
		}
		h.run.Count("parser:value-checked")
	case token.FLOAT_VALUE:
		fv, ok := v.(*ast.FloatValue)
		if len(errs) != 0 || !ok || fv.Value != val.Literal {
			return fmt.Sprintf("error-free Float token %q does not reach ParseValue as a FloatValue with that literal", val.Literal)
		}
		h.run.Count("parser:value-checked")
	}
	return ""
}

var junkDocs = []string{
	"{a}",
	"{a b}",
	"query Q($v:Int=1){a(x:\"s\",y:[1,2.5e3,true,null,E,{k:$v}])@d ...F ...on T{b}}",
	"fragment F on T{a}",
	"{a(s:\"\"\"b\n  c \\\"\"\" d\"\"\") e}",
	"{\r\n  a # c\r\n  b\r}\n",
	"mutation{m(i:-0.5)} subscription S{s}",
	"\ufeff{a,b}",
}

var junkPieces = []string{"?", "%", "~", ".", "..", "\\", "'", "^", "\ufeff", "\ufffd", "\u0001", "\u007f\u0000", "\U0001F600", "\U00010041",
	"#\u0001\n", "# \U0001F600\n", "#\u000b", "? ?", ". %"}

// runJunkDocuments generates the document+junk family and evaluates (parse-exact).
func (h *harness) runJunkDocuments(b *batcher) {
	run := h.run
	n, ok, det := 0, true, ""
	for _, doc := range junkDocs {
		if locs, p := parseDocumentErrs([]byte(doc)); p || len(locs) != 0 {
			run.Count("parser:junk-document-not-clean") // then only the generic oracles apply
			continue
		}
		o, _, _ := runReal(mkCase([]byte(doc), 1, "document+junk"))
		cuts := map[int]bool{0: true, len(doc): true}
		for _, t := range o.Toks {
			if t.ByteOff >= 0 {
				cuts[t.ByteOff] = true
				cuts[t.ByteOff+t.ByteLen] = true
			}
		}
		for cut := range cuts {
			if cut == 0 && strings.HasPrefix(doc, "\ufeff") {
				continue // in front of a leading BOM the BOM itself becomes the misplaced one
			}
			for _, junk := range junkPieces {
				var variants []string
				if cut == len(doc) {
					variants = []string{junk, " " + junk, junk + " ", " " + junk + " \n", "\n" + junk + "\n", ",\t" + junk + "\r\n#c"}
				} else {
					variants = []string{" " + junk + " "}
				}
				for _, v := range variants {
					if strings.HasPrefix(junk, "#") && !strings.HasSuffix(junk, "\n") {
						v += "\n"
					}
					text := doc[:cut] + v + doc[cut:]
					b.add([]byte(text), 1, "document+junk")
					so, _, _ := runReal(mkCase([]byte(text), 0, "document+junk"))
					plocs, panicked := parseDocumentErrs([]byte(text))
					if panicked || so.Panic != "" {
						run.Count("parser:panic-ignored")
						continue
					}
					n++
					if len(so.Errs) == 0 {
						run.Count("parser:junk-without-lexical-error") // junk appended to a comment, e.g.; U+FEFF inserted where it is legal
						continue
					}
					if errsStr(plocs) != errsStr(so.Errs) {
						ok = false
						det = fmt.Sprintf("%s: the scanner reports errors at [%s], parser.ParseDocument at [%s] (the document without the junk parses without error)", strconv.QuoteToASCII(text), errsStr(so.Errs), errsStr(plocs))
						if h.reported["parse-exact"] < 3 {
							h.reported["parse-exact"]++
							run.Violate("property", det, "", false, mkCase([]byte(text), 1, "document+junk"))
						} else {
							run.Count("further-failing-cases:parse-exact")
						}
					}
				}
			}
		}
	}
	run.Oblige(obParse, "oracle", n, ok, det)
}
