// Layout stream of the C07 harness (PropsLayout.lean: layout_scan, layout_insensitive).
//
// A random sequence of lexemes (punctuators, names, ints, floats, quoted and block strings) is rendered
// under two random layouts: optional leading BOM, random trivia (space, tab, comma, LF, CR, CRLF,
// #comment) before the first lexeme and after every lexeme — often none at all, also where the two
// neighbours fuse. Each layout is sent to the Lean driver (`D …`), which decides `Doc.WF` (lexemes
// well-formed, trivia well-formed, neighbours `separated` by the fusing table) and renders the text
// with `Layout.render`. Checked:
//
//	(render)  Lean's rendering = the harness's rendering of the same layout;
//	(layout)  for every layout Lean accepts: the real scanner (mode 0) reports no error and yields
//	          exactly the lexemes — kind, Literal(), StringValue() — hence two accepted layouts of one
//	          sequence give the parser the same token stream (positions excepted);
//	(tie)     every rendered text also goes through the ordinary tie and oracles (family "layout").
//
// Kind and value of a lexeme are taken from the real scanner run on the lexeme alone; Lean's WF check
// compares them with the reference lexer.
package main

import (
	"fmt"
	"os"
	"strconv"
	"strings"

	"github.com/ccbrown/api-fu/graphql/scanner"
	"github.com/ccbrown/api-fu/graphql/token"

	"verifharness/hx"
)

type lexeme struct {
	Kind  int
	Text  string
	Value string
}

type titem struct {
	Code string // s t c n r rn #
	Body string // comment body
}

func (t titem) text() string {
	switch t.Code {
	case "s":
		return " "
	case "t":
		return "\t"
	case "c":
		return ","
	case "n":
		return "\n"
	case "r":
		return "\r"
	case "rn":
		return "\r\n"
	}
	return "#" + t.Body
}

type layoutDoc struct {
	BOM    bool
	Lead   []titem
	Trivia [][]titem // after each lexeme
}

func dots(s string) string {
	rs := []rune(s)
	parts := make([]string, len(rs))
	for i, r := range rs {
		parts[i] = strconv.Itoa(int(r))
	}
	return strings.Join(parts, ".")
}

func (d layoutDoc) render(lx []lexeme) string {
	var sb strings.Builder
	if d.BOM {
		sb.WriteString("\ufeff")
	}
	for _, t := range d.Lead {
		sb.WriteString(t.text())
	}
	for i, x := range lx {
		sb.WriteString(x.Text)
		for _, t := range d.Trivia[i] {
			sb.WriteString(t.text())
		}
	}
	return sb.String()
}

func (d layoutDoc) request(lx []lexeme) string {
	var sb strings.Builder
	sb.WriteString("D ")
	if d.BOM {
		sb.WriteString("1")
	} else {
		sb.WriteString("0")
	}
	item := func(t titem) {
		sb.WriteByte(' ')
		if t.Code == "#" {
			sb.WriteString("#:" + dots(t.Body))
		} else {
			sb.WriteString(t.Code)
		}
	}
	for _, t := range d.Lead {
		item(t)
	}
	for i, x := range lx {
		fmt.Fprintf(&sb, " K%d:%s:%s", x.Kind, dots(x.Text), dots(x.Value))
		for _, t := range d.Trivia[i] {
			item(t)
		}
	}
	return sb.String()
}

// scanAlone runs the real scanner on one lexeme text: it must be exactly one non-ignored token.
func scanAlone(text string) (lexeme, bool) {
	s := scanner.New([]byte(text), 0)
	if !s.Scan() {
		return lexeme{}, false
	}
	x := lexeme{Kind: int(s.Token()), Text: text}
	if s.Token() == token.STRING_VALUE {
		x.Value = s.StringValue()
	}
	if s.Literal() != text || s.Scan() || len(s.Errors()) != 0 {
		return lexeme{}, false
	}
	return x, true
}

func randomLexemeText(r *hx.Rand) string {
	digits := func(n int) string {
		var sb strings.Builder
		for i := 0; i < n; i++ {
			sb.WriteByte(byte('0' + r.Intn(10)))
		}
		return sb.String()
	}
	intPart := func() string {
		s := ""
		if r.Chance(1, 3) {
			s = "-"
		}
		if r.Chance(1, 3) {
			return s + "0"
		}
		return s + string(rune('1'+r.Intn(9))) + digits(r.Intn(3))
	}
	switch r.Intn(12) {
	case 0, 1:
		return hx.Pick(r, []string{"!", "$", "(", ")", "...", ":", "=", "@", "[", "]", "{", "|", "}"})
	case 2, 3, 4:
		return hx.Pick(r, []string{"a", "e", "E", "_", "e5", "E1", "query", "x_9", "Z", "_0", "true", "n"})
	case 5, 6:
		return intPart()
	case 7, 8:
		s := intPart()
		k := r.Intn(3)
		if k != 1 {
			s += "." + digits(1+r.Intn(2))
		}
		if k != 0 {
			s += hx.Pick(r, []string{"e", "E"}) + hx.Pick(r, []string{"", "+", "-"}) + digits(1+r.Intn(2))
		}
		return s
	case 9, 10:
		var sb strings.Builder
		sb.WriteByte('"')
		for i, n := 0, r.Intn(4); i < n; i++ {
			sb.WriteString(hx.Pick(r, []string{"a", " ", "#", ",", `\"`, `\\`, `\n`, `A`, "é", "\t"}))
		}
		sb.WriteByte('"')
		return sb.String()
	default:
		var sb strings.Builder
		sb.WriteString(`"""`)
		for i, n := 0, r.Intn(5); i < n; i++ {
			sb.WriteString(hx.Pick(r, []string{"a", " ", "\n", "\r\n", `"`, `\"""`, `\`, "  ", "# c", ","}))
		}
		sb.WriteString(`"""`)
		return sb.String()
	}
}

func randomTrivia(r *hx.Rand, last, alwaysRepair bool) []titem {
	if r.Chance(2, 5) {
		return nil
	}
	var out []titem
	for i, n := 0, 1+r.Intn(4); i < n; i++ {
		switch r.Intn(9) {
		case 0, 1:
			out = append(out, titem{Code: "s"})
		case 2:
			out = append(out, titem{Code: "t"})
		case 3:
			out = append(out, titem{Code: "c"})
		case 4:
			out = append(out, titem{Code: "n"})
		case 5:
			out = append(out, titem{Code: "r"})
		case 6:
			out = append(out, titem{Code: "rn"})
		default:
			out = append(out, titem{Code: "#", Body: hx.Pick(r, []string{"", " c", "\"", " a b", "\t#", "é", "1e"})})
		}
	}
	// mostly repair what would make the trivia ill-formed (sometimes leave it: Lean must then reject it)
	if r.Chance(9, 10) || alwaysRepair {
		var fixed []titem
		for i, t := range out {
			fixed = append(fixed, t)
			nextIsLT := i+1 < len(out) && (out[i+1].Code == "n" || out[i+1].Code == "r" || out[i+1].Code == "rn")
			if t.Code == "#" && !nextIsLT && !(last && i == len(out)-1) {
				fixed = append(fixed, titem{Code: hx.Pick(r, []string{"n", "r", "rn"})})
			}
			if t.Code == "r" && i+1 < len(out) && out[i+1].Code == "n" {
				fixed = append(fixed, titem{Code: "s"})
			}
		}
		out = fixed
	}
	return out
}

func randomLayout(r *hx.Rand, n int, separatedOnly bool) layoutDoc {
	d := layoutDoc{BOM: r.Chance(1, 4), Lead: randomTrivia(r, n == 0, separatedOnly)}
	for i := 0; i < n; i++ {
		tr := randomTrivia(r, i == n-1, separatedOnly)
		if separatedOnly && len(tr) == 0 && i < n-1 {
			tr = []titem{{Code: hx.Pick(r, []string{"s", "c", "n"})}}
		}
		d.Trivia = append(d.Trivia, tr)
	}
	return d
}

const obLayout = "oracle: layouts accepted by Lean's Doc.WF give exactly the lexemes (kind, Literal, StringValue), without error — two layouts of one sequence give the same parser token stream"
const obRender = "tie: harness rendering of a layout = Layout.render in Lean"

type layoutCase struct {
	Lexemes []lexeme    `json:"lexemes"`
	Docs    []layoutDoc `json:"layouts"`
}

// layoutVerdict is the outcome of one lexeme sequence under its layouts.
type layoutVerdict struct {
	accepted         int
	layoutBad        string
	renderBad        string
	lines            []string
	texts, got, lean []string
}

func scanStream(text string) (string, int) {
	s := scanner.New([]byte(text), 0)
	var got []string
	for s.Scan() {
		v := ""
		if s.Token() == token.STRING_VALUE {
			v = s.StringValue()
		}
		got = append(got, fmt.Sprintf("%d:%q:%q", int(s.Token()), s.Literal(), v))
		if len(got) > len(text)+1 {
			break
		}
	}
	return strings.Join(got, " "), len(s.Errors())
}

// checkLayout evaluates one case. replies are the driver's answers to the case's `D` lines (nil = no model).
func (h *harness) checkLayout(c layoutCase, replies []string, b *batcher) (v layoutVerdict) {
	run := h.run
	var want []string
	for _, x := range c.Lexemes {
		want = append(want, fmt.Sprintf("%d:%q:%q", x.Kind, x.Text, x.Value))
	}
	w := strings.Join(want, " ")
	var streams []string
	for k, d := range c.Docs {
		text := d.render(c.Lexemes)
		line := d.request(c.Lexemes)
		v.lines = append(v.lines, line)
		v.texts = append(v.texts, text)
		wf := true
		if replies != nil {
			v.lean = append(v.lean, replies[k])
			parts := strings.SplitN(replies[k], "|", 2)
			if len(parts) != 2 {
				v.renderBad = "unexpected driver reply " + replies[k]
				continue
			}
			wf = parts[0] == "1"
			if parts[1] != dots(text) {
				v.renderBad = fmt.Sprintf("layout %s: Lean renders %s, harness renders %s", line, parts[1], dots(text))
				continue
			}
		}
		if b != nil {
			b.add([]byte(text), k%2, "layout") // the ordinary tie and oracles, alternating modes
		}
		g, nerr := scanStream(text)
		v.got = append(v.got, fmt.Sprintf("[%s] errors=%d", g, nerr))
		if !wf {
			run.Count("layout:rejected-by-Doc.WF")
			if g == w && nerr == 0 {
				run.Count("layout:rejected-yet-same-token-stream")
			}
			continue
		}
		run.Count("layout:accepted-by-Doc.WF")
		for i := range c.Lexemes {
			if i < len(c.Lexemes)-1 && len(d.Trivia[i]) == 0 {
				run.Count("layout:accepted-with-adjacent-lexemes")
				break
			}
		}
		v.accepted++
		streams = append(streams, g)
		if g != w || nerr != 0 {
			v.layoutBad = fmt.Sprintf("layout %s accepted by Doc.WF: scanner gives [%s] with %d errors, the lexemes are [%s]", strconv.QuoteToASCII(text), g, nerr, w)
		}
	}
	if len(streams) == 2 {
		run.Count("layout:both-layouts-accepted")
		if streams[0] != streams[1] {
			v.layoutBad = fmt.Sprintf("two accepted layouts of one lexeme sequence give different token streams: [%s] vs [%s]", streams[0], streams[1])
		}
	}
	return
}

// replayLayout re-runs one recorded layout case and prints both sides.
func (h *harness) replayLayout(c layoutCase) {
	var replies []string
	if h.model != nil {
		for _, d := range c.Docs {
			rep, err := h.model.Ask(d.request(c.Lexemes))
			if err != nil {
				fmt.Fprintln(os.Stderr, "model driver failed:", err)
				os.Exit(2)
			}
			replies = append(replies, rep)
		}
	}
	v := h.checkLayout(c, replies, nil)
	for k := range c.Docs {
		fmt.Printf("layout %d: %s\n text:    %s\n scanner: %s\n", k, v.lines[k], strconv.QuoteToASCII(v.texts[k]), v.got[k])
		if k < len(v.lean) {
			fmt.Printf(" lean (Doc.WF|render): %s\n", v.lean[k])
		}
	}
	fmt.Printf(" verdict: layout=%q render=%q\n", v.layoutBad, v.renderBad)
	if v.layoutBad != "" {
		h.run.Violate("property", v.layoutBad, "", false, c)
	}
	if v.renderBad != "" {
		h.run.Violate("correspondence", v.renderBad, "", true, c)
	}
}

// runLayouts generates n lexeme sequences with two layouts each.
func (h *harness) runLayouts(b *batcher, n int) {
	run := h.run
	var cases []layoutCase
	var lines []string
	for i := 0; i < n; i++ {
		r := run.Rand.Fork()
		var lx []lexeme
		for j, m := 0, r.Range(1, 8); j < m; j++ {
			if x, ok := scanAlone(randomLexemeText(r)); ok {
				lx = append(lx, x)
			} else {
				run.Count("layout:lexeme-generator-rejected")
			}
		}
		c := layoutCase{Lexemes: lx}
		for k := 0; k < 2; k++ {
			// without the model only layouts with trivia everywhere are used (well-formed by construction)
			d := randomLayout(r, len(lx), h.model == nil)
			c.Docs = append(c.Docs, d)
			lines = append(lines, d.request(lx))
		}
		cases = append(cases, c)
		if i < 2 {
			run.Sample(c)
		}
	}
	var replies []string
	if h.model != nil {
		var err error
		replies, err = h.model.AskAll(lines)
		if err != nil {
			fmt.Fprintln(os.Stderr, "model driver failed:", err)
			os.Exit(2)
		}
	}
	nAccepted, okLayout, okRender := 0, true, true
	detLayout, detRender := "", ""
	for ci, c := range cases {
		var rep []string
		if replies != nil {
			rep = replies[2*ci : 2*ci+2]
		}
		v := h.checkLayout(c, rep, b)
		nAccepted += v.accepted
		if v.layoutBad != "" {
			okLayout, detLayout = false, v.layoutBad
			run.Violate("property", v.layoutBad, "", false, c)
		}
		if v.renderBad != "" {
			okRender, detRender = false, v.renderBad
			run.Violate("correspondence", v.renderBad, "", true, c)
		}
	}
	run.Oblige(obLayout, "oracle", nAccepted, okLayout, detLayout)
	if replies != nil {
		run.Oblige(obRender, "correspondence", len(lines), okRender, detRender)
	}
}
