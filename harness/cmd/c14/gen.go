package main

// Document generator: valid by construction against the schema of schema.go (unique aliases, typed
// fragment spreads, acyclic fragments, every fragment and variable used), with multiplier chains
// through fragments spread at several depths, inline fragments, several operations, variables with
// and without defaults, context-passing fields, and values at the 64-bit boundary.

import (
	"sort"
	"strconv"
	"strings"

	"verifharness/hx"
)

type GArg struct {
	Name string `json:"name"`
	Lit  string `json:"lit,omitempty"` // literal text
	Var  string `json:"var,omitempty"` // variable name (without $)
}

type GSel struct {
	Kind  string  `json:"kind"` // field | spread | inline
	Alias string  `json:"alias,omitempty"`
	Name  string  `json:"name,omitempty"` // field name | fragment name
	Args  []GArg  `json:"args,omitempty"`
	On    string  `json:"on,omitempty"`  // inline fragment type condition ("" = none)
	Dir   string  `json:"dir,omitempty"` // directive text
	Subs  []*GSel `json:"subs,omitempty"`
}

type GVar struct {
	Name    string  `json:"name"`
	Type    string  `json:"type"`
	Default *string `json:"default,omitempty"`
}

type GOp struct {
	Kind string  `json:"kind"` // query | mutation
	Name string  `json:"name"` // "" = anonymous
	Subs []*GSel `json:"subs"`
}

type GFrag struct {
	Name string  `json:"name"`
	On   string  `json:"on"`
	Subs []*GSel `json:"subs"`
}

type GDoc struct {
	Ops   []*GOp           `json:"ops"`
	Frags []*GFrag         `json:"frags"`
	Vars  map[string]*GVar `json:"vars"`
}

// ---- rendering ---------------------------------------------------------------------------------------

func (s *GSel) render(b *strings.Builder) {
	switch s.Kind {
	case "field":
		if s.Alias != "" {
			b.WriteString(s.Alias + ": ")
		}
		b.WriteString(s.Name)
		if len(s.Args) > 0 {
			b.WriteString("(")
			for i, a := range s.Args {
				if i > 0 {
					b.WriteString(", ")
				}
				b.WriteString(a.Name + ": ")
				if a.Var != "" {
					b.WriteString("$" + a.Var)
				} else {
					b.WriteString(a.Lit)
				}
			}
			b.WriteString(")")
		}
		if s.Dir != "" {
			b.WriteString(" " + s.Dir)
		}
		if len(s.Subs) > 0 {
			b.WriteString(" ")
			renderSet(b, s.Subs)
		}
	case "spread":
		b.WriteString("..." + s.Name)
		if s.Dir != "" {
			b.WriteString(" " + s.Dir)
		}
	case "inline":
		b.WriteString("...")
		if s.On != "" {
			b.WriteString(" on " + s.On)
		}
		if s.Dir != "" {
			b.WriteString(" " + s.Dir)
		}
		b.WriteString(" ")
		renderSet(b, s.Subs)
	}
}

func renderSet(b *strings.Builder, subs []*GSel) {
	b.WriteString("{ ")
	for _, s := range subs {
		s.render(b)
		b.WriteString(" ")
	}
	b.WriteString("}")
}

// usedVars collects the variables an operation uses, through fragments.
func (d *GDoc) usedVars(subs []*GSel, seen map[string]bool, out map[string]bool) {
	for _, s := range subs {
		for _, a := range s.Args {
			if a.Var != "" {
				out[a.Var] = true
			}
		}
		if i := strings.Index(s.Dir, "$"); i >= 0 {
			out[strings.TrimRight(s.Dir[i+1:], ")")] = true
		}
		if s.Kind == "spread" {
			if !seen[s.Name] {
				seen[s.Name] = true
				for _, f := range d.Frags {
					if f.Name == s.Name {
						d.usedVars(f.Subs, seen, out)
					}
				}
			}
			continue
		}
		d.usedVars(s.Subs, seen, out)
	}
}

func (d *GDoc) usedFrags() map[string]bool {
	seen := map[string]bool{}
	for _, op := range d.Ops {
		d.usedVars(op.Subs, seen, map[string]bool{})
	}
	return seen
}

// Render prints the document; unused fragments are dropped, every operation declares exactly the
// variables it uses.
func (d *GDoc) Render() string {
	var b strings.Builder
	used := d.usedFrags()
	for _, op := range d.Ops {
		vars := map[string]bool{}
		d.usedVars(op.Subs, map[string]bool{}, vars)
		names := make([]string, 0, len(vars))
		for v := range vars {
			names = append(names, v)
		}
		sort.Strings(names)
		if op.Name != "" || len(names) > 0 || op.Kind != "query" {
			b.WriteString(op.Kind)
			if op.Name != "" {
				b.WriteString(" " + op.Name)
			}
			if len(names) > 0 {
				b.WriteString("(")
				for i, v := range names {
					if i > 0 {
						b.WriteString(", ")
					}
					gv := d.Vars[v]
					b.WriteString("$" + v + ": " + gv.Type)
					if gv.Default != nil {
						b.WriteString(" = " + *gv.Default)
					}
				}
				b.WriteString(")")
			}
			b.WriteString(" ")
		}
		renderSet(&b, op.Subs)
		b.WriteString("\n")
	}
	for _, f := range d.Frags {
		if !used[f.Name] {
			continue
		}
		b.WriteString("fragment " + f.Name + " on " + f.On + " ")
		renderSet(&b, f.Subs)
		b.WriteString("\n")
	}
	return b.String()
}

// ---- values --------------------------------------------------------------------------------------------

var boundaryValues = []int{0, 1, 2, 3, 1<<31 - 1, 1 << 31, 1<<31 + 1, 1 << 32, 3037000498, 3037000499, 3037000500, 3037000501,
	maxInt/2 - 1, maxInt / 2, maxInt/2 + 1, maxInt - 1, maxInt}

func genResolver(r *hx.Rand) int {
	switch x := r.Intn(100); {
	case x < 18:
		return 0
	case x < 50:
		return 1
	case x < 70:
		return r.Range(2, 12)
	case x < 80:
		return 1 << uint(r.Range(4, 62))
	case x < 90:
		return hx.Pick(r, boundaryValues)
	case x < 97:
		return int(r.Uint64() >> uint(r.Range(1, 40)))
	default:
		return maxInt - r.Intn(3)
	}
}

func genMultiplier(r *hx.Rand) int {
	switch x := r.Intn(100); {
	case x < 8:
		return 0
	case x < 16:
		return 1
	case x < 55:
		return r.Range(2, 12)
	case x < 70:
		return 1 << uint(r.Range(4, 40))
	case x < 80:
		return hx.Pick(r, boundaryValues)
	case x < 90:
		return int(r.Uint64() >> uint(r.Range(1, 50)))
	case x < 95:
		return 1 << uint(r.Range(40, 62))
	default:
		return maxInt - r.Intn(3)
	}
}

// ---- generation -------------------------------------------------------------------------------------

type genOpts struct {
	MaxDepth   int
	Budget     int  // field selections
	NoMutation bool // (the apifu Config of the execute path has no Mutation type)
	SmallOnly  bool // small values only
	NoNulls    bool // never spell an argument as null / valueless variable
	AllowOdd   bool // negative resolver costs / diamonds (outside the property's quantifier or the validator's tolerance)
}

type generator struct {
	r       *hx.Rand
	o       genOpts
	doc     *GDoc
	aliasN  int
	budget  int
	closure map[string]map[string]bool // fragment → fragments merged into the scope that spreads it
	fragIdx map[string]int
	nulls    int
	dups     int
	plan     map[string]string // variable → "type:value" it stands for
	values   map[string]VarVal // the request's variable map
	varOrder []string
}

func (g *generator) alias() string { g.aliasN++; return "a" + strconv.Itoa(g.aliasN) }

// nullishArg spells an argument as an explicit null literal, a null-valued variable, or a variable
// that gets no value at all (then the argument counts as omitted: its default applies).
func (g *generator) nullishArg(name, typ string) GArg {
	if g.r.Intn(3) == 0 {
		g.nulls++
		return GArg{Name: name, Lit: "null"}
	}
	v := "v" + strconv.Itoa(len(g.doc.Vars)+1)
	g.doc.Vars[v] = &GVar{Name: v, Type: typ}
	g.plan[v] = "nullish"
	g.varOrder = append(g.varOrder, v)
	switch g.r.Intn(3) {
	case 0: // null-valued
		g.values[v] = VarVal{"null", ""}
	case 1: // null-valued although the variable has a default: an explicit null is null, the default
		// only applies when the variable is left out
		def := strconv.Itoa(g.r.Range(2, 40))
		g.doc.Vars[v].Default = &def
		g.values[v] = VarVal{"null", ""}
	default: // no value at all, no default
	}
	g.nulls++
	return GArg{Name: name, Var: v}
}

func (g *generator) bigArg(name string, val int) GArg {
	if !g.o.NoNulls && g.r.Chance(1, 12) {
		return g.nullishArg(name, "Big")
	}
	lit := strconv.Itoa(val)
	if g.r.Chance(1, 4) {
		return GArg{Name: name, Var: g.variable("Big", val)}
	}
	return GArg{Name: name, Lit: lit}
}

// variable returns the name of a variable of the given scalar type whose effective value is val:
// reuses one with that value or declares a new one (provided / defaulted / both).
func (g *generator) variable(typ string, val int) string {
	key := typ + ":" + strconv.Itoa(val)
	for _, name := range g.varOrder {
		if g.plan[name] == key {
			return name
		}
	}
	name := "v" + strconv.Itoa(len(g.doc.Vars)+1)
	gv := &GVar{Name: name, Type: typ}
	if g.r.Chance(1, 4) {
		gv.Type += "!"
	}
	g.plan[name] = key
	g.varOrder = append(g.varOrder, name)
	lit := strconv.Itoa(val)
	switch x := g.r.Intn(10); {
	case x < 5 || strings.HasSuffix(gv.Type, "!"): // provided, no default
		g.values[name] = g.varVal(typ, val)
	case x < 8: // default only
		gv.Default = &lit
	default: // provided, and a different default that must be ignored
		other := strconv.Itoa(val/2 + 7)
		gv.Default = &other
		g.values[name] = g.varVal(typ, val)
	}
	g.doc.Vars[name] = gv
	return name
}

func (g *generator) varVal(typ string, val int) VarVal {
	abs := val
	if abs < 0 {
		abs = -abs
	}
	switch {
	case typ == "Big" && g.r.Chance(1, 4):
		return VarVal{"string", strconv.Itoa(val)}
	case abs < 1<<52 && g.r.Chance(1, 4):
		return VarVal{"float", strconv.Itoa(val)}
	}
	return VarVal{"int", strconv.Itoa(val)}
}

func (g *generator) resolver() int {
	if g.o.SmallOnly {
		return g.r.Range(0, 5)
	}
	v := genResolver(g.r)
	if g.o.AllowOdd && g.r.Chance(1, 12) {
		return -1 - g.r.Intn(3)
	}
	return v
}

func (g *generator) multiplier() int {
	if g.o.SmallOnly {
		return g.r.Range(0, 6)
	}
	v := genMultiplier(g.r)
	if g.o.AllowOdd && g.r.Chance(1, 20) {
		return -g.r.Range(1, 5)
	}
	return v
}

func (g *generator) directive() string {
	if !g.r.Chance(1, 12) {
		return ""
	}
	return hx.Pick(g.r, []string{"@skip(if: true)", "@skip(if: false)", "@include(if: false)", "@include(if: true)"})
}

func (g *generator) field(scope string, depth int, minFrag int) *GSel {
	g.budget--
	leafOnly := depth >= g.o.MaxDepth || g.budget <= 0
	var kinds []string
	if leafOnly {
		kinds = []string{"v", "v", "v", "cr", "p", "z"}
	} else {
		kinds = []string{"n", "n", "n", "n", "i", "l", "v", "v", "cr", "cm", "cm", "crm", "p", "pn", "z", "k", "items", "items"}
	}
	name := hx.Pick(g.r, kinds)
	s := &GSel{Kind: "field", Alias: g.alias(), Name: name, Dir: g.directive()}
	// fields without arguments may go without an alias: their response key is the field name, and
	// two of them in one (merged) selection set are always mergeable
	if k := kindOf(name); len(k.Args) == 0 && g.r.Chance(1, 3) {
		s.Alias = ""
	}
	switch name {
	case "n", "i", "l":
		if g.r.Chance(5, 6) {
			s.Args = append(s.Args, g.bigArg("r", g.resolver()))
		}
		if g.r.Chance(4, 5) {
			s.Args = append(s.Args, g.bigArg("m", g.multiplier()))
		}
		if g.r.Chance(1, 2) {
			s.Args = append(s.Args, g.bigArg("c", g.multiplier()))
		}
	case "v":
		if g.r.Chance(5, 6) {
			s.Args = append(s.Args, g.bigArg("r", g.resolver()))
		}
	case "crm":
		if g.r.Chance(1, 2) {
			s.Args = append(s.Args, g.bigArg("c", g.multiplier()))
		}
	case "k", "items":
		n := g.r.Range(0, 50)
		if g.r.Chance(1, 6) {
			n = hx.Pick(g.r, []int{0, 1, 1<<31 - 1})
		}
		arg := hx.Pick(g.r, []string{"first", "last"})
		if g.r.Chance(1, 6) { // the other one as null / valueless variable: must not count
			other := "last"
			if arg == "last" {
				other = "first"
			}
			s.Args = append(s.Args, g.nullishArg(other, "Int"))
		}
		if g.r.Chance(1, 4) {
			s.Args = append(s.Args, GArg{Name: arg, Var: g.variable("Int", n)})
		} else {
			s.Args = append(s.Args, GArg{Name: arg, Lit: strconv.Itoa(n)})
		}
	}
	hx.Shuffle(g.r, s.Args)
	s.Subs = g.subsFor(name, depth, minFrag)
	return s
}

// subsFor generates the sub-selections a field of this kind needs (nil for leaves).
func (g *generator) subsFor(name string, depth int, minFrag int) []*GSel {
	k := kindOf(name)
	if k == nil || k.Ret == "" {
		return nil
	}
	if k.Ret != "C" {
		return g.selSet(k.Ret, depth+1, map[string]bool{}, minFrag)
	}
	// a connection: edges { node { <N selections> } [cursor] } [pageInfo { … }] [totalCount]
	node := &GSel{Kind: "field", Name: "node", Subs: g.selSet("N", depth+3, map[string]bool{}, minFrag)}
	edges := &GSel{Kind: "field", Name: "edges", Subs: []*GSel{node}}
	if g.r.Bool() {
		edges.Subs = append(edges.Subs, &GSel{Kind: "field", Name: "cursor"})
	}
	if g.r.Chance(1, 4) { // the same response key again: a second `node` with other sub-selections
		edges.Subs = append(edges.Subs, &GSel{Kind: "field", Name: "node", Subs: g.selSet("N", depth+3, map[string]bool{}, minFrag)})
	}
	out := []*GSel{edges}
	if g.r.Chance(1, 4) {
		out = append(out, &GSel{Kind: "field", Name: "pageInfo", Subs: []*GSel{{Kind: "field", Name: hx.Pick(g.r, []string{"hasNextPage", "hasPreviousPage", "startCursor", "endCursor"})}}})
	}
	if g.r.Chance(1, 4) {
		out = append(out, &GSel{Kind: "field", Name: "totalCount"})
	}
	if g.r.Chance(1, 5) {
		out = append(out, &GSel{Kind: "field", Alias: g.alias(), Name: "edges", Subs: []*GSel{{Kind: "field", Name: "node", Subs: g.selSet("N", depth+3, map[string]bool{}, minFrag)}}})
	}
	return out
}

func overlaps(fragOn, scope string) bool {
	switch fragOn {
	case "I":
		return scope == "N" || scope == "I" || scope == "O"
	case "N":
		return scope == "N" || scope == "I"
	case "O":
		return scope == "O" || scope == "I"
	}
	return fragOn == scope
}

// selSet generates one selection set. used = fragments already merged into the enclosing field's
// scope (the validator's field-merge pass rejects a fragment reached twice in one scope).
func (g *generator) selSet(scope string, depth int, used map[string]bool, minFrag int) []*GSel {
	n := g.r.Range(1, 4)
	if depth == 1 {
		n = g.r.Range(1, 5)
	}
	var out []*GSel
	for i := 0; i < n; i++ {
		x := g.r.Intn(100)
		switch {
		case x < 16 && depth <= g.o.MaxDepth: // fragment spread
			var cands []*GFrag
			for _, f := range g.doc.Frags {
				if g.fragIdx[f.Name] < minFrag || !overlaps(f.On, scope) {
					continue
				}
				clash := false
				for c := range g.closure[f.Name] {
					if used[c] {
						clash = true
					}
				}
				if clash && !(g.o.AllowOdd && g.r.Chance(1, 3)) {
					continue
				}
				cands = append(cands, f)
			}
			if len(cands) > 0 {
				f := hx.Pick(g.r, cands)
				for c := range g.closure[f.Name] {
					used[c] = true
				}
				out = append(out, &GSel{Kind: "spread", Name: f.Name, Dir: g.directive()})
				continue
			}
			out = append(out, g.field(scope, depth, minFrag))
		case x < 26 && depth <= g.o.MaxDepth: // inline fragment
			on := ""
			subScope := scope
			if g.r.Chance(2, 3) {
				switch scope {
				case "I":
					on = hx.Pick(g.r, []string{"I", "N", "O"})
				case "N":
					on = hx.Pick(g.r, []string{"I", "N"})
				default:
					on = scope
				}
				subScope = on
			}
			out = append(out, &GSel{Kind: "inline", On: on, Dir: g.directive(), Subs: g.selSet(subScope, depth, used, minFrag)})
		case x < 31:
			s := &GSel{Kind: "field", Name: "__typename"}
			if g.r.Bool() {
				s.Alias = g.alias()
			}
			out = append(out, s)
		default:
			out = append(out, g.field(scope, depth, minFrag))
		}
		// the same response key again in this very selection set: same field, identical arguments
		// (validation's merge rule), but its own directive and its own, different sub-selections — the
		// executor merges them, the cost is still the sum over every field selection
		if last := out[len(out)-1]; last.Kind == "field" && last.Name != "__typename" && g.budget > 0 && g.r.Chance(1, 7) {
			for n := g.r.Range(1, 2); n > 0; n-- {
				g.budget--
				dup := &GSel{Kind: "field", Alias: last.Alias, Name: last.Name, Args: append([]GArg{}, last.Args...), Dir: g.directive()}
				dup.Subs = g.subsFor(last.Name, depth, minFrag)
				g.dups++
				if g.r.Bool() || len(out) < 2 {
					out = append(out, dup)
				} else { // not adjacent
					at := g.r.Intn(len(out) - 1)
					out = append(out[:at], append([]*GSel{dup}, out[at:]...)...)
				}
			}
		}
	}
	return out
}

func (g *generator) introspection() *GSel {
	if g.r.Bool() {
		return &GSel{Kind: "field", Alias: g.alias(), Name: "__schema", Subs: []*GSel{
			{Kind: "field", Name: "types", Subs: []*GSel{{Kind: "field", Name: "name"}, {Kind: "field", Name: "__typename"}}},
			{Kind: "field", Name: "queryType", Subs: []*GSel{{Kind: "field", Name: "name"}}},
		}}
	}
	return &GSel{Kind: "field", Alias: g.alias(), Name: "__type", Args: []GArg{{Name: "name", Lit: `"N"`}}, Subs: []*GSel{
		{Kind: "field", Name: "fields", Subs: []*GSel{{Kind: "field", Name: "name"}}},
	}}
}

// genDoc generates a document and the request's variable values.
func genDoc(r *hx.Rand, o genOpts) (*GDoc, map[string]VarVal) {
	g := &generator{r: r, o: o, doc: &GDoc{Vars: map[string]*GVar{}}, closure: map[string]map[string]bool{}, fragIdx: map[string]int{}, budget: o.Budget,
		plan: map[string]string{}, values: map[string]VarVal{}}
	// fragments, last first: fragment i may spread fragments j > i only (acyclic by construction)
	nf := r.Range(0, 5)
	if r.Chance(1, 6) {
		nf = 0
	}
	frags := make([]*GFrag, nf)
	for i := 0; i < nf; i++ {
		// fragment names live in their own namespace: some share a name with an operation (A, B, C)
		name := "F" + strconv.Itoa(i)
		if i < 3 && r.Chance(1, 3) {
			name = string(rune('A' + i))
		}
		frags[i] = &GFrag{Name: name, On: hx.Pick(r, []string{"I", "I", "I", "N", "N", "Query"})}
		g.fragIdx[frags[i].Name] = i
	}
	for i := nf - 1; i >= 0; i-- {
		f := frags[i]
		used := map[string]bool{f.Name: true}
		saved := g.budget
		g.budget = r.Range(2, 7)
		f.Subs = g.selSet(f.On, r.Range(2, o.MaxDepth), used, i+1)
		g.budget = saved
		g.closure[f.Name] = used
		g.doc.Frags = append([]*GFrag{f}, g.doc.Frags...)
	}
	nops := 1
	if r.Chance(1, 3) {
		nops = r.Range(2, 3)
	}
	for i := 0; i < nops; i++ {
		op := &GOp{Kind: "query"}
		if !o.NoMutation && r.Chance(1, 8) {
			op.Kind = "mutation"
		}
		if nops > 1 || r.Bool() {
			op.Name = string(rune('A' + i))
		}
		scope := "Query"
		if op.Kind == "mutation" {
			scope = "Mutation"
		}
		g.budget = o.Budget / nops
		op.Subs = g.selSet(scope, 1, map[string]bool{}, 0)
		if op.Kind == "query" && r.Chance(1, 15) {
			op.Subs = append(op.Subs, g.introspection())
		}
		g.doc.Ops = append(g.doc.Ops, op)
	}
	return g.doc, g.values
}
