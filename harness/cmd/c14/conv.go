package main

// Document → model input (S-expression in ast.Inspect shape) and the model-free reference cost
// (big.Int, plain recursion over selection sets, no stacks, no saturation).

import (
	"fmt"
	"math"
	"math/big"
	"strconv"

	"github.com/ccbrown/api-fu/graphql/ast"

	"verifharness/hx"
)

const maxInt = int(^uint(0) >> 1)
const minInt = -maxInt - 1

var bigMaxInt = big.NewInt(int64(maxInt))

// VarVal is one entry of the request's variable map, JSON-serialisable for replays.
type VarVal struct {
	Kind string `json:"kind"` // int | float | string | bool | null
	Text string `json:"text"`
}

func (v VarVal) goValue() interface{} {
	switch v.Kind {
	case "int":
		n, _ := strconv.ParseInt(v.Text, 10, 64)
		return int(n)
	case "float":
		f, _ := strconv.ParseFloat(v.Text, 64)
		return f
	case "string":
		return v.Text
	case "bool":
		return v.Text == "true"
	}
	return nil
}

// chooseOperation: the only operation matching the requested name (every one matches ""), else nil.
func chooseOperation(doc *ast.Document, opName string) *ast.OperationDefinition {
	var found []*ast.OperationDefinition
	for _, d := range doc.Definitions {
		if op, ok := d.(*ast.OperationDefinition); ok {
			if opName == "" || (op.Name != nil && op.Name.Name == opName) {
				found = append(found, op)
			}
		}
	}
	if len(found) == 1 {
		return found[0]
	}
	return nil
}

func typeText(t ast.Type) string {
	switch t := t.(type) {
	case *ast.NamedType:
		return t.Name.Name
	case *ast.NonNullType:
		return typeText(t.Type) + "!"
	case *ast.ListType:
		return "[" + typeText(t.Type) + "]"
	}
	return "?"
}

// coerceScalar is the harness's expectation for Big / Int / Boolean variable values.
func coerceScalar(typ string, v interface{}) (interface{}, bool) {
	switch typ {
	case "Big":
		switch x := v.(type) {
		case int:
			return x, true
		case float64:
			if x == math.Trunc(x) && math.Abs(x) < (1<<53) {
				return int(x), true
			}
		case string:
			if n, err := strconv.ParseInt(x, 10, 64); err == nil {
				return int(n), true
			}
		}
	case "Int":
		switch x := v.(type) {
		case int:
			if x >= math.MinInt32 && x <= math.MaxInt32 {
				return x, true
			}
		case float64:
			if x == math.Trunc(x) && x >= math.MinInt32 && x <= math.MaxInt32 {
				return int(x), true
			}
		}
	case "Boolean":
		if b, ok := v.(bool); ok {
			return b, true
		}
	}
	return nil, false
}

func literalScalar(typ string, v ast.Value) (interface{}, bool) {
	switch x := v.(type) {
	case *ast.IntValue:
		n, err := strconv.ParseInt(x.Value, 10, 64)
		if err != nil {
			return nil, false
		}
		return coerceScalar(typ, int(n))
	case *ast.BooleanValue:
		return coerceScalar(typ, x.Value)
	case *ast.NullValue:
		return nil, true
	}
	return nil, false
}

// expectCoercedVariables mirrors CoerceVariableValues for the scalar variable types the generator
// uses. ok=false: the request's variables cannot be coerced (the rule then reports a secondary error).
func expectCoercedVariables(op *ast.OperationDefinition, vars map[string]interface{}) (map[string]interface{}, bool) {
	out := map[string]interface{}{}
	for _, def := range op.VariableDefinitions {
		name := def.Variable.Name.Name
		typ := typeText(def.Type)
		nonNull := false
		if len(typ) > 0 && typ[len(typ)-1] == '!' {
			nonNull = true
			typ = typ[:len(typ)-1]
		}
		value, has := vars[name]
		switch {
		case !has && def.DefaultValue != nil:
			v, ok := literalScalar(typ, def.DefaultValue)
			if !ok || (v == nil && nonNull) {
				return nil, false
			}
			out[name] = v
		case !has && nonNull:
			return nil, false
		case has:
			if value == nil {
				if nonNull {
					return nil, false
				}
				out[name] = nil
				continue
			}
			v, ok := coerceScalar(typ, value)
			if !ok {
				return nil, false
			}
			out[name] = v
		}
	}
	return out, true
}

// ---- model input ---------------------------------------------------------------------------------------

func costSexp(e costExpr) hx.Sexp {
	switch e.Src {
	case "conn": // the model evaluates its own defaultConnectionCost from the spelling of first / last
		return hx.N("conn", hx.A(e.First), hx.A(e.Last))
	case "c":
	default:
		return hx.A(e.Src)
	}
	val := func(isCtx bool, n int) hx.Sexp {
		if isCtx {
			return hx.A("ctx")
		}
		return hx.I(int64(n))
	}
	c := hx.A("keep")
	if e.Set {
		c = hx.I(int64(e.C))
	}
	return hx.N("c", val(e.RCtx, e.R), val(e.MCtx, e.M), c)
}

// nodeSexp builds the model's tree for a definition by running ast.Inspect itself: one model node
// per callback invocation, children in visiting order.
func nodeSexp(root ast.Node, coerced map[string]interface{}, raw *rawReq) hx.Sexp {
	type frame struct {
		x      hx.Sexp
		intro  bool
		isRoot bool
	}
	stack := []*frame{{x: hx.L(), isRoot: true}}
	ast.Inspect(root, func(n ast.Node) bool {
		if n == nil {
			top := stack[len(stack)-1]
			stack = stack[:len(stack)-1]
			parent := stack[len(stack)-1]
			parent.x.List = append(parent.x.List, top.x)
			return true
		}
		parent := stack[len(stack)-1]
		fr := &frame{intro: parent.intro}
		switch n := n.(type) {
		case *ast.Field:
			ce := expectedCost(n, parent.intro, coerced)
			fr.x = hx.N("f", costSexp(ce))
			if ce.Src == "conn" {
				// the raw spelling: the Lean model coerces variables and arguments itself (raw.go)
				if parts, ok := connRawParts(n, raw); ok {
					fr.x = hx.N("f", hx.N("connraw", parts...))
					rawConnSent++
				} else {
					rawConnFallback++
				}
			}
			if n.Name.Name == "__schema" || n.Name.Name == "__type" {
				fr.intro = true
			}
		case *ast.FragmentSpread:
			fr.x = hx.N("s", hx.A(n.FragmentName.Name))
		default:
			fr.x = hx.N("o")
		}
		stack = append(stack, fr)
		return true
	})
	return stack[0].x.List[0]
}

// DefaultCost is the rule's defaultCost argument.
type DefaultCost struct {
	R   int  `json:"r"`
	M   int  `json:"m"`
	Set bool `json:"set"`
	C   int  `json:"c"`
}

func (d DefaultCost) sexp() hx.Sexp {
	c := hx.A("keep")
	if d.Set {
		c = hx.I(int64(d.C))
	}
	return hx.L(hx.I(int64(d.R)), hx.I(int64(d.M)), c)
}

// modelRequest renders the `(cost …)` line. coercedFor gives the coerced variables per operation
// (the model substitutes nothing: arguments are resolved here, per operation).
func modelRequest(doc *ast.Document, opName string, varsOk bool, max int, dflt DefaultCost, coerced map[string]interface{}, raw *rawReq) string {
	pre, post := modelRequestParts(doc, opName, varsOk, dflt, coerced, raw)
	return pre + strconv.Itoa(max) + post
}

// modelRequestParts renders everything but the limit: line = pre + <max> + post.
// connection fields sent to the model as raw spellings / as the harness's own reading (distribution)
var rawConnSent, rawConnFallback int

func modelRequestParts(doc *ast.Document, opName string, varsOk bool, dflt DefaultCost, coerced map[string]interface{}, raw *rawReq) (pre, post string) {
	ops := []hx.Sexp{hx.A("ops")}
	frags := []hx.Sexp{hx.A("frags")}
	for _, d := range doc.Definitions {
		switch d := d.(type) {
		case *ast.OperationDefinition:
			if d.Name != nil {
				ops = append(ops, hx.N("op", hx.A(d.Name.Name), nodeSexp(d, coerced, raw)))
			} else {
				ops = append(ops, hx.N("anon", nodeSexp(d, coerced, raw)))
			}
		case *ast.FragmentDefinition:
			frags = append(frags, hx.N("fr", hx.A(d.Name.Name), nodeSexp(d, coerced, raw)))
		}
	}
	pre = "(cost " + hx.A(opName).String() + " " + hx.B(varsOk).String() + " "
	post = " " + dflt.sexp().String() + " " + hx.L(ops...).String() + " " + hx.L(frags...).String() + ")"
	return pre, post
}

// ---- the model-free reference cost -------------------------------------------------------------------

type refStats struct {
	Charged    int // field selections with a cost source (expanded)
	UnderMul   int // … of which under an ancestor multiplier > 1
	ViaFrag    int // … of which reached through a fragment spread
	CtxReads   int // cost functions that read the context
	MaxDepth   int
	Expansions int
	ZeroUnderOverflow bool // a zero-cost field under a multiplier product beyond maxInt (F-14a shape)
	CtxReadBelowConn int // cost functions reading the application's context value below a default-cost connection
	DupKeys    int  // field selections whose response key already occurred in the same AST selection set
	DupUnder   int  // … of which have sub-selections of their own
	Negative   bool // a negative resolver cost occurs (outside the property's quantifier)
	Nodes      int
}

type refEnv struct {
	frags   map[string]*ast.FragmentDefinition
	coerced map[string]interface{}
	dflt    DefaultCost
	st      *refStats
	err     error
}

func effMul(m int) *big.Int {
	if m > 1 {
		return big.NewInt(int64(m))
	}
	return big.NewInt(1)
}

// cctx is the cost context as the cost functions in play see it: the value under the harness's own key
// (handed down by n/i/l/crm/k and by a default cost with a Context) and the max edge count a
// default-cost connection adds under pagination.go's key. Setting one leaves the other.
type cctx struct {
	user, edges int
	belowConn   bool
}

func (e *refEnv) sels(ss *ast.SelectionSet, M *big.Int, ctx cctx, depth int, viaFrag bool, intro bool, path []string) *big.Int {
	total := new(big.Int)
	if ss == nil || e.err != nil {
		return total
	}
	if depth > e.st.MaxDepth {
		e.st.MaxDepth = depth
	}
	keys := map[string]bool{}
	for _, s := range ss.Selections {
		if f, ok := s.(*ast.Field); ok {
			key := f.Name.Name
			if f.Alias != nil {
				key = f.Alias.Name
			}
			if keys[key] {
				e.st.DupKeys++
				if f.SelectionSet != nil && len(f.SelectionSet.Selections) > 0 {
					e.st.DupUnder++
				}
			}
			keys[key] = true
		}
		e.st.Nodes++
		if e.st.Nodes > 200000 {
			e.err = fmt.Errorf("expansion too large")
			return total
		}
		switch s := s.(type) {
		case *ast.Field:
			ce := expectedCost(s, intro, e.coerced)
			subIntro := intro || s.Name.Name == "__schema" || s.Name.Name == "__type"
			r, m, newCtx := 0, 0, ctx
			switch ce.Src {
			case "t":
				total.Add(total, e.sels(s.SelectionSet, M, ctx, depth+1, viaFrag, subIntro, path))
				continue
			case "u":
				e.err = fmt.Errorf("field %s has no definition", s.Name.Name)
				return total
			case "d":
				r, m = e.dflt.R, e.dflt.M
				if e.dflt.Set { // a fixed context of its own: no max edge count in it
					newCtx = cctx{user: e.dflt.C, belowConn: ctx.belowConn}
				}
			case "conn": // defaultConnectionCost: adds the max edge count to the context it received
				r, m = 1, 0
				newCtx.edges = ce.C
				newCtx.belowConn = true
			case "edges":
				r, m = 0, ctx.edges
			case "c":
				r, m = ce.R, ce.M
				if ce.RCtx {
					r = ctx.user
				}
				if ce.MCtx {
					m = ctx.user
				}
				if ce.RCtx || ce.MCtx {
					e.st.CtxReads++
					if ctx.belowConn {
						e.st.CtxReadBelowConn++
					}
				}
				if ce.Set {
					newCtx.user = ce.C
				}
			}
			e.st.Charged++
			if M.Cmp(big.NewInt(1)) > 0 {
				e.st.UnderMul++
			}
			if viaFrag {
				e.st.ViaFrag++
			}
			if r < 0 {
				e.st.Negative = true
			}
			if r == 0 && M.Cmp(bigMaxInt) > 0 {
				e.st.ZeroUnderOverflow = true
			}
			total.Add(total, new(big.Int).Mul(M, big.NewInt(int64(r))))
			total.Add(total, e.sels(s.SelectionSet, new(big.Int).Mul(M, effMul(m)), newCtx, depth+1, viaFrag, subIntro, path))
		case *ast.InlineFragment:
			total.Add(total, e.sels(s.SelectionSet, M, ctx, depth, viaFrag, intro, path))
		case *ast.FragmentSpread:
			name := s.FragmentName.Name
			def, ok := e.frags[name]
			if !ok {
				e.err = fmt.Errorf("undefined fragment %s", name)
				return total
			}
			for _, p := range path {
				if p == name {
					e.err = fmt.Errorf("fragment cycle through %s", name)
					return total
				}
			}
			e.st.Expansions++
			total.Add(total, e.sels(def.SelectionSet, M, ctx, depth, true, intro, append(append([]string{}, path...), name)))
		}
	}
	return total
}

// refCostGo: Σ over the field selections of the fragment-expanded operation of resolver × Π ancestor
// multipliers, in unbounded integers. err != nil: the document is not in the property's domain.
func refCostGo(doc *ast.Document, op *ast.OperationDefinition, coerced map[string]interface{}, dflt DefaultCost) (*big.Int, *refStats, error) {
	st := &refStats{}
	if op == nil {
		return new(big.Int), st, nil
	}
	env := &refEnv{frags: map[string]*ast.FragmentDefinition{}, coerced: coerced, dflt: dflt, st: st}
	for _, d := range doc.Definitions {
		if f, ok := d.(*ast.FragmentDefinition); ok {
			env.frags[f.Name.Name] = f
		}
	}
	total := env.sels(op.SelectionSet, big.NewInt(1), cctx{}, 1, false, false, nil)
	return total, st, env.err
}
