package main

// Histories: several requests on ONE API instance. RequestInfo.Cost handed to Config.Execute must be
// the cost of *that* request — its query text, operation name and variables — whatever was served
// before on the same instance, over whatever transport, with or without the Apollo persistedQuery
// extension, for every API configuration (api.go:241-252, graphqlws.go:67-73, persisted_query.go).

import (
	"bytes"
	"crypto/sha256"
	"encoding/hex"
	"encoding/json"
	"fmt"
	"net/http/httptest"
	"net/url"
	"sort"
	"strconv"
	"strings"

	"verifharness/hx"
)

// HStep is one request of a history.
type HStep struct {
	Transport string            `json:"transport"` // GET | POST | WS (graphql-ws) | WS2 (graphql-transport-ws)
	Ext       string            `json:"ext"`       // "" no extension | full (query + sha256Hash) | hash (sha256Hash only)
	Query     string            `json:"query"`
	OpName    string            `json:"op_name,omitempty"`
	Vars      map[string]VarVal `json:"vars,omitempty"`
}

func sha256Hex(s string) string {
	h := sha256.Sum256([]byte(s))
	return hex.EncodeToString(h[:])
}

// serveStep sends one request over the step's transport.
func (w *apiWorld) serveStep(st HStep) (body, panicked, wsErr string) {
	if proto := wsProtocols[st.Transport]; proto != "" {
		return "", "", w.serveWS(Case{Query: st.Query, OpName: st.OpName, Vars: st.Vars}, proto)
	}
	w.mu.Lock()
	w.called, w.cost, w.resolved = false, 0, 0
	w.mu.Unlock()
	var ext map[string]interface{}
	if st.Ext != "" {
		ext = map[string]interface{}{"persistedQuery": map[string]interface{}{"version": 1, "sha256Hash": sha256Hex(st.Query)}}
	}
	query := st.Query
	if st.Ext == "hash" {
		query = ""
	}
	var req = httptest.NewRequest("GET", "/graphql", nil)
	if st.Transport == "GET" {
		q := url.Values{}
		if query != "" {
			q.Set("query", query)
		}
		if st.OpName != "" {
			q.Set("operationName", st.OpName)
		}
		if len(st.Vars) > 0 {
			b, _ := json.Marshal(jsonVars(st.Vars))
			q.Set("variables", string(b))
		}
		if ext != nil {
			b, _ := json.Marshal(ext)
			q.Set("extensions", string(b))
		}
		req = httptest.NewRequest("GET", "/graphql?"+q.Encode(), nil)
	} else {
		payload := map[string]interface{}{}
		if query != "" {
			payload["query"] = query
		}
		if st.OpName != "" {
			payload["operationName"] = st.OpName
		}
		if len(st.Vars) > 0 {
			payload["variables"] = jsonVars(st.Vars)
		}
		if ext != nil {
			payload["extensions"] = ext
		}
		b, _ := json.Marshal(payload)
		req = httptest.NewRequest("POST", "/graphql", bytes.NewReader(b))
		req.Header.Set("Content-Type", "application/json")
	}
	rec := httptest.NewRecorder()
	func() {
		defer func() {
			if p := recover(); p != nil {
				panicked = fmt.Sprint(p)
			}
		}()
		w.api.ServeGraphQL(rec, req)
	}()
	return rec.Body.String(), panicked, ""
}

// historyOne plays the steps on a fresh API instance; the first failing step is reported.
func (h *harness) historyOne(c Case, verbose bool) *failure {
	w := newAPIWorld(c.Config)
	defer w.close()
	registered := map[string]bool{}
	for i, st := range c.Steps {
		body, panicked, wsErr := w.serveStep(st)
		where := fmt.Sprintf("step %d (%s%s, op %q, vars %v)", i+1, st.Transport, map[string]string{"": "", "full": "+persistedQuery(query+hash)", "hash": "+persistedQuery(hash only)"}[st.Ext], st.OpName, st.Vars)
		if panicked != "" {
			return &failure{"crash", where + ": ServeGraphQL panicked: " + panicked}
		}
		if wsErr != "" {
			return &failure{"correspondence", where + ": graphql-ws exchange failed: " + wsErr}
		}
		w.mu.Lock()
		called, cost := w.called, w.cost
		w.mu.Unlock()
		if verbose {
			fmt.Printf("%s: Execute called=%v RequestInfo.Cost=%d %s\n", where, called, cost, body)
		}
		if st.Ext == "hash" && !(c.Config.Storage && registered[st.Query]) {
			// without storage the extension means nothing and the request has no query; with storage the
			// hash is unknown: nothing may be executed
			if called {
				return &failure{"property", where + ": Config.Execute was reached for a hash-only request whose query was never registered: " + body}
			}
			continue
		}
		if c.Config.Storage && st.Ext == "full" && st.Query != "" && wsProtocols[st.Transport] == "" {
			registered[st.Query] = true
		}
		one := Case{Kind: "execute", Query: st.Query, OpName: st.OpName, Vars: st.Vars, Default: c.Config.Default, Max: -1}
		if f := h.judgeServed(w, one, body, false); f != nil {
			f.What = where + ": " + f.What
			return f
		}
	}
	return nil
}

func (h *harness) historyCheck(c Case) {
	f := h.historyOne(c, false)
	b, _ := json.Marshal(c)
	h.run.Case("history|"+string(b), len(c.Steps) >= 2)
	h.run.CountN("history:steps", len(c.Steps))
	h.run.Count(fmt.Sprintf("history:config storage=%v features=%v default=%v", c.Config.Storage, c.Config.Features, c.Config.Default != DefaultCost{}))
	for _, st := range c.Steps {
		h.run.Count("history:transport " + st.Transport + "/" + map[string]string{"": "no-extension", "full": "query+hash", "hash": "hash-only"}[st.Ext])
	}
	h.run.Oblige("histories on one API instance: RequestInfo.Cost = reference of that request (config × transport × persistedQuery × repeated query with other variables / operation)", "oracle", len(c.Steps), f == nil, fmtFail(f))
	if f == nil {
		return
	}
	// shrink: drop steps while it still fails the same way
	for changed := h.worthShrinking(f); changed && len(c.Steps) > 1; {
		changed = false
		for i := range c.Steps {
			cand := c
			cand.Steps = append(append([]HStep{}, c.Steps[:i]...), c.Steps[i+1:]...)
			if f2 := h.historyOne(cand, false); f2 != nil && f2.Kind == f.Kind {
				c, f, changed = cand, f2, true
				break
			}
		}
	}
	h.report(f, c)
}

// varyVars gives the same variables other cost-relevant values.
func varyVars(r *hx.Rand, gd *GDoc, vars map[string]VarVal) map[string]VarVal {
	out := map[string]VarVal{}
	names := make([]string, 0, len(vars))
	for k := range vars {
		names = append(names, k)
	}
	sort.Strings(names)
	for _, k := range names {
		v := vars[k]
		gv := gd.Vars[k]
		if v.Kind == "null" || gv == nil {
			out[k] = v
			continue
		}
		if strings.HasPrefix(gv.Type, "Int") {
			out[k] = VarVal{"int", strconv.Itoa(r.Range(0, 60))}
		} else {
			out[k] = VarVal{"int", strconv.Itoa(hx.Pick(r, []int{0, 1, 2, 3, 5, 8, 40, 1 << 20, 1 << 40, maxInt}))}
		}
	}
	return out
}

const histQ1 = `query Q($n: Int, $r: Big) { t: things(first: $n) { edges { node } } x: v(r: $r) }`
const histQ2 = `query A($n: Int) { a: k(first: $n) { e: cm { y: v(r: 1) } } } query B($n: Int) { b: v(r: 7) t: thingsF(first: $n) { edges { node } } }`
const histOther = `{ o: n(r: 2, m: 3) { p1: v(r: 4) } }`

func nVars(n, r int) map[string]VarVal {
	return map[string]VarVal{"n": {"int", strconv.Itoa(n)}, "r": {"int", strconv.Itoa(r)}}
}

func (h *harness) histories(n int) {
	type tr struct{ transport, ext string }
	firsts := []tr{{"POST", "full"}, {"GET", "full"}}
	seconds := []tr{{"POST", "full"}, {"GET", "full"}, {"POST", "hash"}, {"GET", "hash"}, {"POST", ""}, {"WS", ""}, {"WS2", ""}}
	// every configuration × first transport × second transport: the same query text again with other variables
	for _, storage := range []bool{false, true} {
		for _, features := range []bool{false, true} {
			for _, dflt := range []DefaultCost{{}, {R: 1}} {
				for _, a := range firsts {
					for _, b := range seconds {
						cfg := APIConfig{Storage: storage, Features: features, Default: dflt}
						h.historyCheck(Case{Kind: "history", Config: cfg, Steps: []HStep{
							{Transport: a.transport, Ext: a.ext, Query: histQ1, Vars: nVars(2, 1)},
							{Transport: "POST", Query: histOther},
							{Transport: b.transport, Ext: b.ext, Query: histQ1, Vars: nVars(40, 5)},
							{Transport: a.transport, Ext: a.ext, Query: histQ1, Vars: nVars(7, 0)},
						}})
						h.historyCheck(Case{Kind: "history", Config: cfg, Steps: []HStep{
							{Transport: a.transport, Ext: a.ext, Query: histQ2, OpName: "A", Vars: map[string]VarVal{"n": {"int", "3"}}},
							{Transport: b.transport, Ext: b.ext, Query: histQ2, OpName: "B", Vars: map[string]VarVal{"n": {"int", "30"}}},
							{Transport: b.transport, Ext: b.ext, Query: histQ2, OpName: "A", Vars: map[string]VarVal{"n": {"int", "12"}}},
						}})
					}
				}
			}
		}
	}
	// generated documents, random configurations / transports / extension use
	for i := 0; i < n; i++ {
		r := h.run.Rand.Fork()
		cfg := APIConfig{Storage: r.Chance(2, 3), Features: r.Chance(1, 3), Default: hx.Pick(r, defaults[:9])}
		type q struct {
			gd    *GDoc
			text  string
			vars  map[string]VarVal
			names []string
		}
		var pool []q
		for j := 0; j < 2; j++ {
			gd, vars := genDoc(r, genOpts{MaxDepth: r.Range(2, 4), Budget: r.Range(3, 14), NoMutation: true, NoNulls: j == 0})
			names := []string{}
			for _, op := range gd.Ops {
				if op.Name != "" {
					names = append(names, op.Name)
				}
			}
			if len(gd.Ops) == 1 {
				names = append(names, "")
			}
			if r.Chance(1, 6) {
				names = append(names, "Nope") // chooses nothing: cost 0
			}
			pool = append(pool, q{gd, gd.Render(), vars, names})
		}
		c := Case{Kind: "history", Config: cfg}
		for s, ns := 0, r.Range(2, 4); s < ns; s++ {
			x := pool[0]
			if s > 0 && r.Chance(1, 4) {
				x = pool[1]
			}
			st := HStep{Query: x.text, OpName: hx.Pick(r, x.names), Vars: x.vars}
			if s > 0 {
				st.Vars = varyVars(r, x.gd, x.vars)
			}
			switch y := r.Intn(10); {
			case y < 5:
				st.Transport = "POST"
			case y < 8:
				st.Transport = "GET"
			case y < 9:
				st.Transport = "WS"
			default:
				st.Transport = "WS2"
			}
			if wsProtocols[st.Transport] == "" {
				switch y := r.Intn(10); {
				case y < 5:
					st.Ext = "full"
				case y < 7 && s > 0:
					st.Ext = "hash"
				}
			}
			c.Steps = append(c.Steps, st)
		}
		h.historyCheck(c)
	}
}
