package main

// RequestInfo.Cost as surfaced to the application (api.go:241-252) and served connections with
// their default costs (pagination.go:226-235, 434-442).

import (
	"bytes"
	"context"
	"encoding/json"
	"fmt"
	"math/big"
	"net/http"
	"net/http/httptest"
	"reflect"
	"strconv"
	"strings"
	"sync"
	"time"

	"github.com/gorilla/websocket"

	apifu "github.com/ccbrown/api-fu"
	"github.com/ccbrown/api-fu/graphql"
	"github.com/ccbrown/api-fu/graphql/parser"

	"verifharness/hx"
)

type apiWorld struct {
	mu       sync.Mutex
	srv      *httptest.Server
	ws       map[string]*websocket.Conn // one connection per subprotocol, reused for every request on this API
	wsID     int
	api      *apifu.API
	called   bool
	cost     int
	execute  bool // really execute (connections)
	total    int  // connection size
	resolved int  // `node` resolver invocations
}

func (w *apiWorld) close() {
	for _, c := range w.ws {
		if c != nil {
			c.Close()
		}
	}
	if w.srv != nil {
		w.api.CloseHijackedConnections()
		w.srv.Close()
	}
}

func (h *harness) apiFor(d DefaultCost) *apiWorld {
	if w, ok := h.apis[d]; ok {
		return w
	}
	w := newAPIWorld(APIConfig{Default: d})
	h.apis[d] = w
	return w
}

// APIConfig is the part of apifu.Config the histories vary.
type APIConfig struct {
	Storage  bool        `json:"storage"`  // Config.PersistedQueryStorage (a map)
	Features bool        `json:"features"` // Config.Features set (returns a fixed feature set)
	Default  DefaultCost `json:"default"`  // Config.DefaultFieldCost
}

// mapStorage is a faithful last-write-wins PersistedQueryStorage.
type mapStorage struct {
	mu sync.Mutex
	m  map[string]string
}

func (s *mapStorage) GetPersistedQuery(ctx context.Context, hash []byte) string {
	s.mu.Lock()
	defer s.mu.Unlock()
	return s.m[string(hash)]
}

func (s *mapStorage) PersistQuery(ctx context.Context, query string, hash []byte) {
	s.mu.Lock()
	defer s.mu.Unlock()
	s.m[string(hash)] = query
}

func newAPIWorld(ac APIConfig) *apiWorld {
	w := &apiWorld{}
	cfg := &apifu.Config{DefaultFieldCost: ac.Default.fieldCost()}
	if ac.Storage {
		cfg.PersistedQueryStorage = &mapStorage{m: map[string]string{}}
	}
	if ac.Features {
		cfg.Features = func(context.Context) graphql.FeatureSet { return graphql.NewFeatureSet("beta") }
	}
	t := makeTypes()
	for name, def := range t.fields() {
		cfg.AddQueryField(name, def)
	}
	cfg.AddNamedType(t.o)
	cfg.AddNamedType(bigType)
	// `things` also implements a connection interface: selecting `edges` through a fragment on the
	// interface uses the interface's own `edges` cost function (pagination.go:264-274)
	iface := apifu.ConnectionInterface(&apifu.ConnectionInterfaceConfig{
		NamePrefix: "ThingI",
		EdgeFields: map[string]*graphql.FieldDefinition{
			"node": {Type: graphql.IntType, Cost: graphql.FieldResolverCost(1)},
		},
		HasTotalCount: true,
	})
	for _, conn := range []struct {
		name, prefix string
		dir          apifu.ConnectionDirection
	}{{"things", "Thing", apifu.ConnectionDirectionBidirectional}, {"thingsF", "ThingF", apifu.ConnectionDirectionForwardOnly}, {"thingsB", "ThingB", apifu.ConnectionDirectionBackwardOnly}} {
		var implemented []*graphql.InterfaceType
		if conn.name == "things" {
			implemented = []*graphql.InterfaceType{iface}
		}
		cfg.AddQueryField(conn.name, apifu.Connection(&apifu.ConnectionConfig{
			NamePrefix:            conn.prefix,
			Direction:             conn.dir,
			ImplementedInterfaces: implemented,
			ResolveAllEdges: func(ctx graphql.FieldContext) (interface{}, func(a, b interface{}) bool, error) {
				edges := make([]int, w.total)
				for i := range edges {
					edges[i] = i
				}
				return edges, func(a, b interface{}) bool { return a.(int) < b.(int) }, nil
			},
			CursorType: reflect.TypeOf(int(0)),
			EdgeCursor: func(edge interface{}) interface{} { return edge.(int) },
			EdgeFields: map[string]*graphql.FieldDefinition{
				"node": {Type: graphql.IntType, Cost: graphql.FieldResolverCost(1), Resolve: func(ctx graphql.FieldContext) (interface{}, error) {
					w.mu.Lock()
					w.resolved++
					w.mu.Unlock()
					return ctx.Object, nil
				}},
			},
		}))
	}
	cfg.Execute = func(r *graphql.Request, info *apifu.RequestInfo) *graphql.Response {
		w.mu.Lock()
		w.called = true
		w.cost = info.Cost
		w.mu.Unlock()
		if w.execute {
			return graphql.Execute(r)
		}
		return &graphql.Response{}
	}
	api, err := apifu.NewAPI(cfg)
	if err != nil {
		panic(err)
	}
	w.api = api
	return w
}

func jsonVars(vars map[string]VarVal) map[string]interface{} {
	out := map[string]interface{}{}
	for k, v := range vars {
		switch v.Kind {
		case "int", "float":
			n, _ := strconv.ParseInt(v.Text, 10, 64)
			if v.Kind == "float" && fmt.Sprint(n) != v.Text {
				f, _ := strconv.ParseFloat(v.Text, 64)
				out[k] = f
			} else if n > -(1<<53) && n < (1<<53) {
				out[k] = n
			} else {
				out[k] = v.Text // Big accepts decimal strings; JSON numbers beyond 2^53 would lose digits
			}
		default:
			out[k] = v.goValue()
		}
	}
	return out
}

func (w *apiWorld) serve(c Case) (status int, body string, panicked string) {
	w.called, w.cost, w.resolved = false, 0, 0
	payload := map[string]interface{}{"query": c.Query}
	if c.OpName != "" {
		payload["operationName"] = c.OpName
	}
	if len(c.Vars) > 0 {
		payload["variables"] = jsonVars(c.Vars)
	}
	b, _ := json.Marshal(payload)
	req := httptest.NewRequest("POST", "/graphql", bytes.NewReader(b))
	req.Header.Set("Content-Type", "application/json")
	rec := httptest.NewRecorder()
	func() {
		defer func() {
			if p := recover(); p != nil {
				panicked = fmt.Sprint(p)
			}
		}()
		w.api.ServeGraphQL(rec, req)
	}()
	return rec.Code, rec.Body.String(), panicked
}

// serveWS sends one operation over a WebSocket connection of the given subprotocol — "graphql-ws"
// (`start`) or "graphql-transport-ws" (`subscribe`) — and waits for its `complete`. The connection is
// kept: later requests on this API are further operations on the same connection.
func (w *apiWorld) serveWS(c Case, proto string) (errText string) {
	w.mu.Lock()
	w.called, w.cost, w.resolved = false, 0, 0
	w.mu.Unlock()
	if w.srv == nil {
		w.srv = httptest.NewServer(http.HandlerFunc(w.api.ServeGraphQLWS))
	}
	if w.ws == nil {
		w.ws = map[string]*websocket.Conn{}
	}
	conn := w.ws[proto]
	if conn == nil {
		d := websocket.Dialer{Subprotocols: []string{proto}, HandshakeTimeout: 5 * time.Second}
		var err error
		conn, _, err = d.Dial("ws"+strings.TrimPrefix(w.srv.URL, "http"), nil)
		if err != nil {
			return "dial: " + err.Error()
		}
		if conn.Subprotocol() != proto {
			conn.Close()
			return "server chose subprotocol " + conn.Subprotocol()
		}
		w.ws[proto] = conn
		if err := conn.WriteJSON(map[string]interface{}{"type": "connection_init"}); err != nil {
			return "init: " + err.Error()
		}
	}
	w.wsID++
	id := strconv.Itoa(w.wsID)
	payload := map[string]interface{}{"query": c.Query}
	if c.OpName != "" {
		payload["operationName"] = c.OpName
	}
	if len(c.Vars) > 0 {
		payload["variables"] = jsonVars(c.Vars)
	}
	startType := "start"
	if proto == "graphql-transport-ws" {
		startType = "subscribe"
	}
	drop := func() {
		conn.Close()
		w.ws[proto] = nil
	}
	if err := conn.WriteJSON(map[string]interface{}{"type": startType, "id": id, "payload": payload}); err != nil {
		drop()
		return startType + ": " + err.Error()
	}
	conn.SetReadDeadline(time.Now().Add(10 * time.Second))
	for {
		var msg struct {
			Type string `json:"type"`
			Id   string `json:"id"`
		}
		if err := conn.ReadJSON(&msg); err != nil {
			drop()
			return "read: " + err.Error()
		}
		if msg.Type == "complete" && msg.Id == id {
			return ""
		}
	}
}

var wsProtocols = map[string]string{"WS": "graphql-ws", "WS2": "graphql-transport-ws"}

// wsOne: the same request over graphql-ws reaches Config.Execute with the same RequestInfo.Cost.
func (h *harness) wsOne(c Case, verbose bool) *failure {
	w := h.apiFor(c.Default)
	w.execute = false
	proto := wsProtocols[c.Via]
	if proto == "" {
		proto = "graphql-ws"
	}
	if e := w.serveWS(c, proto); e != "" {
		return &failure{"correspondence", proto + " exchange failed: " + e}
	}
	w.mu.Lock()
	wsCalled, wsCost := w.called, w.cost
	w.mu.Unlock()
	if verbose {
		fmt.Printf("graphql-ws: Execute called=%v RequestInfo.Cost=%d\n", wsCalled, wsCost)
	}
	cc := c
	cc.Kind = "execute"
	if f := h.executeOne(cc, verbose); f != nil {
		return f
	}
	if wsCalled != w.called || (wsCalled && wsCost != w.cost) {
		return &failure{"property", fmt.Sprintf("over graphql-ws Execute called=%v with RequestInfo.Cost=%d, over HTTP called=%v with cost %d (the latter equals the reference)", wsCalled, wsCost, w.called, w.cost)}
	}
	return nil
}

func (h *harness) wsPath(n int) {
	for i := 0; i < n; i++ {
		r := h.run.Rand.Fork()
		o := genOpts{MaxDepth: r.Range(2, 4), Budget: r.Range(3, 15), NoMutation: true}
		gd, vars := genDoc(r, o)
		c := Case{Kind: "ws", Query: gd.Render(), Vars: vars, Default: hx.Pick(r, defaults[:9]), Max: -1, Via: hx.Pick(r, []string{"WS", "WS2"})}
		names := []string{""}
		for _, op := range gd.Ops {
			if op.Name != "" {
				names = append(names, op.Name)
			}
		}
		c.OpName = hx.Pick(r, names)
		f := h.wsOne(c, false)
		h.run.Case("ws|"+c.Query+"|"+c.OpName+fmt.Sprint(c.Vars, c.Default), true)
		h.run.Count("ws-path:" + wsProtocols[c.Via])
		h.run.Oblige("RequestInfo.Cost over graphql-ws (graphqlws.go) = over HTTP = reference", "correspondence", 1, f == nil, fmtFail(f))
		if f != nil {
			h.report(f, c)
		}
	}
}

// executeOne: the cost handed to Config.Execute equals the model's `actual` without a limit, and
// Execute is reached exactly when the rule accepts.
func (h *harness) executeOne(c Case, verbose bool) *failure {
	w := h.apiFor(c.Default)
	w.execute = false
	_, body, panicked := w.serve(c)
	if panicked != "" {
		return &failure{"crash", "ServeGraphQL panicked: " + panicked}
	}
	return h.judgeServed(w, c, body, verbose)
}

// roundTripVars: what the variables look like after the JSON round trip of a transport.
func roundTripVars(vars map[string]VarVal) map[string]VarVal {
	out := map[string]VarVal{}
	for k, v := range jsonVars(vars) {
		switch x := v.(type) {
		case int64:
			out[k] = VarVal{"float", strconv.FormatInt(x, 10)}
		case float64:
			out[k] = VarVal{"float", strconv.FormatFloat(x, 'g', -1, 64)}
		case string:
			out[k] = VarVal{"string", x}
		case bool:
			out[k] = VarVal{"bool", strconv.FormatBool(x)}
		case nil:
			out[k] = VarVal{"null", ""}
		}
	}
	return out
}

// judgeServed compares what Config.Execute saw for the request just served on w (w.called, w.cost)
// with the reference cost and the model's `actual` for *this* request's query, operation name and
// variables.
func (h *harness) judgeServed(w *apiWorld, c Case, body string, verbose bool) *failure {
	cv := c
	cv.Max = -1
	cv.Vars = roundTripVars(c.Vars)
	p, skip := h.prepareFor(cv, w.api.Schema())
	if verbose {
		fmt.Printf("implementation: Execute called=%v RequestInfo.Cost=%d body=%s\n", w.called, w.cost, body)
	}
	if skip != "" {
		if w.called {
			return &failure{"correspondence", "Execute was reached for a document the validator rejects: " + skip}
		}
		return nil
	}
	if p.varsOk && p.refErr == nil && !p.stats.Negative {
		want := new(big.Int).Set(p.ref)
		if want.Cmp(bigMaxInt) > 0 {
			want.Set(bigMaxInt)
		}
		if !w.called {
			return &failure{"property", fmt.Sprintf("Config.Execute was not reached although no limit applies (reference cost %s): %s", p.ref, body)}
		}
		if strconv.Itoa(w.cost) != want.String() {
			return &failure{"property", fmt.Sprintf("RequestInfo.Cost is %d, min(reference cost %s, maxInt) is %s", w.cost, p.ref, want)}
		}
	}
	if h.model != nil {
		reply, err := h.model.Ask(modelRequest(p.doc, c.OpName, p.varsOk, -1, c.Default, p.coerced, p.raw))
		if err != nil {
			return &failure{"correspondence", "model driver failed: " + err.Error()}
		}
		mo, _, err := parseModelReply(reply)
		if err != nil {
			return &failure{"correspondence", err.Error()}
		}
		if verbose {
			fmt.Printf("model: %s\n", mo)
		}
		if (mo.Verdict == "accepted") != w.called {
			return &failure{"correspondence", fmt.Sprintf("model verdict %s, Execute called=%v (%s)", mo.Verdict, w.called, body)}
		}
		if w.called && mo.Actual != strconv.Itoa(w.cost) {
			return &failure{"correspondence", fmt.Sprintf("RequestInfo.Cost is %d, the model's actual is %s", w.cost, mo.Actual)}
		}
	}
	return nil
}

func (h *harness) executePath(n int) {
	for i := 0; i < n; i++ {
		r := h.run.Rand.Fork()
		o := genOpts{MaxDepth: r.Range(2, 5), Budget: r.Range(3, 25), NoMutation: true}
		if r.Chance(1, 4) {
			o.SmallOnly = true
		}
		gd, vars := genDoc(r, o)
		c := Case{Kind: "execute", Query: gd.Render(), Vars: vars, Default: hx.Pick(r, defaults), Max: -1}
		names := []string{""}
		for _, op := range gd.Ops {
			if op.Name != "" {
				names = append(names, op.Name)
			}
		}
		c.OpName = hx.Pick(r, names)
		f := h.executeOne(c, false)
		h.run.Case("execute|"+c.Query+"|"+c.OpName+fmt.Sprint(c.Vars, c.Default), true)
		h.run.Count("execute-path")
		h.run.Oblige("RequestInfo.Cost through Config.Execute (HTTP) = model actual = min(reference, maxInt)", "correspondence", 1, f == nil, fmtFail(f))
		if f != nil {
			h.report(f, c)
		}
	}
}

// ---- connections -------------------------------------------------------------------------------------

// connOne serves a default-cost connection and compares the number of edges actually resolved with
// the multiplier the rule charged for the `edges` sub-selections.
func (h *harness) connOne(c Case, verbose bool) *failure {
	w := h.apiFor(c.Default)
	w.execute = true
	w.total = c.Total
	body, panicked := "{}", ""
	if proto := wsProtocols[c.Via]; proto != "" {
		if e := w.serveWS(c, proto); e != "" {
			w.execute = false
			return &failure{"correspondence", proto + " exchange failed: " + e}
		}
	} else {
		_, body, panicked = w.serve(c)
	}
	w.execute = false
	if panicked != "" {
		return &failure{"crash", "ServeGraphQL panicked: " + panicked}
	}
	w.mu.Lock()
	resolvedNow := w.resolved
	w.mu.Unlock()
	// the operation the cost was computed for must be the operation that is executed: when the
	// requested name chooses no operation the rule charges 0 — and then nothing may be resolved
	if doc, perrs := parser.ParseDocument([]byte(c.Query)); len(perrs) == 0 && chooseOperation(doc, c.OpName) == nil {
		h.run.Count("conn:no-operation-chosen(" + map[string]string{"": "POST", "WS": "graphql-ws", "WS2": "graphql-transport-ws"}[c.Via] + ")")
		if resolvedNow > 0 {
			return &failure{"property", fmt.Sprintf("operation name %q chooses no operation of the document (RequestInfo.Cost %d, Execute called=%v), yet %d edges were resolved: %s", c.OpName, w.cost, w.called, resolvedNow, c.Query)}
		}
		cc := c
		cc.Kind = "execute"
		return h.executeOne(cc, false)
	}
	var resp struct {
		Data struct {
			Things *struct {
				Edges []struct {
					Node *int `json:"node"`
				} `json:"edges"`
			} `json:"t"`
		} `json:"data"`
		Errors []struct {
			Message string `json:"message"`
		} `json:"errors"`
	}
	if err := json.Unmarshal([]byte(body), &resp); err != nil {
		return &failure{"correspondence", "unreadable response: " + body}
	}
	if verbose {
		fmt.Printf("implementation: called=%v cost=%d node resolvers run=%d body=%s\n", w.called, w.cost, w.resolved, body)
	}
	if !w.called {
		h.run.Count("conn:rejected-before-execution")
		return nil
	}
	// the cost of `{ t: things(…) { edges { node cursor } } }` is 1 + multiplier × 1
	charged := w.cost - 1
	edges := 0
	if resp.Data.Things != nil {
		edges = len(resp.Data.Things.Edges)
	}
	if edges > w.resolved {
		w.resolved = edges
	}
	h.run.Count("conn:edges=" + bucket(w.resolved))
	if w.resolved > charged {
		return &failure{"property", fmt.Sprintf("%d edges were resolved but the multiplier charged for the edges is %d (cost %d): %s", w.resolved, charged, w.cost, c.Query)}
	}
	// and the cost itself against the model / reference
	cc := c
	cc.Kind = "execute"
	if f := h.executeOne(cc, false); f != nil {
		return f
	}
	return nil
}

// argSpellings: how an Int argument of a connection can be written. Each returns the argument text
// ("" = omitted), the variable definition it needs ("" = none) and the variable's value (nil = none given).
var argSpellings = []string{"absent", "literal", "variable", "null-literal", "null-variable", "undefined-variable", "null-variable-with-default"}

func spellArg(arg, spelling string, k int) (argText, varDef string, val *VarVal) {
	switch spelling {
	case "literal":
		return fmt.Sprintf("%s: %d", arg, k), "", nil
	case "variable":
		return fmt.Sprintf("%s: $%s", arg, arg), "$" + arg + ": Int", &VarVal{"int", strconv.Itoa(k)}
	case "null-literal":
		return arg + ": null", "", nil
	case "null-variable":
		return fmt.Sprintf("%s: $%s", arg, arg), "$" + arg + ": Int", &VarVal{"null", ""}
	case "undefined-variable":
		return fmt.Sprintf("%s: $%s", arg, arg), "$" + arg + ": Int", nil
	case "null-variable-with-default": // an explicit null is null: the variable's default only applies when it is left out
		return fmt.Sprintf("%s: $%s", arg, arg), fmt.Sprintf("$%s: Int = %d", arg, k+13), &VarVal{"null", ""}
	}
	return "", "", nil
}

// connCase builds `query Q(…) { t: <field>(first…, last…) { edges { node cursor } } }`; via selects
// whether the edges are selected on the connection object or through its interface.
func connCase(field string, total int, firstSp string, first int, lastSp string, last int) Case {
	return connCaseVia(field, "object", total, firstSp, first, lastSp, last)
}

func connCaseVia(field, via string, total int, firstSp string, first int, lastSp string, last int) Case {
	c := Case{Kind: "conn", Total: total, Default: DefaultCost{R: 1}, Max: -1, Vars: map[string]VarVal{}}
	var args, defs []string
	for _, a := range []struct {
		name, sp string
		k        int
	}{{"first", firstSp, first}, {"last", lastSp, last}} {
		if (field == "thingsF" && a.name == "last") || (field == "thingsB" && a.name == "first") {
			continue
		}
		text, def, val := spellArg(a.name, a.sp, a.k)
		if text != "" {
			args = append(args, text)
		}
		if def != "" {
			defs = append(defs, def)
		}
		if val != nil {
			c.Vars[a.name] = *val
		}
	}
	head := "query Q"
	if len(defs) > 0 {
		head += "(" + strings.Join(defs, ", ") + ")"
	}
	call := field
	if len(args) > 0 {
		call += "(" + strings.Join(args, ", ") + ")"
	}
	switch via {
	case "interface-fragment":
		c.Query = head + " { t: " + call + " { ...CF } } fragment CF on ThingIConnection { edges { node cursor } }"
	case "interface-inline":
		c.Query = head + " { t: " + call + " { ... on ThingIConnection { edges { node ... on ThingIEdge { cursor } } } } }"
	default:
		c.Query = head + " { t: " + call + " { edges { node cursor } } }"
	}
	c.Note = field + "/" + via + " first=" + firstSp + " last=" + lastSp
	return c
}

func (h *harness) connections() {
	r := h.run.Rand.Fork()
	var cases []Case
	// every spelling of first × every spelling of last (36), bidirectional; and the one argument of the
	// forward-only / backward-only connections in every spelling
	for _, fs := range argSpellings {
		for _, ls := range argSpellings {
			for _, total := range []int{0, 3, 25} {
				cases = append(cases, connCase("things", total, fs, hx.Pick(r, []int{0, 1, 2, 5, 20}), ls, hx.Pick(r, []int{0, 1, 2, 7, 20})))
			}
		}
	}
	for _, sp := range argSpellings {
		for _, total := range []int{0, 4, 25} {
			cases = append(cases, connCase("thingsF", total, sp, hx.Pick(r, []int{0, 1, 3, 20}), "absent", 0))
			cases = append(cases, connCase("thingsB", total, "absent", 0, sp, hx.Pick(r, []int{0, 1, 3, 20})))
		}
	}
	// the same through the connection interface (its own `edges` cost function)
	for _, via := range []string{"interface-fragment", "interface-inline"} {
		for _, fs := range argSpellings {
			for _, ls := range argSpellings {
				cases = append(cases, connCaseVia("things", via, hx.Pick(r, []int{0, 3, 25}), fs, hx.Pick(r, []int{0, 1, 2, 5, 20}), ls, hx.Pick(r, []int{0, 1, 2, 7, 20})))
			}
		}
	}
	// an operation name that chooses no operation: nothing is charged, so nothing may be executed —
	// over HTTP and over both WebSocket protocols (several operations on the same connection)
	for _, via := range []string{"", "WS", "WS2", "WS", "WS2"} {
		for _, x := range []struct{ query, op string }{
			{`{ t: things(first: 3) { edges { node cursor } } }`, "Q"},                                       // anonymous, named request
			{`query P { t: things(first: 3) { edges { node cursor } } }`, "Q"},                               // other name
			{`query P($n: Int = 4) { t: thingsF(first: $n) { edges { node } } }`, "p"},                        // case differs
			{`query A { t: things(first: 2) { edges { node } } } query B { t: things(last: 5) { edges { node } } }`, ""}, // ambiguous
			{`query A { t: things(first: 2) { edges { node } } } query B { t: things(last: 5) { edges { node } } }`, "C"},
			{`query A { t: things(first: 2) { edges { node } } } query B { t: things(last: 5) { edges { node } } }`, "B"}, // (chosen: control)
		} {
			c := Case{Kind: "conn", Total: 9, Query: x.query, OpName: x.op, Default: DefaultCost{R: 1}, Max: -1, Via: via, Note: "operation-name " + x.op}
			cases = append(cases, c)
		}
	}
	// page sizes 0..9 over small collections, forwards and backwards
	for _, total := range []int{0, 1, 3, 7, 12} {
		for k := 0; k <= 9; k++ {
			cases = append(cases, connCase("things", total, "literal", k, "absent", 0))
			cases = append(cases, connCase("things", total, "absent", 0, "literal", k))
		}
	}
	for i := 0; i < h.run.Scale(80, 2000); i++ {
		field := hx.Pick(r, []string{"things", "things", "thingsF", "thingsB"})
		via := "object"
		if field == "things" {
			via = hx.Pick(r, []string{"object", "interface-fragment", "interface-inline"})
		}
		cases = append(cases, connCaseVia(field, via, r.Range(0, 30), hx.Pick(r, argSpellings), r.Range(0, 35), hx.Pick(r, argSpellings), r.Range(0, 35)))
	}
	// the whole connection surface (pageInfo, totalCount) — cost only: RequestInfo.Cost = reference = model
	for _, q := range []string{
		`{ t: things(first: 4) { edges { node cursor } pageInfo { hasNextPage hasPreviousPage startCursor endCursor } totalCount } }`,
		`{ t: things(last: 6) { ...CF } } fragment CF on ThingIConnection { edges { node cursor } pageInfo { hasNextPage endCursor } totalCount }`,
		`{ t: things(first: 3, last: null) { totalCount e1: edges { node } e2: edges { n2: node cursor } } }`,
		`{ a: thingsF(first: 2) { edges { node } } b: thingsB(last: 5) { edges { node } } c: things(first: null, last: 7) { edges { node } } }`,
	} {
		c := Case{Kind: "execute", Query: q, Default: hx.Pick(r, defaults[:6]), Max: -1}
		f := h.executeOne(c, false)
		h.run.Count("conn:full-surface-cost")
		h.run.Case("conn-cost|"+q+fmt.Sprint(c.Default), true)
		h.run.Oblige("oracle: served default-cost connection resolves ≤ multiplier-charged edges; RequestInfo.Cost = reference (all spellings of first/last)", "oracle", 1, f == nil, fmtFail(f))
		if f != nil {
			h.report(f, c)
		}
	}
	for _, c := range cases {
		f := h.connOne(c, false)
		h.run.Count("conn:" + c.Note)
		h.run.Case("conn|"+c.Query+fmt.Sprint(c.Vars, c.Total), true)
		h.run.Oblige("oracle: served default-cost connection resolves ≤ multiplier-charged edges; RequestInfo.Cost = reference (all spellings of first/last)", "oracle", 1, f == nil, fmtFail(f))
		if f != nil {
			h.report(f, c)
		}
	}
}
