// Harness for C14 — operation cost is exact, never undercounts and saturates instead of wrapping.
//
// Real side: graphql.ParseAndValidate(query, schema, nil, graphql.ValidateCost(op, vars, max, &actual,
// default)) on a schema whose cost functions read only what the library hands them; the arithmetic
// helpers through the `verif` hook (validator.VerifCheckedMul / VerifCheckedAdd); RequestInfo.Cost
// through apifu's Config.Execute over HTTP; served default-cost connections.
// Model side: lean/ApiFu/C14 (driver c14model): the generated arithmetic and the cost walk.
// Oracles (model-free): an independent big.Int reference cost over the fragment-expanded operation
// (conv.go), `actual == min(ref, maxInt)`, `accepted ⇔ max == -1 ∨ ref ≤ max`; the exact product /
// sum for the arithmetic; `edges resolved ≤ multiplier charged` for connections.
package main

import (
	"context"
	"encoding/json"
	"fmt"
	"math/big"
	"os"
	"regexp"
	"sort"
	"strconv"
	"strings"

	"github.com/ccbrown/api-fu/graphql"
	"github.com/ccbrown/api-fu/graphql/ast"
	"github.com/ccbrown/api-fu/graphql/parser"
	"github.com/ccbrown/api-fu/graphql/validator"

	"verifharness/hx"
)

// Case is one replayable input.
type Case struct {
	Kind string `json:"kind"` // doc | execute | ws | arith | conn | history
	// doc / execute
	Query   string            `json:"query,omitempty"`
	OpName  string            `json:"op_name,omitempty"`
	Vars    map[string]VarVal `json:"vars,omitempty"`
	Max     int               `json:"max,omitempty"`
	Default DefaultCost       `json:"default,omitempty"`
	// arith
	Fn string `json:"fn,omitempty"` // mul | add
	A  int    `json:"a,omitempty"`
	B  int    `json:"b,omitempty"`
	// conn / ws: "" = HTTP POST, WS = graphql-ws, WS2 = graphql-transport-ws
	Via string `json:"via,omitempty"`
	// conn
	Total int `json:"total,omitempty"`
	// history
	Config APIConfig `json:"config,omitempty"`
	Steps  []HStep   `json:"steps,omitempty"`
	Note  string `json:"note,omitempty"`
}

// obs is the canonical observable of one run of the rule.
type obs struct {
	Verdict string // accepted | toohigh | exceeds:<cost>:<max> | secondary | panic:<what> | oof
	Actual  string // unset | <integer>
}

func (o obs) String() string { return o.Verdict + " actual=" + o.Actual }

const unsetSentinel = -424242

var exceedsRe = regexp.MustCompile(`^Validation error: operation cost of (-?\d+) exceeds allowed cost of (-?\d+)$`)

type harness struct {
	run    *hx.Run
	model  *hx.Model
	schema *graphql.Schema
	apis   map[DefaultCost]*apiWorld

	skippedNotes int
	reported     map[string]int
}

func goVars(vars map[string]VarVal) map[string]interface{} {
	if vars == nil {
		return nil
	}
	out := map[string]interface{}{}
	for k, v := range vars {
		out[k] = v.goValue()
	}
	return out
}

func (d DefaultCost) fieldCost() graphql.FieldCost {
	fc := graphql.FieldCost{Resolver: d.R, Multiplier: d.M}
	if d.Set {
		fc.Context = context.WithValue(context.Background(), ctxKey{}, d.C)
	}
	return fc
}

func classify(errs []*graphql.Error) string {
	if len(errs) == 0 {
		return "accepted"
	}
	if len(errs) == 1 {
		msg := errs[0].Message
		if msg == "Validation error: operation cost is too high to calculate" {
			return "toohigh"
		}
		if m := exceedsRe.FindStringSubmatch(msg); m != nil {
			return "exceeds:" + m[1] + ":" + m[2]
		}
	}
	for _, e := range errs {
		if strings.Contains(e.Message, "operation cost") {
			return "mixed-errors"
		}
	}
	return "secondary"
}

// realValidate runs the rule through the public API.
func (h *harness) realValidate(c Case) (o obs, messages []string) {
	defer func() {
		if p := recover(); p != nil {
			o = obs{Verdict: fmt.Sprintf("panic:%v", p), Actual: "unset"}
		}
	}()
	actual := unsetSentinel
	_, errs := graphql.ParseAndValidate(c.Query, h.schema, nil, graphql.ValidateCost(c.OpName, goVars(c.Vars), c.Max, &actual, c.Default.fieldCost()))
	for _, e := range errs {
		messages = append(messages, e.Message)
	}
	o.Verdict = classify(errs)
	o.Actual = "unset"
	if actual != unsetSentinel {
		o.Actual = strconv.Itoa(actual)
	}
	return o, messages
}

func parseModelReply(reply string) (o obs, ref string, err error) {
	x, perr := hx.ParseSexp(reply)
	if perr != nil || !x.IsList || len(x.List) != 4 || x.List[0].Atom != "res" {
		return o, "", fmt.Errorf("unexpected model reply %q", reply)
	}
	v := x.List[1]
	switch {
	case !v.IsList:
		o.Verdict = v.Atom
	case v.List[0].Atom == "exceeds":
		o.Verdict = "exceeds:" + v.List[1].Atom + ":" + v.List[2].Atom
	case v.List[0].Atom == "secondary":
		o.Verdict = "secondary"
	case v.List[0].Atom == "panic":
		o.Verdict = "panic:" + v.List[1].Atom
	}
	o.Actual = x.List[2].Atom
	return o, x.List[3].Atom, nil
}

// failure describes why a case fails.
type failure struct {
	Kind string // property | correspondence | crash
	What string
}

// prepared is what is shared by the runs of one (document, operation name, variables, default).
type prepared struct {
	doc     *ast.Document
	op      *ast.OperationDefinition
	coerced map[string]interface{}
	raw     *rawReq // the request as written, for the model's own argument resolution (raw.go)
	varsOk  bool
	ref     *big.Int
	refErr  error
	stats   *refStats
}

// prepare parses and (base-)validates; skip != "" when the case is outside the property's domain.
func (h *harness) prepare(c Case) (p *prepared, skip string) { return h.prepareFor(c, h.schema) }

func (h *harness) prepareFor(c Case, schema *graphql.Schema) (p *prepared, skip string) {
	doc, perrs := parser.ParseDocument([]byte(c.Query))
	if len(perrs) > 0 {
		return nil, "parse-error: " + perrs[0].Message
	}
	if _, errs := graphql.ParseAndValidate(c.Query, schema, nil); len(errs) > 0 {
		return nil, "invalid-document: " + errs[0].Message
	}
	p = &prepared{doc: doc, varsOk: true, coerced: map[string]interface{}{}}
	p.op = chooseOperation(doc, c.OpName)
	if p.op != nil {
		p.coerced, p.varsOk = expectCoercedVariables(p.op, goVars(c.Vars))
		p.raw = rawOf(p.op, c.Vars)
	}
	if p.varsOk {
		p.ref, p.stats, p.refErr = refCostGo(doc, p.op, p.coerced, c.Default)
	} else {
		p.stats = &refStats{}
	}
	return p, ""
}

// oracle evaluates the property on the implementation's own output. "" = holds, "n/a" = the case is
// outside the property's quantifier (no verdict), anything else = the violation.
func oracle(c Case, p *prepared, real obs) string {
	if strings.HasPrefix(real.Verdict, "panic:") {
		return "the rule panicked: " + real.Verdict
	}
	if !p.varsOk || p.refErr != nil || p.stats.Negative {
		return "n/a"
	}
	wantActual := new(big.Int).Set(p.ref)
	if wantActual.Cmp(bigMaxInt) > 0 {
		wantActual.Set(bigMaxInt)
	}
	wantAccepted := c.Max < 0 || p.ref.Cmp(big.NewInt(int64(c.Max))) <= 0
	if real.Actual != wantActual.String() {
		return fmt.Sprintf("actual is %s, but min(reference cost %s, maxInt) is %s", real.Actual, p.ref, wantActual)
	}
	if (real.Verdict == "accepted") != wantAccepted {
		return fmt.Sprintf("verdict %s under limit %d, but the reference cost is %s (accepted ⇔ max = -1 ∨ cost ≤ max)", real.Verdict, c.Max, p.ref)
	}
	if real.Verdict == "secondary" || real.Verdict == "mixed-errors" {
		return "a validated document with coercible variables was rejected with " + real.Verdict
	}
	return ""
}

// runOne evaluates one case on both sides.
func (h *harness) runOne(c Case, p *prepared, verbose bool) *failure {
	return h.runOneWith(c, p, verbose, "")
}

// runOneWith is runOne with the model's reply already fetched (batched by the caller) when reply != "".
func (h *harness) runOneWith(c Case, p *prepared, verbose bool, reply string) *failure {
	real, msgs := h.realValidate(c)
	orc := oracle(c, p, real)
	if verbose {
		fmt.Printf("implementation: %s %v\nreference cost (big.Int): %v (err %v) varsOk=%v\noracle: %q\n", real, msgs, p.ref, p.refErr, p.varsOk, orc)
	}
	var mo obs
	modelRef := ""
	if h.model != nil {
		var err error
		if reply == "" {
			reply, err = h.model.Ask(modelRequest(p.doc, c.OpName, p.varsOk, c.Max, c.Default, p.coerced, p.raw))
			if err != nil {
				return &failure{"correspondence", "model driver failed: " + err.Error()}
			}
		}
		mo, modelRef, err = parseModelReply(reply)
		if err != nil {
			return &failure{"correspondence", err.Error()}
		}
		if verbose {
			fmt.Printf("model: %s ref=%s\n", mo, modelRef)
		}
	}
	h.run.Count("verdict:" + strings.SplitN(real.Verdict, ":", 2)[0])
	if orc != "" && orc != "n/a" {
		kind := "property"
		if strings.HasPrefix(real.Verdict, "panic:") {
			kind = "crash"
		}
		return &failure{kind, orc}
	}
	if h.model == nil {
		return nil
	}
	if mo != real {
		return &failure{"correspondence", fmt.Sprintf("implementation %s, model %s (%v)", real, mo, msgs)}
	}
	if p.varsOk && p.refErr == nil && !p.stats.Negative && modelRef != p.ref.String() {
		return &failure{"correspondence", fmt.Sprintf("Lean Spec.refCost gives %s, the harness's big.Int reference gives %s", modelRef, p.ref)}
	}
	return nil
}

// limitsFor: the limits the property quantifies over, around the reference cost.
func limitsFor(ref *big.Int, r *hx.Rand) []int {
	set := map[int]bool{-1: true, 0: true, maxInt: true}
	if ref != nil {
		for _, d := range []int64{-1, 0, 1} {
			v := new(big.Int).Add(ref, big.NewInt(d))
			if v.Sign() >= 0 && v.Cmp(bigMaxInt) <= 0 {
				set[int(v.Int64())] = true
			}
		}
		if ref.Cmp(bigMaxInt) > 0 {
			set[maxInt-1] = true
		}
	}
	set[int(r.Uint64()>>uint(r.Range(1, 62)))] = true
	out := make([]int, 0, len(set))
	for v := range set {
		out = append(out, v)
	}
	sort.Ints(out)
	return out
}

// opNamesOf: every operation name of the document, "" and an unknown name. With r != nil the two
// names that choose no operation ("" in a multi-operation document, the unknown one) are only kept
// now and then (they all have cost 0).
func opNamesOf(doc *ast.Document, r *hx.Rand) []string {
	var names []string
	nops := 0
	for _, d := range doc.Definitions {
		if op, ok := d.(*ast.OperationDefinition); ok {
			nops++
			if op.Name != nil {
				names = append(names, op.Name.Name)
			}
		}
	}
	if nops == 1 || r == nil || r.Chance(1, 3) {
		names = append([]string{""}, names...)
	}
	if r == nil || r.Chance(1, 6) {
		names = append(names, "Nope")
	}
	return names
}

func costClass(ref *big.Int) string {
	switch {
	case ref == nil:
		return "n/a"
	case ref.Sign() == 0:
		return "0"
	case ref.Cmp(big.NewInt(1000)) < 0:
		return "<1e3"
	case ref.Cmp(big.NewInt(1<<32)) < 0:
		return "<2^32"
	case ref.Cmp(new(big.Int).Sub(bigMaxInt, big.NewInt(2))) < 0:
		return "<maxInt-2"
	case ref.Cmp(new(big.Int).Add(bigMaxInt, big.NewInt(2))) <= 0:
		return "maxInt±2"
	case ref.Cmp(new(big.Int).Lsh(big.NewInt(1), 64)) < 0:
		return "(maxInt+2,2^64)"
	}
	return ">=2^64"
}

// evalRequest runs one (document, variables, default, operation name) under the limit set; it
// returns the first failing case.
func (h *harness) evalRequest(c Case, lim *hx.Rand, record bool) (*failure, Case) {
	p, skip := h.prepare(c)
	if skip != "" {
		if record {
			h.run.Count("skipped:" + strings.SplitN(skip, ":", 2)[0])
			if strings.HasPrefix(skip, "invalid") {
				h.run.Count("skipped-because: " + skip[len("invalid-document: "):])
				if h.skippedNotes < 3 {
					h.skippedNotes++
					h.run.Note("generated document rejected by the base validator (%s): %s", skip, c.Query)
				}
			}
		}
		return nil, c
	}
	if record {
		switch {
		case p.op == nil:
			h.run.Count("operation:none-chosen")
		case !p.varsOk:
			h.run.Count("operation:variables-not-coercible")
		case p.refErr != nil:
			h.run.Count("operation:reference-undefined")
		case p.stats.Negative:
			h.run.Count("operation:negative-cost(outside quantifier)")
		default:
			h.run.Count("operation:in-domain")
			h.run.Count("refcost:" + costClass(p.ref))
			if p.stats.ZeroUnderOverflow {
				h.run.Count("shape:zero-cost-field-under-overflowed-multiplier")
			}
			if p.stats.ViaFrag > 0 && p.stats.UnderMul > 0 {
				h.run.Count("shape:multiplier-chain-through-fragment")
			}
			if p.stats.CtxReads > 0 {
				h.run.Count("shape:context-read")
			}
			if p.stats.CtxReadBelowConn > 0 {
				h.run.Count("shape:ancestor-context-read-below-default-cost-connection")
			}
			if p.stats.DupKeys > 0 {
				h.run.Count("shape:repeated-response-key-in-one-selection-set")
			}
			if p.stats.DupUnder > 0 {
				h.run.Count("shape:repeated-response-key-with-own-sub-selections")
			}
			h.run.Count(fmt.Sprintf("shape:fragment-expansions=%s", bucket(p.stats.Expansions)))
			h.run.Count(fmt.Sprintf("shape:charged-fields=%s", bucket(p.stats.Charged)))
		}
	}
	var limits []int
	if p.varsOk && p.refErr == nil {
		limits = limitsFor(p.ref, lim)
	} else {
		limits = limitsFor(nil, lim)
	}
	var replies []string
	if h.model != nil {
		lines := make([]string, len(limits))
		pre, post := modelRequestParts(p.doc, c.OpName, p.varsOk, c.Default, p.coerced, p.raw)
		for i, max := range limits {
			lines[i] = pre + strconv.Itoa(max) + post
		}
		var err error
		if replies, err = h.model.AskAll(lines); err != nil {
			return &failure{"correspondence", "model driver failed: " + err.Error()}, c
		}
	}
	for i, max := range limits {
		cc := c
		cc.Max = max
		reply := ""
		if replies != nil {
			reply = replies[i]
		}
		f := h.runOneWith(cc, p, false, reply)
		if record {
			nontrivial := p.op != nil && p.varsOk && p.refErr == nil && !p.stats.Negative && p.stats.Charged >= 2 && (p.stats.UnderMul > 0 || p.stats.ViaFrag > 0)
			h.run.Case(fmt.Sprintf("%s|%s|%v|%v|%d", c.Query, c.OpName, c.Vars, c.Default, max), nontrivial)
			h.run.Oblige("cost-walk correspondence (verdict, actual) vs c14model", "correspondence", 1, f == nil || f.Kind != "correspondence", fmtFail(f))
			h.run.Oblige("oracle: actual = min(big.Int reference, maxInt); accepted ⇔ max = -1 ∨ reference ≤ max", "oracle", 1, f == nil || f.Kind == "correspondence", fmtFail(f))
		}
		if f != nil {
			return f, cc
		}
	}
	return nil, c
}

func fmtFail(f *failure) string {
	if f == nil {
		return ""
	}
	return f.Kind + ": " + f.What
}

func bucket(n int) string {
	switch {
	case n == 0:
		return "0"
	case n <= 2:
		return "1-2"
	case n <= 5:
		return "3-5"
	case n <= 10:
		return "6-10"
	case n <= 30:
		return "11-30"
	}
	return ">30"
}

// report turns a failure into a violation.
func (h *harness) report(f *failure, c Case) {
	h.reported[f.Kind]++
	h.run.Violate(f.Kind, f.What, "", f.Kind == "correspondence", c)
}

// worthShrinking: hx keeps three violations per kind; shrinking the hundreds that a broken rule
// produces after those would only burn the time budget.
func (h *harness) worthShrinking(f *failure) bool { return h.reported[f.Kind] < 3 }

// ---- generated documents ------------------------------------------------------------------------------

var defaults = []DefaultCost{
	{R: 1}, {R: 1}, {R: 1}, {}, {R: 0, M: 0}, {R: 2, M: 3}, {R: 1, M: 1}, {R: 1, Set: true, C: 9}, {R: 5, M: 2, Set: true, C: 4},
	{R: 1 << 40}, {R: 1, M: 1 << 33}, {R: maxInt}, {R: 0, M: maxInt},
}

func (h *harness) generated(n int) {
	for i := 0; i < n; i++ {
		r := h.run.Rand.Fork()
		o := genOpts{MaxDepth: r.Range(2, 6), Budget: r.Range(3, 40)}
		switch x := r.Intn(20); {
		case x < 4:
			o.SmallOnly = true
		case x < 6:
			o.AllowOdd = true
		}
		gd, vars := genDoc(r, o)
		dflt := hx.Pick(r, defaults)
		if o.SmallOnly {
			dflt = hx.Pick(r, defaults[:9])
		}
		h.evalGenerated(gd, vars, dflt, r, i < 4)
	}
}

// evalGenerated evaluates a generated document under every operation name, optionally after
// steering its cost to the 64-bit boundary, with sound and unsound variable maps.
func (h *harness) evalGenerated(gd *GDoc, vars map[string]VarVal, dflt DefaultCost, r *hx.Rand, sample bool) {
	base := Case{Kind: "doc", Query: gd.Render(), Vars: vars, Default: dflt}
	doc, perrs := parser.ParseDocument([]byte(base.Query))
	if len(perrs) > 0 {
		h.run.Count("skipped:parse-error")
		h.run.Note("generator produced unparsable text: %s: %s", perrs[0].Message, base.Query)
		return
	}
	names := opNamesOf(doc, r)
	// steer to the boundary: add a top-level leaf whose cost brings the chosen operation to maxInt+δ
	if r.Chance(1, 4) && len(gd.Ops) > 0 {
		c := base
		c.OpName = names[0]
		if len(gd.Ops) > 1 {
			c.OpName = gd.Ops[0].Name
		}
		if p, skip := h.prepare(c); skip == "" && p.op != nil && p.varsOk && p.refErr == nil && !p.stats.Negative {
			delta := int64(r.Range(-2, 2))
			need := new(big.Int).Sub(new(big.Int).Add(bigMaxInt, big.NewInt(delta)), p.ref)
			if need.Sign() >= 0 && need.Cmp(bigMaxInt) <= 0 {
				gd.Ops[0].Subs = append(gd.Ops[0].Subs, &GSel{Kind: "field", Alias: "steer", Name: "v", Args: []GArg{{Name: "r", Lit: need.String()}}})
				base.Query = gd.Render()
				h.run.Count("generator:steered-to-maxInt" + fmt.Sprintf("%+d", delta))
			}
		}
	}
	if sample {
		h.run.Sample(base)
	}
	if strings.Contains(base.Query, ": null") {
		h.run.Count("generator:argument-spelled-null-literal")
	}
	for _, v := range vars {
		if v.Kind == "null" {
			h.run.Count("generator:null-valued-variable")
			break
		}
	}
	for _, name := range names {
		c := base
		c.OpName = name
		if f, fc := h.evalRequest(c, r, true); f != nil {
			if h.worthShrinking(f) {
				f, fc = h.shrink(gd, fc, f)
			}
			h.report(f, fc)
			return
		}
	}
	// the same request with a variable map that cannot be coerced
	if len(vars) > 0 && r.Chance(1, 5) {
		bad := map[string]VarVal{}
		keys := make([]string, 0, len(vars))
		for k, v := range vars {
			bad[k] = v
			keys = append(keys, k)
		}
		sort.Strings(keys)
		k := hx.Pick(r, keys)
		// (values that no reading of Int / Big coercion accepts; a bool for an Int is left out on purpose:
		// whether `true` coerces to 1 is C05's business and has changed upstream)
		bad[k] = hx.Pick(r, []VarVal{{"string", "not a number"}, {"float", "1.5"}, {"string", ""}})
		c := base
		c.Vars = bad
		c.OpName = names[0]
		if len(gd.Ops) > 1 {
			c.OpName = gd.Ops[0].Name
		}
		h.run.Count("generator:bad-variable-map")
		if f, fc := h.evalRequest(c, r, true); f != nil {
			h.report(f, fc)
		}
	}
}

// shrink drops selections / operations / fragments while the request still fails the same way.
func (h *harness) shrink(gd *GDoc, c Case, f *failure) (*failure, Case) {
	lim := hx.NewRand(7)
	fails := func(d *GDoc) (*failure, Case) {
		cc := c
		cc.Query = d.Render()
		// keep the limit that failed, and also try the limits around the new reference cost
		if p, skip := h.prepare(cc); skip == "" {
			if f2 := h.runOne(cc, p, false); f2 != nil && f2.Kind == f.Kind {
				return f2, cc
			}
		}
		if f2, c2 := h.evalRequest(cc, lim, false); f2 != nil && f2.Kind == f.Kind {
			return f2, c2
		}
		return nil, cc
	}
	clone := func(d *GDoc) *GDoc {
		b, _ := json.Marshal(d)
		var out GDoc
		json.Unmarshal(b, &out)
		return &out
	}
	cur, curF, curC := gd, f, c
	for attempts, changed := 0, true; changed && attempts < 400; {
		changed = false
		// candidate edits: remove the k-th selection (pre-order over operations then fragments), or an operation
		total := countSels(cur)
		for k := 0; k < total+len(cur.Ops) && attempts < 400; k++ {
			attempts++
			cand := clone(cur)
			if k < total {
				if !removeSel(cand, k) {
					continue
				}
			} else {
				i := k - total
				if len(cand.Ops) < 2 || cand.Ops[i].Name == c.OpName {
					continue
				}
				cand.Ops = append(cand.Ops[:i], cand.Ops[i+1:]...)
			}
			if f2, c2 := fails(cand); f2 != nil {
				cur, curF, curC, changed = cand, f2, c2, true
				break
			}
		}
	}
	return curF, curC
}

func countSels(d *GDoc) int {
	n := 0
	var rec func(subs []*GSel)
	rec = func(subs []*GSel) {
		for _, s := range subs {
			n++
			rec(s.Subs)
		}
	}
	for _, op := range d.Ops {
		rec(op.Subs)
	}
	for _, f := range d.Frags {
		rec(f.Subs)
	}
	return n
}

// removeSel removes the k-th selection in pre-order; a selection set that would become empty gets
// `__typename` instead. Returns false when nothing changed.
func removeSel(d *GDoc, k int) bool {
	n := 0
	done, changed := false, false
	var rec func(subs []*GSel) []*GSel
	rec = func(subs []*GSel) []*GSel {
		for i := 0; i < len(subs) && !done; i++ {
			if n == k {
				done = true
				if len(subs) == 1 {
					if subs[0].Kind == "field" && subs[0].Name == "__typename" {
						return subs
					}
					changed = true
					return []*GSel{{Kind: "field", Name: "__typename"}}
				}
				changed = true
				return append(append([]*GSel{}, subs[:i]...), subs[i+1:]...)
			}
			n++
			subs[i].Subs = rec(subs[i].Subs)
		}
		return subs
	}
	for _, op := range d.Ops {
		if !done {
			op.Subs = rec(op.Subs)
		}
	}
	for _, f := range d.Frags {
		if !done {
			f.Subs = rec(f.Subs)
		}
	}
	return changed
}

// ---- hand-written documents (the shapes named in the property and its findings) -----------------------

func (h *harness) handWritten() {
	r := hx.NewRand(99)
	big40 := strconv.Itoa(1 << 40)
	docs := []Case{
		// F-14a (fixed by repo-patches/C14/01): a zero-cost field under an overflowed multiplier product
		{Query: `{ root: n(r: 1, m: ` + big40 + `) { kids: n(r: 0, m: ` + big40 + `) { free: z } } }`, Default: DefaultCost{R: 1}},
		{Query: `{ root: n(r: 1, m: ` + big40 + `) { kids: n(r: 0, m: ` + big40 + `) { kids: n(r: 0, m: ` + big40 + `) { free: v(r: 0) t: __typename } } } }`, Default: DefaultCost{R: 1}},
		{Query: `{ a: n(r: 0, m: ` + strconv.Itoa(maxInt) + `) { b: n(r: 0, m: 2) { c: n(r: 0, m: 0) { ...F } } } } fragment F on N { z x: z y: v(r: 0) }`, Default: DefaultCost{}},
		// the same fragment at several depths of a multiplier chain
		{Query: `{ a: n(r: 1, m: 3, c: 7) { ...F b: n(r: 2, m: 5) { ...F c: cm { ...F } } } d: i(m: 2) { ...G } } fragment F on N { x: cr y: v(r: 2) ...G } fragment G on I { g: v(r: 1) }`, Default: DefaultCost{R: 1}},
		// the same fragment twice in a row at different places (the by-name guard must be released)
		{Query: `{ a: n { ...F } b: n { ...F } c: n { d: n { ...F } } } fragment F on N { x: v(r: 3) }`, Default: DefaultCost{R: 1}},
		// a fragment that shares its name with the requested operation (separate namespaces)
		{Query: `query A { x: n(m: 2) { ...A } } fragment A on N { y: v(r: 3) ...B } fragment B on N { z2: v(r: 1) }`, Default: DefaultCost{R: 1}},
		// the same response key several times in ONE selection set (validation allows it for the same field
		// with identical arguments; the executor merges them; every selection is still charged)
		{Query: `{ one: v(r: 1) one: v(r: 1) }`, Default: DefaultCost{R: 1}},
		{Query: `{ z z p p cr }`, Default: DefaultCost{R: 3}},
		{Query: `{ o: n(r: 1, m: 10) { a: v(r: 2) } o: n(r: 1, m: 10) { b: v(r: 3) } }`, Default: DefaultCost{R: 1}},
		{Query: `{ n(m: 10, c: 4) { x: cr } q: v(r: 1) n(m: 10, c: 4) { y: v(r: 5) cm { w: v(r: 7) } } n(m: 10, c: 4) { x: cr } }`, Default: DefaultCost{R: 1}},
		{Query: `{ o: n(m: 3) { i1: v(r: 2) i1: v(r: 2) ... on N { i1: v(r: 2) } ...F } o: n(m: 3) { ...F pn { p } pn { p z } } } fragment F on N { i1: v(r: 2) cm { u: v(r: 1) } cm { u2: v(r: 1) } }`, Default: DefaultCost{R: 2, M: 2}},
		{Query: `query Q($m: Big) { k(first: 5) { e: cm { v1: v(r: 1) } } k(first: 5) { e: cm { v2: v(r: 2) } e: cm { v3: v(r: $m) } } }`, Vars: map[string]VarVal{"m": {"int", "9"}}, Default: DefaultCost{}},
		// an ancestor's cost context must still be visible below a default-cost connection (which only ADDS
		// its max edge count to the context it received)
		{Query: `{ tenant: n(r: 1, c: 7) { reports: items(first: 3) { edges { node { render: cr } } } } }`, Default: DefaultCost{R: 1}},
		{Query: `{ a: n(r: 0, c: 5, m: 2) { items(last: 4) { edges { node { cr x: cm { y: v(r: 1) } items(first: 2) { edges { node { z2: cr } cursor } pageInfo { hasNextPage } } } } totalCount } } }`, Default: DefaultCost{R: 1, Set: true, C: 9}},
		{Query: `{ items(first: 3) { edges { node { a: cr b: crm(c: 6) { c: cr items(first: 2) { edges { node { d: cr } } } } } } } }`, Default: DefaultCost{}},
		// operation choice
		{Query: `query A { a: v(r: 3) } query B { b: v(r: 5) } query C { c: n(m: 4) { d: v(r: 2) } }`, Default: DefaultCost{R: 1}},
		// default cost with a multiplier and a context
		{Query: `{ a: pn { b: pn { c: p d: cr } } e: p }`, Default: DefaultCost{R: 2, M: 3, Set: true, C: 5}},
		// Multiplier 0 and 1 and negative are "not set"
		{Query: `{ a: n(r: 1, m: 0) { x: v(r: 7) } b: n(r: 1, m: 1) { x2: v(r: 7) } c: n(r: 1, m: -4) { x3: v(r: 7) } }`, Default: DefaultCost{}},
		// exact boundary: maxInt, maxInt+1 by sum and by product
		{Query: `{ a: v(r: ` + strconv.Itoa(maxInt-1) + `) b: v(r: 1) }`, Default: DefaultCost{}},
		{Query: `{ a: v(r: ` + strconv.Itoa(maxInt-1) + `) b: v(r: 1) c: v(r: 1) }`, Default: DefaultCost{}},
		{Query: `{ a: n(r: 0, m: 3037000500) { b: n(r: 0, m: 3037000500) { c: v(r: 1) } } }`, Default: DefaultCost{}},
		{Query: `{ a: n(r: 0, m: 3037000499) { b: n(r: 0, m: 3037000499) { c: v(r: 1) } } }`, Default: DefaultCost{}},
		{Query: `{ a: n(r: 0, m: 4294967296) { b: n(r: 0, m: 2147483648) { c: v(r: 1) } } }`, Default: DefaultCost{}},
		{Query: `{ a: n(r: 0, m: 4294967296) { b: n(r: 0, m: 2147483648) { c: v(r: 0) d: z } e: v(r: ` + strconv.Itoa(maxInt) + `) } }`, Default: DefaultCost{}},
		// a product that wraps to a small positive number: 2^32 * (2^32 + 1) ≡ 2^32 (mod 2^64)
		{Query: `{ a: n(r: 0, m: 4294967296) { b: v(r: 4294967297) } }`, Default: DefaultCost{}},
		// variables: provided, defaulted, absent (→ argument default), through a fragment
		{Query: `query Q($a: Big, $b: Big = 6, $c: Big) { x: n(r: $a, m: $b) { ...F } y: v(r: $c) } fragment F on N { z1: v(r: $b) }`, Vars: map[string]VarVal{"a": {"int", "4"}}, Default: DefaultCost{R: 1}},
		// skipped fields are still charged (the rule does not look at @skip / @include)
		{Query: `{ a: v(r: 4) @skip(if: true) b: n(m: 3) @include(if: false) { c: v(r: 2) } }`, Default: DefaultCost{}},
		// introspection and __typename
		{Query: `{ __typename __schema { types { name } } t: __type(name: "N") { name } }`, Default: DefaultCost{R: 1}},
		// connection-like default costs
		{Query: `{ a: k(first: 10) { e: cm { x: v(r: 1) c: z } } b: k(last: 0) { e2: cm { y: v(r: 1) } } }`, Default: DefaultCost{R: 1}},
	}
	for _, c := range docs {
		c.Kind = "doc"
		doc, perrs := parser.ParseDocument([]byte(c.Query))
		if len(perrs) > 0 {
			h.run.Note("hand-written document does not parse: %s", c.Query)
			continue
		}
		for _, name := range opNamesOf(doc, nil) {
			cc := c
			cc.OpName = name
			h.run.Count("hand-written")
			if f, fc := h.evalRequest(cc, r, true); f != nil {
				h.report(f, fc)
			}
		}
	}
}

// ---- replay / corpus ----------------------------------------------------------------------------------

func (h *harness) replayCase(c Case, verbose bool) *failure {
	switch c.Kind {
	case "arith":
		return h.arithOne(c, verbose)
	case "execute":
		return h.executeOne(c, verbose)
	case "conn":
		return h.connOne(c, verbose)
	case "ws":
		return h.wsOne(c, verbose)
	case "history":
		return h.historyOne(c, verbose)
	case "args":
		return h.argsOne(c, c.Total, verbose)
	default:
		p, skip := h.prepare(c)
		if skip != "" {
			if verbose {
				fmt.Println("skipped:", skip)
			}
			return nil
		}
		return h.runOne(c, p, verbose)
	}
}

func main() {
	run := hx.Init("C14")
	h := &harness{run: run, schema: buildSchema(), apis: map[DefaultCost]*apiWorld{}, reported: map[string]int{}}
	if run.ModelPath != "" {
		m, err := hx.StartModel(run.ModelPath)
		if err != nil {
			fmt.Fprintln(os.Stderr, "cannot start model:", err)
			os.Exit(2)
		}
		h.model = m
		defer m.Close()
	}
	run.SetRule("requests = (document valid against a schema with instrumented per-field cost functions, operation name, variable map, defaultCost, limit); " +
		"documents: generated (fragments spread at several depths of multiplier chains, inline fragments, 1-3 operations, variables provided/defaulted/absent, context-passing fields, values up to maxInt, " +
		"cost steered to maxInt±2) and hand-written; every operation name of the document plus \"\" and an unknown one; limits {-1, 0, ref-1, ref, ref+1, maxInt, random}. " +
		"distinct = distinct (document, operation name, variables, default, limit); non-trivial = an operation is chosen, variables coerce, no negative cost, and the expanded operation charges ≥ 2 fields of which at least one under a multiplier > 1 or inside a fragment")
	_ = validator.VerifCheckedMul // the arithmetic hook (repo-patches/C14/02-hook-arith.patch) must be present

	if run.Replay != "" {
		var c Case
		if err := hx.LoadReplayCase(run.Replay, &c); err != nil {
			fmt.Fprintln(os.Stderr, err)
			os.Exit(2)
		}
		b, _ := json.Marshal(c)
		fmt.Printf("replay case: %s\n", b)
		if f := h.replayCase(c, true); f != nil {
			fmt.Printf("replay: kind=%q what=%q\n", f.Kind, f.What)
			h.report(f, c)
		} else {
			fmt.Println("replay: no failure")
		}
		run.Finish(h.model)
		return
	}

	for _, file := range run.CorpusFiles() {
		var c Case
		if err := hx.LoadReplayCase(file, &c); err != nil || c.Kind == "" {
			run.Note("unreadable corpus file %s", file)
			continue
		}
		run.Count("corpus")
		f := h.replayCase(c, false)
		run.Oblige("corpus / fixed-finding replays", "oracle", 1, f == nil, fmtFail(f))
		if f != nil {
			f.What = "corpus case " + file + ": " + f.What
			h.report(f, c)
		}
	}

	h.arithGrid()
	h.handWritten()
	h.generated(run.Scale(3000, 60000))
	h.executePath(run.Scale(250, 4000))
	h.connections()
	h.argResolution()
	h.wsPath(run.Scale(60, 600))
	h.histories(run.Scale(250, 5000))
	for _, w := range h.apis {
		w.close()
	}
	run.CountN("model-input:connection field sent as raw spelling (Lean coerces variables and arguments)", rawConnSent)
	run.CountN("model-input:connection field sent as the harness's own reading (outside the Lean vocabulary)", rawConnFallback)
	for why, n := range rawFallbackWhy {
		run.CountN("model-input:fallback because "+why, n)
	}
	run.Finish(h.model)
}
