package main

// The argument-resolution tie (Lean: ApiFu/C14/ArgModel.lean, PropsArgs.lean).
//
// The model's parameter "what the cost function receives in ctx.Arguments" is instantiated in Lean for
// Int arguments (first / last of connections): a transliteration of validator.CoerceVariableValues and
// CoerceArgumentValues from the request *as written* — variable definitions with their defaults, the
// request's variables, the spelling of the argument. Two ties:
//
//  1. every default-cost connection field of every document the harness hands to the model is sent as
//     `(connraw (decls …) (given …) FS LS)` — the raw spelling — instead of the harness's own reading
//     `(conn F L)`, whenever the spelling is expressible (Int variables, null / integer values): the
//     Lean model coerces variables and arguments itself, and its cost is compared with the real rule's
//     (generated documents, served connections, histories).
//  2. argResolution: for every spelling of first × last (and Int!, null / integer defaults) the real rule
//     is run on `query Q(…) { x: k(first…, last…) { z } }`; the harness's own cost function of `k`
//     records what ctx.Arguments holds (no key | nil | int); that observation, the harness's Go mirror
//     (argState) and the Lean model's `ConnRequest.args` (`connargs`) must agree, and the charged
//     context must be the count the independent reading gives.

import (
	"fmt"
	"sort"
	"strconv"
	"strings"

	"github.com/ccbrown/api-fu/graphql/ast"

	"verifharness/hx"
)

type rawDecl struct {
	nonNull bool
	dflt    string // "none" | "null" | decimal integer
	ok      bool   // expressible in the Lean model (type Int / Int!, default absent, null or an integer)
}

type rawReq struct {
	decls map[string]rawDecl
	order []string
	given map[string]VarVal
}

func rawOf(op *ast.OperationDefinition, vars map[string]VarVal) *rawReq {
	if op == nil {
		return nil
	}
	r := &rawReq{decls: map[string]rawDecl{}, given: vars}
	for _, def := range op.VariableDefinitions {
		name := def.Variable.Name.Name
		typ := typeText(def.Type)
		d := rawDecl{dflt: "none", ok: true}
		if strings.HasSuffix(typ, "!") {
			d.nonNull = true
			typ = strings.TrimSuffix(typ, "!")
		}
		if typ != "Int" {
			d.ok = false
		}
		switch v := def.DefaultValue.(type) {
		case nil:
		case *ast.NullValue:
			d.dflt = "null"
		case *ast.IntValue:
			d.dflt = v.Value
		default:
			d.ok = false
		}
		if _, dup := r.decls[name]; dup {
			d.ok = false
		}
		r.decls[name] = d
		r.order = append(r.order, name)
	}
	return r
}

// spellingOf: how the argument `name` of f is written: absent | null | integer | (var NAME); ok=false
// when the model's vocabulary cannot say it (another literal kind).
func spellingOf(f *ast.Field, name string) (hx.Sexp, string, bool) {
	for _, a := range f.Arguments {
		if a.Name.Name != name {
			continue
		}
		switch v := a.Value.(type) {
		case *ast.IntValue:
			if _, err := strconv.ParseInt(v.Value, 10, 64); err != nil {
				return hx.Sexp{}, "", false
			}
			return hx.A(v.Value), "", true
		case *ast.NullValue:
			return hx.A("null"), "", true
		case *ast.Variable:
			return hx.N("var", hx.A(v.Name.Name)), v.Name.Name, true
		default:
			return hx.Sexp{}, "", false
		}
	}
	return hx.A("absent"), "", true
}

// connRawParts renders `(decls …) (given …) FS LS` for the first / last arguments of f; ok=false when
// something is outside the Lean model's vocabulary (the caller then falls back to its own reading).
// why a connection field could not be sent as its raw spelling (distribution)
var rawFallbackWhy = map[string]int{}

func connRawParts(f *ast.Field, raw *rawReq) (parts []hx.Sexp, ok bool) {
	why := ""
	defer func() {
		if !ok {
			rawFallbackWhy[why]++
		}
	}()
	why = "no operation chosen"
	if raw == nil {
		return nil, false
	}
	why = "literal or variable outside the vocabulary"
	fs, fv, ok1 := spellingOf(f, "first")
	ls, lv, ok2 := spellingOf(f, "last")
	if !ok1 || !ok2 {
		return nil, false
	}
	used := map[string]bool{}
	for _, v := range []string{fv, lv} {
		if v != "" {
			used[v] = true
		}
	}
	names := make([]string, 0, len(used))
	for v := range used {
		names = append(names, v)
	}
	sort.Strings(names)
	decls := []hx.Sexp{hx.A("decls")}
	given := []hx.Sexp{hx.A("given")}
	for _, v := range names {
		d, declared := raw.decls[v]
		if !declared || !d.ok {
			why = "variable declared in another operation, or not a plain Int variable"
			return nil, false
		}
		decls = append(decls, hx.N("d", hx.A(v), hx.B(d.nonNull), hx.A(d.dflt)))
		if g, has := raw.given[v]; has {
			switch g.Kind {
			case "null":
				given = append(given, hx.N("g", hx.A(v), hx.A("null")))
			case "int":
				if _, err := strconv.ParseInt(g.Text, 10, 64); err != nil {
					return nil, false
				}
				given = append(given, hx.N("g", hx.A(v), hx.A(g.Text)))
			default: // a float, string or boolean given for an Int variable: C05's business, not modelled
				why = "float / string / boolean value given for an Int variable"
				return nil, false
			}
		}
	}
	return []hx.Sexp{hx.L(decls...), hx.L(given...), fs, ls}, true
}

// ---- the direct observation: what the cost function of `k` receives ------------------------------------

// kSeen collects, while set, what every invocation of k's cost function found in ctx.Arguments.
var kSeen *[][2]string

func argEntry(args map[string]interface{}, name string) string {
	v, has := args[name]
	if !has {
		return "absent"
	}
	if v == nil {
		return "null"
	}
	if n, ok := v.(int); ok {
		return strconv.Itoa(n)
	}
	return fmt.Sprintf("other:%T", v)
}

type argForm struct {
	name string // label
	// text of the argument ("" = omitted), the variable definition ("" = none), the variable's value (nil = not given)
	arg func(a string, k int) (text, def string, val *VarVal)
	// the integer the spelling denotes (independent reading), ok=false: none
	denotes func(k int) (int, bool)
}

var argForms = []argForm{
	{"absent", func(a string, k int) (string, string, *VarVal) { return "", "", nil }, func(int) (int, bool) { return 0, false }},
	{"literal", func(a string, k int) (string, string, *VarVal) { return fmt.Sprintf("%s: %d", a, k), "", nil }, func(k int) (int, bool) { return k, true }},
	{"null-literal", func(a string, k int) (string, string, *VarVal) { return a + ": null", "", nil }, func(int) (int, bool) { return 0, false }},
	{"variable", func(a string, k int) (string, string, *VarVal) {
		return a + ": $" + a, "$" + a + ": Int", &VarVal{"int", strconv.Itoa(k)}
	}, func(k int) (int, bool) { return k, true }},
	{"nonnull-variable", func(a string, k int) (string, string, *VarVal) {
		return a + ": $" + a, "$" + a + ": Int!", &VarVal{"int", strconv.Itoa(k)}
	}, func(k int) (int, bool) { return k, true }},
	{"null-variable", func(a string, k int) (string, string, *VarVal) {
		return a + ": $" + a, "$" + a + ": Int", &VarVal{"null", ""}
	}, func(int) (int, bool) { return 0, false }},
	{"valueless-variable", func(a string, k int) (string, string, *VarVal) { return a + ": $" + a, "$" + a + ": Int", nil }, func(int) (int, bool) { return 0, false }},
	{"valueless-variable-with-default", func(a string, k int) (string, string, *VarVal) {
		return a + ": $" + a, fmt.Sprintf("$%s: Int = %d", a, k+13), nil
	}, func(k int) (int, bool) { return k + 13, true }},
	{"valueless-nonnull-variable-with-default", func(a string, k int) (string, string, *VarVal) {
		return a + ": $" + a, fmt.Sprintf("$%s: Int! = %d", a, k+13), nil
	}, func(k int) (int, bool) { return k + 13, true }},
	{"valueless-variable-with-null-default", func(a string, k int) (string, string, *VarVal) {
		return a + ": $" + a, "$" + a + ": Int = null", nil
	}, func(int) (int, bool) { return 0, false }},
	{"null-variable-with-default", func(a string, k int) (string, string, *VarVal) {
		return a + ": $" + a, fmt.Sprintf("$%s: Int = %d", a, k+13), &VarVal{"null", ""}
	}, func(int) (int, bool) { return 0, false }},
	{"variable-with-default", func(a string, k int) (string, string, *VarVal) {
		return a + ": $" + a, fmt.Sprintf("$%s: Int = %d", a, k+13), &VarVal{"int", strconv.Itoa(k)}
	}, func(k int) (int, bool) { return k, true }},
}

// argErrForms: spellings whose variable cannot be coerced — the rule reports a secondary error, writes no
// `actual`, calls no cost function; the Lean model's coercion fails too.
var argErrForms = []argForm{
	{"null-for-nonnull-variable", func(a string, k int) (string, string, *VarVal) {
		return a + ": $" + a, "$" + a + ": Int!", &VarVal{"null", ""}
	}, nil},
	{"null-for-nonnull-variable-with-default", func(a string, k int) (string, string, *VarVal) {
		return a + ": $" + a, fmt.Sprintf("$%s: Int! = %d", a, k+13), &VarVal{"null", ""}
	}, nil},
	{"valueless-nonnull-variable", func(a string, k int) (string, string, *VarVal) {
		return a + ": $" + a, "$" + a + ": Int!", nil
	}, nil},
	{"33-bit-value", func(a string, k int) (string, string, *VarVal) {
		return a + ": $" + a, "$" + a + ": Int", &VarVal{"int", strconv.Itoa(2147483648 + k)}
	}, nil},
	{"minus-33-bit-value-with-default", func(a string, k int) (string, string, *VarVal) {
		return a + ": $" + a, fmt.Sprintf("$%s: Int = %d", a, k), &VarVal{"int", strconv.Itoa(-2147483649 - k)}
	}, nil},
}

func (h *harness) argResolution() {
	const obl = "argument resolution: ctx.Arguments seen by a cost function = Lean ConnRequest.args = harness mirror; charged context = the count the request denotes (every spelling of first × last)"
	r := h.run.Rand.Fork()
	n, bad := 0, 0
	var first *failure
	var firstCase Case
	type pair struct{ f, l argForm }
	var pairs []pair
	for _, ff := range argForms {
		for _, lf := range argForms {
			pairs = append(pairs, pair{ff, lf})
		}
	}
	for _, ef := range argErrForms { // an un-coercible variable on one side, every kind of spelling on the other
		for _, of := range argForms {
			pairs = append(pairs, pair{ef, of}, pair{of, ef})
		}
	}
	for _, pr := range pairs {
		{
			ff, lf := pr.f, pr.l
			fk, lk := r.Range(0, 40), r.Range(0, 40)
			c := Case{Kind: "args", Default: DefaultCost{R: 1}, Max: -1, Vars: map[string]VarVal{}}
			var args, defs []string
			for _, a := range []struct {
				name string
				f    argForm
				k    int
			}{{"first", ff, fk}, {"last", lf, lk}} {
				text, def, val := a.f.arg(a.name, a.k)
				if text != "" {
					args = append(args, text)
				}
				if def != "" {
					defs = append(defs, def)
				}
				if val != nil {
					c.Vars[a.name] = *val
				}
			}
			head, call := "query Q", "k"
			if len(defs) > 0 {
				head += "(" + strings.Join(defs, ", ") + ")"
			}
			if len(args) > 0 {
				call += "(" + strings.Join(args, ", ") + ")"
			}
			// `cr` charges the context value as its resolver cost: the cost is 1 (k) + count
			c.Query = head + " { x: " + call + " { cr } }"
			c.Note = "first=" + ff.name + " last=" + lf.name
			want := 0
			if ff.denotes == nil || lf.denotes == nil {
				want = -1 // the variables do not coerce
			} else if v, ok := lf.denotes(lk); ok {
				want = v
			} else if v, ok := ff.denotes(fk); ok {
				want = v
			}
			c.Total = want // kept in the case for -replay (-1: the variables do not coerce)
			f := h.argsOne(c, want, false)
			n++
			h.run.Count("args:first=" + ff.name)
			h.run.Count("args:last=" + lf.name)
			h.run.Case("args|"+c.Query+fmt.Sprint(c.Vars), true)
			if f != nil {
				bad++
				if first == nil {
					first, firstCase = f, c
				}
			}
		}
	}
	h.run.Oblige(obl, "correspondence", n, bad == 0, fmtFail(first))
	if first != nil {
		h.report(first, firstCase)
	}
}

// argsOne runs one argument-resolution case; want is the count the request denotes (independent reading).
func (h *harness) argsOne(c Case, want int, verbose bool) *failure {
	p, skip := h.prepare(c)
	if skip != "" {
		return &failure{"correspondence", "argument-resolution case is not a valid document: " + skip + ": " + c.Query}
	}
	var seen [][2]string
	kSeen = &seen
	real, msgs := h.realValidate(c)
	kSeen = nil
	if verbose {
		fmt.Printf("implementation: %s %v, k's cost function saw %v\n", real, msgs, seen)
	}
	if strings.HasPrefix(real.Verdict, "panic:") {
		return &failure{"crash", "the rule panicked: " + real.Verdict}
	}
	// the field node of k
	var kf *ast.Field
	ast.Inspect(p.op, func(n ast.Node) bool {
		if f, ok := n.(*ast.Field); ok && f.Name.Name == "k" {
			kf = f
		}
		return true
	})
	if kf == nil || p.varsOk != (want >= 0) {
		return &failure{"correspondence", fmt.Sprintf("argument-resolution case without a k field, or the harness's mirror of CoerceVariableValues (coerces: %v) disagrees with the case's intent: %s %v", p.varsOk, c.Query, c.Vars)}
	}
	if want < 0 { // un-coercible variables: a secondary error, no cost function runs, nothing is written
		if real.Verdict != "secondary" || real.Actual != "unset" || len(seen) != 0 {
			return &failure{"property", fmt.Sprintf("the request's variables cannot be coerced (%s %v), yet the rule answers %s and called %d cost functions (%v)", c.Query, c.Vars, real, len(seen), msgs)}
		}
		if h.model == nil {
			return nil
		}
		parts, ok := connRawParts(kf, p.raw)
		if !ok {
			return &failure{"correspondence", "argument-resolution case outside the model's vocabulary: " + c.Query}
		}
		reply, err := h.model.Ask(hx.N("connargs", parts...).String())
		if err != nil {
			return &failure{"correspondence", "model driver failed: " + err.Error()}
		}
		if verbose {
			fmt.Printf("model: %s\n", reply)
		}
		if !strings.HasPrefix(reply, "(error") {
			return &failure{"correspondence", fmt.Sprintf("the real CoerceVariableValues rejects %s %v, Lean ConnRequest.args gives %s", c.Query, c.Vars, reply)}
		}
		return nil
	}
	mirror := [2]string{argState(kf, "first", p.coerced), argState(kf, "last", p.coerced)}
	if len(seen) != 1 {
		return &failure{"property", fmt.Sprintf("the cost function of k was called %d times for one selection (%v): %s %v", len(seen), msgs, c.Query, c.Vars)}
	}
	intOf := func(s string) string { // what Go's `.(int)` assertion makes of the entry
		if s == "absent" || s == "null" {
			return "no int"
		}
		return s
	}
	if intOf(seen[0][0]) != intOf(mirror[0]) || intOf(seen[0][1]) != intOf(mirror[1]) {
		return &failure{"property", fmt.Sprintf("ctx.Arguments of the cost function holds first=%s last=%s, but the request %s with variables %v denotes first=%s last=%s (the request's coerced variables / arguments are not what the cost function is given)", seen[0][0], seen[0][1], c.Query, c.Vars, mirror[0], mirror[1])}
	}
	if seen[0] != mirror { // no key vs nil: invisible to a cost function that reads integers, but not what the model says
		return &failure{"correspondence", fmt.Sprintf("ctx.Arguments of the cost function holds first=%s last=%s, the model of CoerceArgumentValues says first=%s last=%s: %s %v", seen[0][0], seen[0][1], mirror[0], mirror[1], c.Query, c.Vars)}
	}
	if real.Actual != strconv.Itoa(1+want) {
		return &failure{"property", fmt.Sprintf("actual is %s, but %s with variables %v denotes the count %d (cost 1 + %d)", real.Actual, c.Query, c.Vars, want, want)}
	}
	if h.model == nil {
		return nil
	}
	parts, ok := connRawParts(kf, p.raw)
	if !ok {
		return &failure{"correspondence", "argument-resolution case outside the model's vocabulary: " + c.Query}
	}
	reply, err := h.model.Ask(hx.N("connargs", parts...).String())
	if err != nil {
		return &failure{"correspondence", "model driver failed: " + err.Error()}
	}
	if verbose {
		fmt.Printf("model: %s\n", reply)
	}
	wantReply := hx.N("ok", hx.A(seen[0][0]), hx.A(seen[0][1])).String()
	if reply != wantReply {
		return &failure{"correspondence", fmt.Sprintf("Lean ConnRequest.args gives %s, the cost function received %s: %s %v", reply, wantReply, c.Query, c.Vars)}
	}
	return nil
}
