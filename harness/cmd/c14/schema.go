package main

// The real schema the documents are validated against, and the harness's own (independent)
// knowledge of what each field's cost function returns. The instrumented cost functions read
// *only* what the library hands them (FieldCostContext.Arguments, FieldCostContext.Context); the
// expectation side (expectedCost) works from the parsed document and the request's variables.

import (
	"context"
	"encoding/json"
	"math"
	"reflect"
	"strconv"

	apifu "github.com/ccbrown/api-fu"

	"github.com/ccbrown/api-fu/graphql"
	"github.com/ccbrown/api-fu/graphql/ast"
)

type ctxKey struct{}

// ctxVal is the cost-context value handed down by the nearest ancestor that set one (0 at the top).
func ctxVal(ctx context.Context) int {
	v, _ := ctx.Value(ctxKey{}).(int)
	return v
}

func parseBig(s string) interface{} {
	if n, err := strconv.ParseInt(s, 10, 64); err == nil {
		return int(n)
	}
	return nil
}

func coerceBig(v interface{}) interface{} {
	switch v := v.(type) {
	case int:
		return v
	case int64:
		return int(v)
	case int32:
		return int(v)
	case float64:
		if v == math.Trunc(v) && math.Abs(v) < (1<<53) {
			return int(v)
		}
	case json.Number:
		return parseBig(string(v))
	case string:
		return parseBig(v)
	}
	return nil
}

// Big is a 64-bit integer scalar: cost values up to maxInt travel through literals and variables.
var bigType = &graphql.ScalarType{
	Name: "Big",
	LiteralCoercion: func(v ast.Value) interface{} {
		switch v := v.(type) {
		case *ast.IntValue:
			return parseBig(v.Value)
		case *ast.StringValue:
			return parseBig(v.Value)
		}
		return nil
	},
	VariableValueCoercion: coerceBig,
	ResultCoercion:        coerceBig,
}

// field kinds of the test schema (every object / interface type has all of them)
type fieldKind struct {
	Name string
	Ret  string   // "N" | "I" | "" (leaf)
	Args []string // names of its arguments
}

var fieldKinds = []fieldKind{
	{"n", "N", []string{"r", "m", "c"}},   // cost {Resolver r (default 1), Multiplier m (0 if absent), Context := c if given}
	{"i", "I", []string{"r", "m", "c"}},   // same, returns the interface
	{"l", "N", []string{"r", "m", "c"}},   // same, returns [N!]
	{"v", "", []string{"r"}},              // leaf, cost {Resolver r (default 1)}
	{"cr", "", nil},                       // leaf, cost {Resolver: context value}
	{"cm", "N", nil},                      // cost {Resolver 0, Multiplier: context value}     (like a connection's `edges`)
	{"crm", "N", []string{"c"}},           // cost {Resolver, Multiplier: context value; Context := c if given}
	{"p", "", nil},                        // leaf, no cost function (→ defaultCost)
	{"pn", "N", nil},                      // no cost function (→ defaultCost)
	{"z", "", nil},                        // leaf, FieldResolverCost(0)
	{"items", "C", []string{"first", "last"}}, // apifu.Connection with its DEFAULT costs whose edges' `node` is an N (so cost contexts cross it)
	{"k", "N", []string{"first", "last"}}, // Int arguments; cost {Resolver 1, Context := last ?: first ?: 0} (like defaultConnectionCost)
}

func kindOf(name string) *fieldKind {
	for i := range fieldKinds {
		if fieldKinds[i].Name == name {
			return &fieldKinds[i]
		}
	}
	return nil
}

func intArg(args map[string]interface{}, name string) (int, bool) {
	v, ok := args[name].(int)
	return v, ok
}

func costRMC(ctx graphql.FieldCostContext) graphql.FieldCost {
	r, _ := intArg(ctx.Arguments, "r")
	m, _ := intArg(ctx.Arguments, "m")
	fc := graphql.FieldCost{Resolver: r, Multiplier: m}
	if c, ok := intArg(ctx.Arguments, "c"); ok {
		fc.Context = context.WithValue(ctx.Context, ctxKey{}, c)
	}
	return fc
}

// itemsConnection: a real default-cost connection (defaultConnectionCost, the `edges` cost function)
// whose nodes are N objects. One definition is shared by every type that has the field.
func itemsConnection(nType *graphql.ObjectType) *graphql.FieldDefinition {
	return apifu.Connection(&apifu.ConnectionConfig{
		NamePrefix: "Item",
		ResolveAllEdges: func(ctx graphql.FieldContext) (interface{}, func(a, b interface{}) bool, error) {
			return []int{}, func(a, b interface{}) bool { return a.(int) < b.(int) }, nil
		},
		CursorType: reflect.TypeOf(int(0)),
		EdgeCursor: func(edge interface{}) interface{} { return edge.(int) },
		EdgeFields: map[string]*graphql.FieldDefinition{
			"node": {Type: nType, Cost: graphql.FieldResolverCost(1), Resolve: func(ctx graphql.FieldContext) (interface{}, error) { return nil, nil }},
		},
	})
}

func makeFields(nType *graphql.ObjectType, iType *graphql.InterfaceType) map[string]*graphql.FieldDefinition {
	big := func(def interface{}) *graphql.InputValueDefinition {
		return &graphql.InputValueDefinition{Type: bigType, DefaultValue: def}
	}
	rmc := func() map[string]*graphql.InputValueDefinition {
		return map[string]*graphql.InputValueDefinition{"r": big(1), "m": big(nil), "c": big(nil)}
	}
	return map[string]*graphql.FieldDefinition{
		"n": {Type: nType, Arguments: rmc(), Cost: costRMC},
		"i": {Type: iType, Arguments: rmc(), Cost: costRMC},
		"l": {Type: graphql.NewListType(graphql.NewNonNullType(nType)), Arguments: rmc(), Cost: costRMC},
		"v": {Type: graphql.IntType, Arguments: map[string]*graphql.InputValueDefinition{"r": big(1)}, Cost: func(ctx graphql.FieldCostContext) graphql.FieldCost {
			r, _ := intArg(ctx.Arguments, "r")
			return graphql.FieldCost{Resolver: r}
		}},
		"cr": {Type: graphql.IntType, Cost: func(ctx graphql.FieldCostContext) graphql.FieldCost {
			return graphql.FieldCost{Resolver: ctxVal(ctx.Context)}
		}},
		"cm": {Type: nType, Cost: func(ctx graphql.FieldCostContext) graphql.FieldCost {
			return graphql.FieldCost{Resolver: 0, Multiplier: ctxVal(ctx.Context)}
		}},
		"crm": {Type: nType, Arguments: map[string]*graphql.InputValueDefinition{"c": big(nil)}, Cost: func(ctx graphql.FieldCostContext) graphql.FieldCost {
			fc := graphql.FieldCost{Resolver: ctxVal(ctx.Context), Multiplier: ctxVal(ctx.Context)}
			if c, ok := intArg(ctx.Arguments, "c"); ok {
				fc.Context = context.WithValue(ctx.Context, ctxKey{}, c)
			}
			return fc
		}},
		"p":  {Type: graphql.IntType},
		"pn": {Type: nType},
		"z":  {Type: graphql.IntType, Cost: graphql.FieldResolverCost(0)},
		"k": {Type: nType, Arguments: map[string]*graphql.InputValueDefinition{"first": {Type: graphql.IntType}, "last": {Type: graphql.IntType}}, Cost: func(ctx graphql.FieldCostContext) graphql.FieldCost {
			if kSeen != nil { // argument-resolution tie (raw.go): what ctx.Arguments holds
				*kSeen = append(*kSeen, [2]string{argEntry(ctx.Arguments, "first"), argEntry(ctx.Arguments, "last")})
			}
			n, _ := intArg(ctx.Arguments, "first")
			if last, ok := intArg(ctx.Arguments, "last"); ok {
				n = last
			}
			return graphql.FieldCost{Resolver: 1, Context: context.WithValue(ctx.Context, ctxKey{}, n)}
		}},
	}
}

type testTypes struct {
	query, mutation, n, o *graphql.ObjectType
	i                     *graphql.InterfaceType
	items                 *graphql.FieldDefinition
}

func makeTypes() *testTypes {
	t := &testTypes{}
	t.i = &graphql.InterfaceType{Name: "I"}
	t.n = &graphql.ObjectType{Name: "N", ImplementedInterfaces: []*graphql.InterfaceType{t.i}, IsTypeOf: func(interface{}) bool { return true }}
	t.o = &graphql.ObjectType{Name: "O", ImplementedInterfaces: []*graphql.InterfaceType{t.i}, IsTypeOf: func(interface{}) bool { return false }}
	t.query = &graphql.ObjectType{Name: "Query"}
	t.mutation = &graphql.ObjectType{Name: "Mutation"}
	t.items = itemsConnection(t.n)
	t.i.Fields = t.fields()
	t.n.Fields = t.fields()
	t.o.Fields = t.fields()
	t.query.Fields = t.fields()
	t.mutation.Fields = t.fields()
	return t
}

// fields: a fresh field map for one type (the connection definition is shared).
func (t *testTypes) fields() map[string]*graphql.FieldDefinition {
	m := makeFields(t.n, t.i)
	m["items"] = t.items
	return m
}

func buildSchema() *graphql.Schema {
	t := makeTypes()
	s, err := graphql.NewSchema(&graphql.SchemaDefinition{
		Query:           t.query,
		Mutation:        t.mutation,
		AdditionalTypes: []graphql.NamedType{t.o, t.n, t.i, bigType},
		Directives: map[string]*graphql.DirectiveDefinition{
			"include": graphql.IncludeDirective,
			"skip":    graphql.SkipDirective,
		},
	})
	if err != nil {
		panic(err)
	}
	return s
}

// ---- the harness's own expectation of a field's cost ------------------------------------------------

// costExpr is a field's cost with the arguments substituted: a function of the context value only.
type costExpr struct {
	Src  string // "t" typename | "d" no cost function | "c" cost function | "conn" defaultConnectionCost | "edges"
	// conn: what ctx.Arguments holds for first / last: "absent" | "null" | decimal integer
	First, Last string
	RCtx bool   // Resolver is the context value
	R    int
	MCtx bool // Multiplier is the context value
	M    int
	Set  bool // Context is set …
	C    int  // … to this value
}

// argument defaults declared by the schema above
var argDefaults = map[string]map[string]int{
	"n": {"r": 1}, "i": {"r": 1}, "l": {"r": 1}, "v": {"r": 1},
}

// resolveArg mirrors CoerceArgumentValues for the integer scalars used here: the literal, the
// variable's coerced value when the variable has one, else the argument's default, else absent.
func resolveArg(f *ast.Field, name string, coerced map[string]interface{}) (int, bool) {
	def, hasDef := argDefaults[f.Name.Name][name]
	for _, a := range f.Arguments {
		if a.Name.Name != name {
			continue
		}
		switch v := a.Value.(type) {
		case *ast.IntValue:
			n, err := strconv.ParseInt(v.Value, 10, 64)
			if err != nil {
				return 0, false
			}
			return int(n), true
		case *ast.Variable:
			cv, ok := coerced[v.Name.Name]
			if !ok {
				return def, hasDef
			}
			n, isInt := cv.(int)
			return n, isInt
		default: // null and anything else: present but not an int
			return 0, false
		}
	}
	return def, hasDef
}

// argState says what ctx.Arguments[name] holds for an integer argument: "absent" (no key), "null"
// (key present, nil value: explicit null literal or null-valued variable) or the integer.
func argState(f *ast.Field, name string, coerced map[string]interface{}) string {
	for _, a := range f.Arguments {
		if a.Name.Name != name {
			continue
		}
		switch v := a.Value.(type) {
		case *ast.IntValue:
			return v.Value
		case *ast.NullValue:
			return "null"
		case *ast.Variable:
			cv, ok := coerced[v.Name.Name]
			if !ok {
				break // a variable without a value: as if the argument were omitted
			}
			if n, isInt := cv.(int); isInt {
				return strconv.Itoa(n)
			}
			return "null"
		default:
			return "null"
		}
	}
	if def, ok := argDefaults[f.Name.Name][name]; ok {
		return strconv.Itoa(def)
	}
	return "absent"
}

// expectedCost is the harness's statement of what the schema's cost function returns for a field.
func expectedCost(f *ast.Field, inIntrospection bool, coerced map[string]interface{}) costExpr {
	name := f.Name.Name
	if name == "__typename" {
		return costExpr{Src: "t"}
	}
	if inIntrospection || name == "__schema" || name == "__type" {
		// every introspection field declares FieldResolverCost(0) (schema/introspection/introspection.go)
		return costExpr{Src: "c"}
	}
	switch name {
	case "n", "i", "l":
		e := costExpr{Src: "c"}
		e.R, _ = resolveArg(f, "r", coerced)
		e.M, _ = resolveArg(f, "m", coerced)
		e.C, e.Set = resolveArg(f, "c", coerced)
		return e
	case "v":
		e := costExpr{Src: "c"}
		e.R, _ = resolveArg(f, "r", coerced)
		return e
	case "cr":
		return costExpr{Src: "c", RCtx: true}
	case "cm":
		return costExpr{Src: "c", MCtx: true}
	case "crm":
		e := costExpr{Src: "c", RCtx: true, MCtx: true}
		e.C, e.Set = resolveArg(f, "c", coerced)
		return e
	case "p", "pn":
		return costExpr{Src: "d"}
	case "z":
		return costExpr{Src: "c"}
	case "cursor", "pageInfo", "hasNextPage", "hasPreviousPage", "startCursor", "endCursor":
		return costExpr{Src: "c"} // connection plumbing: FieldResolverCost(0) (pagination.go)
	case "node":
		return costExpr{Src: "c", R: 1} // the edge field the harness's connection declares with FieldResolverCost(1)
	case "edges":
		return costExpr{Src: "edges", MCtx: true} // pagination.go:434-442
	case "things", "thingsF", "thingsB", "items": // apifu.Connection with defaultConnectionCost (pagination.go:226-235)
		e := costExpr{Src: "conn", R: 1, Set: true, First: argState(f, "first", coerced), Last: argState(f, "last", coerced)}
		// the harness's own reading: an int `last` decides, else an int `first`, else 0 — null is not an int
		if n, err := strconv.Atoi(e.Last); err == nil {
			e.C = n
		} else if n, err := strconv.Atoi(e.First); err == nil {
			e.C = n
		}
		return e
	case "totalCount":
		return costExpr{Src: "d"}
	case "k":
		e := costExpr{Src: "c", R: 1, Set: true}
		e.C, _ = resolveArg(f, "first", coerced)
		if last, ok := resolveArg(f, "last", coerced); ok {
			e.C = last
		}
		return e
	}
	return costExpr{Src: "u"}
}
