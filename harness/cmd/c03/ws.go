package main

import (
	"context"
	"encoding/json"
	"fmt"
	"io"
	"net/http"
	"net/http/httptest"
	"os"
	"reflect"
	"strconv"
	"strings"
	"sync"
	"time"

	apifu "github.com/ccbrown/api-fu"
	"github.com/ccbrown/api-fu/graphql"
	"github.com/ccbrown/api-fu/graphql/parser"
	"github.com/gorilla/websocket"
	"github.com/sirupsen/logrus"
)

// The WebSocket entry points (both subprotocols) run the same parse → validate → execute pipeline on
// the connection's read loop, which has no recover: a panic there ends the whole server process. The
// "ws-old" (graphql-ws) and "ws-new" (graphql-transport-ws) entries send the case's request as one
// operation over a real connection to API.ServeGraphQLWS, optionally preceded by junk frames, and
// require of the server:
//   - the process survives (a panic on a server goroutine kills this worker: the parent reports it);
//   - every frame is JSON; every data/next payload is a response envelope (null/absent data ⇒ errors);
//   - a started operation is answered: data and complete arrive, or the server closes the connection
//     (which graphql-transport-ws prescribes for malformed frames) — silence until the deadline is a hang,
//     a bare complete for a query or mutation is a swallowed (unserialisable) response.

var (
	wsOnce sync.Once
	wsURL  string
)

func wsServerURL() string {
	wsOnce.Do(func() {
		srv := httptest.NewServer(http.HandlerFunc(func(rw http.ResponseWriter, r *http.Request) {
			theAPI.ServeGraphQLWS(rw, r.WithContext(context.WithValue(r.Context(), underAPI{}, true)))
		}))
		wsURL = "ws" + strings.TrimPrefix(srv.URL, "http")
	})
	return wsURL
}

func quietLogger() logrus.FieldLogger {
	l := logrus.New()
	l.SetOutput(io.Discard)
	return l
}

// stream is what a subscription resolver answers when the subscription is started: the documented
// source stream in the good case, and otherwise whatever else the world's mode makes a resolver return.
func (w *world) stream() (interface{}, error) {
	v, err := w.pickMode(func() interface{} {
		if w.r.Chance(1, 10) {
			return (*apifu.SubscriptionSourceStream)(nil)
		}
		n := w.r.Intn(7)
		ch := make(chan interface{}, n)
		for i := 0; i < n; i++ {
			switch w.r.Intn(4) {
			case 0:
				ch <- nil
			case 1:
				ch <- w.r.Intn(100)
			default:
				ch <- &node{typ: "Obj", id: w.r.Intn(5)}
			}
		}
		close(ch)
		return &apifu.SubscriptionSourceStream{EventChannel: ch, Stop: func() {}}
	})
	// what HandleStart is handed, classified the way the executor and the handler look at it
	errIsNil := err == nil
	if !errIsNil {
		if rv := reflect.ValueOf(err); (rv.Kind() == reflect.Ptr || rv.Kind() == reflect.Interface) && rv.IsNil() {
			errIsNil = true
		}
	}
	switch st, ok := v.(*apifu.SubscriptionSourceStream); {
	case !errIsNil:
		w.subSeen = "error"
	case ok && st == nil:
		w.subSeen = "nilStream"
	case ok:
		w.subSeen = fmt.Sprintf("(stream %d)", cap(st.EventChannel.(chan interface{})))
	default:
		w.subSeen = "other"
	}
	return v, err
}

// addSubscriptions puts the kitchen-sink schema's subscription fields behind apifu's configuration.
func addSubscriptions(cfg *apifu.Config, s *graphql.Schema) {
	for name, def := range s.SubscriptionType().Fields {
		d := *def
		orig := def.Resolve
		d.Resolve = func(ctx graphql.FieldContext) (interface{}, error) {
			if ctx.IsSubscribe {
				return theWorld.stream()
			}
			return orig(ctx)
		}
		cfg.AddSubscription(name, &d)
	}
	// a connection, and a second field that hands out the same connection type without the connection cost
	// function (finding F-03j: costing its edges panicked)
	conn := apifu.Connection(&apifu.ConnectionConfig{
		NamePrefix: "Foo",
		CursorType: reflect.TypeOf(0), // "required for all connections"
		ResolveAllEdges: func(ctx graphql.FieldContext) (interface{}, func(a, b interface{}) bool, error) {
			return []int{1, 2, 3}, func(a, b interface{}) bool { return a.(int) < b.(int) }, nil
		},
		EdgeCursor: func(edge interface{}) interface{} { return edge },
		EdgeFields: map[string]*graphql.FieldDefinition{
			"node": {Type: graphql.IntType, Resolve: func(ctx graphql.FieldContext) (interface{}, error) { return ctx.Object, nil }},
		},
	})
	cfg.AddQueryField("foos", conn)
	cfg.AddQueryField("firstFoos", &graphql.FieldDefinition{Type: conn.Type, Resolve: func(ctx graphql.FieldContext) (interface{}, error) { return nil, nil }})
	// used by the dispatch probe: has the connection's context been cancelled (= did the server begin closing)?
	cfg.AddQueryField("ctxDone", &graphql.FieldDefinition{Type: graphql.BooleanType, Resolve: func(ctx graphql.FieldContext) (interface{}, error) {
		return ctx.Context.Err() != nil, nil
	}})
}

var wsJunkFrames = []string{
	``, `null`, `[]`, `"x"`, `{`, `{}`, `{"type":1}`, `{"type":"start"}`, `{"type":"subscribe"}`, `{"id":1,"type":"start","payload":{}}`,
	`{"id":"j","type":"start","payload":null}`, `{"id":"j","type":"start","payload":"x"}`, `{"id":"j","type":"start","payload":[]}`,
	`{"id":"j","type":"start","payload":{"query":1}}`, `{"id":"j","type":"start","payload":{"query":"{int}","variables":[]}}`,
	`{"id":"j","type":"start","payload":{"query":"{int}","variables":"x"}}`, `{"id":"j","type":"start","payload":{"query":"{int}","variables":null,"operationName":null}}`,
	`{"id":"j","type":"start","payload":{"query":"{int}","operationName":7}}`, `{"id":"j","type":"subscribe","payload":{"query":"{int}","variables":{"a":1e400}}}`,
	`{"id":"j","type":"subscribe","payload":{"query":null}}`, `{"id":"j","type":"subscribe","payload":{}}`, `{"id":"j","type":"subscribe","payload":{"query":"{int}","extensions":[]}}`,
	`{"id":"j","type":"stop"}`, `{"id":"nope","type":"stop"}`, `{"id":"j","type":"complete"}`, `{"type":"stop"}`, `{"type":"complete"}`, `{"type":"ping"}`, `{"type":"pong"}`,
	`{"type":"ping","payload":1}`, `{"type":"ka"}`, `{"type":"connection_ack"}`, `{"type":"data","id":"j","payload":{}}`, `{"type":"next","id":"j","payload":{}}`, `{"type":"error","id":"j","payload":[]}`,
	`{"type":"connection_init"}`, `{"type":"connection_init","payload":null}`, `{"type":"connection_init","payload":[1]}`, `{"type":"connection_init","payload":"x"}`,
	`{"type":"connection_init","id":"i","payload":{"a":{"b":[]}}}`, `{"type":"unknown"}`, `{"type":""}`, `{"TYPE":"start","ID":"j","PAYLOAD":{"QUERY":"{int}"}}`,
	`{"id":"j","type":"start","payload":{"query":"subscription{tick}"}}`, `{"id":"j","type":"subscribe","payload":{"query":"subscription{tick}"}}`,
	`{"id":"j","type":"start","payload":{"query":"subscription{obj{int}}"}}`, `{"id":"j","type":"subscribe","payload":{"query":"subscription{obj{int}}"}}`,
	"\xff\xfe", `{"id":"\ud800","type":"start","payload":{"query":"{int}"}}`, `{"id":"j","type":"start","payload":{"query":"{int}"},"payload":1}`,
}

type wsFrame struct {
	ID      string          `json:"id"`
	Type    string          `json:"type"`
	Payload json.RawMessage `json:"payload"`
}

func runWS(c Case, w *world) string {
	w.async = false // apifu's idle handler only knows promises made by apifu.Go/Batch
	w.subSeen = "notCalled"
	if c.Kind == "wsdispatch" {
		return runWSDispatch(c)
	}
	proto := "graphql-ws"
	startType := "start"
	dataType := "data"
	if c.Entry == "ws-new" {
		proto, startType, dataType = "graphql-transport-ws", "subscribe", "next"
	}
	d := websocket.Dialer{Subprotocols: []string{proto}, HandshakeTimeout: 5 * time.Second}
	conn, _, err := d.Dial(wsServerURL(), nil)
	if err != nil {
		return "websocket handshake failed: " + err.Error()
	}
	defer func() {
		conn.Close()
		theAPI.CloseHijackedConnections()
	}()
	send := func(s string) bool { return conn.WriteMessage(websocket.TextMessage, []byte(s)) == nil }
	initFirst := true
	for _, f := range c.Frames {
		if f == "!noinit" {
			initFirst = false
		}
	}
	if initFirst {
		send(`{"type":"connection_init","payload":{}}`)
	}
	for _, f := range c.Frames {
		if f != "!noinit" && !send(f) {
			break
		}
	}
	if !initFirst {
		send(`{"type":"connection_init","payload":{}}`)
	}
	payload := map[string]interface{}{"query": c.query()}
	if c.Vars != "" {
		payload["variables"] = json.RawMessage(c.Vars)
	}
	if c.Op != "" {
		payload["operationName"] = c.Op
	}
	pb, err := json.Marshal(payload)
	if err != nil {
		// the variables text is not JSON: send it as it is inside a hand-built frame
		pb = []byte(`{"query":` + string(mustJSON(c.query())) + `,"variables":` + c.Vars + `}`)
	}
	const opID = "op-1"
	t0pre := time.Now()
	graphql.ParseAndValidate(c.query(), theSchema, nil, graphql.ValidateCost(c.Op, nil, -1, nil, graphql.FieldCost{Resolver: 1}))
	preTime := time.Since(t0pre)
	send(`{"id":"` + opID + `","type":"` + startType + `","payload":` + string(pb) + `}`)

	isSub := false
	if doc, errs := parser.ParseDocument([]byte(c.query())); len(errs) == 0 && doc != nil {
		isSub = graphql.IsSubscription(doc, c.Op)
	}
	// the answer must come within 6 s plus 40 times what parsing and validating this very request (with the cost
	// rule, as the server does) took in this process a moment ago — large documents take seconds to validate, and
	// on a busy machine both times stretch together
	deadline := time.Now().Add(6*time.Second + 40*preTime)
	conn.SetReadDeadline(deadline)
	gotData := 0
	var obs []string
	defer func() {
		// the correspondence: on a fresh connection without junk frames the frames received for the
		// operation's id must be frames the Lean model of HandleStart can send for what the resolver returned
		if len(c.Frames) == 0 && len(obs) > 0 && obs[len(obs)-1] == "c" {
			lastAdm = fmt.Sprintf("(wsaccept %v %s (%s))", isSub, w.subSeen, strings.Join(obs, " "))
		}
	}()
	for {
		_, msg, err := conn.ReadMessage()
		if err != nil {
			if _, ok := err.(*websocket.CloseError); ok {
				return "" // the server closed the connection: an answer (junk frames; malformed payload in the new protocol)
			}
			if time.Now().After(deadline.Add(-100 * time.Millisecond)) {
				return fmt.Sprintf("websocket operation not answered within 6 s + 40 x %s (%d data frames, no complete, connection open)", preTime.Round(time.Millisecond), gotData)
			}
			return "" // connection reset by the server side closing
		}
		var f wsFrame
		if err := json.Unmarshal(msg, &f); err != nil {
			return "server frame is not JSON: " + err.Error() + ": " + clip(string(msg))
		}
		if f.ID != opID {
			continue // ack, keep-alive, pong, answers to junk frames
		}
		switch f.Type {
		case dataType:
			gotData++
			var back struct {
				Data   json.RawMessage   `json:"data"`
				Errors []json.RawMessage `json:"errors"`
			}
			if err := json.Unmarshal(f.Payload, &back); err != nil {
				return "data payload is not a JSON object: " + err.Error() + ": " + clip(string(f.Payload))
			}
			obs = append(obs, fmt.Sprintf("(d %v %v %d)", back.Data != nil, string(back.Data) == "null", len(back.Errors)))
			if (back.Data == nil || string(back.Data) == "null") && len(back.Errors) == 0 {
				return "websocket response carries no (or null) data and no errors: " + clip(string(f.Payload))
			}
		case "error":
			gotData++
			obs = append(obs, "(e)")
		case "complete":
			obs = append(obs, "c")
			if gotData == 0 && !isSub {
				return "websocket operation completed without any response (the response was dropped)"
			}
			return ""
		}
	}
}

func mustJSON(v interface{}) []byte { b, _ := json.Marshal(v); return b }

func clip(s string) string {
	if len(s) > 300 {
		return s[:300] + "…"
	}
	return s
}

// ---- frame dispatch table ------------------------------------------------------------------------

var wsDispatchKinds = []string{"malformed", "init", "start-ok", "start-bad", "stop", "terminate", "ping", "pong", "unknown"}

// dispatchCase enumerates protocol x initialised? x frame kind (36 cases, the first indices of every run).
func dispatchCase(idx int) Case {
	k := wsDispatchKinds[idx%len(wsDispatchKinds)]
	idx /= len(wsDispatchKinds)
	init := []string{"init", "noinit"}[idx%2]
	entry := []string{"ws-old", "ws-new"}[idx/2%2]
	return Case{Idx: idx, Kind: "wsdispatch", Entry: entry, Frames: []string{k, init}, Query: strconv.Quote("{__typename}"), Mode: 3}
}

// runWSDispatch sends one frame of the given kind on a fresh connection (initialised or not), then an
// init (if there was none) and a probe operation, and reports what the server did in between:
// closed with a code / acknowledged / answered a ping / started the frame's operation / nothing.
func runWSDispatch(c Case) string {
	kind, didInit := c.Frames[0], c.Frames[1] == "init"
	proto, startType, stopType, dataType := "graphql-ws", "start", "stop", "data"
	if c.Entry == "ws-new" {
		proto, startType, stopType, dataType = "graphql-transport-ws", "subscribe", "complete", "next"
	}
	frame := map[string]string{
		"malformed": `{`, "init": `{"type":"connection_init"}`,
		"start-ok":  `{"id":"p","type":"` + startType + `","payload":{"query":"{__typename}"}}`,
		"start-bad": `{"id":"p","type":"` + startType + `","payload":[]}`,
		"stop":      `{"id":"p","type":"` + stopType + `"}`, "terminate": `{"type":"connection_terminate"}`,
		"ping": `{"type":"ping"}`, "pong": `{"type":"pong"}`, "unknown": `{"type":"zzz"}`,
	}[kind]
	d := websocket.Dialer{Subprotocols: []string{proto}, HandshakeTimeout: 5 * time.Second}
	conn, _, err := d.Dial(wsServerURL(), nil)
	if err != nil {
		return "websocket handshake failed: " + err.Error()
	}
	defer func() {
		conn.Close()
		theAPI.CloseHijackedConnections()
	}()
	send := func(s string) { conn.WriteMessage(websocket.TextMessage, []byte(s)) }
	if didInit {
		send(`{"type":"connection_init"}`)
	}
	send(frame)
	if !didInit {
		send(`{"type":"connection_init"}`)
	}
	// A probe operation follows. Frames are handled one after the other on the read loop, and beginClosing
	// cancels the connection's context before handleMessage returns, so the probe's resolver sees a cancelled
	// context exactly if the frame made the server begin closing. If so, the close frame is certain to come (the
	// write loop sends it once the queue is drained) and is waited for; if not, nothing more will come. Should the
	// probe's answer be lost behind the close, the close frame itself is the observation. No timing is involved.
	send(`{"id":"probe","type":"` + startType + `","payload":{"query":"{ctxDone}"}}`)
	conn.SetReadDeadline(time.Now().Add(20 * time.Second))
	closeCode, acks, pongs, started := "-", 0, 0, false
	closing := false
	for {
		_, msg, err := conn.ReadMessage()
		if err != nil {
			if ce, ok := err.(*websocket.CloseError); ok {
				closeCode = fmt.Sprint(ce.Code)
			} else if ne, ok := err.(interface{ Timeout() bool }); ok && ne.Timeout() {
				return "frame dispatch: neither the probe operation was answered nor the connection closed: " + err.Error()
			} else {
				closeCode = "abrupt" // closed by the server without the close frame reaching us (reset)
			}
			break
		}
		var f wsFrame
		if os.Getenv("C03_WSDEBUG") != "" {
			fmt.Fprintln(os.Stderr, "frame:", string(msg))
		}
		if json.Unmarshal(msg, &f) != nil {
			return "server frame is not JSON: " + clip(string(msg))
		}
		switch {
		case f.Type == "connection_ack":
			acks++
		case f.Type == "pong":
			pongs++
		case f.Type == dataType && f.ID == "p":
			started = true
		case f.Type == dataType && f.ID == "probe":
			// (the executor itself may notice the cancelled context first and answer "context canceled")
			closing = strings.Contains(string(f.Payload), `"ctxDone":true`) || strings.Contains(string(f.Payload), "context canceled")
		}
		if f.Type == "complete" && f.ID == "probe" && !closing {
			break
		}
	}
	lastAdm = fmt.Sprintf("(wsdispatch %s %v %s %s %d %d %v)", map[bool]string{true: "new", false: "old"}[c.Entry == "ws-new"], didInit, kind, closeCode, acks, pongs, started)
	return ""
}
