package main

import (
	"context"
	"errors"
	"fmt"
	"math"
	"strings"
	"time"

	apifu "github.com/ccbrown/api-fu"
	"github.com/ccbrown/api-fu/graphql"
	"github.com/ccbrown/api-fu/graphql/ast"
	"github.com/ccbrown/api-fu/graphql/schema"

	"verifharness/hx"
)

// world decides every resolver outcome of one case from one PRNG (replayable from worldSeed).
type world struct {
	r        *hx.Rand
	mode     int // 0: mostly well-kinded values, 1: adversarial mix, 2: errors/nil heavy
	promises []pending
	async    bool
	depth    int
	subSeen  string // what the subscription resolver last returned to a subscribe call (ws entries)
}

type pending struct {
	p graphql.ResolvePromise
	r graphql.ResolveResult
}

type valErr struct{ code int }

func (e valErr) Error() string { return fmt.Sprintf("value-kind error %d", e.code) }

type errno uintptr

func (e errno) Error() string { return "errno" }

// extErr's Error method reads the receiver, as most error types do: calling it on the typed nil pointer
// nilErrPtr panics, so the library must keep treating a nil pointer error as "no error" everywhere.
type extErr struct{ msg string }

func (e *extErr) Error() string { return e.msg }
func (*extErr) Extensions() map[string]interface{} {
	return map[string]interface{}{"code": "E", "n": 1}
}

type node struct {
	typ  string
	id   int
	deep int
}

// underAPI marks a request context that came in through the apifu API (set by the HTTP and WebSocket entries).
type underAPI struct{}

type stringer struct{}

func (stringer) String() string { return "stringer" }

var nilNodePtr *node
var nilErrPtr *extErr

func (w *world) err() error {
	switch w.r.Intn(6) {
	case 0:
		return errors.New("resolver failed")
	case 1:
		return valErr{w.r.Intn(3)}
	case 2:
		return errno(2)
	case 3:
		return &extErr{msg: "extended"}
	case 4:
		return fmt.Errorf("wrapped: %w", valErr{7})
	default:
		return context.Canceled
	}
}

// junk returns an "ordinary" Go value of arbitrary kind.
func (w *world) junk() interface{} {
	switch w.r.Intn(24) {
	case 0:
		return nil
	case 1:
		return math.NaN()
	case 2:
		return math.Inf(1)
	case 3:
		return math.Inf(-1)
	case 4:
		return float32(math.NaN())
	case 5:
		return int64(math.MaxInt64)
	case 6:
		return uint64(math.MaxUint64)
	case 7:
		return -1 << 40
	case 8:
		return "a string \u0000 with \"quotes\" and \xff bytes"
	case 9:
		return []interface{}{1, "x", nil, math.NaN()}
	case 10:
		return map[string]interface{}{"k": 1}
	case 11:
		return struct{ A int }{1}
	case 12:
		return nilNodePtr
	case 13:
		return &node{typ: "A", id: 1}
	case 14:
		return []int{1, 2}
	case 15:
		return [2]string{"a", "b"}
	case 16:
		return true
	case 17:
		return 3.5
	case 18:
		return int8(-3)
	case 19:
		return stringer{}
	case 20:
		return time.Unix(0, 0)
	case 21:
		return []*node{nil, {typ: "B"}}
	case 22:
		return (map[string]interface{})(nil)
	default:
		return uint8(200)
	}
}

func (w *world) pickMode(good func() interface{}) (interface{}, error) {
	k := w.r.Intn(100)
	switch w.mode {
	case 3:
		// every resolver succeeds: the only thing that bounds the depth of the response is the document, so a
		// document that validation should have rejected as cyclic recurses until the stack limit
		return good(), nil
	case 0:
		if k < 88 {
			return good(), nil
		} else if k < 92 {
			return nil, nil
		} else if k < 96 {
			return nil, w.err()
		}
		return w.junk(), nil
	case 1:
		if k < 45 {
			return good(), nil
		} else if k < 55 {
			return nil, nil
		} else if k < 70 {
			return nil, w.err()
		} else if k < 75 {
			return good(), w.err()
		}
		return w.junk(), nil
	default:
		if k < 40 {
			return good(), nil
		} else if k < 60 {
			return nil, nil
		} else if k < 64 {
			return nilNodePtr, nil
		} else if k < 68 {
			return nil, nilErrPtr
		}
		return nil, w.err()
	}
}

// resolve wraps an outcome into a promise some of the time.
func (w *world) resolve(good func() interface{}) (interface{}, error) {
	v, err := w.pickMode(good)
	if w.async && w.r.Chance(1, 3) {
		p := make(graphql.ResolvePromise, 1)
		w.promises = append(w.promises, pending{p, graphql.ResolveResult{Value: v, Error: err}})
		return p, nil
	}
	return v, err
}

func (w *world) idle() {
	if len(w.promises) == 0 {
		return
	}
	// fulfil a non-empty random subset, in random order
	n := 1 + w.r.Intn(len(w.promises))
	for i := 0; i < n; i++ {
		j := w.r.Intn(len(w.promises))
		p := w.promises[j]
		w.promises = append(w.promises[:j], w.promises[j+1:]...)
		p.p <- p.r
	}
}

func (w *world) newNode() interface{} {
	// objects all the way down: a valid document bounds the depth by its own nesting (≤ ~250 levels, parser
	// limit), so this cap is only reached when execution follows a fragment cycle that validation let through —
	// and then the runaway recursion must be allowed to show (stack limit 64 MiB in the workers)
	w.depth++
	if w.depth > 5000000 {
		return nil
	}
	return &node{typ: hx.Pick(w.r, []string{"A", "B", "Obj"}), id: w.r.Intn(5)}
}

var theWorld *world // set per case (cases run one at a time per process)

func res(good func(w *world, ctx graphql.FieldContext) interface{}) func(graphql.FieldContext) (interface{}, error) {
	return func(ctx graphql.FieldContext) (interface{}, error) {
		w := theWorld
		return w.resolve(func() interface{} { return good(w, ctx) })
	}
}

func buildSchema() (*graphql.Schema, error) {
	color := &graphql.EnumType{Name: "Color", Values: map[string]*graphql.EnumValueDefinition{
		"RED": {Value: "red"}, "GREEN": {Value: 2}, "BLUE": {Value: "blue", DeprecationReason: "old"},
	}}
	custom := &graphql.ScalarType{
		Name: "Custom",
		LiteralCoercion: func(v ast.Value) interface{} {
			switch v := v.(type) {
			case *ast.StringValue:
				return v.Value
			case *ast.IntValue:
				return v.Value
			}
			return nil
		},
		VariableValueCoercion: func(v interface{}) interface{} { return v },
		// an application's scalar must produce something serialisable: this one prints the value
		ResultCoercion: func(v interface{}) interface{} { return fmt.Sprintf("%v", v) },
	}
	in := &graphql.InputObjectType{Name: "In"}
	in.Fields = map[string]*graphql.InputValueDefinition{
		"a": {Type: graphql.IntType},
		"b": {Type: graphql.NewNonNullType(graphql.StringType)},
		"c": {Type: graphql.NewListType(in)},
		"d": {Type: color, DefaultValue: "red"},
		"e": {Type: in},
		"f": {Type: graphql.FloatType, DefaultValue: 1.5},
	}
	nodeI := &graphql.InterfaceType{Name: "Entity"}
	obj := &graphql.ObjectType{Name: "Obj"}
	a := &graphql.ObjectType{Name: "A", ImplementedInterfaces: []*graphql.InterfaceType{nodeI}}
	b := &graphql.ObjectType{Name: "B", ImplementedInterfaces: []*graphql.InterfaceType{nodeI}}
	u := &graphql.UnionType{Name: "U", MemberTypes: []*graphql.ObjectType{a, b, obj}}
	isType := func(name string) func(interface{}) bool {
		return func(o interface{}) bool {
			n, ok := o.(*node)
			return ok && n != nil && n.typ == name
		}
	}
	a.IsTypeOf, b.IsTypeOf, obj.IsTypeOf = isType("A"), isType("B"), isType("Obj")

	nn := graphql.NewNonNullType
	list := graphql.NewListType
	args := map[string]*graphql.InputValueDefinition{
		"i": {Type: graphql.IntType}, "f": {Type: graphql.FloatType}, "s": {Type: graphql.StringType},
		"b": {Type: graphql.BooleanType}, "id": {Type: graphql.IDType}, "e": {Type: color},
		"in": {Type: in}, "l": {Type: list(graphql.IntType)}, "ll": {Type: list(list(nn(graphql.IntType)))},
		"d": {Type: graphql.IntType, DefaultValue: 5}, "inl": {Type: list(nn(in))}, "c": {Type: custom},
		"dt": {Type: apifu.DateTimeType}, "li": {Type: apifu.LongIntType}, "dn": {Type: graphql.StringType, DefaultValue: schema.Null},
	}
	common := func() map[string]*graphql.FieldDefinition {
		return map[string]*graphql.FieldDefinition{
			"int":   {Type: graphql.IntType, Resolve: res(func(w *world, _ graphql.FieldContext) interface{} { return w.r.Intn(100) - 50 })},
			"intNN": {Type: nn(graphql.IntType), Resolve: res(func(w *world, _ graphql.FieldContext) interface{} { return int32(7) })},
			"float": {Type: graphql.FloatType, Resolve: res(func(w *world, _ graphql.FieldContext) interface{} {
				return hx.Pick(w.r, []interface{}{1.5, float32(2), 3, math.MaxFloat64})
			})},
			// resolved through apifu.Go when the request came in through the apifu API (HTTP or WebSocket entries)
			"goInt": {Type: graphql.IntType, Resolve: res(func(w *world, ctx graphql.FieldContext) interface{} {
				v := w.r.Intn(9)
				if ctx.Context.Value(underAPI{}) != nil && w.r.Chance(3, 4) {
					return apifu.Go(ctx.Context, func() (interface{}, error) { return v, nil })
				}
				return v
			})},
			"str":   {Type: graphql.StringType, Resolve: res(func(w *world, _ graphql.FieldContext) interface{} { return "s" })},
			"strNN": {Type: nn(graphql.StringType), Resolve: res(func(w *world, _ graphql.FieldContext) interface{} { return "s" })},
			"bool":  {Type: graphql.BooleanType, Resolve: res(func(w *world, _ graphql.FieldContext) interface{} { return w.r.Bool() })},
			"id": {Type: graphql.IDType, Resolve: res(func(w *world, _ graphql.FieldContext) interface{} {
				return hx.Pick(w.r, []interface{}{"id1", 12, int64(5)})
			})},
			"color": {Type: color, Resolve: res(func(w *world, _ graphql.FieldContext) interface{} {
				return hx.Pick(w.r, []interface{}{"red", 2, "blue", "purple", []int{1}, map[string]int{"a": 1}, struct{ A []int }{}, 2.0, int64(2)})
			})},
			"custom": {Type: custom, Resolve: res(func(w *world, _ graphql.FieldContext) interface{} { return w.junk() })},
			"dt": {Type: apifu.DateTimeType, Resolve: res(func(w *world, _ graphql.FieldContext) interface{} {
				far := time.Date(9999, 12, 31, 23, 59, 59, 0, time.UTC).Add(time.Hour)
				return hx.Pick(w.r, []interface{}{time.Unix(1, 5), time.Time{}, "x", far, time.Date(-1, 1, 1, 0, 0, 0, 0, time.UTC), time.Date(20000, 1, 1, 0, 0, 0, 0, time.UTC), &far, (*time.Time)(nil), time.Unix(1, 5).In(time.FixedZone("odd", 3*3600+17))})
			})},
			"li": {Type: apifu.LongIntType, Resolve: res(func(w *world, _ graphql.FieldContext) interface{} {
				return hx.Pick(w.r, []interface{}{int64(1) << 40, 3, int64(1) << 60})
			})},
			"obj": {Type: obj, Resolve: res(func(w *world, _ graphql.FieldContext) interface{} {
				n := w.newNode()
				if p, ok := n.(*node); ok {
					p.typ = "Obj"
				}
				return n
			})},
			"objNN": {Type: nn(obj), Resolve: res(func(w *world, _ graphql.FieldContext) interface{} {
				n := w.newNode()
				if p, ok := n.(*node); ok {
					p.typ = "Obj"
				}
				return n
			})},
			"node": {Type: nodeI, Resolve: res(func(w *world, _ graphql.FieldContext) interface{} { return w.newNode() })},
			"u":    {Type: u, Resolve: res(func(w *world, _ graphql.FieldContext) interface{} { return w.newNode() })},
			"list": {Type: list(graphql.IntType), Resolve: res(func(w *world, _ graphql.FieldContext) interface{} {
				return hx.Pick(w.r, []interface{}{[]interface{}{1, nil, 3}, []int{1, 2}, []interface{}{}, [2]int{1, 2}})
			})},
			"listNN": {Type: nn(list(nn(graphql.IntType))), Resolve: res(func(w *world, _ graphql.FieldContext) interface{} {
				return hx.Pick(w.r, []interface{}{[]interface{}{1, 2}, []interface{}{1, nil}, []int{}})
			})},
			"floats": {Type: list(graphql.FloatType), Resolve: res(func(w *world, _ graphql.FieldContext) interface{} {
				return hx.Pick(w.r, []interface{}{[]float64{1.5, math.NaN()}, []float64{math.Inf(1)}, []float32{float32(math.Inf(-1)), 2}, []interface{}{1.5, math.NaN(), nil}, []float64{}, [2]float64{1, math.NaN()}, []int{1, 2}})
			})},
			"floatsNN": {Type: nn(list(nn(graphql.FloatType))), Resolve: res(func(w *world, _ graphql.FieldContext) interface{} {
				return hx.Pick(w.r, []interface{}{[]float64{1.5, 2.5}, []float64{math.NaN()}, []float64{1, math.Inf(1)}, []float32{float32(math.NaN())}})
			})},
			"strs": {Type: list(graphql.StringType), Resolve: res(func(w *world, _ graphql.FieldContext) interface{} {
				return hx.Pick(w.r, []interface{}{[]string{"a", "\xff"}, []interface{}{"a", 1, nil}, []bool{true}})
			})},
			"bools": {Type: list(nn(graphql.BooleanType)), Resolve: res(func(w *world, _ graphql.FieldContext) interface{} {
				return hx.Pick(w.r, []interface{}{[]bool{true, false}, []interface{}{true, "x"}, []string{"true"}})
			})},
			"colors": {Type: list(color), Resolve: res(func(w *world, _ graphql.FieldContext) interface{} {
				return hx.Pick(w.r, []interface{}{[]interface{}{"red", 2}, []interface{}{[]int{1}, map[string]int{"a": 1}, struct{ A []int }{}}, []string{"red", "nope"}, []int{2}})
			})},
			"ll": {Type: list(list(graphql.StringType)), Resolve: res(func(w *world, _ graphql.FieldContext) interface{} {
				return []interface{}{[]interface{}{"a", nil}, nil, []string{"b"}}
			})},
			"nodes": {Type: list(nodeI), Resolve: res(func(w *world, _ graphql.FieldContext) interface{} {
				return []interface{}{w.newNode(), nil, w.newNode()}
			})},
			"nodesNN": {Type: nn(list(nn(nodeI))), Resolve: res(func(w *world, _ graphql.FieldContext) interface{} {
				if w.r.Chance(1, 4) {
					return []interface{}{w.newNode(), nil}
				}
				return []interface{}{w.newNode(), w.newNode()}
			})},
			"us": {Type: list(u), Resolve: res(func(w *world, _ graphql.FieldContext) interface{} {
				return []*node{{typ: "A"}, nil, {typ: "Obj"}, {typ: "Z"}}
			})},
			"args": {Type: graphql.StringType, Arguments: args, Cost: func(c graphql.FieldCostContext) graphql.FieldCost {
				m, _ := c.Arguments["i"].(int)
				return graphql.FieldCost{Resolver: 1, Multiplier: m}
			}, Resolve: res(func(w *world, ctx graphql.FieldContext) interface{} { return fmt.Sprintf("%v", ctx.Arguments) })},
			"req": {Type: graphql.IntType, Arguments: map[string]*graphql.InputValueDefinition{"x": {Type: nn(graphql.IntType)}, "y": {Type: nn(list(nn(in)))}},
				Resolve: res(func(w *world, ctx graphql.FieldContext) interface{} { return ctx.Arguments["x"] })},
		}
	}
	// identifiers far longer than anyone writes by hand (anything that sizes a buffer by "names are short")
	long := &graphql.ObjectType{Name: longTypeName, Fields: map[string]*graphql.FieldDefinition{}}
	for i := 1; i <= 12; i++ {
		long.Fields[fmt.Sprintf("f%d", i)] = &graphql.FieldDefinition{Type: graphql.IntType, Resolve: res(func(w *world, _ graphql.FieldContext) interface{} { return 1 })}
	}
	long.Fields[longFieldName] = &graphql.FieldDefinition{Type: long, Resolve: res(func(w *world, _ graphql.FieldContext) interface{} { return &node{typ: "Long"} })}
	commonLong := common
	common = func() map[string]*graphql.FieldDefinition {
		m := commonLong()
		m["long"] = &graphql.FieldDefinition{Type: long, Resolve: res(func(w *world, _ graphql.FieldContext) interface{} { return &node{typ: "Long"} })}
		return m
	}
	obj.Fields = common()
	for _, t := range []*graphql.ObjectType{a, b} {
		t.Fields = map[string]*graphql.FieldDefinition{
			"id":            {Type: graphql.IDType, Resolve: res(func(w *world, ctx graphql.FieldContext) interface{} { return "n" })},
			"name":          {Type: graphql.StringType, Resolve: res(func(w *world, ctx graphql.FieldContext) interface{} { return "nm" })},
			"obj":           {Type: obj, Resolve: res(func(w *world, _ graphql.FieldContext) interface{} { return &node{typ: "Obj"} })},
			"only" + t.Name: {Type: nn(graphql.IntType), Resolve: res(func(w *world, _ graphql.FieldContext) interface{} { return 1 })},
		}
	}
	nodeI.Fields = map[string]*graphql.FieldDefinition{"id": {Type: graphql.IDType}, "name": {Type: graphql.StringType}}
	q := &graphql.ObjectType{Name: "Query", Fields: common()}
	m := &graphql.ObjectType{Name: "Mutation", Fields: common()}
	s := &graphql.ObjectType{Name: "Subscription", Fields: map[string]*graphql.FieldDefinition{
		"tick": {Type: graphql.IntType, Arguments: map[string]*graphql.InputValueDefinition{"n": {Type: graphql.IntType}},
			Resolve: func(ctx graphql.FieldContext) (interface{}, error) {
				if ctx.IsSubscribe {
					return theWorld.pickMode(func() interface{} { return "stream" })
				}
				return theWorld.resolve(func() interface{} { return 1 })
			}},
		"obj": {Type: obj, Resolve: func(ctx graphql.FieldContext) (interface{}, error) {
			return theWorld.pickMode(func() interface{} { return &node{typ: "Obj"} })
		}},
	}}
	return graphql.NewSchema(&graphql.SchemaDefinition{
		Query: q, Mutation: m, Subscription: s,
		Directives: map[string]*graphql.DirectiveDefinition{
			"skip": graphql.SkipDirective, "include": graphql.IncludeDirective,
			"tag": {Locations: []schema.DirectiveLocation{"FIELD", "QUERY", "FRAGMENT_SPREAD", "INLINE_FRAGMENT", "FRAGMENT_DEFINITION", "MUTATION", "SUBSCRIPTION"},
				Arguments: map[string]*graphql.InputValueDefinition{"n": {Type: graphql.IntType}, "in": {Type: in}}},
		},
	})
}

const longTypeName = "AnObjectTypeWithANameOfFortyFourCharactersXY"
const longFieldName = "aFieldWhoseNameIsEvenLongerThanTheNameOfTheTypeItBelongsToWhichIsAlreadyLong"

// selection sets of every size from 1 to 12 on the long-named type, directly and through a fragment with a long name
func longQueries() []string {
	var out []string
	for n := 1; n <= 12; n++ {
		var sb strings.Builder
		for i := 1; i <= n; i++ {
			fmt.Fprintf(&sb, " f%d", i)
		}
		out = append(out, "{ long {"+sb.String()+" } }")
	}
	out = append(out,
		"{ long { "+longFieldName+" { f1 f2 f3 f4 f5 f6 f7 "+longFieldName+" { f1 f2 f3 f4 f5 f6 f7 f8 } } } }",
		"query "+longFieldName+"($"+longFieldName+": Int) { long { ..."+longFieldName+" "+longFieldName+": f1 } args(i: $"+longFieldName+") } fragment "+longFieldName+" on "+longTypeName+" { f1 f2 f3 f4 f5 f6 f7 f8 }",
		"mutation { long { f1 f2 f3 f4 f5 f6 f7 f8 } obj { long { f1 f2 f3 f4 f5 f6 f7 } } }")
	return out
}

func init() { seedQueries = append(seedQueries, longQueries()...) }

var seedQueries = []string{
	`{ int intNN float str bool id color custom dt li }`,
	`query Q { obj { int obj { intNN objNN { str } } } objNN { strNN } }`,
	`{ node { id name ... on A { onlyA obj { int } } ... on B { onlyB } __typename } }`,
	`{ u { __typename ... on A { id onlyA } ... on B { name } ... on Obj { int listNN } ... on Entity { id } } us { ... on A { id } } }`,
	`{ list listNN ll nodes { id } nodesNN { name ... on A { onlyA } } }`,
	`{ floats floatsNN strs bools colors color f2: floats f3: floats f4: floatsNN c2: colors c3: colors }`,
	`{ ...T } fragment T on Query { objNN { ...B } } fragment B on Obj { objNN { ...C } } fragment C on Obj { int objNN { ...B } }`,
	`{ objNN { ...U1 } } fragment U1 on Obj { ...U2 } fragment U2 on Obj { ...U3 } fragment U3 on Obj { objNN { ...V } } fragment V on Obj { objNN { ...W } } fragment W on Obj { objNN { ...V } str }`,
	`query($i: Int = 3, $in: In, $b: Boolean = true, $e: Color, $l: [Int], $s: String! , $id: ID, $f: Float) { args(i: $i, in: $in, b: $b, e: $e, l: $l, s: $s, id: $id, f: $f) a2: args(in: {a: 1, b: "x", c: [{b: "y", e: {b: "z"}}], d: GREEN}, ll: [[1, 2], [3]], l: 5, inl: [{b: "q"}], c: "c", dt: "2020-01-01T00:00:00Z", li: 9007199254740991, dn: null) }`,
	`query($v: Boolean!, $w: Boolean = false) { int @skip(if: $v) str @include(if: $w) bool @skip(if: false) @include(if: true) ...F @skip(if: $w) ... @include(if: $v) { float } } fragment F on Query { id obj { ...G } } fragment G on Obj { int str }`,
	`query A { int } query B { str } mutation M { int obj { str } intNN }`,
	`mutation { a: int b: intNN c: obj { int } d: objNN { intNN } e: listNN }`,
	`subscription { tick(n: 3) }`,
	`subscription S { obj { int objNN { intNN } } }`,
	`{ req(x: 1, y: [{b: "s"}]) r2: req(x: 2, y: []) }`,
	`query($x: Int!, $y: [In!]!) { req(x: $x, y: $y) }`,
	`query($n: Int, $m: Int) { foos(first: $n, last: $m) { edges { node } pageInfo { hasNextPage hasPreviousPage } } a: foos(first: 1, last: -1) { edges { node } pageInfo { hasNextPage } } b: foos(last: -2) { pageInfo { hasPreviousPage } } c: foos(first: -1) { edges { cursor } } d: foos(first: 0, last: -3) { pageInfo { endCursor } } e: foos(first: 2, after: "x", before: "") { edges { cursor } } }`,
	`subscription($v: Boolean = true) { tick @skip(if: $v) }`,
	`subscription { ... @include(if: false) { tick } }`,
	`subscription S($w: Boolean = false) { ...F @include(if: $w) } fragment F on Subscription { obj { int } }`,
	`subscription { tick @skip(if: true) obj @skip(if: true) { int } }`,
	`{ goInt a: goInt obj { goInt b: goInt obj { goInt } } dt }`,
	`mutation { goInt a: goInt obj { goInt } b: goInt }`,
	`subscription { obj { goInt int a: goInt dt } }`,
	`query($w: Boolean = false, $t: Boolean = true) { int @skip(if: $w) str @include(if: $t) obj @include(if: $w) { int @skip(if: $t) } ... @skip(if: $w) { float } ...F @include(if: $t) } fragment F on Query { id }`,
	`query($n: Int) { firstFoos { edges { cursor node } totalCount pageInfo { hasNextPage } } foos(first: $n) { edges { node cursor } pageInfo { hasNextPage endCursor } } l: foos(last: 2) { edges { node } } }`,
	`query($d: Boolean, $e: Boolean = true, $n: String = "Obj") { __type(name: $n) { fields(includeDeprecated: $d) { name isDeprecated } } c: __type(name: "Color") { enumValues(includeDeprecated: $e) { name deprecationReason } a: enumValues(includeDeprecated: null) { name } b: fields(includeDeprecated: null) { name } } }`,
	`{ __schema { types { name kind fields { name args { name defaultValue type { name ofType { name } } } } } directives { name locations args { name } } } __type(name: "In") { inputFields { name defaultValue } } }`,
	`{ ...A ...A ...B } fragment A on Query { obj { int } ...B } fragment B on Query { obj { str } int }`,
	`{ obj { ...on Obj { obj { ... { obj { int @tag(n: 1, in: {b: "x"}) } } } } } }`,
	`query @tag { int } `,
	`{ a: int a: int b: obj { int } b: obj { str } }`,
	`{ args(i: 1) args(i: 1) x: args(e: RED, id: 5, id2: 1) }`,
	`{ args(i: 1.0, s: 5, b: "x", e: "RED", in: 3, l: [[1]], ll: 1, d: null, inl: [null], li: 1e99, dt: 5) }`,
	"\ufeff{ str #comment \n, int,,, }",
	`{ str(a: """block "" \""" string
	  with lines
	""") args(s: "esc é \n \" \\ \/ \b \f \r \t") }`,
}
