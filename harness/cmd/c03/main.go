// Harness for C03 — no request can crash, hang or produce an unserialisable response.
//
// A parent process deals case indices to worker child processes (a Go stack overflow, a panic on
// another goroutine or an endless loop cannot be recovered in-process; the parent sees the worker
// die or stall and knows which case it was running). Every case is a pure function of
// (seed, index): query bytes, variables JSON, operation name, entry point, resolver world.
//
// Oracle (the property itself, on the real library): the call returns (no panic, no stall, no
// memory blow-up); json.Marshal(response) succeeds with encoding/json and json-iterator; data absent
// or null ⇒ errors non-empty; over HTTP a well-formed envelope yields 200 and a JSON body.
package main

import (
	"syscall"
	"bufio"
	"bytes"
	"context"
	"encoding/json"
	"flag"
	"fmt"
	"math"
	"net/http"
	"net/http/httptest"
	"net/url"
	"os"
	"os/exec"
	"regexp"
	"runtime"
	"runtime/debug"
	"sort"
	"strconv"
	"strings"
	"sync"
	"sync/atomic"
	"time"
	"unicode/utf8"

	apifu "github.com/ccbrown/api-fu"
	"github.com/ccbrown/api-fu/graphql"
	"github.com/ccbrown/api-fu/graphql/executor"
	"github.com/ccbrown/api-fu/graphql/parser"
	"github.com/ccbrown/api-fu/graphql/schema"
	"github.com/ccbrown/api-fu/graphql/validator"
	jsoniter "github.com/json-iterator/go"

	"verifharness/gqlgen"
	"verifharness/hx"
)

type Case struct {
	Idx       int    `json:"idx"`
	Kind      string `json:"kind"`
	Query     string `json:"query"` // Go-quoted (strconv.Quote) so that arbitrary bytes survive JSON
	Vars      string `json:"vars"`  // JSON text of the variables object ("" = none)
	Op        string `json:"op"`
	Entry     string `json:"entry"`
	WorldSeed uint64 `json:"world_seed"`
	Mode      int    `json:"mode"`
	Async     bool   `json:"async"`
	MaxCost   int    `json:"max_cost"`
	// Gen != 0: the case runs against a schema, variables and world regenerated from this seed with
	// harness/gqlgen (random schemas: interfaces, unions, enums, list/non-null nesting) instead of the
	// kitchen-sink schema; Query is the printed (and possibly mutated) document.
	Gen uint64 `json:"gen,omitempty"`
	// WebSocket entries: raw frames sent before the operation ("!noinit": connection_init only afterwards)
	Frames []string `json:"frames,omitempty"`
}

func (c Case) query() string { s, _ := strconv.Unquote(c.Query); return s }

var tokRe = regexp.MustCompile(`"""(?s:.*?)"""|"(?:\\.|[^"\\\n])*"|\.\.\.|[A-Za-z_][A-Za-z_0-9]*|-?[0-9]+(?:\.[0-9]+)?(?:[eE][+-]?[0-9]+)?|\s+|.|\n`)

var tokenPool = []string{"{", "}", "(", ")", "[", "]", ":", "!", "=", "@", "$", "...", "|", "&", ",", "on", "fragment", "query", "mutation",
	"subscription", "true", "false", "null", "int", "intNN", "obj", "objNN", "node", "u", "list", "listNN", "nodesNN", "args", "req", "Obj", "A", "B",
	"Entity", "U", "In", "Color", "Int", "String", "RED", "skip", "include", "if", "tag", "__typename", "__schema", "__type", "name", "fields", "enumValues", "includeDeprecated", "(includeDeprecated: null)", "(includeDeprecated: $v)", "(name: null)", "(name: $x)", "inputFields", "ofType", "args", "defaultValue", "i", "in", "l", "ll", "x", "y",
	"2147483647", "2147483648", "-2147483649", "-0", "0", "1e400", "9223372036854775808", "1.5", "00", "1.", ".5", "-", "1e", "0x1F",
	`""`, `"a"`, `"\u0000"`, `"\uD800"`, `"\uZZZZ"`, `"\x"`, `"unterminated`, `""""""`, `"""a\"""b"""`, `"""`, "#c\n", "\ufeff", "\r", "\u2028", "\x00", "\xff", "\xc3", "\ufffd", "é", "😀",
	// syntax of later editions of the specification and constructs cut off in the middle: whatever the scanner and
	// parser make of them, they must return
	`"\u{1F600}"`, `"\u{1F60`, `"\u{`, `"\u{}"`, `"\u{110000}"`, `"\u12`, `"\`, `"""\`, `"""a`, "#", "..", ".", "1e+", "-.", "&", "extend", "repeatable", "<", ">", "%", "\\", "`", "~",
	"$v", "$w", "$i", "$in", "$x", "$undefined", "query($v: Obj = 1)", "($q: [Obj!] = [{int: 1}])", "$v: Entity = {id: 1}", "$e: Color = 1", "$u: U", "= 1", "= {b: 1}", "= [[1]]", ": Obj", ": [U!]!", "F", "G", "...F", "... on Obj", "... on Entity", "@skip(if: $v)", "@include(if: null)", "@skip", "@tag(n: $i)", "(x: null)", "(i: $in)", "[$i]", "{a: $i}", "{b: null}"}

var jsonPool = []string{`null`, `true`, `false`, `0`, `1`, `-1`, `2147483647`, `2147483648`, `-2147483649`, `1.5`, `1e3`, `1e400`, `9007199254740993`, `123456789012345678901234567890`,
	`""`, `"x"`, `"RED"`, `"red"`, `"2020-01-01T00:00:00Z"`, `[]`, `[1]`, `[null]`, `[[1,2],[3]]`, `[[null]]`, `{}`, `{"b":"s"}`, `{"a":1,"b":"x","c":[{"b":"y"}],"d":"GREEN"}`,
	`{"b":null}`, `{"zzz":1,"b":"x"}`, `{"b":"x","e":{"b":"y","e":{"e":null,"b":"z"}}}`, `[{"b":"s"},null]`, `{"b":5}`, `"\u0000\ud800"`, `[[[[[[1]]]]]]`}

func genCase(seed int64, idx int) Case {
	if idx < 4*len(wsDispatchKinds) {
		c := dispatchCase(idx)
		c.Idx = idx
		return c
	}
	r := hx.NewRand(uint64(seed)*1000003 + uint64(idx)*7919 + 17)
	c := Case{Idx: idx, WorldSeed: r.Uint64(), Mode: r.Intn(4), Async: r.Chance(1, 3), MaxCost: hx.Pick(r, []int{-1, -1, 0, 5, 1000, 1 << 62})}
	c.Entry = hx.Pick(r, []string{"execute", "execute", "execute", "execute", "pv", "subscribe", "http-get", "http-post", "http-graphql", "ws-old", "ws-new"})
	if strings.HasPrefix(c.Entry, "ws-") && r.Chance(1, 3) {
		for n := r.Range(1, 3); n > 0; n-- {
			c.Frames = append(c.Frames, hx.Pick(r, wsJunkFrames))
		}
		if r.Chance(1, 8) {
			c.Frames = append(c.Frames, "!noinit")
		}
	}
	q := hx.Pick(r, seedQueries)
	k := r.Intn(100)
	if r.Chance(1, 6) {
		// random schema + type-directed document + world from the shared generators (C01's), then the same
		// token-level mutations as below half of the time
		c.Gen = r.Uint64() | 1
		g := newGenCase(c.Gen)
		c.Kind = "gqlgen"
		c.Entry = hx.Pick(r, []string{"execute", "execute", "execute", "pv", "subscribe"})
		c.Async = false
		q = g.query
		c.Op = g.req.OpName
		if b, err := json.Marshal(g.req.Variables); err == nil && len(g.req.Variables) > 0 {
			c.Vars = string(b)
		}
		if r.Bool() {
			c.Kind = "gqlgen-mut"
			toks := tokRe.FindAllString(q, -1)
			for n := r.Range(1, 3); n > 0 && len(toks) > 0; n-- {
				i := r.Intn(len(toks))
				switch r.Intn(4) {
				case 0:
					toks = append(toks[:i], toks[i+1:]...)
				case 1:
					toks = append(toks[:i+1], toks[i:]...)
				case 2:
					toks[i] = hx.Pick(r, tokenPool)
				default:
					toks = append(toks[:i], append([]string{hx.Pick(r, tokenPool)}, toks[i:]...)...)
				}
			}
			q = strings.Join(toks, "")
		}
		c.Query = strconv.Quote(q)
		return c
	}
	switch {
	case r.Chance(1, 25):
		c.Kind = "cyclic"
		q = genCyclic(r)
	case k < 7:
		c.Kind = "seed"
	case k < 10:
		// the text ends in the middle of a construct: a prefix of a seed query, half of the time followed by one
		// more token from the pool (so that every unterminated opener also occurs last in the text)
		c.Kind = "prefix"
		q = q[:r.Intn(len(q)+1)]
		if r.Bool() {
			q += hx.Pick(r, tokenPool)
		}
	case k < 48:
		c.Kind = "tokmut"
		toks := tokRe.FindAllString(q, -1)
		for n := r.Range(1, 4); n > 0 && len(toks) > 0; n-- {
			i := r.Intn(len(toks))
			switch r.Intn(6) {
			case 0:
				toks = append(toks[:i], toks[i+1:]...)
			case 1:
				toks = append(toks[:i+1], toks[i:]...)
			case 2:
				if i+1 < len(toks) {
					toks[i], toks[i+1] = toks[i+1], toks[i]
				}
			case 3:
				toks[i] = hx.Pick(r, tokenPool)
			case 4:
				toks = append(toks[:i], append([]string{hx.Pick(r, tokenPool)}, toks[i:]...)...)
			default:
				// splice a token run from another seed query
				o := tokRe.FindAllString(hx.Pick(r, seedQueries), -1)
				a := r.Intn(len(o))
				bnd := a + r.Range(1, 6)
				if bnd > len(o) {
					bnd = len(o)
				}
				toks = append(toks[:i], append(append([]string{}, o[a:bnd]...), toks[i:]...)...)
			}
		}
		q = strings.Join(toks, "")
	case k < 62:
		c.Kind = "bytemut"
		b := []byte(q)
		for n := r.Range(1, 5); n > 0 && len(b) > 0; n-- {
			i := r.Intn(len(b))
			switch r.Intn(4) {
			case 0:
				b[i] = byte(r.Intn(256))
			case 1:
				b = append(b[:i], b[i+1:]...)
			case 2:
				b = append(b[:i], append([]byte{byte(r.Intn(256))}, b[i:]...)...)
			default:
				b = b[:i]
			}
		}
		q = string(b)
	case k < 70:
		c.Kind = "random"
		var sb strings.Builder
		for n := r.Range(0, 40); n > 0; n-- {
			sb.WriteString(hx.Pick(r, tokenPool))
			if r.Bool() {
				sb.WriteByte(' ')
			}
		}
		q = sb.String()
	case k < 78:
		c.Kind = "deep"
		d := hx.Pick(r, []int{3, 60, 300, 3000, 40000})
		rep := func(s string) string { return strings.Repeat(s, d) }
		// string scanning is quadratic in the string's length (value += rune): polynomial, so not
		// C03's business (C12 bounds it); keep string-heavy families small enough not to look like a stall
		srep := func(s string) string {
			if d > 3000 {
				return strings.Repeat(s, 3000)
			}
			return strings.Repeat(s, d)
		}
		q = hx.Pick(r, []string{
			"{" + rep("obj{") + "int" + rep("}") + "}",
			"{args(ll:" + rep("[") + "1" + rep("]") + ")}",
			"{args(in:" + rep("{e:") + "{b:\"x\"}" + rep("}") + ")}",
			"query($v:" + rep("[") + "Int" + rep("]") + "){int}",
			"query($v:Int" + rep("!") + "){int}",
			"{" + rep("...{") + "int" + rep("}") + "}",
			"{" + rep("... on Query{") + "int" + rep("}") + "}",
			rep("{"), rep("("), rep("["), "{int" + rep("("), "{args(l:" + rep("["), "{args(in:" + rep("{a:"),
			"{int " + rep("@tag") + "}", "{args(s:\"" + srep("a"), "{args(s:\"\"\"" + srep("\n \\\"\"\"") + "\"\"\")}",
			"{" + rep(",") + "int}", "{int" + rep("#\n") + "}",
			// a flat run of up to 1.2 million ignored tokens: skipping them must not cost stack (64 MiB limit in the workers)
			"{" + strings.Repeat(hx.Pick(r, []string{",", " ", "\n", "\t", "\r", ", \n"}), d*30) + "int}", "{int}" + strings.Repeat(hx.Pick(r, []string{",", " ", "\n"}), d*30), rep("fragment F on Query{int}"), rep("query{int}"), rep("query Q{int}"),
			func() string { // fragment chain, each reached once
				var sb strings.Builder
				// validating a chain of n fragments is polynomial but steep (n=2000: ~10 s; cycle search and
				// field collection are both quadratic) — C12's business; keep it clear of the stall limit
				n := d
				if n > 800 {
					n = 800
				}
				sb.WriteString("{...F0}")
				for i := 0; i < n; i++ {
					fmt.Fprintf(&sb, " fragment F%d on Query{...F%d}", i, i+1)
				}
				fmt.Fprintf(&sb, " fragment F%d on Query{int}", n)
				return sb.String()
			}(),
			func() string { // recursion-guard drift: many siblings of one production, then nesting beyond the limit.
				// A production that leaves the depth counter too high makes wide documents fail (C12); one
				// that leaves it too low lets nesting run away: with 300k siblings the guard would admit
				// tens of thousands of levels and the (64 MiB-limited) stack overflows.
				n, depth := 300000, 80000
				if d < 3000 {
					n, depth = 300, 1200
				}
				sib := hx.Pick(r, []string{"...F ", "a:int ", "... on Query{int} ", "...{int} ", "int @tag ", "args(i:1) ", "args(l:[1,2]) ", "args(in:{b:\"x\"}) "})
				open, close := "obj{", "}"
				switch r.Intn(4) {
				case 0:
					open, close = "...{", "}"
				case 1:
					open, close = "... on Query{", "}"
				}
				return "{" + strings.Repeat(sib, n) + strings.Repeat(open, depth) + "int" + strings.Repeat(close, depth) + "} fragment F on Query{int}"
			}(),
			func() string { // same for values: many list items / object fields, then deep value nesting
				n, depth := 300000, 80000
				if d < 3000 {
					n, depth = 300, 1200
				}
				if r.Bool() {
					return "{args(ll:[" + strings.Repeat("[1],", n) + strings.Repeat("[", depth) + "1" + strings.Repeat("]", depth) + "])}"
				}
				return "query(" + strings.Repeat("$a:Int ", n/10) + "$v:" + strings.Repeat("[", depth) + "Int" + strings.Repeat("]", depth) + "){int}"
			}(),
			func() string { // spread cycle
				return "{...A} fragment A on Query{...B} fragment B on Query{...A " + rep("...A ") + "}"
			}(),
		})
	case k < 82:
		c.Kind = "wide"
		n := hx.Pick(r, []int{10, 900, 1100, 20000})
		var sb strings.Builder
		switch r.Intn(4) {
		case 0:
			sb.WriteString("{")
			for i := 0; i < n; i++ {
				fmt.Fprintf(&sb, "a%d:int ", i)
			}
			sb.WriteString("}")
		case 1:
			sb.WriteString("{args(l:[")
			for i := 0; i < n; i++ {
				sb.WriteString("1,")
			}
			sb.WriteString("])}")
		case 2:
			sb.WriteString("{int")
			for i := 0; i < n; i++ {
				fmt.Fprintf(&sb, " ...F%d", i%7)
			}
			sb.WriteString("}")
			for i := 0; i < 7; i++ {
				fmt.Fprintf(&sb, " fragment F%d on Query{str}", i)
			}
		default:
			for i := 0; i < n; i++ {
				fmt.Fprintf(&sb, "query Q%d{int} ", i)
			}
			c.Op = "Q3"
		}
		q = sb.String()
	default:
		c.Kind = "vars"
	}
	c.Query = strconv.Quote(q)
	// variables: by declared name, or junk
	names := map[string]bool{}
	for _, m := range regexp.MustCompile(`\$([A-Za-z_][A-Za-z_0-9]*)`).FindAllStringSubmatch(q, 40) {
		names[m[1]] = true
	}
	sorted := []string{}
	for n := range names {
		sorted = append(sorted, n)
	}
	sort.Strings(sorted)
	switch r.Intn(8) {
	case 0:
		c.Vars = ""
	case 1:
		c.Vars = `{}`
	default:
		// half of the time every variable gets a value that fits its declared type (or an explicit null, or is
		// left out): combinations such as "nullable with a default, sent as null" are then common, not 1 in 35
		declared := map[string]string{}
		for _, m := range regexp.MustCompile(`\$([A-Za-z_][A-Za-z_0-9]*)\s*:\s*(\[*)\s*([A-Za-z_][A-Za-z_0-9]*)`).FindAllStringSubmatch(q, 40) {
			declared[m[1]] = m[2] + m[3]
		}
		fitting := r.Bool()
		parts := []string{}
		for _, n := range sorted {
			if fitting && declared[n] != "" {
				var pool []string
				switch declared[n] {
				case "Boolean":
					pool = []string{"true", "false", "null", "null"}
				case "Int":
					pool = []string{"0", "1", "2", "-1", "null", "2147483647"}
				case "Float":
					pool = []string{"0", "1.5", "null", "1e300"}
				case "String", "ID":
					pool = []string{`""`, `"x"`, `"Obj"`, "null"}
				case "Color":
					pool = []string{`"RED"`, `"GREEN"`, "null"}
				case "In":
					pool = []string{`{"b":"s"}`, `{"b":"x","e":{"b":"y"}}`, "null"}
				default:
					if strings.HasPrefix(declared[n], "[") {
						pool = []string{"[]", "null", "[null]", "[1]", `["x"]`, "1"}
					} else {
						pool = jsonPool
					}
				}
				if !r.Chance(1, 4) {
					parts = append(parts, strconv.Quote(n)+":"+hx.Pick(r, pool))
				}
				continue
			}
			if r.Chance(4, 5) {
				parts = append(parts, strconv.Quote(n)+":"+hx.Pick(r, jsonPool))
			}
		}
		if r.Chance(1, 6) {
			parts = append(parts, `"extra":`+hx.Pick(r, jsonPool))
		}
		c.Vars = "{" + strings.Join(parts, ",") + "}"
	}
	if c.Op == "" {
		c.Op = hx.Pick(r, []string{"", "", "", "", "Q", "A", "B", "M", "S", "nope", "Q3", "\x00"})
	}
	return c
}

// genCyclic builds small fragment graphs in which cycles are likely, under every operation type, with the
// spreads at the root, below a field, and behind inline fragments: every rule that follows spreads (cycle search,
// merge check, subscription root-field count, variable usages, cost walk, field collection) meets them.
func genCyclic(r *hx.Rand) string {
	opType := hx.Pick(r, []string{"query", "query", "mutation", "subscription", "subscription"})
	root := map[string]string{"query": "Query", "mutation": "Mutation", "subscription": "Subscription"}[opType]
	head := hx.Pick(r, []string{opType + " ", opType + " Op ", opType + " Op($v: Boolean = true) "})
	if opType == "query" && r.Bool() {
		head = ""
	}
	n := r.Range(1, 5)
	onObj := r.Bool()
	typ := root
	if onObj {
		typ = "Obj"
	}
	spread := func() string {
		sp := fmt.Sprintf("...F%d", r.Intn(n))
		if strings.Contains(head, "$v") && r.Chance(1, 4) {
			sp += " @include(if: $v)"
		}
		switch r.Intn(5) {
		case 0:
			return "... on " + typ + " { " + sp + " }"
		case 1:
			return "... { " + sp + " }"
		case 2:
			if onObj || root != "Subscription" {
				if onObj {
					return hx.Pick(r, []string{"obj", "objNN", "a: obj"}) + " { " + sp + " }"
				}
			}
		}
		return sp
	}
	var sb strings.Builder
	sb.WriteString(head)
	leaf := "int"
	if !onObj && root == "Subscription" {
		leaf = "tick"
	}
	if onObj {
		sb.WriteString("{ " + hx.Pick(r, []string{"obj", "objNN"}) + " { " + spread() + " } }")
		if root == "Subscription" {
			s := sb.String()
			sb.Reset()
			sb.WriteString(strings.Replace(s, "objNN", "obj", 1))
		}
	} else {
		sb.WriteString("{ " + spread() + hx.Pick(r, []string{"", " " + leaf, " " + spread()}) + " }")
	}
	for i := 0; i < n; i++ {
		fmt.Fprintf(&sb, " fragment F%d on %s { ", i, typ)
		if r.Bool() {
			sb.WriteString(leaf + " ")
		}
		for k := r.Range(1, 2); k > 0; k-- {
			sb.WriteString(spread() + " ")
		}
		sb.WriteString("}")
	}
	return sb.String()
}

// ---- running one case ---------------------------------------------------------------------------

var (
	theSchema *graphql.Schema
	theAPI    *apifu.API
)

func setup() {
	s, err := buildSchema()
	if err != nil {
		fmt.Fprintln(os.Stderr, "schema rejected:", err)
		os.Exit(2)
	}
	theSchema = s
	// the same field set behind apifu's HTTP entry point
	theWorld = &world{r: hx.NewRand(1)}
	cfg := &apifu.Config{Logger: quietLogger()}
	addSubscriptions(cfg, s)
	q := s.QueryType()
	for name, def := range q.Fields {
		if name != "node" && name != "nodes" { // apifu defines these itself
			cfg.AddQueryField(name, def)
		}
	}
	for name, def := range s.MutationType().Fields {
		cfg.AddMutation(name, def)
	}
	api, err := apifu.NewAPI(cfg)
	if err != nil {
		fmt.Fprintln(os.Stderr, "api rejected:", err)
		os.Exit(2)
	}
	theAPI = api
}

func checkResponse(resp *graphql.Response) string {
	if resp == nil {
		return "nil response"
	}
	b, err := json.Marshal(resp)
	if err != nil {
		return "response does not serialise (encoding/json): " + err.Error()
	}
	if _, err := jsoniter.Marshal(resp); err != nil {
		return "response does not serialise (json-iterator): " + err.Error()
	}
	var back struct {
		Data   json.RawMessage   `json:"data"`
		Errors []json.RawMessage `json:"errors"`
	}
	if err := json.Unmarshal(b, &back); err != nil {
		return "serialised response is not JSON: " + err.Error()
	}
	if (back.Data == nil || string(back.Data) == "null") && len(back.Errors) == 0 {
		return "response carries no (or null) data and no errors: " + string(b)
	}
	return ""
}

// runCase returns "" when the property held, else a description. Panics are recovered here; fatal
// errors and stalls are the parent's business.
var lastAdm string

func runCase(c Case) (fail string) {
	w := &world{r: hx.NewRand(c.WorldSeed), mode: c.Mode, async: c.Async}
	theWorld = w
	lastAdm = ""
	defer func() {
		if p := recover(); p != nil {
			st := string(debug.Stack())
			fail = fmt.Sprintf("panic: %v\n%s", p, firstFrames(st))
		}
	}()
	sch := theSchema
	var initial interface{}
	if c.Gen != 0 {
		g := newGenCase(c.Gen)
		if g.built == nil {
			return ""
		}
		sch = g.built.Schema
		if g.world != nil {
			initial = g.world.Node()
		}
	}
	var vars map[string]interface{}
	if c.Vars != "" {
		if err := json.Unmarshal([]byte(c.Vars), &vars); err != nil {
			return ""
		}
	}
	q := c.query()
	idle := func() {
		if len(w.promises) == 0 {
			panic(harnessBug("idle handler invoked with no outstanding promise"))
		}
		w.idle()
	}
	switch c.Entry {
	case "pv":
		var actual int
		doc, errs := graphql.ParseAndValidate(q, sch, nil, graphql.ValidateCost(c.Op, vars, c.MaxCost, &actual, graphql.FieldCost{Resolver: 1}))
		if doc == nil && len(errs) == 0 {
			return "ParseAndValidate returned neither a document nor errors"
		}
		if doc != nil && len(errs) != 0 {
			return "ParseAndValidate returned a document and errors"
		}
		if _, err := json.Marshal(errs); err != nil {
			return "errors do not serialise: " + err.Error()
		}
		return ""
	case "execute":
		resp := graphql.Execute(&graphql.Request{Context: context.Background(), Query: q, Schema: sch, OperationName: c.Op, VariableValues: vars, IdleHandler: idle, InitialValue: initial})
		if f := checkResponse(resp); f != "" {
			return f
		}
		lastAdm = envelopeRequest(sch, q, c.Op, vars, resp)
		return ""
	case "subscribe":
		req := &graphql.Request{Context: context.Background(), Query: q, Schema: sch, OperationName: c.Op, VariableValues: vars, IdleHandler: idle, InitialValue: initial}
		v, errs := graphql.Subscribe(req)
		if len(errs) > 0 {
			if _, err := json.Marshal(errs); err != nil {
				return "subscribe errors do not serialise: " + err.Error()
			}
			return ""
		}
		req.InitialValue = v
		return checkResponse(graphql.Execute(req))
	case "ws-old", "ws-new":
		return runWS(c, w)
	default:
		// apifu installs its own idle handler, which only knows promises made by apifu.Go/Batch:
		// raw promises of the world would never be fulfilled, so HTTP cases resolve synchronously
		w.async = false
		var hr *http.Request
		switch c.Entry {
		case "http-get":
			u := url.Values{}
			u.Set("query", q)
			if c.Vars != "" {
				u.Set("variables", c.Vars)
			}
			if c.Op != "" {
				u.Set("operationName", c.Op)
			}
			hr = httptest.NewRequest("GET", "/?"+u.Encode(), nil)
		case "http-post":
			body := map[string]interface{}{"query": q}
			if vars != nil {
				body["variables"] = vars
			}
			if c.Op != "" {
				body["operationName"] = c.Op
			}
			b, _ := json.Marshal(body)
			hr = httptest.NewRequest("POST", "/", bytes.NewReader(b))
			hr.Header.Set("Content-Type", "application/json")
		default:
			hr = httptest.NewRequest("POST", "/", strings.NewReader(q))
			hr.Header.Set("Content-Type", "application/graphql; charset=utf-8")
		}
		rec := httptest.NewRecorder()
		hr = hr.WithContext(context.WithValue(hr.Context(), underAPI{}, true))
		theAPI.ServeGraphQL(rec, hr)
		if rec.Code != 200 {
			return fmt.Sprintf("well-formed HTTP envelope answered with status %d: %s", rec.Code, strings.TrimSpace(rec.Body.String()))
		}
		var back struct {
			Data   json.RawMessage   `json:"data"`
			Errors []json.RawMessage `json:"errors"`
		}
		if err := json.Unmarshal(rec.Body.Bytes(), &back); err != nil {
			return "HTTP body is not JSON: " + err.Error()
		}
		if (back.Data == nil || string(back.Data) == "null") && len(back.Errors) == 0 {
			return "HTTP response carries no (or null) data and no errors: " + rec.Body.String()
		}
		return ""
	}
}

// envelopeRequest observes the pre-execution stage outcomes through the exported stage functions and
// the shape of the response, as a request line for the driver's envelope acceptor.
func envelopeRequest(sch *graphql.Schema, q, op string, vars map[string]interface{}, resp *graphql.Response) string {
	parseErrs, valErrs, setupOk := 0, 0, true
	doc, perrs := parser.ParseDocument([]byte(q))
	parseErrs = len(perrs)
	if parseErrs == 0 {
		valErrs = len(validator.ValidateDocument(doc, sch, nil))
		if valErrs == 0 {
			if o, err := executor.GetOperation(doc, op); err != nil {
				setupOk = false
			} else if _, err := validator.CoerceVariableValues(sch, nil, o, vars); err != nil {
				setupOk = false
			}
		}
	}
	// The *number* of validation errors is not a function of the document: the overlapping-fields check reports
	// what Go's map iteration lets it meet first. The envelope only depends on "some" vs "none", so when both
	// this observation and the response agree that validation failed, the response's own count is used.
	if parseErrs == 0 && valErrs > 0 && resp.Data == nil && len(resp.Errors) > 0 {
		valErrs = len(resp.Errors)
	}
	dataNull := false
	if resp.Data != nil {
		b, _ := json.Marshal(*resp.Data)
		dataNull = string(b) == "null"
	}
	rootOk := true
	if parseErrs == 0 && valErrs == 0 && setupOk {
		if o, err := executor.GetOperation(doc, op); err == nil && o.OperationType != nil {
			switch o.OperationType.Value {
			case "mutation":
				rootOk = sch.MutationType() != nil
			case "subscription":
				rootOk = sch.SubscriptionType() != nil
			}
		}
	}
	return fmt.Sprintf("(admissible %d %d %v %v %v %v %d)", parseErrs, valErrs, setupOk, rootOk, resp.Data != nil, dataNull, len(resp.Errors))
}

// genCase is what a Gen seed regenerates (deterministically): schema, request, printed query, world.
type genCaseT struct {
	built *gqlgen.Built
	req   *gqlgen.Request
	query string
	world *gqlgen.Outcome
}

func newGenCase(seed uint64) (g genCaseT) {
	defer func() {
		if p := recover(); p != nil { // a generator hiccup is not the library's crash
			g = genCaseT{req: &gqlgen.Request{Doc: &gqlgen.DocDesc{}}, query: "{__typename}"}
		}
	}()
	r := hx.NewRand(seed)
	desc := gqlgen.RandomSchema(r)
	g.req = gqlgen.RandomRequest(r, desc)
	g.query = g.req.Doc.Print(gqlgen.RandomLayout(r))
	b, err := gqlgen.Build(desc)
	if err != nil {
		return g
	}
	g.built = b
	op := g.req.Doc.SelectedOp(g.req.OpName)
	if op == nil && len(g.req.Doc.Ops) > 0 {
		op = &g.req.Doc.Ops[0]
	}
	if op != nil {
		g.world = gqlgen.RandomWorld(r, desc, g.req, op)
	}
	return g
}

type harnessBug string

var digitsRe = regexp.MustCompile(`0x[0-9a-f]+|[0-9]+`)

// signature groups failures: panic message + first library frame, or the message with numbers removed.
func signature(fail string) string {
	lines := strings.Split(fail, "\n")
	s := lines[0]
	if strings.HasPrefix(fail, "panic") && len(lines) > 1 {
		s += " @ " + lines[1]
	}
	s = digitsRe.ReplaceAllString(s, "N")
	if len(s) > 160 {
		s = s[:160]
	}
	return s
}

func firstFrames(st string) string {
	lines := strings.Split(st, "\n")
	out := []string{}
	for _, l := range lines {
		if strings.Contains(l, "api-fu") && !strings.Contains(l, "verifharness") {
			out = append(out, strings.TrimSpace(l))
			if len(out) >= 6 {
				break
			}
		}
	}
	return strings.Join(out, "\n")
}

// classify maps a failure to a finding key ("" when none applies). Keys name *specific* known
// defects; anything else stays unclassified and is reported as a violation.
func classify(c Case, fail string) string {
	return ""
}

// ---- worker -------------------------------------------------------------------------------------

type line struct {
	Idx   int    `json:"idx"`
	Fail  string `json:"fail,omitempty"`
	Kind  string `json:"kind"`
	Entry string `json:"entry"`
	Class string `json:"class"` // outcome class for the distribution
	MS    int64  `json:"ms"`
	Adm   string `json:"adm,omitempty"` // envelope-acceptor request for the Lean driver
}

// stallWatch decides that a case hangs without depending on how busy the machine is: a case is an endless loop
// (or super-polynomial work) when THIS PROCESS has burnt more than perCase of CPU time on it, and a deadlock when the
// process made no CPU progress at all for 25 s of wall time while the case was still running (a runnable process
// gets some CPU within 25 s under any load the checks are run at; a blocked one gets none). A wall-clock cap of
// 15 x perCase remains as a last resort.
type stallWatch struct {
	idx      int
	cpu0     time.Duration // process CPU time when the current case was first seen
	lastCPU  time.Duration
	lastMove time.Time
}

func processCPU() time.Duration {
	var ru syscall.Rusage
	if syscall.Getrusage(syscall.RUSAGE_SELF, &ru) != nil {
		return 0
	}
	return time.Duration(ru.Utime.Nano() + ru.Stime.Nano())
}

func (w *stallWatch) check(idx int, started time.Time, perCase time.Duration) string {
	cpu := processCPU()
	if idx != w.idx || w.lastMove.IsZero() {
		w.idx, w.cpu0, w.lastCPU, w.lastMove = idx, cpu, cpu, time.Now()
		return ""
	}
	if cpu-w.lastCPU > 20*time.Millisecond {
		w.lastCPU, w.lastMove = cpu, time.Now()
	}
	switch {
	case cpu-w.cpu0 > perCase:
		return fmt.Sprintf("no result after %s of CPU time (endless loop or super-polynomial work)", perCase)
	case time.Since(w.lastMove) > 25*time.Second:
		return "no result and no CPU progress for 25 s (blocked forever)"
	case time.Since(started) > 15*perCase:
		return fmt.Sprintf("no result within %s", 15*perCase)
	}
	return ""
}

func worker(seed int64, from, to int, perCase time.Duration) {
	debug.SetMaxStack(64 << 20)
	setup()
	out := bufio.NewWriter(os.Stdout)
	var mu sync.Mutex
	cur := -1
	started := time.Now()
	go func() { // watchdog: stall or memory blow-up
		var ms runtime.MemStats
		var sw stallWatch
		for {
			time.Sleep(250 * time.Millisecond)
			mu.Lock()
			i, t0 := cur, started
			mu.Unlock()
			if i < 0 {
				continue
			}
			runtime.ReadMemStats(&ms)
			why := sw.check(i, t0, perCase)
			if why != "" {
			} else if ms.HeapAlloc > 6<<30 {
				why = "heap grew beyond 6 GiB"
			}
			if why != "" {
				mu.Lock()
				b, _ := json.Marshal(line{Idx: i, Fail: "hang: " + why, Class: "hang"})
				out.Write(b)
				out.WriteByte('\n')
				out.Flush()
				os.Exit(4)
			}
		}
	}()
	for i := from; i < to; i++ {
		c := genCase(seed, i)
		mu.Lock()
		cur, started = i, time.Now()
		mu.Unlock()
		t0 := time.Now()
		fail := runCase(c)
		mu.Lock()
		cur = -1
		cls := "ok"
		if fail != "" {
			cls = "fail"
		}
		b, _ := json.Marshal(line{Idx: i, Fail: fail, Kind: c.Kind, Entry: c.Entry, Class: cls, MS: time.Since(t0).Milliseconds(), Adm: lastAdm})
		out.Write(b)
		out.WriteByte('\n')
		if fail != "" || i%64 == 0 {
			out.Flush()
		}
		mu.Unlock()
	}
	out.Flush()
}

// ---- parent -------------------------------------------------------------------------------------

func main() {
	isWorker := flag.Bool("worker", false, "run as worker")
	from := flag.Int("from", 0, "")
	to := flag.Int("to", 0, "")
	one := flag.Int("one", -1, "run exactly this case index and print the outcome")
	dumpSites := flag.Bool("dump-panic-sites", false, "print the panic-site inventory of $VERIF_REPO as JSON and exit")
	run := hx.Init("C03")
	run.MaxPerKey = 40 // failures are de-duplicated by signature below
	perCase := 40 * time.Second
	if *isWorker {
		worker(run.Seed, *from, *to, perCase)
		return
	}
	repo := os.Getenv("VERIF_REPO")
	if repo == "" {
		repo = "/repo"
	}
	if *dumpSites {
		inv, err := inventory(repo)
		if err != nil {
			fmt.Fprintln(os.Stderr, err)
			os.Exit(2)
		}
		b, _ := json.MarshalIndent(inv, "", " ")
		fmt.Println(string(b))
		return
	}
	if *one >= 0 {
		setup()
		c := genCase(run.Seed, *one)
		b, _ := json.MarshalIndent(c, "", " ")
		fmt.Printf("%s\nquery: %s\nresult: %q\n", b, c.query(), runCase(c))
		fmt.Printf("adm: %s\n", lastAdm)
		return
	}
	run.SetRule("case = f(seed, index): seed queries over a kitchen-sink schema mutated at token and byte level (incl. invalid UTF-8), random token soups, deep/wide families, random variables JSON and operation names, resolver worlds returning ordinary values of every kind (NaN/Inf, typed nil, value-kind errors, wrong kinds, promises); entry points ParseAndValidate(+cost), Execute, Subscribe(+event), HTTP GET/POST/graphql. distinct = distinct (query, vars, op, entry, world); non-trivial = the request got past parsing (reached validation or execution)")

	self, _ := os.Executable()
	if run.Replay != "" {
		var c Case
		if err := hx.LoadReplayCase(run.Replay, &c); err != nil {
			fmt.Fprintln(os.Stderr, err)
			os.Exit(2)
		}
		fail := replayInChild(self, c)
		fmt.Printf("replay: query=%s vars=%s op=%q entry=%s → %q\n", c.Query, c.Vars, c.Op, c.Entry, fail)
		if fail != "" {
			run.Violate("property", fail, classify(c, fail), false, c)
		}
		run.Finish(nil)
		return
	}

	total := run.Scale(30000, 600000)
	nw := runtime.NumCPU()
	if nw > 12 {
		nw = 12
	}
	chunk := 500
	type job struct{ from, to int }
	jobs := make(chan job, 1024)
	var mu sync.Mutex
	var wg sync.WaitGroup
	sigSeen := map[string]int{}
	var abort int32 // set once a stall or process death repeats: every further such case costs up to 40 s
	var admReqs []string
	var admCases []Case
	record := func(l line, c Case) {
		mu.Lock()
		defer mu.Unlock()
		if l.Adm != "" {
			admReqs = append(admReqs, l.Adm)
			admCases = append(admCases, c)
		}
		nontrivial := !strings.Contains(l.Fail, "Syntax error")
		run.Case(c.Query+"|"+c.Vars+"|"+c.Op+"|"+c.Entry+"|"+fmt.Sprint(c.WorldSeed), nontrivial && c.Kind != "random")
		run.Count("kind:" + c.Kind)
		run.Count("entry:" + c.Entry)
		run.Count("outcome:" + l.Class)
		if l.MS > 2000 {
			run.Count("slow>2s")
		}
		if l.Fail != "" {
			sg := signature(l.Fail)
			run.Count("failure:" + sg)
			if (l.Class == "hang" || l.Class == "crash" || strings.HasPrefix(l.Fail, "websocket operation not answered")) && run.Distribution("failure:"+sg) >= 3 {
				atomic.StoreInt32(&abort, 1)
			}
			if sigSeen[sg] >= 2 {
				return
			}
			sigSeen[sg]++
			kind := "property"
			if strings.HasPrefix(l.Fail, "panic") || strings.HasPrefix(l.Fail, "crash") || strings.HasPrefix(l.Fail, "hang") {
				kind = "crash"
			}
			run.Violate(kind, l.Fail, classify(c, l.Fail), false, c)
		}
		if c.Idx < 4 {
			run.Sample(map[string]interface{}{"kind": c.Kind, "entry": c.Entry, "query": truncate(c.query(), 200), "vars": c.Vars, "op": c.Op})
		}
	}
	runRange := func(from, to int) {
		for from < to && atomic.LoadInt32(&abort) == 0 {
			cmd := exec.Command(self, "-worker", "-from", strconv.Itoa(from), "-to", strconv.Itoa(to), "-seed", strconv.FormatInt(run.Seed, 10))
			var stderr bytes.Buffer
			cmd.Stderr = &stderr
			so, _ := cmd.StdoutPipe()
			if err := cmd.Start(); err != nil {
				fmt.Fprintln(os.Stderr, "cannot start worker:", err)
				os.Exit(2)
			}
			sc := bufio.NewScanner(so)
			sc.Buffer(make([]byte, 1<<20), 1<<26)
			last := from - 1
			hung := false
			for sc.Scan() {
				var l line
				if json.Unmarshal(sc.Bytes(), &l) != nil {
					continue
				}
				c := genCase(run.Seed, l.Idx)
				if l.Class == "hang" {
					hung = true
				}
				record(l, c)
				last = l.Idx
			}
			err := cmd.Wait()
			if last >= to-1 && err == nil {
				return
			}
			if hung {
				from = last + 1
				continue
			}
			// the worker died while running case last+1
			culprit := last + 1
			if culprit >= to {
				return
			}
			tail := stderr.String()
			if len(tail) > 1500 {
				tail = tail[:700] + "\n…\n" + tail[len(tail)-700:]
			}
			record(line{Idx: culprit, Fail: "crash: worker process died (" + fmt.Sprint(err) + "): " + tail, Class: "crash"}, genCase(run.Seed, culprit))
			from = culprit + 1
		}
	}
	for i := 0; i < nw; i++ {
		wg.Add(1)
		go func() {
			defer wg.Done()
			for j := range jobs {
				runRange(j.from, j.to)
			}
		}()
	}
	// corpus / findings first (each in its own child so that a crash is attributed)
	for _, f := range run.CorpusFiles() {
		var c Case
		if hx.LoadReplayCase(f, &c) == nil && c.Query != "" {
			fail := replayInChild(self, c)
			record(line{Idx: -1, Fail: fail, Class: map[bool]string{true: "ok", false: "fail"}[fail == ""]}, c)
			run.Count("corpus")
		}
	}
	for a := 0; a < total; a += chunk {
		b := a + chunk
		if b > total {
			b = total
		}
		jobs <- job{a, b}
	}
	close(jobs)
	wg.Wait()
	// correspondence with the Lean model (envelope acceptor, filters, Float coercion, recover)
	if run.ModelPath != "" {
		m, err := hx.StartModel(run.ModelPath)
		if err != nil {
			fmt.Fprintln(os.Stderr, "cannot start model:", err)
			os.Exit(2)
		}
		replies, err := m.AskAll(admReqs)
		bad := ""
		for i, rep := range replies {
			if f := strings.Fields(admReqs[i]); strings.HasPrefix(f[0], "(ws") {
				run.Count("model:" + strings.Join(f[:3], " "))
			} else {
				run.Count("envelope:" + strings.Join(f[1:5], ","))
			}
			if rep != "true" && bad == "" {
				bad = fmt.Sprintf("response shape not admitted by the envelope model: %s → %s (query %s)", admReqs[i], rep, truncate(admCases[i].query(), 200))
				run.Violate("correspondence", bad, "", true, admCases[i])
			}
		}
		if err != nil {
			bad = err.Error()
		}
		run.Oblige("envelope: response shape admitted by the Lean envelope model for the observed stage outcomes", "correspondence", len(admReqs), bad == "", bad)
		small := smallCorrespondences(m)
		run.Oblige("@skip/@include filters, Float result coercion, ParseDocument recover = Lean models (all classes)", "correspondence", 24, small == "", small)
		if small != "" {
			run.Violate("correspondence", small, "", true, small)
		}
		defer m.Close()
		defer func() { run.Finish(m) }()
	}
	nSites, missing, err := checkInventory(repo, run.VerifDir+"/checks/C03.panicsites.json")
	if err != nil {
		run.Oblige("panic-site inventory of the anchored files matches the discharged table", "srcfact", nSites, false, err.Error())
	} else {
		run.Oblige("panic-site inventory of the anchored files matches the discharged table", "srcfact", nSites, len(missing) == 0, strings.Join(missing, "; "))
		if len(missing) > 0 && run.Violations() == 0 {
			run.Violate("correspondence", "panic-capable sites without a discharged row in checks/C03.panicsites.json (new unchecked assertion / panic / reflect call): "+strings.Join(missing, "; "), "", true, map[string]interface{}{"undischarged_sites": missing})
		}
	}
	if atomic.LoadInt32(&abort) != 0 {
		run.Note("search stopped early: the same stall / process death was seen three times")
	}
	run.Oblige("oracle: returns normally (no panic / fatal / stall), response serialises, null-or-absent data ⇒ errors", "oracle", total, run.Violations() == 0, "see violations")
	if run.ModelPath == "" {
		run.Finish(nil)
	}
}

func truncate(s string, n int) string {
	if !utf8.ValidString(s) {
		s = strconv.Quote(s)
	}
	if len(s) > n {
		return s[:n] + "…"
	}
	return s
}

// replayInChild runs one explicit case in a fresh child (so that fatal errors are caught).
func replayInChild(self string, c Case) string {
	b, _ := json.Marshal(c)
	cmd := exec.Command(self, "-worker", "-from", "-1", "-to", "-1")
	cmd.Env = append(os.Environ(), "C03_CASE="+string(b))
	out, err := cmd.CombinedOutput()
	if err != nil {
		s := string(out)
		if len(s) > 1500 {
			s = s[:700] + "\n…\n" + s[len(s)-700:]
		}
		return "crash: " + err.Error() + ": " + s
	}
	var l line
	for _, ln := range strings.Split(string(out), "\n") {
		if json.Unmarshal([]byte(ln), &l) == nil && ln != "" {
			return l.Fail
		}
	}
	return ""
}

func init() {
	// explicit-case worker mode (used by replayInChild)
	if js := os.Getenv("C03_CASE"); js != "" {
		var c Case
		if json.Unmarshal([]byte(js), &c) == nil {
			debug.SetMaxStack(64 << 20)
			setup()
			done := make(chan string, 1)
			go func() { done <- runCase(c) }()
			var fail string
			var sw stallWatch
			t0 := time.Now()
		wait:
			for {
				select {
				case fail = <-done:
					break wait
				case <-time.After(250 * time.Millisecond):
					if why := sw.check(c.Idx, t0, 40*time.Second); why != "" {
						fail = "hang: " + why
						break wait
					}
				}
			}
			b, _ := json.Marshal(line{Idx: c.Idx, Fail: fail})
			fmt.Println(string(b))
			os.Exit(0)
		}
	}
}

// smallCorrespondences compares the three small guard models with the real functions on every class.
func smallCorrespondences(m *hx.Model) string {
	// @skip / @include
	args := map[string]map[string]interface{}{
		"absent": {}, "nil": {"if": nil}, "true": {"if": true}, "false": {"if": false}, "other": {"if": "true"},
	}
	for _, which := range []string{"skip", "include"} {
		f := schema.SkipDirective.FieldCollectionFilter
		if which == "include" {
			f = schema.IncludeDirective.FieldCollectionFilter
		}
		for _, k := range []string{"absent", "nil", "true", "false", "other"} {
			got := func() (out string) {
				defer func() {
					if recover() != nil {
						out = "panicked"
					}
				}()
				return fmt.Sprintf("(keep %v)", f(args[k]))
			}()
			want, err := m.Ask(fmt.Sprintf("(filter %s %s)", which, k))
			if err != nil || got != want {
				return fmt.Sprintf("@%s filter on %s: implementation %s, model %s %v", which, k, got, want, err)
			}
		}
	}
	// Float result coercion
	samples := map[string][]interface{}{
		"boolean": {true, false}, "integer": {int8(-1), uint8(2), int16(3), uint16(4), int32(5), uint32(6), int64(7), uint64(8), 9, uint(10)},
		"finite": {1.5, float32(2.5), math.MaxFloat64, -math.SmallestNonzeroFloat64, float32(math.MaxFloat32)},
		"nan":    {math.NaN(), float32(math.NaN())}, "posinf": {math.Inf(1), float32(math.Inf(1))}, "neginf": {math.Inf(-1), float32(math.Inf(-1))},
		"other": {"1.5", nil, []int{1}, struct{}{}, complex(1, 1), json.Number("1")},
	}
	for k, vs := range samples {
		want, err := m.Ask("(float " + k + ")")
		for _, v := range vs {
			out := schema.FloatType.ResultCoercion(v)
			got := "rejected"
			if f, ok := out.(float64); ok {
				got = "number"
				if math.IsNaN(f) || math.IsInf(f, 0) {
					got = "nonFinite"
				}
			} else if out != nil {
				got = fmt.Sprintf("unexpected %T", out)
			}
			if err != nil || got != want {
				return fmt.Sprintf("Float result coercion of %#v (%s): implementation %s, model %s %v", v, k, got, want, err)
			}
		}
	}
	// recover: a syntax error is returned, never re-raised
	for src, want := range map[string]string{"{a}": "returned", "{": "returnedWithError"} {
		got := func() (out string) {
			defer func() {
				if recover() != nil {
					out = "repanicked"
				}
			}()
			_, errs := parser.ParseDocument([]byte(src))
			if len(errs) > 0 {
				return "returnedWithError"
			}
			return "returned"
		}()
		k := "none"
		if want == "returnedWithError" {
			k = "syntaxError"
		}
		rep, err := m.Ask("(recover " + k + ")")
		if err != nil || rep != got || got != want {
			return fmt.Sprintf("ParseDocument(%q): implementation %s, model %s %v", src, got, rep, err)
		}
	}
	return ""
}
