package main

import (
	"bytes"
	"encoding/json"
	"fmt"
	"go/ast"
	"go/parser"
	"go/printer"
	"go/token"
	"os"
	"path/filepath"
	"sort"
	"strings"
)

// Panic-site inventory (DESIGN §3.2(3)): every syntactic site in the files C03 is anchored in that
// can panic by construction — explicit panic(...), single-value type assertions, reflect IsNil/Elem
// calls — is listed by (file, function, kind, source text). The committed table
// checks/C03.panicsites.json says for each row why it cannot fire on any request (which guard,
// which Lean theorem). A site that is not in the table is an undischarged obligation: the
// malformed-input search then has to produce the crashing input, or the check reports the
// violation with no-failing-input-found.

type site struct {
	File string `json:"file"`
	Func string `json:"func"`
	Kind string `json:"kind"`
	Text string `json:"text"`
	Why  string `json:"why,omitempty"`
}

func (s site) key() string { return s.File + "|" + s.Func + "|" + s.Kind + "|" + s.Text }

var anchoredFiles = []string{
	"graphql/parser/parser.go", "graphql/scanner/scanner.go", "graphql/scanner/string_value.go", "graphql/scanner/int_value.go", "graphql/scanner/float_value.go",
	"graphql/validator/validator.go", "graphql/validator/validate_fields.go", "graphql/validator/validate_fragments.go", "graphql/validator/validate_variables.go",
	"graphql/validator/validate_arguments.go", "graphql/validator/validate_directives.go", "graphql/validator/validate_operations.go", "graphql/validator/validate_values.go",
	"graphql/validator/validate_document.go", "graphql/validator/validate_cost.go", "graphql/validator/type_info.go", "graphql/validator/coerce.go",
	"graphql/schema/builtins.go", "graphql/schema/schema.go", "graphql/schema/list_type.go", "graphql/schema/input_object_type.go", "graphql/schema/enum_type.go", "graphql/schema/scalar_type.go",
	"graphql/executor/executor.go", "graphql/executor/error.go", "graphql/executor/path.go", "graphql/executor/ordered_map.go", "graphql/executor/grouped_field_set.go",
	"graphql/executor/internal/future/future.go", "graphql/graphql.go", "graphql/ast/inspect.go", "graphql/ast/ast.go",
	// the entry points a request reaches the pipeline through: HTTP, both WebSocket protocols, persisted queries
	"api.go", "graphqlws.go", "persisted_query.go", "subscription.go", "pagination.go", "fields.go", "scalars.go", "config.go",
	// the introspection resolvers run inside every request that selects __schema / __type
	"graphql/schema/introspection/introspection.go", "graphql/schema/introspection/marshal_value.go",
	"graphql/transport/graphqlws/connection.go", "graphql/transport/graphqltransportws/connection.go",
}

func inventory(repo string) ([]site, error) {
	var out []site
	fset := token.NewFileSet()
	// the anchored and entry-point files, plus every other non-test file of the packages a request passes through
	// (so that a site in a new or so far unlisted file is an undischarged row too)
	files := append([]string{}, anchoredFiles...)
	seen := map[string]bool{}
	for _, f := range files {
		seen[f] = true
	}
	for _, dir := range []string{".", "graphql", "graphql/ast", "graphql/executor", "graphql/executor/internal/future", "graphql/parser", "graphql/scanner",
		"graphql/schema", "graphql/schema/introspection", "graphql/token", "graphql/transport/graphqlws", "graphql/transport/graphqltransportws", "graphql/validator", "pagination"} {
		ents, err := os.ReadDir(filepath.Join(repo, dir))
		if err != nil {
			continue
		}
		for _, e := range ents {
			n := e.Name()
			rel := filepath.ToSlash(filepath.Join(dir, n))
			if e.IsDir() || !strings.HasSuffix(n, ".go") || strings.HasSuffix(n, "_test.go") || strings.HasPrefix(n, "verif_") || seen[rel] {
				continue
			}
			seen[rel] = true
			files = append(files, rel)
		}
	}
	for _, rel := range files {
		f, err := parser.ParseFile(fset, filepath.Join(repo, rel), nil, 0)
		if err != nil {
			return nil, err
		}
		text := func(n ast.Node) string {
			var b bytes.Buffer
			printer.Fprint(&b, fset, n)
			s := strings.Join(strings.Fields(b.String()), " ")
			if len(s) > 140 {
				s = s[:140]
			}
			return s
		}
		scan := func(name string, body ast.Node) {
			// comma-ok assertions and type switches are safe: collect them first
			safe := map[*ast.TypeAssertExpr]bool{}
			ast.Inspect(body, func(n ast.Node) bool {
				switch n := n.(type) {
				case *ast.AssignStmt:
					if len(n.Lhs) == 2 && len(n.Rhs) == 1 {
						if ta, ok := n.Rhs[0].(*ast.TypeAssertExpr); ok {
							safe[ta] = true
						}
					}
				case *ast.ValueSpec:
					if len(n.Names) == 2 && len(n.Values) == 1 {
						if ta, ok := n.Values[0].(*ast.TypeAssertExpr); ok {
							safe[ta] = true
						}
					}
				case *ast.TypeSwitchStmt:
					ast.Inspect(n.Assign, func(m ast.Node) bool {
						if ta, ok := m.(*ast.TypeAssertExpr); ok && ta.Type == nil {
							safe[ta] = true
						}
						return true
					})
				}
				return true
			})
			ast.Inspect(body, func(n ast.Node) bool {
				switch n := n.(type) {
				case *ast.CallExpr:
					if id, ok := n.Fun.(*ast.Ident); ok && id.Name == "panic" {
						out = append(out, site{File: rel, Func: name, Kind: "panic", Text: text(n)})
					}
					if sel, ok := n.Fun.(*ast.SelectorExpr); ok && (sel.Sel.Name == "IsNil" || sel.Sel.Name == "Elem") && len(n.Args) == 0 {
						out = append(out, site{File: rel, Func: name, Kind: "reflect", Text: text(n)})
					}
				case *ast.TypeAssertExpr:
					if !safe[n] && n.Type != nil {
						out = append(out, site{File: rel, Func: name, Kind: "assert", Text: text(n)})
					}
				}
				return true
			})
		}
		for _, d := range f.Decls {
			switch d := d.(type) {
			case *ast.FuncDecl:
				if d.Body == nil {
					continue
				}
				name := d.Name.Name
				if d.Recv != nil && len(d.Recv.List) > 0 {
					name = text(d.Recv.List[0].Type) + "." + name
				}
				scan(name, d.Body)
			case *ast.GenDecl:
				for _, sp := range d.Specs {
					if vs, ok := sp.(*ast.ValueSpec); ok && len(vs.Names) > 0 {
						for _, v := range vs.Values {
							scan("var "+vs.Names[0].Name, v)
						}
					}
				}
			}
		}
	}
	sort.Slice(out, func(i, j int) bool { return out[i].key() < out[j].key() })
	return out, nil
}

// checkInventory compares the working tree's inventory with the committed table. It returns the
// number of rows, and descriptions of sites that have no discharged row.
func checkInventory(repo, tablePath string) (int, []string, error) {
	have, err := inventory(repo)
	if err != nil {
		return 0, nil, err
	}
	b, err := os.ReadFile(tablePath)
	if err != nil {
		return len(have), nil, err
	}
	var table []site
	if err := json.Unmarshal(b, &table); err != nil {
		return len(have), nil, err
	}
	budget := map[string]int{}
	for _, s := range table {
		if s.Why != "" {
			budget[s.key()]++
		}
	}
	var missing []string
	for _, s := range have {
		if budget[s.key()] > 0 {
			budget[s.key()]--
			continue
		}
		missing = append(missing, fmt.Sprintf("%s %s: %s `%s`", s.File, s.Func, s.Kind, s.Text))
	}
	return len(have), missing, nil
}
