package main

// The schema.New stream: the model of schema.New (lean/ApiFu/C04/SchemaNew.lean) against the real
// schema.New on generated schema *definitions*, well-formed and ill-formed, and — when the
// definition is accepted — the description the Lean side derives from the definition (`describe`)
// against the description read back from the real schema object. This ties the premise of
// `schemaNew_establishes_hypotheses` (PropsSchemaNew.lean) to the code: the schema-side hypotheses
// of the verdict theorems hold for every definition the library accepts.
//
// A definition is a graph of Go objects; NDef names every named type object by a key (two
// objects may carry one name), references are keys. RequiredFeatures of types and fields are part
// of the definition; an accepted definition is described for the request without features and for
// the one with every feature the definition mentions.

import (
	"fmt"
	"sort"
	"strings"

	"github.com/ccbrown/api-fu/graphql/ast"
	"github.com/ccbrown/api-fu/graphql/schema"

	"verifharness/hx"
)

type NType struct {
	Key            string      `json:"key"`
	Name           string      `json:"name"`
	Kind           string      `json:"kind"`
	Fields         []FieldDesc `json:"fields,omitempty"` // types refer to keys
	Interfaces     []string    `json:"interfaces,omitempty"`
	Members        []string    `json:"members,omitempty"`
	Values         []string    `json:"values,omitempty"`
	InputFields    []InputDesc `json:"input_fields,omitempty"`
	Accepts        []string    `json:"accepts,omitempty"`
	Builtin        bool        `json:"builtin,omitempty"`
	IsTypeOf       bool        `json:"is_type_of,omitempty"`
	ResultCoercion bool        `json:"result_coercion,omitempty"`
	Detached       bool        `json:"detached,omitempty"` // not in AdditionalTypes: reached only through references
	Features       []string    `json:"features,omitempty"`
}

type NDef struct {
	Types        []NType         `json:"types"`
	Directives   []DirectiveDesc `json:"directives"`
	Query        string          `json:"query,omitempty"`
	Mutation     string          `json:"mutation,omitempty"`
	Subscription string          `json:"subscription,omitempty"`
	Mutation_    string          `json:"ill,omitempty"` // which ill-forming step was applied
}

func (d *NDef) typ(key string) *NType {
	for i := range d.Types {
		if d.Types[i].Key == key {
			return &d.Types[i]
		}
	}
	return nil
}

func cloneRef(t *TypeRef) *TypeRef {
	if t == nil {
		return nil
	}
	c := *t
	c.Of = cloneRef(t.Of)
	return &c
}

func cloneInputs(ins []InputDesc) []InputDesc {
	out := make([]InputDesc, len(ins))
	for i, in := range ins {
		out[i] = InputDesc{Name: in.Name, Type: cloneRef(in.Type), Default: in.Default}
	}
	return out
}

func cloneFields(fs []FieldDesc) []FieldDesc {
	out := make([]FieldDesc, len(fs))
	for i, f := range fs {
		out[i] = FieldDesc{Name: f.Name, Type: cloneRef(f.Type), Args: cloneInputs(f.Args), Features: append([]string{}, f.Features...)}
	}
	return out
}

func (d *NDef) clone() *NDef {
	c := &NDef{Query: d.Query, Mutation: d.Mutation, Subscription: d.Subscription, Mutation_: d.Mutation_}
	for _, t := range d.Types {
		n := t
		n.Fields = cloneFields(t.Fields)
		n.InputFields = cloneInputs(t.InputFields)
		n.Interfaces = append([]string{}, t.Interfaces...)
		n.Members = append([]string{}, t.Members...)
		n.Values = append([]string{}, t.Values...)
		n.Accepts = append([]string{}, t.Accepts...)
		n.Features = append([]string{}, t.Features...)
		c.Types = append(c.Types, n)
	}
	for _, dd := range d.Directives {
		c.Directives = append(c.Directives, DirectiveDesc{Name: dd.Name, Locations: append([]string{}, dd.Locations...), Args: cloneInputs(dd.Args)})
	}
	return c
}

// ndefOf: the generated schema description, key = name.
func ndefOf(sd *SchemaDesc) *NDef {
	d := &NDef{Query: sd.Query, Mutation: sd.Mutation, Subscription: sd.Subscription}
	for _, t := range sd.Types {
		d.Types = append(d.Types, NType{Key: t.Name, Name: t.Name, Kind: t.Kind, Fields: cloneFields(t.Fields), Interfaces: append([]string{}, t.Interfaces...),
			Members: append([]string{}, t.Members...), Values: append([]string{}, t.Values...), InputFields: cloneInputs(t.InputFields),
			Accepts: append([]string{}, t.Accepts...), IsTypeOf: t.Kind == "object", ResultCoercion: t.Kind == "input", Features: append([]string{}, t.Features...)})
	}
	for _, n := range []string{"Boolean", "Float", "ID", "Int", "String"} {
		d.Types = append(d.Types, NType{Key: n, Name: n, Kind: "scalar", Builtin: true, Detached: true})
	}
	for _, dd := range sd.Directives {
		d.Directives = append(d.Directives, DirectiveDesc{Name: dd.Name, Locations: append([]string{}, dd.Locations...), Args: cloneInputs(dd.Args)})
	}
	return d
}

// reachable lists the keys of the named type objects schema.Inspect reaches from the definition
// (the harness's own traversal of the description).
func (d *NDef) reachable() []string {
	seen := map[string]bool{}
	var order []string
	var visit func(key string)
	ref := func(t *TypeRef) { visit(t.Base()) }
	visit = func(key string) {
		if key == "" || seen[key] {
			return
		}
		t := d.typ(key)
		if t == nil {
			return
		}
		seen[key] = true
		order = append(order, key)
		for _, f := range t.Fields {
			ref(f.Type)
			for _, a := range f.Args {
				ref(a.Type)
			}
		}
		for _, i := range t.Interfaces {
			visit(i)
		}
		for _, m := range t.Members {
			visit(m)
		}
		for _, f := range t.InputFields {
			ref(f.Type)
		}
	}
	for _, dd := range d.Directives {
		for _, a := range dd.Args {
			ref(a.Type)
		}
	}
	visit(d.Query)
	visit(d.Mutation)
	visit(d.Subscription)
	for _, t := range d.Types {
		if !t.Detached {
			visit(t.Key)
		}
	}
	return order
}

// buildN constructs the real definition.
func (d *NDef) buildN() (*schema.SchemaDefinition, map[string][]string, error) {
	objs := map[string]schema.NamedType{}
	accepts := map[string][]string{}
	for _, t := range d.Types {
		switch t.Kind {
		case "scalar":
			if t.Builtin {
				objs[t.Key] = builtinScalars[t.Name]
				continue
			}
			acc := map[string]bool{}
			for _, k := range t.Accepts {
				acc[k] = true
			}
			accepts[t.Name] = append([]string{}, t.Accepts...)
			objs[t.Key] = &schema.ScalarType{Name: t.Name, RequiredFeatures: featureSet(t.Features),
				LiteralCoercion: func(v ast.Value) interface{} {
					if acc[literalKind(v)] {
						return "ok"
					}
					return nil
				},
				VariableValueCoercion: func(v interface{}) interface{} { return v },
				ResultCoercion:        func(v interface{}) interface{} { return v }}
		case "object":
			o := &schema.ObjectType{Name: t.Name, RequiredFeatures: featureSet(t.Features)}
			if t.IsTypeOf {
				o.IsTypeOf = func(interface{}) bool { return false }
			}
			objs[t.Key] = o
		case "interface":
			objs[t.Key] = &schema.InterfaceType{Name: t.Name, RequiredFeatures: featureSet(t.Features)}
		case "union":
			objs[t.Key] = &schema.UnionType{Name: t.Name, RequiredFeatures: featureSet(t.Features)}
		case "enum":
			vals := map[string]*schema.EnumValueDefinition{}
			for _, v := range t.Values {
				vals[v] = &schema.EnumValueDefinition{Value: v}
			}
			objs[t.Key] = &schema.EnumType{Name: t.Name, Values: vals, RequiredFeatures: featureSet(t.Features)}
		case "input":
			o := &schema.InputObjectType{Name: t.Name, RequiredFeatures: featureSet(t.Features)}
			if t.ResultCoercion {
				o.ResultCoercion = func(v interface{}) (map[string]interface{}, error) { return map[string]interface{}{}, nil }
			}
			objs[t.Key] = o
		default:
			return nil, nil, fmt.Errorf("unknown kind %q", t.Kind)
		}
	}
	var mk func(t *TypeRef) (schema.Type, error)
	mk = func(t *TypeRef) (schema.Type, error) {
		switch t.Kind {
		case "named":
			if nt, ok := objs[t.Name]; ok {
				return nt, nil
			}
			return nil, fmt.Errorf("dangling key %q", t.Name)
		case "list":
			in, err := mk(t.Of)
			if err != nil {
				return nil, err
			}
			return schema.NewListType(in), nil
		default:
			in, err := mk(t.Of)
			if err != nil {
				return nil, err
			}
			return schema.NewNonNullType(in), nil
		}
	}
	inputs := func(ins []InputDesc) (map[string]*schema.InputValueDefinition, error) {
		if len(ins) == 0 {
			return nil, nil
		}
		out := map[string]*schema.InputValueDefinition{}
		for _, in := range ins {
			t, err := mk(in.Type)
			if err != nil {
				return nil, err
			}
			var dv interface{}
			switch in.Default {
			case "null":
				dv = schema.Null
			case "value":
				dv = "d"
			}
			out[in.Name] = &schema.InputValueDefinition{Type: t, DefaultValue: dv}
		}
		return out, nil
	}
	fields := func(fs []FieldDesc) (map[string]*schema.FieldDefinition, error) {
		out := map[string]*schema.FieldDefinition{}
		for _, f := range fs {
			t, err := mk(f.Type)
			if err != nil {
				return nil, err
			}
			args, err := inputs(f.Args)
			if err != nil {
				return nil, err
			}
			out[f.Name] = &schema.FieldDefinition{Type: t, Arguments: args, RequiredFeatures: featureSet(f.Features), Resolve: func(schema.FieldContext) (interface{}, error) { return nil, nil }}
		}
		return out, nil
	}
	for _, t := range d.Types {
		var err error
		switch t.Kind {
		case "object":
			o := objs[t.Key].(*schema.ObjectType)
			if o.Fields, err = fields(t.Fields); err != nil {
				return nil, nil, err
			}
			for _, i := range t.Interfaces {
				it, ok := objs[i].(*schema.InterfaceType)
				if !ok {
					return nil, nil, fmt.Errorf("%s is not an interface", i)
				}
				o.ImplementedInterfaces = append(o.ImplementedInterfaces, it)
			}
		case "interface":
			if objs[t.Key].(*schema.InterfaceType).Fields, err = fields(t.Fields); err != nil {
				return nil, nil, err
			}
		case "union":
			u := objs[t.Key].(*schema.UnionType)
			for _, m := range t.Members {
				ot, ok := objs[m].(*schema.ObjectType)
				if !ok {
					return nil, nil, fmt.Errorf("%s is not an object", m)
				}
				u.MemberTypes = append(u.MemberTypes, ot)
			}
		case "input":
			if objs[t.Key].(*schema.InputObjectType).Fields, err = inputs(t.InputFields); err != nil {
				return nil, nil, err
			}
		}
	}
	def := &schema.SchemaDefinition{Directives: map[string]*schema.DirectiveDefinition{}}
	root := func(k string) (*schema.ObjectType, error) {
		if k == "" {
			return nil, nil
		}
		o, ok := objs[k].(*schema.ObjectType)
		if !ok {
			return nil, fmt.Errorf("root %s is not an object", k)
		}
		return o, nil
	}
	var err error
	if def.Query, err = root(d.Query); err != nil {
		return nil, nil, err
	}
	if def.Mutation, err = root(d.Mutation); err != nil {
		return nil, nil, err
	}
	if def.Subscription, err = root(d.Subscription); err != nil {
		return nil, nil, err
	}
	for _, dd := range d.Directives {
		args, err := inputs(dd.Args)
		if err != nil {
			return nil, nil, err
		}
		locs := []schema.DirectiveLocation{}
		for _, l := range dd.Locations {
			locs = append(locs, schema.DirectiveLocation(l))
		}
		def.Directives[dd.Name] = &schema.DirectiveDefinition{Arguments: args, Locations: locs}
	}
	for _, t := range d.Types {
		if !t.Detached {
			def.AdditionalTypes = append(def.AdditionalTypes, objs[t.Key])
		}
	}
	return def, accepts, nil
}

// sexp: `(sdef q m s (type…) (directive…))` with the reachable type objects only.
func (d *NDef) sexp() hx.Sexp {
	flag := func(b bool) hx.Sexp {
		if b {
			return hx.A("1")
		}
		return hx.A("0")
	}
	opt := func(s string) hx.Sexp {
		if s == "" {
			return hx.A("-")
		}
		return hx.A(s)
	}
	sfields := func(fs []FieldDesc) hx.Sexp {
		out := []hx.Sexp{}
		for _, f := range fs {
			out = append(out, hx.L(hx.A(f.Name), f.Type.sexp(), inputsSexp(f.Args), atoms(f.Features)))
		}
		return hx.L(out...)
	}
	types := []hx.Sexp{}
	for _, k := range d.reachable() {
		t := d.typ(k)
		var kd hx.Sexp
		switch t.Kind {
		case "scalar":
			var spec hx.Sexp
			if t.Builtin {
				spec = hx.A(t.Name)
			} else {
				acc := append([]string{}, t.Accepts...)
				sort.Strings(acc)
				spec = atoms(append([]string{"custom"}, acc...))
			}
			kd = hx.N("scalar", flag(t.Builtin), spec)
		case "object":
			kd = hx.N("object", sfields(t.Fields), atoms(t.Interfaces), flag(t.IsTypeOf))
		case "interface":
			kd = hx.N("interface", sfields(t.Fields))
		case "union":
			kd = hx.N("union", atoms(t.Members))
		case "enum":
			kd = hx.N("enum", atoms(t.Values))
		case "input":
			kd = hx.N("input", inputsSexp(t.InputFields), flag(t.ResultCoercion))
		}
		types = append(types, hx.N("type", hx.A(t.Key), hx.A(t.Name), atoms(t.Features), kd))
	}
	dirs := []hx.Sexp{}
	for _, dd := range d.Directives {
		dirs = append(dirs, hx.L(hx.A(dd.Name), atoms(dd.Locations), inputsSexp(dd.Args)))
	}
	return hx.N("sdef", opt(d.Query), opt(d.Mutation), opt(d.Subscription), hx.L(types...), hx.L(dirs...))
}

// ---- ill-forming steps -------------------------------------------------------------------------

var badNames = []string{"__x", "__typename", "__", "1a", "", "a-b", "é", "a b", "_ok", "_", "__Type"}

type fieldSite struct {
	t *NType
	i int
}

func (d *NDef) fieldSites(kinds ...string) []fieldSite {
	var out []fieldSite
	for ti := range d.Types {
		t := &d.Types[ti]
		for _, k := range kinds {
			if t.Kind == k {
				for i := range t.Fields {
					out = append(out, fieldSite{t, i})
				}
			}
		}
	}
	return out
}

func (d *NDef) typesOfKind(kinds ...string) []*NType {
	var out []*NType
	for ti := range d.Types {
		for _, k := range kinds {
			if d.Types[ti].Kind == k && !d.Types[ti].Builtin {
				out = append(out, &d.Types[ti])
			}
		}
	}
	return out
}

type illStep struct {
	name string
	f    func(r *hx.Rand, d *NDef) bool
}

func illSteps() []illStep {
	anyInputSlot := func(r *hx.Rand, d *NDef) *InputDesc {
		var slots []*InputDesc
		for ti := range d.Types {
			t := &d.Types[ti]
			for fi := range t.Fields {
				for ai := range t.Fields[fi].Args {
					slots = append(slots, &t.Fields[fi].Args[ai])
				}
			}
			for fi := range t.InputFields {
				slots = append(slots, &t.InputFields[fi])
			}
		}
		for di := range d.Directives {
			for ai := range d.Directives[di].Args {
				slots = append(slots, &d.Directives[di].Args[ai])
			}
		}
		if len(slots) == 0 {
			return nil
		}
		return hx.Pick(r, slots)
	}
	return []illStep{
		{"none", func(r *hx.Rand, d *NDef) bool { return true }},
		{"field-name", func(r *hx.Rand, d *NDef) bool {
			s := d.fieldSites("object", "interface")
			if len(s) == 0 {
				return false
			}
			x := hx.Pick(r, s)
			x.t.Fields[x.i].Name = hx.Pick(r, badNames)
			return true
		}},
		{"argument-name", func(r *hx.Rand, d *NDef) bool {
			if a := anyInputSlot(r, d); a != nil {
				a.Name = hx.Pick(r, badNames)
				return true
			}
			return false
		}},
		{"type-name", func(r *hx.Rand, d *NDef) bool {
			ts := d.typesOfKind("scalar", "object", "interface", "union", "enum", "input")
			if len(ts) == 0 {
				return false
			}
			hx.Pick(r, ts).Name = hx.Pick(r, append([]string{"String", "Int", "ID", "Boolean", "Float", "Zed"}, badNames...))
			return true
		}},
		{"same-name-twice", func(r *hx.Rand, d *NDef) bool {
			ts := d.typesOfKind("scalar", "object", "interface", "union", "enum", "input")
			if len(ts) < 2 {
				return false
			}
			a, b := hx.Pick(r, ts), hx.Pick(r, ts)
			if a == b {
				return false
			}
			a.Name = b.Name
			return true
		}},
		{"enum-value", func(r *hx.Rand, d *NDef) bool {
			ts := d.typesOfKind("enum")
			if len(ts) == 0 {
				return false
			}
			t := hx.Pick(r, ts)
			if len(t.Values) == 0 {
				return false
			}
			t.Values[r.Intn(len(t.Values))] = hx.Pick(r, append([]string{"true", "false", "null", "TRUE", "Null"}, badNames...))
			return true
		}},
		{"empty-type", func(r *hx.Rand, d *NDef) bool {
			ts := d.typesOfKind("object", "interface", "union", "enum", "input")
			if len(ts) == 0 {
				return false
			}
			t := hx.Pick(r, ts)
			t.Fields, t.Members, t.Values, t.InputFields = nil, nil, nil, nil
			return true
		}},
		{"non-null-of-non-null", func(r *hx.Rand, d *NDef) bool {
			if r.Bool() {
				if s := d.fieldSites("object", "interface"); len(s) > 0 {
					x := hx.Pick(r, s)
					x.t.Fields[x.i].Type = NonNull(NonNull(x.t.Fields[x.i].Type.Nullable()))
					if r.Bool() {
						x.t.Fields[x.i].Type = ListOf(x.t.Fields[x.i].Type)
					}
					return true
				}
			}
			if a := anyInputSlot(r, d); a != nil {
				a.Type = NonNull(NonNull(a.Type.Nullable()))
				if r.Bool() {
					a.Type = NonNull(ListOf(a.Type))
				}
				return true
			}
			return false
		}},
		{"wrong-side-type", func(r *hx.Rand, d *NDef) bool {
			// an output-only type in an input position, or an input object as a field type
			if r.Bool() {
				outs := d.typesOfKind("object", "interface", "union")
				a := anyInputSlot(r, d)
				if a == nil || len(outs) == 0 {
					return false
				}
				a.Type = Named(hx.Pick(r, outs).Key)
				return true
			}
			ins := d.typesOfKind("input")
			s := d.fieldSites("object", "interface")
			if len(ins) == 0 || len(s) == 0 {
				return false
			}
			x := hx.Pick(r, s)
			x.t.Fields[x.i].Type = ListOf(Named(hx.Pick(r, ins).Key))
			return true
		}},
		{"interface-not-satisfied", func(r *hx.Rand, d *NDef) bool {
			var impl []*NType
			for _, t := range d.typesOfKind("object") {
				if len(t.Interfaces) > 0 {
					impl = append(impl, t)
				}
			}
			if len(impl) == 0 {
				return false
			}
			o := hx.Pick(r, impl)
			it := d.typ(hx.Pick(r, o.Interfaces))
			if it == nil || len(it.Fields) == 0 {
				return false
			}
			f := it.Fields[r.Intn(len(it.Fields))]
			oi := -1
			for i := range o.Fields {
				if o.Fields[i].Name == f.Name {
					oi = i
				}
			}
			if oi < 0 {
				return false
			}
			switch r.Intn(8) {
			case 0: // the field is missing
				o.Fields = append(o.Fields[:oi], o.Fields[oi+1:]...)
			case 1: // another type
				o.Fields[oi].Type = Named("Boolean")
				if f.Type.Base() == "Boolean" {
					o.Fields[oi].Type = Named("Int")
				}
			case 2: // nullable where the interface says non-null, or a covariant non-null (legal)
				if f.Type.IsNonNull() {
					o.Fields[oi].Type = cloneRef(f.Type.Nullable())
				} else {
					o.Fields[oi].Type = NonNull(cloneRef(f.Type))
				}
			case 3: // an additional argument, required (illegal) or optional (legal)
				t := Named("Int")
				if r.Bool() {
					t = NonNull(t)
				}
				o.Fields[oi].Args = append(o.Fields[oi].Args, InputDesc{Name: "extra", Type: t})
			case 4: // an argument is missing / has another type
				if len(o.Fields[oi].Args) == 0 {
					return false
				}
				ai := r.Intn(len(o.Fields[oi].Args))
				if r.Bool() {
					o.Fields[oi].Args = append(o.Fields[oi].Args[:ai], o.Fields[oi].Args[ai+1:]...)
				} else if o.Fields[oi].Args[ai].Type.IsNonNull() {
					o.Fields[oi].Args[ai].Type = o.Fields[oi].Args[ai].Type.Nullable()
				} else {
					o.Fields[oi].Args[ai].Type = NonNull(o.Fields[oi].Args[ai].Type)
				}
			case 5: // list wrappers (IsSubTypeOf as written: [T] is a subtype of [[T]])
				for i := range it.Fields {
					if it.Fields[i].Name == f.Name {
						it.Fields[i].Type = ListOf(cloneRef(o.Fields[oi].Type))
						if r.Bool() {
							o.Fields[oi].Type = ListOf(o.Fields[oi].Type)
						}
					}
				}
			case 6: // the implementing object does not define IsTypeOf
				o.IsTypeOf = false
			default: // interface field of interface type, object field of the implementing object type (legal)
				for i := range it.Fields {
					if it.Fields[i].Name == f.Name {
						it.Fields[i].Type = Named(it.Key)
						o.Fields[oi].Type = Named(o.Key)
						if r.Bool() {
							o.Fields[oi].Type = NonNull(o.Fields[oi].Type)
						}
					}
				}
			}
			return true
		}},
		{"union-members", func(r *hx.Rand, d *NDef) bool {
			us := d.typesOfKind("union")
			if len(us) == 0 {
				return false
			}
			u := hx.Pick(r, us)
			if len(u.Members) == 0 {
				return false
			}
			m := hx.Pick(r, u.Members)
			switch r.Intn(3) {
			case 0:
				u.Members = append(u.Members, m)
			case 1:
				if o := d.typ(m); o != nil {
					o.IsTypeOf = false
				}
			default:
				// a second object with the member's name
				if o := d.typ(m); o != nil {
					n := *o
					n.Key = o.Key + "#2"
					n.Fields = cloneFields(o.Fields)
					n.Detached = true
					d.Types = append(d.Types, n)
					u.Members = append(u.Members, n.Key)
				}
			}
			return true
		}},
		{"default-needs-result-coercion", func(r *hx.Rand, d *NDef) bool {
			ins := d.typesOfKind("input")
			a := anyInputSlot(r, d)
			if a == nil || len(ins) == 0 {
				return false
			}
			in := hx.Pick(r, ins)
			a.Type = Named(in.Key)
			switch r.Intn(4) {
			case 0:
				a.Type = ListOf(a.Type)
			case 1:
				a.Type = NonNull(a.Type) // only the unwrapped type counts (input_value_definition.go:28)
			}
			a.Default = hx.Pick(r, []string{"value", "value", "null", ""})
			in.ResultCoercion = r.Chance(1, 3)
			return true
		}},
		{"null-default-on-non-null", func(r *hx.Rand, d *NDef) bool {
			// accepted by schema.New as it is (the model says so too); `nulldefaults bad`
			a := anyInputSlot(r, d)
			if a == nil {
				return false
			}
			if !a.Type.IsNonNull() {
				a.Type = NonNull(a.Type)
			}
			a.Default = "null"
			return true
		}},
		{"roots", func(r *hx.Rand, d *NDef) bool {
			switch r.Intn(3) {
			case 0:
				d.Query = ""
			case 1:
				d.Mutation = d.Query
			default:
				d.Subscription, d.Mutation = d.Mutation, d.Subscription
			}
			return true
		}},
		{"directive", func(r *hx.Rand, d *NDef) bool {
			if len(d.Directives) == 0 {
				d.Directives = append(d.Directives, DirectiveDesc{Name: "d0", Locations: []string{"FIELD"}})
			}
			dd := &d.Directives[r.Intn(len(d.Directives))]
			switch r.Intn(3) {
			case 0:
				dd.Name = hx.Pick(r, badNames)
			case 1:
				dd.Locations = nil
			default:
				dd.Args = append(dd.Args, InputDesc{Name: hx.Pick(r, badNames), Type: Named("Int")})
			}
			return true
		}},
		{"second-object-same-name", func(r *hx.Rand, d *NDef) bool {
			ts := d.typesOfKind("scalar", "object", "interface", "enum", "input")
			s := d.fieldSites("object")
			if len(ts) == 0 || len(s) == 0 {
				return false
			}
			o := hx.Pick(r, ts)
			n := *o
			n.Key = o.Key + "#2"
			n.Fields = cloneFields(o.Fields)
			n.InputFields = cloneInputs(o.InputFields)
			n.Interfaces = nil
			// reachable (through a field type / AdditionalTypes) or not at all
			switch r.Intn(3) {
			case 0:
				n.Detached = true // unreachable: the definition stays legal
			case 1:
				n.Detached = false
			default:
				n.Detached = true
				if o.Kind != "input" {
					x := hx.Pick(r, s)
					x.t.Fields[x.i].Type = Named(n.Key)
				}
			}
			d.Types = append(d.Types, n)
			return true
		}},
		{"minimal-definition", func(r *hx.Rand, d *NDef) bool {
			// a definition that mentions almost nothing: one root with one field whose type is a
			// built-in, or a user type named like a built-in while the built-in itself is absent
			name := hx.Pick(r, []string{"String", "Int", "Boolean", "Float", "ID", "Thing"})
			kind := hx.Pick(r, []string{"scalar", "object", "enum", "builtin"})
			var keep []NType
			for _, t := range d.Types {
				if t.Builtin {
					keep = append(keep, t)
				}
			}
			d.Types = keep
			d.Directives, d.Mutation, d.Subscription = nil, "", ""
			ft := Named(name)
			switch kind {
			case "builtin":
				if name == "Thing" {
					ft = Named("Int")
				}
			case "scalar":
				d.Types = append(d.Types, NType{Key: "u", Name: name, Kind: "scalar", Accepts: []string{"int"}, Detached: true})
				ft = Named("u")
			case "object":
				d.Types = append(d.Types, NType{Key: "u", Name: name, Kind: "object", Fields: []FieldDesc{{Name: "x", Type: Named("u")}}, IsTypeOf: true, Detached: true})
				ft = Named("u")
			case "enum":
				d.Types = append(d.Types, NType{Key: "u", Name: name, Kind: "enum", Values: []string{"A"}, Detached: true})
				ft = Named("u")
			}
			d.Types = append(d.Types, NType{Key: "Query", Name: "Query", Kind: "object", Fields: []FieldDesc{{Name: "f", Type: ft}}, IsTypeOf: true, Detached: true})
			d.Query = "Query"
			return true
		}},
		{"feature-gates", func(r *hx.Rand, d *NDef) bool {
			// RequiredFeatures added somewhere: on a type (its users must then require them too), on a
			// field (an object needs one unconditional field; an implementing field may not require
			// more than the interface's), on a union member, on a root type (accepted)
			ft := hx.Pick(r, [][]string{{"fx"}, {"fx"}, {"fy"}, {"fx", "fy"}})
			ts := d.typesOfKind("scalar", "object", "interface", "union", "enum", "input")
			if len(ts) == 0 {
				return false
			}
			t := hx.Pick(r, ts)
			switch r.Intn(6) {
			case 0:
				t.Features = ft
			case 1: // a type and everything that mentions it
				t.Features = ft
				for ti := range d.Types {
					u := &d.Types[ti]
					for fi := range u.Fields {
						uses := u.Fields[fi].Type.Base() == t.Key
						for _, a := range u.Fields[fi].Args {
							uses = uses || a.Type.Base() == t.Key
						}
						if uses {
							u.Fields[fi].Features = ft
						}
					}
					for _, f := range u.InputFields {
						if f.Type.Base() == t.Key && !u.Builtin {
							u.Features = ft
						}
					}
					for _, m := range u.Members {
						if m == t.Key {
							u.Features = ft
						}
					}
				}
			case 2: // one field
				if s := d.fieldSites("object", "interface"); len(s) > 0 {
					x := hx.Pick(r, s)
					x.t.Fields[x.i].Features = ft
				} else {
					return false
				}
			case 3: // every field of a type, the type itself too half of the time
				os := d.typesOfKind("object", "interface")
				if len(os) == 0 {
					return false
				}
				o := hx.Pick(r, os)
				for fi := range o.Fields {
					o.Fields[fi].Features = ft
				}
				if r.Bool() {
					o.Features = ft
				}
			case 4: // a root type
				if k := hx.Pick(r, []string{d.Query, d.Mutation, d.Subscription}); k != "" {
					if o := d.typ(k); o != nil {
						o.Features = ft
					}
				}
			default: // the same field of an interface and of its implementers
				for _, it := range d.typesOfKind("interface") {
					if len(it.Fields) == 0 {
						continue
					}
					name := it.Fields[r.Intn(len(it.Fields))].Name
					for ti := range d.Types {
						u := &d.Types[ti]
						if u.Kind == "interface" && u.Key != it.Key {
							continue
						}
						for fi := range u.Fields {
							if u.Fields[fi].Name == name && r.Chance(3, 4) {
								u.Fields[fi].Features = ft
							}
						}
					}
				}
			}
			return true
		}},
		{"gated-type-single-use", func(r *hx.Rand, d *NDef) bool {
			// a new type that requires a feature, used in exactly one position (under random
			// wrappers) whose carrier requires the feature too, or not (illegal)
			ft := hx.Pick(r, [][]string{{"fx"}, {"fy"}})
			kind := hx.Pick(r, []string{"enum", "scalar", "input", "object"})
			g := NType{Key: "Gated", Name: "Gated", Kind: kind, Features: ft, Detached: true, IsTypeOf: true, ResultCoercion: true}
			switch kind {
			case "enum":
				g.Values = []string{"A"}
			case "scalar":
				g.Accepts = []string{"int"}
			case "input":
				g.InputFields = []InputDesc{{Name: "a", Type: Named("Int")}}
			default:
				g.Fields = []FieldDesc{{Name: "a", Type: Named("Int")}}
			}
			wrap := func(t *TypeRef) *TypeRef {
				switch r.Intn(5) {
				case 0:
					return ListOf(t)
				case 1:
					return NonNull(t)
				case 2:
					return NonNull(ListOf(NonNull(t)))
				case 3:
					return ListOf(ListOf(t))
				}
				return t
			}
			var carrier []string
			if r.Bool() {
				carrier = ft
			}
			sites := d.fieldSites("object", "interface")
			if len(sites) == 0 {
				return false
			}
			x := hx.Pick(r, sites)
			if len(x.t.Interfaces) > 0 || x.t.Kind == "interface" {
				// keep interface satisfaction out of it: a fresh field instead
				x.t.Fields = append(x.t.Fields, FieldDesc{Name: "gatedCarrier", Type: Named("Int")})
				x.i = len(x.t.Fields) - 1
				if x.t.Kind == "interface" {
					for ti := range d.Types {
						u := &d.Types[ti]
						for _, i := range u.Interfaces {
							if i == x.t.Key {
								u.Fields = append(u.Fields, FieldDesc{Name: "gatedCarrier", Type: Named("Int")})
							}
						}
					}
				}
			}
			switch {
			case kind == "object" || r.Intn(3) == 0 && kind != "input":
				// as a field type
				if x.t.Kind == "interface" {
					return false
				}
				x.t.Fields[x.i].Type = wrap(Named(g.Key))
				x.t.Fields[x.i].Features = carrier
			case r.Bool():
				// as an argument type
				x.t.Fields[x.i].Args = append(x.t.Fields[x.i].Args, InputDesc{Name: "gatedArg", Type: wrap(Named(g.Key))})
				x.t.Fields[x.i].Features = carrier
				if x.t.Kind == "interface" {
					return false
				}
			default:
				// as an input field type of a new input object used nowhere else
				in := NType{Key: "GatedIn", Name: "GatedIn", Kind: "input", Features: carrier, Detached: false, ResultCoercion: true,
					InputFields: []InputDesc{{Name: "g", Type: wrap(Named(g.Key))}}}
				d.Types = append(d.Types, in)
			}
			d.Types = append(d.Types, g)
			return true
		}},
		{"unreachable-ill-formed-type", func(r *hx.Rand, d *NDef) bool {
			d.Types = append(d.Types, NType{Key: "Lost", Name: hx.Pick(r, badNames), Kind: "object", Detached: true, IsTypeOf: true})
			return true
		}},
	}
}

// ---- evaluation --------------------------------------------------------------------------------

type snAnswer struct {
	accept                     bool
	typed, nullDefaults        string
	intro, desc, roots         string
	raw                        string
}

func parseSN(line string) (*snAnswer, error) {
	x, err := hx.ParseSexp(line)
	if err != nil || !x.IsList || len(x.List) != 7 || x.List[0].Atom != "sn" {
		return nil, fmt.Errorf("unexpected answer %q", line)
	}
	get := func(i int) string {
		if x.List[i].IsList && len(x.List[i].List) == 2 {
			return x.List[i].List[1].Atom
		}
		return "?"
	}
	return &snAnswer{accept: x.List[1].Atom == "accept", typed: get(2), nullDefaults: get(3), intro: get(4), desc: get(5), roots: get(6), raw: line}, nil
}

type snStats struct {
	cases, accepted, rejected, described, hyps int
	failVerdict, failTyped, failIntro, failDesc, failHyp string
}

// runSchemaNew evaluates one definition: real schema.New vs the model; for an accepted definition
// also describe vs the exported description and, through a (check …) of a trivial document on that
// description, the hypotheses of the verdict theorems.
func (h *harness) runSchemaNew(d *NDef, st *snStats) {
	run := h.run
	d.normalize()
	def, accepts, err := d.buildN()
	if err != nil {
		run.Count("schemanew:not-buildable")
		return
	}
	st.cases++
	step := strings.SplitN(d.Mutation_, "+", 2)[0]
	run.Count("schemanew:step:" + step)
	var s *schema.Schema
	var newErr error
	panicked := ""
	func() {
		defer func() {
			if p := recover(); p != nil {
				panicked = fmt.Sprint(p)
			}
		}()
		s, newErr = schema.New(def)
	}()
	realAccept := panicked == "" && newErr == nil
	if realAccept {
		st.accepted++
		run.Count("schemanew:real-accepts:" + step)
	} else {
		st.rejected++
		run.Count("schemanew:real-rejects:" + step)
		if newErr != nil {
			msg := newErr.Error()
			cls := ""
			for _, k := range []string{"must have at least one", "builtin may not be overridden", "does not satisfy", "cannot be used as an input value type",
				"cannot be used as a field type", "but does not define IsTypeOf", "field must be an input type", "field must be an output type",
				"assigning a default value", "illegal", "multiple definitions", "non-null types cannot wrap", "must define the query", "union member types",
				"one or more locations", "requires features", "additional required features"} {
				if strings.Contains(msg, k) {
					cls = k
					break
				}
			}
			if cls == "" {
				cls = "other"
			}
			msg = cls
			run.Count("schemanew:error:" + msg)
		}
	}
	if h.model == nil {
		return
	}
	// the feature sets of the requests the description is compared for
	featSets := [][]string{{}}
	if fs := d.mentionedFeatures(); len(fs) > 0 {
		featSets = append(featSets, fs)
		if len(fs) > 1 {
			featSets = append(featSets, fs[:1])
		}
	}
	b := &built{s: s, accepts: accepts}
	dsx := d.sexp()
	for fi, feats := range featSets {
		req := hx.L(hx.A("schemanew"), dsx)
		var view *View
		if realAccept {
			view = b.view(schema.NewFeatureSet(feats...))
			req = hx.L(hx.A("schemanew"), dsx, atoms(feats), view.sexp())
		}
		line, err := h.model.Ask(req.String())
		if err != nil {
			run.Violate("harness", fmt.Sprintf("schemanew: driver: %v", err), "", true, d)
			return
		}
		ans, err := parseSN(line)
		if err != nil {
			run.Violate("harness", fmt.Sprintf("schemanew: %v", err), "", true, d)
			return
		}
		fail := func(slot *string, kind, what string) {
			if *slot == "" {
				*slot = what
				run.Violate(kind, what, "", true, map[string]any{"definition": d, "features": feats, "lean": ans.raw, "real_error": fmt.Sprint(newErr), "panic": panicked})
			}
		}
		if ans.typed != "ok" {
			fail(&st.failTyped, "harness", "schemanew: the exported definition is not well-typed (SDef.goTyped): "+ans.raw)
			return
		}
		if panicked != "" {
			fail(&st.failVerdict, "correspondence", "schema.New panicked on a definition without nil pointers: "+panicked)
			return
		}
		if ans.accept != realAccept {
			fail(&st.failVerdict, "correspondence", fmt.Sprintf("schema.New and its model disagree (step %s): real error %v, model %s", d.Mutation_, newErr, ans.raw))
			return
		}
		if !realAccept {
			return
		}
		st.described++
		if fi > 0 {
			run.Count("schemanew:described-with-features")
		}
		if ans.intro != "ok" {
			fail(&st.failIntro, "correspondence", "the introspection types of the real schema object do not satisfy Intro.ok: "+ans.raw)
		}
		if ans.desc != "same" {
			fail(&st.failDesc, "correspondence", fmt.Sprintf("describe(definition, features %v) differs from the description exported from the real schema object (step %s): %s", feats, d.Mutation_, ans.raw))
		}
		// the conclusion of schemaNew_establishes_hypotheses, evaluated: (hyp ok) for a trivial document
		switch {
		case ans.nullDefaults != "ok":
			run.Count("schemanew:accepted-with-null-default-on-non-null")
		case ans.roots != "ok":
			run.Count("schemanew:accepted-with-root-type-invisible-to-the-request")
		default:
			st.hyps++
			h.lastSchema = "" // the driver's current schema changes: the documents stream must send its own again
			if _, err := h.model.Ask(view.sexp().String()); err == nil {
				if r, err := h.model.Ask(`(check (doc))`); err == nil && !strings.Contains(r, "(hyp ok)") {
					fail(&st.failHyp, "correspondence", "an accepted definition whose description fails the schema-side hypotheses: "+r)
				}
			}
		}
	}
}

// mentionedFeatures lists the features the definition requires anywhere (sorted).
func (d *NDef) mentionedFeatures() []string {
	set := map[string]bool{}
	for _, t := range d.Types {
		for _, f := range t.Features {
			set[f] = true
		}
		for _, fd := range t.Fields {
			for _, f := range fd.Features {
				set[f] = true
			}
		}
	}
	out := []string{}
	for f := range set {
		out = append(out, f)
	}
	sort.Strings(out)
	return out
}

// schemaNewStream: the unchanged definition and n ill-formed variants of it.
func (h *harness) schemaNewStream(r *hx.Rand, sd *SchemaDesc, n int, st *snStats, steps []illStep) {
	base := ndefOf(sd)
	base.Mutation_ = "none"
	h.runSchemaNew(base, st)
	for i := 0; i < n; i++ {
		step := hx.Pick(r, steps[1:])
		d := base.clone()
		if !safeStep(step, r.Fork(), d) || !d.keysUnique() {
			h.run.Count("schemanew:step-not-applicable:" + step.name)
			continue
		}
		d.Mutation_ = step.name
		if r.Chance(1, 5) {
			// a second step on top (on a copy: a step that does not apply must leave nothing behind)
			s2 := hx.Pick(r, steps[1:])
			d2 := d.clone()
			if safeStep(s2, r.Fork(), d2) && d2.keysUnique() {
				d2.Mutation_ = d.Mutation_ + "+" + s2.name
				d = d2
			}
		}
		h.runSchemaNew(d, st)
	}
}

func (st *snStats) oblige(run *hx.Run) {
	run.Oblige("schema.New: the model's verdict (SchemaNew.schemaNew) = the real schema.New's on generated definitions, well-formed and ill-formed; exported definitions satisfy SDef.goTyped", "correspondence", st.cases, st.failVerdict == "" && st.failTyped == "", st.failVerdict+st.failTyped)
	run.Oblige("schema.New: for accepted definitions SchemaNew.describe (for the request without features and for requests with the features the definition mentions) = the description read back from the real schema object, and Intro.ok holds of its introspection types", "correspondence", st.described, st.failDesc == "" && st.failIntro == "", st.failDesc+st.failIntro)
	run.Oblige("schema.New: the description of an accepted definition (without null defaults on non-null positions, root types visible to the request) satisfies the schema-side hypotheses of the verdict theorems", "correspondence", st.hyps, st.failHyp == "", st.failHyp)
}

// safeStep applies an ill-forming step; a step that trips over what an earlier step left behind
// (an emptied type, say) counts as not applicable.
func safeStep(s illStep, r *hx.Rand, d *NDef) (ok bool) {
	defer func() {
		if recover() != nil {
			ok = false
		}
	}()
	return s.f(r, d)
}

// normalize makes the description a faithful picture of Go maps: of two entries with one key the
// later one stays (as with successive map assignments).
func (d *NDef) normalize() {
	ins := func(xs []InputDesc) []InputDesc {
		var out []InputDesc
		for i, x := range xs {
			dup := false
			for _, y := range xs[i+1:] {
				dup = dup || y.Name == x.Name
			}
			if !dup {
				out = append(out, x)
			}
		}
		return out
	}
	for ti := range d.Types {
		t := &d.Types[ti]
		var fs []FieldDesc
		for i, f := range t.Fields {
			dup := false
			for _, g := range t.Fields[i+1:] {
				dup = dup || g.Name == f.Name
			}
			if !dup {
				f.Args = ins(f.Args)
				fs = append(fs, f)
			}
		}
		t.Fields = fs
		t.InputFields = ins(t.InputFields)
		var vs []string
		for i, v := range t.Values {
			dup := false
			for _, w := range t.Values[i+1:] {
				dup = dup || w == v
			}
			if !dup {
				vs = append(vs, v)
			}
		}
		t.Values = vs
	}
	var ds []DirectiveDesc
	for i, x := range d.Directives {
		dup := false
		for _, y := range d.Directives[i+1:] {
			dup = dup || y.Name == x.Name
		}
		if !dup {
			x.Args = ins(x.Args)
			ds = append(ds, x)
		}
	}
	d.Directives = ds
}

// keysUnique: every type object of the description has its own key (a step applied twice must not
// create two objects under one key: the builder and the export would then disagree).
func (d *NDef) keysUnique() bool {
	seen := map[string]bool{}
	for _, t := range d.Types {
		if seen[t.Key] {
			return false
		}
		seen[t.Key] = true
	}
	return true
}
