package main

// Valid-by-construction documents, type-directed from a View of the real schema.
//
// Invariants the generator maintains (they make the document valid; whether it really is valid is
// decided by the Lean specification, never by this file):
//   - a response name denotes one (field name, argument text, return type) in the whole document,
//     otherwise the field is aliased: any two overlapping fields can merge;
//   - a fragment only spreads fragments created after it: no cycles; every fragment is created at a
//     spread: all are used; spreads only where the possible types intersect;
//   - required arguments / input fields are always supplied; directive names are distinct per node;
//   - variables live in one table per document (name -> type, default); each operation declares
//     exactly the variables used in its body and in the fragments it reaches;
//   - subscriptions select one response name.

import (
	"fmt"
	"sort"
	"strings"

	"verifharness/hx"
)

type GValue struct {
	Kind   string      `json:"k"` // var int float string bool null enum list object
	Text   string      `json:"t,omitempty"`
	Items  []*GValue   `json:"items,omitempty"`
	Fields []GObjField `json:"fields,omitempty"`
	Type   *TypeRef    `json:"type,omitempty"` // expected type at this position
	Const  bool        `json:"const,omitempty"`
	Free   bool        `json:"free,omitempty"` // nested inside a literal for a custom scalar: no expected type
}

type GObjField struct {
	Name  string  `json:"n"`
	Value *GValue `json:"v"`
}

type GArg struct {
	Name  string  `json:"n"`
	Value *GValue `json:"v"`
}

type GDir struct {
	Name string `json:"n"`
	Args []GArg `json:"args,omitempty"`
}

type GSel struct {
	Kind     string   `json:"k"` // field spread inline
	Alias    string   `json:"alias,omitempty"`
	Name     string   `json:"name,omitempty"` // field name / fragment name
	Args     []GArg   `json:"args,omitempty"`
	Dirs     []GDir   `json:"dirs,omitempty"`
	Sels     []*GSel  `json:"sels,omitempty"`
	TypeCond string   `json:"tc,omitempty"`
	Parent   string   `json:"parent,omitempty"` // type in scope where the selection is written
	Inner    string   `json:"inner,omitempty"`  // type in scope of Sels
	HasArgs  bool     `json:"has_args,omitempty"`
	FType    *TypeRef `json:"ftype,omitempty"`
}

type GVar struct {
	Name    string   `json:"name"`
	Type    *TypeRef `json:"type"`
	Default *GValue  `json:"default,omitempty"`
}

type GDef struct {
	IsFrag    bool    `json:"frag,omitempty"`
	Kind      string  `json:"kind,omitempty"` // query mutation subscription
	Shorthand bool    `json:"shorthand,omitempty"`
	Name      string  `json:"name,omitempty"`
	TypeCond  string  `json:"tc,omitempty"`
	Vars      []*GVar `json:"vars,omitempty"`
	Dirs      []GDir  `json:"dirs,omitempty"`
	Sels      []*GSel `json:"sels"`
}

type GDoc struct {
	Defs []*GDef `json:"defs"`
	// Respelled: string literals written in another spelling in the arguments of a field that
	// overlaps an identical one (must still merge; kinds.go)
	Respelled int `json:"respelled,omitempty"`
}

// ---- schema helpers over a View ---------------------------------------------------------------

func (v *View) isComposite(n string) bool {
	t := v.typ(n)
	return t != nil && (t.Kind == "object" || t.Kind == "interface" || t.Kind == "union")
}

func (v *View) possible(n string) []string {
	t := v.typ(n)
	if t == nil {
		return nil
	}
	switch t.Kind {
	case "object":
		return []string{n}
	case "union":
		return t.Members
	case "interface":
		out := []string{}
		for _, o := range v.Types {
			if o.Kind == "object" {
				for _, i := range o.Interfaces {
					if i == n {
						out = append(out, o.Name)
					}
				}
			}
		}
		return out
	}
	return nil
}

func intersects(a, b []string) bool {
	for _, x := range a {
		for _, y := range b {
			if x == y {
				return true
			}
		}
	}
	return false
}

// compatibleTypes lists the composite types a fragment spread inside `parent` may be conditioned on.
func (v *View) compatibleTypes(parent string) []string {
	out := []string{}
	pp := v.possible(parent)
	for _, t := range v.Types {
		if v.isComposite(t.Name) && intersects(v.possible(t.Name), pp) {
			out = append(out, t.Name)
		}
	}
	return out
}

func (v *View) fieldsOn(parent string) []FieldDesc {
	t := v.typ(parent)
	if t == nil {
		return nil
	}
	out := []FieldDesc{}
	if t.Kind == "object" || t.Kind == "interface" {
		out = append(out, t.Fields...)
	}
	if parent == v.Query {
		out = append(out, v.Meta...)
	}
	if v.isComposite(parent) {
		out = append(out, FieldDesc{Name: "__typename", Type: NonNull(Named("String"))})
	}
	return out
}

// ---- variable usage (generator side; the specification decides) ---------------------------------

func typesCompatible(v, l *TypeRef) bool {
	switch {
	case l.Kind == "nonnull":
		return v.Kind == "nonnull" && typesCompatible(v.Of, l.Of)
	case v.Kind == "nonnull":
		return typesCompatible(v.Of, l)
	case l.Kind == "list":
		return v.Kind == "list" && typesCompatible(v.Of, l.Of)
	case v.Kind == "list":
		return false
	}
	return v.Name == l.Name
}

func usageAllowed(gv *GVar, loc *TypeRef, locDefault bool) bool {
	if loc.Kind == "nonnull" && gv.Type.Kind != "nonnull" {
		hasDefault := gv.Default != nil && gv.Default.Kind != "null"
		if !hasDefault && !locDefault {
			return false
		}
		return typesCompatible(gv.Type, loc.Of)
	}
	return typesCompatible(gv.Type, loc)
}

// ---- the generator ----------------------------------------------------------------------------

type sig struct{ field, args, typ string }

type docGen struct {
	r        *hx.Rand
	v        *View
	frags    []*GDef
	vars     map[string]*GVar
	varOrder []string
	sigs     map[string]sig    // response name -> signature
	aliases  map[sig]string    // signature -> alias chosen for it
	pastArgs map[string][]GArg // parent.field -> an argument list used before (reused to create overlaps)
	budget   int
	maxDepth int
	nAlias   int
	// constOnly: never use variables (fragments of documents made by mutations)
	constOnly bool
	// respelled: string literals respelled in the arguments of overlapping identical fields
	respelled int
}

func (g *docGen) intLit() string {
	return hx.Pick(g.r, []string{"0", "1", "-1", "7", "42", "2147483647", "-2147483648", "-0", "100"})
}

// freeValue generates a value nested inside a list or object literal for a custom scalar: it has
// no expected type, anything goes — variables of any type included (F-04g).
func (g *docGen) freeValue(constant bool, depth int) *GValue {
	out := g.freeValue1(constant, depth)
	out.Free = true
	out.Const = constant
	return out
}

func (g *docGen) freeValue1(constant bool, depth int) *GValue {
	c := g.r.Intn(9)
	switch {
	case c <= 2 && !constant && !g.constOnly:
		return g.freeVar()
	case c == 3 && depth < 3:
		out := &GValue{Kind: "list"}
		for i, n := 0, g.r.Range(0, 2); i < n; i++ {
			out.Items = append(out.Items, g.freeValue(constant, depth+1))
		}
		return out
	case c == 4 && depth < 3:
		out := &GValue{Kind: "object"}
		for i, n := 0, g.r.Range(1, 2); i < n; i++ {
			out.Fields = append(out.Fields, GObjField{Name: hx.Pick(g.r, []string{"k", "l", "a", "noSuchField"}) + fmt.Sprint(i), Value: g.freeValue(constant, depth+1)})
		}
		return out
	case c == 5:
		return &GValue{Kind: "string", Text: hx.Pick(g.r, []string{`"j"`, `"j"`, `"ANY"`, `"1"`, `"null"`})}
	case c == 6:
		return &GValue{Kind: "null"}
	case c == 7:
		return &GValue{Kind: "enum", Text: "ANY"}
	}
	return &GValue{Kind: "int", Text: g.intLit()}
}

// freeVar: a variable used where there is no location type: any declared variable will do, or a
// new one of some input type of the schema.
func (g *docGen) freeVar() *GValue {
	if len(g.varOrder) > 0 && g.r.Bool() {
		return &GValue{Kind: "var", Text: hx.Pick(g.r, g.varOrder)}
	}
	cands := []*TypeRef{Named("String"), NonNull(Named("Boolean")), ListOf(Named("String"))}
	for _, t := range g.v.Types {
		if t.Kind == "scalar" || t.Kind == "enum" || t.Kind == "input" {
			cands = append(cands, Named(t.Name), ListOf(NonNull(Named(t.Name))))
		}
	}
	nv := &GVar{Name: fmt.Sprintf("v%d", len(g.varOrder)), Type: hx.Pick(g.r, cands)}
	g.vars[nv.Name] = nv
	g.varOrder = append(g.varOrder, nv.Name)
	return &GValue{Kind: "var", Text: nv.Name}
}

func (g *docGen) scalarLit(name string, t *TypeDesc, constant bool) *GValue {
	switch name {
	case "Int":
		return &GValue{Kind: "int", Text: g.intLit()}
	case "Float":
		if g.r.Bool() {
			return &GValue{Kind: "float", Text: hx.Pick(g.r, []string{"1.5", "0.0", "-2.25", "1e3", "6.0E-2", "3.5e+2"})}
		}
		return &GValue{Kind: "int", Text: g.intLit()}
	case "String":
		return &GValue{Kind: "string", Text: hx.Pick(g.r, []string{`""`, `"s"`, `"a b"`, `"q\"uote"`, `"""block"""`, `"é"`, `"#no comment"`})}
	case "Boolean":
		return &GValue{Kind: "bool", Text: hx.Pick(g.r, []string{"true", "false"})}
	case "ID":
		// numeric strings on purpose: `1` and `"1"` are different values for the merge rule
		if g.r.Bool() {
			return &GValue{Kind: "string", Text: hx.Pick(g.r, []string{`"id1"`, `"1"`, `"-5"`, `"9007199254740993"`, `"""1"""`})}
		}
		return &GValue{Kind: "int", Text: hx.Pick(g.r, []string{"1", "9007199254740993", "-5"})}
	}
	// custom scalar: one of the accepted kinds (list / object literals preferred when accepted)
	k := hx.Pick(g.r, t.Accepts[1:])
	if g.r.Chance(2, 3) {
		var structured []string
		for _, a := range t.Accepts[1:] {
			if a == "list" || a == "object" {
				structured = append(structured, a)
			}
		}
		if len(structured) > 0 {
			k = hx.Pick(g.r, structured)
		}
	}
	switch k {
	case "int":
		return &GValue{Kind: "int", Text: "3"}
	case "float":
		return &GValue{Kind: "float", Text: "2.5"}
	case "string":
		// also the texts the other kinds are written with
		return &GValue{Kind: "string", Text: hx.Pick(g.r, []string{`"c"`, `"c"`, `"3"`, `"2.5"`, `"ANY"`, `"true"`, `"null"`})}
	case "bool":
		return &GValue{Kind: "bool", Text: "true"}
	case "list":
		out := &GValue{Kind: "list"}
		for i, n := 0, g.r.Range(0, 3); i < n; i++ {
			out.Items = append(out.Items, g.freeValue(constant, 1))
		}
		return out
	case "object":
		out := &GValue{Kind: "object"}
		for i, n := 0, g.r.Range(0, 3); i < n; i++ {
			out.Fields = append(out.Fields, GObjField{Name: fmt.Sprintf("k%d", i), Value: g.freeValue(constant, 1)})
		}
		return out
	default:
		return &GValue{Kind: "enum", Text: "ANY"}
	}
}

// value generates a value for a position of type t. constant: no variables (variable defaults).
// inList: the position is an item of a list literal (no single-item list coercion there).
func (g *docGen) value(t *TypeRef, locDefault, constant, inList bool, depth int) *GValue {
	out := g.value1(t, locDefault, constant, inList, depth)
	out.Type = t
	out.Const = constant
	return out
}

func (g *docGen) value1(t *TypeRef, locDefault, constant, inList bool, depth int) *GValue {
	if !constant && !g.constOnly && g.r.Chance(1, 4) {
		return g.useVar(t, locDefault)
	}
	if !t.IsNonNull() && g.r.Chance(1, 10) {
		return &GValue{Kind: "null"}
	}
	n := t.Nullable()
	if n.Kind == "list" {
		if !inList && g.r.Chance(1, 4) {
			// single item coerced to a list (recursively); null would mean a null list, so skip it
			item := g.value(n.Of, false, constant, false, depth+1)
			if item.Kind != "null" && item.Kind != "var" && item.Kind != "list" {
				return item
			}
		}
		cnt := g.r.Range(0, 3)
		if depth > 3 {
			cnt = 0
		}
		out := &GValue{Kind: "list"}
		for i := 0; i < cnt; i++ {
			out.Items = append(out.Items, g.value(n.Of, false, constant, true, depth+1))
		}
		return out
	}
	td := g.v.typ(n.Name)
	if td == nil {
		// a built-in scalar the schema never mentions (not resolvable by name, still usable
		// through the definitions that point at it)
		return g.scalarLit(n.Name, &TypeDesc{Accepts: []string{"custom", "int"}}, constant)
	}
	switch td.Kind {
	case "enum":
		return &GValue{Kind: "enum", Text: hx.Pick(g.r, td.Values)}
	case "input":
		out := &GValue{Kind: "object"}
		fs := append([]InputDesc{}, td.InputFields...)
		hx.Shuffle(g.r, fs)
		for _, f := range fs {
			if f.Required() || (depth < 3 && g.r.Chance(1, 2)) {
				out.Fields = append(out.Fields, GObjField{Name: f.Name, Value: g.value(f.Type, f.Default != "", constant, false, depth+1)})
			}
		}
		return out
	default:
		return g.scalarLit(n.Name, td, constant)
	}
}

func (g *docGen) useVar(loc *TypeRef, locDefault bool) *GValue {
	// reuse a variable that is allowed here
	cands := []string{}
	for _, n := range g.varOrder {
		if usageAllowed(g.vars[n], loc, locDefault) {
			cands = append(cands, n)
		}
	}
	if len(cands) > 0 && g.r.Chance(1, 2) {
		return &GValue{Kind: "var", Text: hx.Pick(g.r, cands)}
	}
	nv := &GVar{Name: fmt.Sprintf("v%d", len(g.varOrder))}
	switch c := g.r.Intn(6); {
	case c == 0 && !loc.IsNonNull():
		nv.Type = NonNull(loc) // a stronger variable for a nullable position
	case c == 1 && loc.IsNonNull() && locDefault:
		nv.Type = loc.Of // nullable variable, the location has a default
	case c == 2 && loc.IsNonNull():
		nv.Type = loc.Of // nullable variable with a non-null default
		for {
			nv.Default = g.value(nv.Type, false, true, false, 2)
			if nv.Default.Kind != "null" {
				break
			}
		}
	case c == 3:
		nv.Type = loc
		if g.r.Bool() {
			nv.Default = g.value(nv.Type, false, true, false, 2)
		}
	default:
		nv.Type = loc
	}
	g.vars[nv.Name] = nv
	g.varOrder = append(g.varOrder, nv.Name)
	return &GValue{Kind: "var", Text: nv.Name}
}

func (g *docGen) argsFor(defs []InputDesc) []GArg {
	out := []GArg{}
	ds := append([]InputDesc{}, defs...)
	hx.Shuffle(g.r, ds)
	for _, d := range ds {
		if d.Required() || g.r.Chance(1, 2) {
			out = append(out, GArg{Name: d.Name, Value: g.value(d.Type, d.Default != "", false, false, 0)})
		}
	}
	return out
}

func (g *docGen) directives(loc string) []GDir {
	out := []GDir{}
	for _, d := range g.v.Directives {
		ok := false
		for _, l := range d.Locations {
			if l == loc {
				ok = true
			}
		}
		if ok && len(out) < 2 && g.r.Chance(1, 7) {
			out = append(out, GDir{Name: d.Name, Args: g.argsFor(d.Args)})
		}
	}
	return out
}

func (g *docGen) field(parent string, depth, owner int) *GSel {
	fs := g.v.fieldsOn(parent)
	// prefer leaves when deep or out of budget
	cands := fs
	if depth >= g.maxDepth || g.budget <= 0 {
		cands = nil
		for _, f := range fs {
			if !g.v.isComposite(f.Type.Base()) {
				cands = append(cands, f)
			}
		}
	}
	f := hx.Pick(g.r, cands)
	s := &GSel{Kind: "field", Name: f.Name, Parent: parent, HasArgs: len(f.Args) > 0, FType: f.Type}
	key := parent + "." + f.Name
	if past, ok := g.pastArgs[key]; ok && g.r.Chance(1, 2) {
		s.Args = cloneArgs(past)
		if g.r.Bool() {
			// the same string values in other spellings: still identical arguments
			g.respelled += respellArgs(g.r, s.Args)
		}
	} else {
		s.Args = g.argsFor(f.Args)
		g.pastArgs[key] = s.Args
	}
	sg := sig{f.Name, printArgs(s.Args), f.Type.String()}
	if cur, ok := g.sigs[f.Name]; (!ok || cur == sg) && !g.r.Chance(1, 6) {
		g.sigs[f.Name] = sg
	} else if a, ok := g.aliases[sg]; ok {
		s.Alias = a
	} else {
		for {
			g.nAlias++
			a = fmt.Sprintf("%s%d", hx.Pick(g.r, []string{"r", "al", f.Name + "_"}), g.nAlias)
			if _, taken := g.sigs[a]; !taken && g.v.typ(a) == nil {
				break
			}
		}
		// an alias may also be some other field's *name*: make sure the signature table agrees
		g.sigs[a] = sg
		g.aliases[sg] = a
		s.Alias = a
	}
	s.Dirs = g.directives("FIELD")
	if g.v.isComposite(f.Type.Base()) {
		s.Inner = f.Type.Base()
		s.Sels = g.sels(s.Inner, depth+1, owner)
	}
	return s
}

func cloneArgs(a []GArg) []GArg {
	out := make([]GArg, len(a))
	for i, x := range a {
		out[i] = GArg{Name: x.Name, Value: cloneValue(x.Value)}
	}
	return out
}

func cloneValue(v *GValue) *GValue {
	c := *v
	c.Items = nil
	for _, i := range v.Items {
		c.Items = append(c.Items, cloneValue(i))
	}
	c.Fields = nil
	for _, f := range v.Fields {
		c.Fields = append(c.Fields, GObjField{Name: f.Name, Value: cloneValue(f.Value)})
	}
	return &c
}

func (g *docGen) sels(parent string, depth, owner int) []*GSel {
	n := g.r.Range(1, 3)
	out := []*GSel{}
	for i := 0; i < n; i++ {
		g.budget--
		compatAll := g.v.compatibleTypes(parent)
		switch c := g.r.Intn(20); {
		case len(compatAll) == 0:
			out = append(out, g.field(parent, depth, owner))
		case c < 3 && depth < g.maxDepth && g.budget > 0:
			// inline fragment
			s := &GSel{Kind: "inline", Parent: parent}
			if g.r.Chance(1, 4) {
				s.Inner = parent
			} else {
				s.TypeCond = hx.Pick(g.r, g.v.compatibleTypes(parent))
				s.Inner = s.TypeCond
			}
			s.Dirs = g.directives("INLINE_FRAGMENT")
			s.Sels = g.sels(s.Inner, depth+1, owner)
			out = append(out, s)
		case c < 7 && depth < g.maxDepth && g.budget > 0:
			// fragment spread: reuse a later fragment or create one
			compat := g.v.compatibleTypes(parent)
			var reuse []*GDef
			for i, f := range g.frags {
				if i > owner && f.Sels != nil {
					for _, c := range compat {
						if c == f.TypeCond {
							reuse = append(reuse, f)
						}
					}
				}
			}
			s := &GSel{Kind: "spread", Parent: parent}
			if len(reuse) > 0 && g.r.Chance(3, 5) {
				s.Name = hx.Pick(g.r, reuse).Name
			} else {
				f := &GDef{IsFrag: true, Name: fmt.Sprintf("F%d", len(g.frags)), TypeCond: hx.Pick(g.r, compat)}
				idx := len(g.frags)
				g.frags = append(g.frags, f)
				f.Dirs = g.directives("FRAGMENT_DEFINITION")
				f.Sels = g.sels(f.TypeCond, depth+1, idx)
				s.Name = f.Name
			}
			s.Dirs = g.directives("FRAGMENT_SPREAD")
			out = append(out, s)
			if g.r.Chance(1, 6) {
				// the same fragment twice in one selection set
				out = append(out, &GSel{Kind: "spread", Parent: parent, Name: s.Name})
			}
		default:
			out = append(out, g.field(parent, depth, owner))
			if g.r.Chance(1, 8) {
				// an identical overlapping field (its sub-selection is generated again: it merges)
				prev := out[len(out)-1]
				dup := &GSel{Kind: "field", Name: prev.Name, Alias: prev.Alias, Parent: parent, HasArgs: prev.HasArgs, FType: prev.FType, Args: cloneArgs(prev.Args), Inner: prev.Inner}
				g.respelled += respellArgs(g.r, dup.Args)
				if prev.Sels != nil {
					dup.Sels = g.sels(prev.Inner, depth+1, owner)
				}
				out = append(out, dup)
			}
		}
	}
	return out
}

// usedVars collects variable names used in a definition body and the fragment names it spreads.
func collectUse(sels []*GSel, dirs []GDir, vars map[string]bool, spreads map[string]bool) {
	var val func(v *GValue)
	val = func(v *GValue) {
		if v.Kind == "var" {
			vars[v.Text] = true
		}
		for _, i := range v.Items {
			val(i)
		}
		for _, f := range v.Fields {
			val(f.Value)
		}
	}
	ds := func(dirs []GDir) {
		for _, d := range dirs {
			for _, a := range d.Args {
				val(a.Value)
			}
		}
	}
	ds(dirs)
	var walk func(sels []*GSel)
	walk = func(sels []*GSel) {
		for _, s := range sels {
			for _, a := range s.Args {
				val(a.Value)
			}
			ds(s.Dirs)
			if s.Kind == "spread" {
				spreads[s.Name] = true
			}
			walk(s.Sels)
		}
	}
	walk(sels)
}

func (d *GDoc) frag(name string) *GDef {
	for _, f := range d.Defs {
		if f.IsFrag && f.Name == name {
			return f
		}
	}
	return nil
}

// declareVars gives every operation exactly the variables it uses (transitively).
func (d *GDoc) declareVars(table map[string]*GVar) {
	for _, op := range d.Defs {
		if op.IsFrag {
			continue
		}
		vars, spreads := map[string]bool{}, map[string]bool{}
		collectUse(op.Sels, op.Dirs, vars, spreads)
		done := map[string]bool{}
		for changed := true; changed; {
			changed = false
			for n := range spreads {
				if !done[n] {
					done[n] = true
					changed = true
					if f := d.frag(n); f != nil {
						collectUse(f.Sels, f.Dirs, vars, spreads)
					}
				}
			}
		}
		names := []string{}
		for n := range vars {
			names = append(names, n)
		}
		sort.Strings(names)
		op.Vars = nil
		for _, n := range names {
			if gv, ok := table[n]; ok {
				c := *gv
				op.Vars = append(op.Vars, &c)
			}
		}
	}
}

func genDoc(r *hx.Rand, v *View, size int) *GDoc {
	g := &docGen{r: r, v: v, vars: map[string]*GVar{}, sigs: map[string]sig{}, aliases: map[sig]string{}, pastArgs: map[string][]GArg{}}
	g.budget = size
	g.maxDepth = r.Range(2, 4)
	doc := &GDoc{}
	kinds := []string{"query"}
	if v.Mutation != "" {
		kinds = append(kinds, "mutation")
	}
	if v.Subscription != "" {
		kinds = append(kinds, "subscription")
	}
	root := map[string]string{"query": v.Query, "mutation": v.Mutation, "subscription": v.Subscription}
	nOps := 1
	if r.Chance(1, 3) {
		nOps = r.Range(2, 3)
	}
	for i := 0; i < nOps; i++ {
		op := &GDef{Kind: "query"}
		if r.Chance(1, 3) {
			op.Kind = hx.Pick(r, kinds)
		}
		if nOps > 1 || r.Chance(1, 2) {
			op.Name = fmt.Sprintf("Op%d", i)
		}
		if nOps == 1 && op.Name == "" && op.Kind == "query" && r.Chance(1, 2) {
			op.Shorthand = true
		}
		if !op.Shorthand {
			op.Dirs = g.directives(strings.ToUpper(op.Kind))
		}
		if op.Kind == "subscription" {
			f := g.field(root[op.Kind], 1, -1)
			op.Sels = []*GSel{f}
			if r.Chance(1, 4) {
				op.Sels = []*GSel{{Kind: "inline", Parent: root[op.Kind], Inner: root[op.Kind], Sels: []*GSel{f}}}
			}
		} else {
			op.Sels = g.sels(root[op.Kind], 1, -1)
		}
		doc.Defs = append(doc.Defs, op)
	}
	doc.Defs = append(doc.Defs, g.frags...)
	if r.Chance(1, 3) {
		g.shareNames(doc)
	}
	if r.Chance(1, 3) {
		hx.Shuffle(r, doc.Defs)
	}
	doc.declareVars(g.vars)
	doc.Respelled = g.respelled
	return doc
}

// shareNames: operations, fragments, types, fields, variables and directives live in separate
// namespaces, so a valid document may name an operation like one of its fragments, and either
// like a type, a field, a variable or a directive (seed C04-18 merged two of the namespaces).
// Operation names stay distinct among operations, fragment names among fragments; spreads follow
// the renamed fragments.
func (g *docGen) shareNames(doc *GDoc) {
	pool := []string{"skip", "include", "Query", "String", "ok", "__typename"}
	pool = pool[:4+g.r.Intn(2)] // names starting with "__" are legal for operations, keep them rare
	for _, t := range g.v.Types {
		pool = append(pool, t.Name)
		for _, f := range t.Fields {
			pool = append(pool, f.Name)
		}
	}
	pool = append(pool, g.varOrder...)
	usedOp, usedFrag := map[string]bool{}, map[string]bool{}
	for _, d := range doc.Defs {
		if d.IsFrag {
			usedFrag[d.Name] = true
		} else if d.Name != "" {
			usedOp[d.Name] = true
		}
	}
	renameFrag := func(old, nu string) {
		var walk func(sels []*GSel)
		walk = func(sels []*GSel) {
			for _, s := range sels {
				if s.Kind == "spread" && s.Name == old {
					s.Name = nu
				}
				walk(s.Sels)
			}
		}
		for _, d := range doc.Defs {
			walk(d.Sels)
		}
	}
	// fragments named like things of other namespaces
	for _, d := range doc.Defs {
		if d.IsFrag && g.r.Chance(1, 2) {
			nu := hx.Pick(g.r, pool)
			if nu == "on" || nu == "__typename" || usedFrag[nu] {
				continue
			}
			delete(usedFrag, d.Name)
			renameFrag(d.Name, nu)
			d.Name = nu
			usedFrag[nu] = true
		}
	}
	// operations named like a fragment of the document (or like the other things)
	var fragNames []string
	for _, d := range doc.Defs {
		if d.IsFrag {
			fragNames = append(fragNames, d.Name)
		}
	}
	for _, d := range doc.Defs {
		if d.IsFrag || d.Name == "" {
			continue
		}
		nu := hx.Pick(g.r, pool)
		if len(fragNames) > 0 && g.r.Chance(2, 3) {
			nu = hx.Pick(g.r, fragNames)
		}
		if usedOp[nu] {
			continue
		}
		delete(usedOp, d.Name)
		d.Name = nu
		usedOp[nu] = true
	}
}

// ---- printing ---------------------------------------------------------------------------------

type printer struct {
	canon  bool // string literals by value (signatures), not as written
	b      strings.Builder
	r      *hx.Rand // nil: compact single line
	indent int
}

func (p *printer) ws() {
	if p.r == nil {
		p.b.WriteByte(' ')
		return
	}
	switch p.r.Intn(12) {
	case 0, 1, 2:
		p.b.WriteByte('\n')
		p.b.WriteString(strings.Repeat(" ", p.r.Intn(6)))
	case 3:
		p.b.WriteString(", ")
	case 4:
		p.b.WriteString("  ")
	case 5:
		p.b.WriteString(" # c\n")
	case 6:
		p.b.WriteString("\r\n\t")
	default:
		p.b.WriteByte(' ')
	}
}

func (p *printer) tok(s string) { p.b.WriteString(s) }

func printValueTo(p *printer, v *GValue) {
	switch v.Kind {
	case "var":
		p.tok("$" + v.Text)
	case "null":
		p.tok("null")
	case "list":
		p.tok("[")
		for i, it := range v.Items {
			if i > 0 {
				p.ws()
			}
			printValueTo(p, it)
		}
		p.tok("]")
	case "object":
		p.tok("{")
		for i, f := range v.Fields {
			if i > 0 {
				p.ws()
			}
			p.tok(f.Name + ":")
			if p.r != nil && p.r.Bool() {
				p.tok(" ")
			}
			printValueTo(p, f.Value)
		}
		p.tok("}")
	case "string":
		if p.canon {
			p.tok(canonString(v.Text))
		} else {
			p.tok(v.Text)
		}
	default:
		p.tok(v.Text)
	}
}

func printArgsTo(p *printer, args []GArg) {
	if len(args) == 0 {
		return
	}
	p.tok("(")
	for i, a := range args {
		if i > 0 {
			p.ws()
		}
		p.tok(a.Name + ":")
		if p.r != nil && p.r.Bool() {
			p.tok(" ")
		}
		printValueTo(p, a.Value)
	}
	p.tok(")")
}

// printArgs is the signature of an argument list: two lists with the same signature are
// identical arguments (string literals by value, whatever their spelling).
func printArgs(args []GArg) string {
	p := &printer{canon: true}
	printArgsTo(p, args)
	return p.b.String()
}

func printDirsTo(p *printer, dirs []GDir) {
	for _, d := range dirs {
		p.ws()
		p.tok("@" + d.Name)
		printArgsTo(p, d.Args)
	}
}

func printSelsTo(p *printer, sels []*GSel) {
	p.tok("{")
	for _, s := range sels {
		p.ws()
		switch s.Kind {
		case "field":
			if s.Alias != "" {
				p.tok(s.Alias + ":")
				if p.r != nil && p.r.Bool() {
					p.tok(" ")
				}
			}
			p.tok(s.Name)
			printArgsTo(p, s.Args)
			printDirsTo(p, s.Dirs)
			if s.Sels != nil {
				p.ws()
				printSelsTo(p, s.Sels)
			}
		case "spread":
			p.tok("..." + s.Name)
			printDirsTo(p, s.Dirs)
		case "inline":
			p.tok("...")
			if s.TypeCond != "" {
				p.tok(" on " + s.TypeCond)
			}
			printDirsTo(p, s.Dirs)
			p.ws()
			printSelsTo(p, s.Sels)
		}
	}
	p.ws()
	p.tok("}")
}

// print renders the document; r == nil gives the compact one-line form.
func (d *GDoc) print(r *hx.Rand) string {
	p := &printer{r: r}
	for i, def := range d.Defs {
		if i > 0 {
			p.ws()
		}
		if def.IsFrag {
			p.tok("fragment " + def.Name + " on " + def.TypeCond)
			printDirsTo(p, def.Dirs)
			p.ws()
			printSelsTo(p, def.Sels)
			continue
		}
		if !(def.Shorthand && def.Name == "" && len(def.Vars) == 0 && len(def.Dirs) == 0 && def.Kind == "query") {
			p.tok(def.Kind)
			if def.Name != "" {
				p.tok(" " + def.Name)
			}
			if len(def.Vars) > 0 {
				p.tok("(")
				for i, v := range def.Vars {
					if i > 0 {
						p.ws()
					}
					p.tok("$" + v.Name + ": " + v.Type.String())
					if v.Default != nil {
						p.tok(" = ")
						printValueTo(p, v.Default)
					}
				}
				p.tok(")")
			}
			printDirsTo(p, def.Dirs)
			p.ws()
		}
		printSelsTo(p, def.Sels)
	}
	return p.b.String()
}
