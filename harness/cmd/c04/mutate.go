package main

// Rule-targeted mutations of a generated document. A mutation only has to be *plausibly* violating:
// whether `mutate_r(D)` really violates rule r is decided by the Lean specification (Spec.violates),
// and a mutation that does not is discarded (counted).

import (
	"encoding/json"
	"fmt"

	"verifharness/hx"
)

func (d *GDoc) clone() *GDoc {
	b, _ := json.Marshal(d)
	var out GDoc
	json.Unmarshal(b, &out)
	return &out
}

// selRef addresses one selection inside its parent list.
type selRef struct {
	list   *[]*GSel
	idx    int
	def    *GDef
	depth  int
	deep   bool // beneath a field that has argument definitions or a node that carries a directive
	parent string
}

func (s selRef) sel() *GSel { return (*s.list)[s.idx] }

func (d *GDoc) selections(v *View) []selRef {
	var out []selRef
	var walk func(def *GDef, list *[]*GSel, depth int, deep bool, parent string)
	walk = func(def *GDef, list *[]*GSel, depth int, deep bool, parent string) {
		for i := range *list {
			s := (*list)[i]
			out = append(out, selRef{list, i, def, depth, deep, parent})
			if s.Sels != nil {
				walk(def, &s.Sels, depth+1, deep || s.HasArgs || len(s.Args) > 0 || len(s.Dirs) > 0, s.Inner)
			}
		}
	}
	for _, def := range d.Defs {
		root := def.TypeCond
		if !def.IsFrag {
			root = map[string]string{"query": v.Query, "mutation": v.Mutation, "subscription": v.Subscription}[def.Kind]
		}
		walk(def, &def.Sels, 1, len(def.Dirs) > 0, root)
	}
	return out
}

// listRef addresses a selection list (a selection set) with its type in scope.
type listRef struct {
	list   *[]*GSel
	parent string
	def    *GDef
	deep   bool
}

func (d *GDoc) lists(v *View) []listRef {
	var out []listRef
	var walk func(def *GDef, list *[]*GSel, parent string, deep bool)
	walk = func(def *GDef, list *[]*GSel, parent string, deep bool) {
		out = append(out, listRef{list, parent, def, deep})
		for _, s := range *list {
			if s.Sels != nil {
				walk(def, &s.Sels, s.Inner, deep || s.HasArgs || len(s.Args) > 0 || len(s.Dirs) > 0)
			}
		}
	}
	for _, def := range d.Defs {
		root := def.TypeCond
		if !def.IsFrag {
			root = map[string]string{"query": v.Query, "mutation": v.Mutation, "subscription": v.Subscription}[def.Kind]
		}
		walk(def, &def.Sels, root, len(def.Dirs) > 0)
	}
	return out
}

// pick prefers (2 in 3) candidates lying deep beneath argument- or directive-carrying nodes.
func pickRef[T any](r *hx.Rand, xs []T, deep func(T) bool) (T, bool) {
	var zero T
	if len(xs) == 0 {
		return zero, false
	}
	var ds []T
	for _, x := range xs {
		if deep(x) {
			ds = append(ds, x)
		}
	}
	if len(ds) > 0 && r.Chance(2, 3) {
		return hx.Pick(r, ds), true
	}
	return hx.Pick(r, xs), true
}

// valueRef addresses a value position (argument value, nested item / field value, variable default).
type valueRef struct {
	set  func(*GValue)
	v    *GValue
	deep bool
	nest int
}

func (d *GDoc) values(v *View, includeDefaults bool) []valueRef {
	var out []valueRef
	var val func(set func(*GValue), x *GValue, deep bool, nest int)
	val = func(set func(*GValue), x *GValue, deep bool, nest int) {
		out = append(out, valueRef{set, x, deep, nest})
		for i := range x.Items {
			i := i
			val(func(n *GValue) { x.Items[i] = n }, x.Items[i], deep, nest+1)
		}
		for i := range x.Fields {
			i := i
			val(func(n *GValue) { x.Fields[i].Value = n }, x.Fields[i].Value, deep, nest+1)
		}
	}
	args := func(as []GArg, deep bool) {
		for i := range as {
			i := i
			val(func(n *GValue) { as[i].Value = n }, as[i].Value, deep, 0)
		}
	}
	dirs := func(ds []GDir, deep bool) {
		for i := range ds {
			args(ds[i].Args, deep)
		}
	}
	for _, def := range d.Defs {
		dirs(def.Dirs, false)
		if includeDefaults {
			for _, gv := range def.Vars {
				gv := gv
				if gv.Default != nil {
					val(func(n *GValue) { gv.Default = n }, gv.Default, false, 0)
				}
			}
		}
	}
	for _, s := range d.selections(v) {
		args(s.sel().Args, s.deep)
		dirs(s.sel().Dirs, s.deep)
	}
	return out
}

// scalarLiteralShape counts the values nested inside literals for custom scalars, and the
// variables among them (F-04g).
func (d *GDoc) scalarLiteralShape() (free, vars int) {
	for _, x := range d.values(&View{}, true) {
		if x.v.Free {
			free++
			if x.v.Kind == "var" {
				vars++
			}
		}
	}
	return
}

type mutation struct {
	name string // distribution key
	rule string // the Spec rule it aims at
	f    func(r *hx.Rand, v *View, d *GDoc) bool
}

func wrongLiteral(r *hx.Rand, v *View, t *TypeRef, inList bool) *GValue {
	n := t.Nullable()
	if t.IsNonNull() && r.Chance(1, 4) {
		return &GValue{Kind: "null"}
	}
	if n.Kind == "list" {
		// an item of the wrong kind, or (inside a list literal) a bare item where a list is needed
		if inList && r.Bool() {
			return &GValue{Kind: "int", Text: "1"}
		}
		return &GValue{Kind: "list", Items: []*GValue{wrongLiteral(r, v, n.Of, true)}}
	}
	td := v.typ(n.Name)
	switch {
	case td == nil:
		return &GValue{Kind: "int", Text: "1"}
	case td.Kind == "enum":
		return hx.Pick(r, []*GValue{{Kind: "enum", Text: "NOT_A_VALUE"}, {Kind: "string", Text: `"` + td.Values[0] + `"`}, {Kind: "int", Text: "0"}})
	case td.Kind == "input":
		return hx.Pick(r, []*GValue{{Kind: "int", Text: "1"}, {Kind: "string", Text: `"x"`}, {Kind: "list", Items: []*GValue{{Kind: "int", Text: "1"}}},
			{Kind: "object", Fields: []GObjField{{Name: "noSuchField", Value: &GValue{Kind: "int", Text: "1"}}}}})
	}
	switch n.Name {
	case "Int":
		return hx.Pick(r, []*GValue{{Kind: "int", Text: "2147483648"}, {Kind: "int", Text: "-2147483649"}, {Kind: "float", Text: "1.0"}, {Kind: "string", Text: `"1"`}, {Kind: "bool", Text: "true"}, {Kind: "object"}})
	case "Float":
		return hx.Pick(r, []*GValue{{Kind: "string", Text: `"1.5"`}, {Kind: "bool", Text: "false"}, {Kind: "enum", Text: "A"}})
	case "String":
		return hx.Pick(r, []*GValue{{Kind: "int", Text: "1"}, {Kind: "enum", Text: "s"}, {Kind: "bool", Text: "true"}, {Kind: "list", Items: []*GValue{{Kind: "int", Text: "1"}}}})
	case "Boolean":
		return hx.Pick(r, []*GValue{{Kind: "int", Text: "1"}, {Kind: "string", Text: `"true"`}, {Kind: "enum", Text: "TRUE"}})
	case "ID":
		return hx.Pick(r, []*GValue{{Kind: "float", Text: "1.5"}, {Kind: "bool", Text: "true"}, {Kind: "int", Text: "9223372036854775808"}})
	}
	// custom scalar: a kind it does not accept
	for _, k := range []string{"int", "float", "string", "bool", "enum", "list", "object"} {
		ok := false
		for _, a := range td.Accepts[1:] {
			if a == k {
				ok = true
			}
		}
		if !ok {
			return map[string]*GValue{"int": {Kind: "int", Text: "1"}, "float": {Kind: "float", Text: "1.5"}, "string": {Kind: "string", Text: `"s"`},
				"bool": {Kind: "bool", Text: "true"}, "enum": {Kind: "enum", Text: "E"}, "list": {Kind: "list"}, "object": {Kind: "object"}}[k]
		}
	}
	return &GValue{Kind: "list"}
}

func otherDirective(r *hx.Rand, v *View, loc string, allowed bool) *DirectiveDesc {
	var c []*DirectiveDesc
	for i := range v.Directives {
		d := &v.Directives[i]
		in := false
		for _, l := range d.Locations {
			if l == loc {
				in = true
			}
		}
		if in == allowed {
			c = append(c, d)
		}
	}
	if len(c) == 0 {
		return nil
	}
	return hx.Pick(r, c)
}

func minimalArgs(g *docGen, defs []InputDesc) []GArg {
	out := []GArg{}
	for _, d := range defs {
		if d.Required() {
			out = append(out, GArg{Name: d.Name, Value: g.value(d.Type, false, true, false, 2)})
		}
	}
	return out
}

func selLoc(s *GSel) string {
	switch s.Kind {
	case "field":
		return "FIELD"
	case "spread":
		return "FRAGMENT_SPREAD"
	}
	return "INLINE_FRAGMENT"
}

func isDeepSel(s selRef) bool   { return s.deep }
func isDeepList(l listRef) bool { return l.deep }
func isDeepVal(x valueRef) bool { return x.deep || x.nest > 0 }

func fieldsOnly(xs []selRef, pred func(*GSel) bool) []selRef {
	var out []selRef
	for _, x := range xs {
		if x.sel().Kind == "field" && pred(x.sel()) {
			out = append(out, x)
		}
	}
	return out
}

func insertAt(list *[]*GSel, r *hx.Rand, s *GSel) {
	i := r.Intn(len(*list) + 1)
	*list = append((*list)[:i], append([]*GSel{s}, (*list)[i:]...)...)
}

func mutations() []mutation {
	constGen := func(r *hx.Rand, v *View) *docGen {
		return &docGen{r: r, v: v, vars: map[string]*GVar{}, sigs: map[string]sig{}, aliases: map[sig]string{}, pastArgs: map[string][]GArg{}, constOnly: true, maxDepth: 1}
	}
	ops := func(d *GDoc) []*GDef {
		var out []*GDef
		for _, x := range d.Defs {
			if !x.IsFrag {
				out = append(out, x)
			}
		}
		return out
	}
	frags := func(d *GDoc) []*GDef {
		var out []*GDef
		for _, x := range d.Defs {
			if x.IsFrag {
				out = append(out, x)
			}
		}
		return out
	}
	return []mutation{
		{"unknown-field", "fieldsDefined", func(r *hx.Rand, v *View, d *GDoc) bool {
			s, ok := pickRef(r, fieldsOnly(d.selections(v), func(s *GSel) bool { return true }), isDeepSel)
			if !ok {
				return false
			}
			s.sel().Name = hx.Pick(r, []string{"nope", "zz", "__typenam", "__schema", "A"})
			return true
		}},
		{"field-of-other-type", "fieldsDefined", func(r *hx.Rand, v *View, d *GDoc) bool {
			l, ok := pickRef(r, d.lists(v), isDeepList)
			if !ok {
				return false
			}
			var names []string
			for _, t := range v.Types {
				for _, f := range t.Fields {
					names = append(names, f.Name)
				}
			}
			insertAt(l.list, r, &GSel{Kind: "field", Name: hx.Pick(r, names), Alias: "other"})
			return true
		}},
		{"leaf-with-subselection", "leafSelections", func(r *hx.Rand, v *View, d *GDoc) bool {
			s, ok := pickRef(r, fieldsOnly(d.selections(v), func(s *GSel) bool { return s.Sels == nil }), isDeepSel)
			if !ok {
				return false
			}
			s.sel().Sels = []*GSel{{Kind: "field", Name: "__typename"}}
			return true
		}},
		{"composite-without-subselection", "leafSelections", func(r *hx.Rand, v *View, d *GDoc) bool {
			s, ok := pickRef(r, fieldsOnly(d.selections(v), func(s *GSel) bool { return s.Sels != nil }), isDeepSel)
			if !ok {
				return false
			}
			s.sel().Sels = nil
			return true
		}},
		{"conflicting-overlap", "fieldsMerge", func(r *hx.Rand, v *View, d *GDoc) bool {
			// a sibling with the same response name but another field / other arguments, written
			// directly, inside an inline fragment, or deeper inside an identical copy of a field
			s, ok := pickRef(r, fieldsOnly(d.selections(v), func(s *GSel) bool { return true }), isDeepSel)
			if !ok {
				return false
			}
			cur := s.sel()
			rn := cur.Name
			if cur.Alias != "" {
				rn = cur.Alias
			}
			var cands []FieldDesc
			for _, f := range v.fieldsOn(s.parent) {
				if f.Name != cur.Name || len(f.Args) > 0 {
					cands = append(cands, f)
				}
			}
			if len(cands) == 0 {
				return false
			}
			f := hx.Pick(r, cands)
			g := constGen(r, v)
			n := &GSel{Kind: "field", Name: f.Name, Alias: rn, Args: minimalArgs(g, f.Args)}
			if f.Name == cur.Name {
				// same field, different arguments
				n.Args = g.argsFor(f.Args)
				if printArgs(n.Args) == printArgs(cur.Args) {
					return false
				}
			}
			if v.isComposite(f.Type.Base()) {
				n.Sels = []*GSel{{Kind: "field", Name: "__typename"}}
			}
			if r.Chance(1, 3) {
				n = &GSel{Kind: "inline", Sels: []*GSel{n}}
			}
			insertAt(s.list, r, n)
			return true
		}},
		{"conflicting-shape-across-types", "fieldsMerge", func(r *hx.Rand, v *View, d *GDoc) bool {
			// two inline fragments on different object types selecting the same response name with
			// different shapes
			type pf struct {
				t string
				f FieldDesc
			}
			var all []pf
			for _, t := range v.Types {
				if t.Kind == "object" {
					for _, f := range t.Fields {
						if !v.isComposite(f.Type.Base()) {
							all = append(all, pf{t.Name, f})
						}
					}
				}
			}
			var ls []listRef
			for _, l := range d.lists(v) {
				if td := v.typ(l.parent); td != nil && (td.Kind == "interface" || td.Kind == "union") {
					ls = append(ls, l)
				}
			}
			l, ok := pickRef(r, ls, isDeepList)
			if !ok {
				return false
			}
			poss := v.possible(l.parent)
			hx.Shuffle(r, all)
			for _, a := range all {
				for _, b := range all {
					if a.t != b.t && a.f.Type.String() != b.f.Type.String() && intersects([]string{a.t}, poss) && intersects([]string{b.t}, poss) {
						g := constGen(r, v)
						insertAt(l.list, r, &GSel{Kind: "inline", TypeCond: a.t, Sels: []*GSel{{Kind: "field", Alias: "same", Name: a.f.Name, Args: minimalArgs(g, a.f.Args)}}})
						insertAt(l.list, r, &GSel{Kind: "inline", TypeCond: b.t, Sels: []*GSel{{Kind: "field", Alias: "same", Name: b.f.Name, Args: minimalArgs(g, b.f.Args)}}})
						return true
					}
				}
			}
			return false
		}},
		{"unknown-argument", "argumentsKnown", func(r *hx.Rand, v *View, d *GDoc) bool {
			if r.Chance(1, 3) {
				var c []selRef
				for _, s := range d.selections(v) {
					if len(s.sel().Dirs) > 0 {
						c = append(c, s)
					}
				}
				if s, ok := pickRef(r, c, isDeepSel); ok {
					dd := &s.sel().Dirs[r.Intn(len(s.sel().Dirs))]
					dd.Args = append(dd.Args, GArg{Name: "nope", Value: &GValue{Kind: "int", Text: "1"}})
					return true
				}
			}
			s, ok := pickRef(r, fieldsOnly(d.selections(v), func(s *GSel) bool { return true }), isDeepSel)
			if !ok {
				return false
			}
			s.sel().Args = append(s.sel().Args, GArg{Name: hx.Pick(r, []string{"nope", "q", "if"}), Value: &GValue{Kind: "int", Text: "1"}})
			return true
		}},
		{"duplicate-argument", "argumentsUnique", func(r *hx.Rand, v *View, d *GDoc) bool {
			if r.Chance(1, 3) {
				var c []selRef
				for _, s := range d.selections(v) {
					for _, dd := range s.sel().Dirs {
						if len(dd.Args) > 0 {
							c = append(c, s)
							break
						}
					}
				}
				if s, ok := pickRef(r, c, isDeepSel); ok {
					for i := range s.sel().Dirs {
						dd := &s.sel().Dirs[i]
						if len(dd.Args) > 0 {
							dd.Args = append(dd.Args, GArg{Name: dd.Args[0].Name, Value: cloneValue(dd.Args[0].Value)})
							return true
						}
					}
				}
			}
			s, ok := pickRef(r, fieldsOnly(d.selections(v), func(s *GSel) bool { return len(s.Args) > 0 }), isDeepSel)
			if !ok {
				return false
			}
			a := hx.Pick(r, s.sel().Args)
			s.sel().Args = append(s.sel().Args, GArg{Name: a.Name, Value: cloneValue(a.Value)})
			return true
		}},
		{"missing-required-argument", "argumentsRequired", func(r *hx.Rand, v *View, d *GDoc) bool {
			// drop a required argument of a field or directive, or add a field / directive that
			// needs one without it
			type cand struct {
				s   selRef
				dir int // -1: the field itself
				arg int
			}
			var cs []cand
			for _, s := range d.selections(v) {
				x := s.sel()
				if x.Kind == "field" {
					for _, f := range v.fieldsOn(s.parent) {
						if f.Name == x.Name {
							for ai, a := range x.Args {
								for _, def := range f.Args {
									if def.Name == a.Name && def.Required() {
										cs = append(cs, cand{s, -1, ai})
									}
								}
							}
						}
					}
				}
				for di, dd := range x.Dirs {
					if def := v.directive(dd.Name); def != nil {
						for ai, a := range dd.Args {
							for _, ad := range def.Args {
								if ad.Name == a.Name && ad.Required() {
									cs = append(cs, cand{s, di, ai})
								}
							}
						}
					}
				}
			}
			if c, ok := pickRef(r, cs, func(c cand) bool { return c.s.deep }); ok && r.Chance(2, 3) {
				x := c.s.sel()
				if c.dir < 0 {
					x.Args = append(x.Args[:c.arg], x.Args[c.arg+1:]...)
				} else {
					x.Dirs[c.dir].Args = append(x.Dirs[c.dir].Args[:c.arg], x.Dirs[c.dir].Args[c.arg+1:]...)
				}
				return true
			}
			// add a directive with a required argument, argument-less, to a node without it
			s, ok := pickRef(r, d.selections(v), isDeepSel)
			if !ok {
				return false
			}
			for _, dd := range v.Directives {
				need := false
				for _, a := range dd.Args {
					if a.Required() {
						need = true
					}
				}
				in, have := false, false
				for _, l := range dd.Locations {
					if l == selLoc(s.sel()) {
						in = true
					}
				}
				for _, e := range s.sel().Dirs {
					if e.Name == dd.Name {
						have = true
					}
				}
				if need && in && !have {
					s.sel().Dirs = append(s.sel().Dirs, GDir{Name: dd.Name})
					return true
				}
			}
			return false
		}},
		{"duplicate-fragment-name", "fragmentNamesUnique", func(r *hx.Rand, v *View, d *GDoc) bool {
			fs := frags(d)
			if len(fs) == 0 {
				return false
			}
			f := hx.Pick(r, fs)
			c := *f
			if len(fs) > 1 && r.Bool() {
				// another fragment takes this one's name (and keeps its own spreads dangling or not)
				o := hx.Pick(r, fs)
				c = *o
				c.Name = f.Name
			}
			d.Defs = append(d.Defs, &c)
			return true
		}},
		{"unknown-type-condition", "fragmentTypesExist", func(r *hx.Rand, v *View, d *GDoc) bool {
			var inl []selRef
			for _, s := range d.selections(v) {
				if s.sel().Kind == "inline" {
					inl = append(inl, s)
				}
			}
			fs := frags(d)
			if s, ok := pickRef(r, inl, isDeepSel); ok && (len(fs) == 0 || r.Bool()) {
				s.sel().TypeCond = "NoSuchType"
				return true
			}
			if len(fs) == 0 {
				return false
			}
			hx.Pick(r, fs).TypeCond = hx.Pick(r, []string{"NoSuchType", "H0", "__Nope"})
			return true
		}},
		{"fragment-on-leaf-type", "fragmentsOnComposite", func(r *hx.Rand, v *View, d *GDoc) bool {
			var leafs []string
			for _, t := range v.Types {
				if t.Kind == "scalar" || t.Kind == "enum" || t.Kind == "input" {
					leafs = append(leafs, t.Name)
				}
			}
			var inl []selRef
			for _, s := range d.selections(v) {
				if s.sel().Kind == "inline" {
					inl = append(inl, s)
				}
			}
			fs := frags(d)
			if s, ok := pickRef(r, inl, isDeepSel); ok && (len(fs) == 0 || r.Bool()) {
				s.sel().TypeCond = hx.Pick(r, leafs)
				return true
			}
			if len(fs) == 0 {
				l, ok := pickRef(r, d.lists(v), isDeepList)
				if !ok {
					return false
				}
				insertAt(l.list, r, &GSel{Kind: "inline", TypeCond: hx.Pick(r, leafs), Sels: []*GSel{{Kind: "field", Name: "__typename"}}})
				return true
			}
			hx.Pick(r, fs).TypeCond = hx.Pick(r, leafs)
			return true
		}},
		{"unused-fragment", "fragmentsUsed", func(r *hx.Rand, v *View, d *GDoc) bool {
			fs := frags(d)
			if len(fs) > 0 && r.Bool() {
				// remove every spread of one fragment (nested spreads included)
				f := hx.Pick(r, fs)
				removed := false
				for again := true; again; {
					again = false
					for _, s := range d.selections(v) {
						if s.sel().Kind == "spread" && s.sel().Name == f.Name {
							(*s.list)[s.idx] = &GSel{Kind: "field", Name: "__typename"}
							removed, again = true, true
							break
						}
					}
				}
				return removed
			}
			d.Defs = append(d.Defs, &GDef{IsFrag: true, Name: "Unused", TypeCond: v.Query, Sels: []*GSel{{Kind: "field", Name: "__typename"}}})
			if r.Bool() {
				// … that is only spread by itself or by another unused fragment
				d.Defs = append(d.Defs, &GDef{IsFrag: true, Name: "Unused2", TypeCond: v.Query, Sels: []*GSel{{Kind: "field", Name: "__typename"}}})
				d.Defs[len(d.Defs)-2].Sels = append(d.Defs[len(d.Defs)-2].Sels, &GSel{Kind: "spread", Name: "Unused2"})
			}
			return true
		}},
		{"undefined-fragment", "spreadsDefined", func(r *hx.Rand, v *View, d *GDoc) bool {
			l, ok := pickRef(r, d.lists(v), isDeepList)
			if !ok {
				return false
			}
			insertAt(l.list, r, &GSel{Kind: "spread", Name: hx.Pick(r, []string{"Undefined", "on_", "Op0"})})
			return true
		}},
		{"fragment-cycle", "noFragmentCycles", func(r *hx.Rand, v *View, d *GDoc) bool {
			fs := frags(d)
			if len(fs) == 0 {
				return false
			}
			// spread F (or something that reaches F) from inside F, possibly deep
			f := hx.Pick(r, fs)
			var inF []listRef
			for _, l := range d.lists(v) {
				if l.def.IsFrag {
					vars, spreads := map[string]bool{}, map[string]bool{}
					_ = vars
					// l.def is reachable from f?
					reach := map[string]bool{f.Name: true}
					for changed := true; changed; {
						changed = false
						for n := range reach {
							if fd := d.frag(n); fd != nil {
								sp := map[string]bool{}
								collectUse(fd.Sels, nil, map[string]bool{}, sp)
								for m := range sp {
									if !reach[m] {
										reach[m] = true
										changed = true
									}
								}
							}
						}
					}
					_ = spreads
					if reach[l.def.Name] {
						inF = append(inF, l)
					}
				}
			}
			l, ok := pickRef(r, inF, isDeepList)
			if !ok {
				return false
			}
			insertAt(l.list, r, &GSel{Kind: "spread", Name: f.Name})
			return true
		}},
		{"impossible-spread", "spreadsPossible", func(r *hx.Rand, v *View, d *GDoc) bool {
			l, ok := pickRef(r, d.lists(v), isDeepList)
			if !ok || !v.isComposite(l.parent) {
				return false
			}
			var bad []string
			for _, t := range v.Types {
				if v.isComposite(t.Name) && !intersects(v.possible(t.Name), v.possible(l.parent)) {
					bad = append(bad, t.Name)
				}
			}
			if len(bad) == 0 {
				return false
			}
			t := hx.Pick(r, bad)
			if r.Bool() {
				insertAt(l.list, r, &GSel{Kind: "inline", TypeCond: t, Sels: []*GSel{{Kind: "field", Name: "__typename"}}})
			} else {
				d.Defs = append(d.Defs, &GDef{IsFrag: true, Name: "Imp", TypeCond: t, Sels: []*GSel{{Kind: "field", Name: "__typename"}}})
				insertAt(l.list, r, &GSel{Kind: "spread", Name: "Imp"})
			}
			return true
		}},
		{"ill-typed-value", "valuesCorrect", func(r *hx.Rand, v *View, d *GDoc) bool {
			var c []valueRef
			for _, x := range d.values(v, true) {
				if x.v.Type != nil {
					c = append(c, x)
				}
			}
			x, ok := pickRef(r, c, isDeepVal)
			if !ok {
				return false
			}
			x.set(wrongLiteral(r, v, x.v.Type, x.nest > 0))
			return true
		}},
		{"input-object-field", "valuesCorrect", func(r *hx.Rand, v *View, d *GDoc) bool {
			var c []valueRef
			for _, x := range d.values(v, true) {
				if x.v.Kind == "object" && x.v.Type != nil && !x.v.Free && v.typ(x.v.Type.Base()) != nil {
					c = append(c, x)
				}
			}
			x, ok := pickRef(r, c, isDeepVal)
			if !ok {
				return false
			}
			o := x.v
			td := v.typ(o.Type.Base())
			switch k := r.Intn(3); {
			case k == 0 && len(o.Fields) > 0: // duplicate field
				f := hx.Pick(r, o.Fields)
				o.Fields = append(o.Fields, GObjField{Name: f.Name, Value: cloneValue(f.Value)})
			case k == 1: // unknown field
				o.Fields = append(o.Fields, GObjField{Name: "noSuchField", Value: &GValue{Kind: "int", Text: "1"}})
			default: // drop a required field
				for i, f := range o.Fields {
					for _, def := range td.InputFields {
						if def.Name == f.Name && def.Required() {
							o.Fields = append(o.Fields[:i], o.Fields[i+1:]...)
							return true
						}
					}
				}
				return false
			}
			return true
		}},
		{"unknown-directive", "directivesDefined", func(r *hx.Rand, v *View, d *GDoc) bool {
			if r.Chance(1, 5) {
				hx.Pick(r, d.Defs).Dirs = append(hx.Pick(r, d.Defs).Dirs, GDir{Name: "nosuch"})
				for _, x := range d.Defs {
					x.Shorthand = false
				}
				return true
			}
			s, ok := pickRef(r, d.selections(v), isDeepSel)
			if !ok {
				return false
			}
			s.sel().Dirs = append(s.sel().Dirs, GDir{Name: hx.Pick(r, []string{"nosuch", "Skip", "deprecated"})})
			return true
		}},
		{"misplaced-directive", "directivesInLocation", func(r *hx.Rand, v *View, d *GDoc) bool {
			g := constGen(r, v)
			if r.Chance(1, 4) {
				def := hx.Pick(r, d.Defs)
				loc := "FRAGMENT_DEFINITION"
				if !def.IsFrag {
					loc = map[string]string{"query": "QUERY", "mutation": "MUTATION", "subscription": "SUBSCRIPTION"}[def.Kind]
				}
				if dd := otherDirective(r, v, loc, false); dd != nil {
					def.Dirs = append(def.Dirs, GDir{Name: dd.Name, Args: minimalArgs(g, dd.Args)})
					def.Shorthand = false
					return true
				}
			}
			s, ok := pickRef(r, d.selections(v), isDeepSel)
			if !ok {
				return false
			}
			dd := otherDirective(r, v, selLoc(s.sel()), false)
			if dd == nil {
				return false
			}
			s.sel().Dirs = append(s.sel().Dirs, GDir{Name: dd.Name, Args: minimalArgs(g, dd.Args)})
			return true
		}},
		{"duplicate-directive", "directivesUnique", func(r *hx.Rand, v *View, d *GDoc) bool {
			g := constGen(r, v)
			s, ok := pickRef(r, d.selections(v), isDeepSel)
			if !ok {
				return false
			}
			x := s.sel()
			if len(x.Dirs) > 0 {
				x.Dirs = append(x.Dirs, x.Dirs[r.Intn(len(x.Dirs))])
				return true
			}
			dd := otherDirective(r, v, selLoc(x), true)
			if dd == nil {
				return false
			}
			one := GDir{Name: dd.Name, Args: minimalArgs(g, dd.Args)}
			x.Dirs = append(x.Dirs, one, GDir{Name: dd.Name, Args: minimalArgs(g, dd.Args)})
			return true
		}},
		{"duplicate-variable", "variablesUnique", func(r *hx.Rand, v *View, d *GDoc) bool {
			for _, op := range ops(d) {
				if len(op.Vars) > 0 {
					c := *hx.Pick(r, op.Vars)
					if r.Bool() {
						c.Type = Named("Int")
						c.Default = nil
					}
					op.Vars = append(op.Vars, &c)
					return true
				}
			}
			return false
		}},
		{"variable-of-output-type", "variablesAreInputTypes", func(r *hx.Rand, v *View, d *GDoc) bool {
			for _, op := range ops(d) {
				if len(op.Vars) > 0 {
					gv := hx.Pick(r, op.Vars)
					gv.Type = hx.Pick(r, []*TypeRef{Named(v.Query), ListOf(Named(v.Query)), Named("NoSuchType"), NonNull(Named("NoSuchType")), ListOf(NonNull(Named("__Type")))})
					gv.Default = nil
					return true
				}
			}
			return false
		}},
		{"undefined-variable", "variableUsesDefined", func(r *hx.Rand, v *View, d *GDoc) bool {
			if r.Bool() {
				// a declared variable loses its declaration in one operation
				for _, op := range ops(d) {
					if len(op.Vars) > 0 {
						i := r.Intn(len(op.Vars))
						op.Vars = append(op.Vars[:i], op.Vars[i+1:]...)
						return true
					}
				}
			}
			var c []valueRef
			for _, x := range d.values(v, false) {
				if !x.v.Const {
					c = append(c, x)
				}
			}
			x, ok := pickRef(r, c, isDeepVal)
			if !ok {
				return false
			}
			x.set(&GValue{Kind: "var", Text: "undefinedVar"})
			return true
		}},
		{"unused-variable", "variablesUsed", func(r *hx.Rand, v *View, d *GDoc) bool {
			op := hx.Pick(r, ops(d))
			op.Vars = append(op.Vars, &GVar{Name: "unusedVar", Type: hx.Pick(r, []*TypeRef{Named("Int"), NonNull(Named("String")), ListOf(Named("Boolean"))})})
			op.Shorthand = false
			return true
		}},
		{"incompatible-variable", "variableUsagesAllowed", func(r *hx.Rand, v *View, d *GDoc) bool {
			for _, op := range ops(d) {
				if len(op.Vars) > 0 {
					gv := hx.Pick(r, op.Vars)
					t := gv.Type
					switch k := r.Intn(4); {
					case k == 0 && t.IsNonNull():
						gv.Type = t.Of // nullable where non-null was needed …
						gv.Default = nil
					case k == 1 && t.Nullable().Kind == "list":
						gv.Type = t.Nullable().Of // item where a list is needed
						gv.Default = nil
					case k == 2:
						gv.Type = ListOf(t) // list where an item is needed
						gv.Default = nil
					default:
						other := "String"
						if t.Base() == "String" || t.Base() == "ID" {
							other = "Int"
						}
						var re func(t *TypeRef) *TypeRef
						re = func(t *TypeRef) *TypeRef {
							if t.Kind == "named" {
								return Named(other)
							}
							return &TypeRef{Kind: t.Kind, Of: re(t.Of)}
						}
						gv.Type = re(t)
						gv.Default = nil
					}
					return true
				}
			}
			return false
		}},
		{"shallow-list-variable", "variableUsagesAllowed", func(r *hx.Rand, v *View, d *GDoc) bool {
			// a variable declared exactly one list level too shallow for its nested-list position
			// ([T] for [[T]]): variables are never item-to-list coerced (seed C04-13)
			type cand struct {
				op *GDef
				gv *GVar
			}
			var cs []cand
			for _, op := range ops(d) {
				for _, gv := range op.Vars {
					if n := gv.Type.Nullable(); n.Kind == "list" && n.Of.Nullable().Kind == "list" {
						cs = append(cs, cand{op, gv})
					}
				}
			}
			if len(cs) == 0 {
				return false
			}
			c := hx.Pick(r, cs)
			inner := c.gv.Type.Nullable().Of
			opts := []*TypeRef{inner, inner.Nullable()}
			if c.gv.Type.IsNonNull() {
				opts = append(opts, NonNull(inner.Nullable()), NonNull(inner.Nullable()))
			}
			c.gv.Type = hx.Pick(r, opts)
			c.gv.Default = nil
			return true
		}},
		{"duplicate-operation-name", "opNameUnique", func(r *hx.Rand, v *View, d *GDoc) bool {
			os := ops(d)
			o := hx.Pick(r, os)
			if o.Name == "" {
				return false
			}
			d.Defs = append(d.Defs, &GDef{Kind: "query", Name: o.Name, Sels: []*GSel{{Kind: "field", Name: "__typename"}}})
			return true
		}},
		{"extra-anonymous-operation", "loneAnonymous", func(r *hx.Rand, v *View, d *GDoc) bool {
			n := &GDef{Kind: "query", Shorthand: r.Bool(), Sels: []*GSel{{Kind: "field", Name: "__typename"}}}
			if r.Bool() {
				d.Defs = append(d.Defs, n)
			} else {
				d.Defs = append([]*GDef{n}, d.Defs...)
			}
			return true
		}},
		{"unsupported-operation-type", "opTypeSupported", func(r *hx.Rand, v *View, d *GDoc) bool {
			k := ""
			if v.Mutation == "" {
				k = "mutation"
			} else if v.Subscription == "" {
				k = "subscription"
			} else {
				return false
			}
			name := ""
			for _, o := range ops(d) {
				if o.Name != "" {
					name = "Extra"
				}
			}
			if name == "" {
				for _, o := range ops(d) {
					o.Name = "Only"
					o.Shorthand = false
				}
				name = "Extra"
			}
			d.Defs = append(d.Defs, &GDef{Kind: k, Name: name, Sels: []*GSel{{Kind: "field", Name: "__typename"}}})
			return true
		}},
		{"multi-root-subscription", "singleRootSubscription", func(r *hx.Rand, v *View, d *GDoc) bool {
			if v.Subscription == "" {
				return false
			}
			var sub *GDef
			for _, o := range ops(d) {
				if o.Kind == "subscription" {
					sub = o
				}
			}
			extra := &GSel{Kind: "field", Name: "__typename", Alias: hx.Pick(r, []string{"", "second"})}
			if sub == nil {
				named := false
				for _, o := range ops(d) {
					if o.Name == "" {
						o.Name = "Only"
						o.Shorthand = false
					}
					named = true
				}
				_ = named
				g := constGen(r, v)
				g.maxDepth = 1
				f := g.field(v.Subscription, 1, -1)
				if f.Alias == "second" || (f.Alias == "" && f.Name == "__typename" && extra.Alias == "") {
					extra.Alias = "third"
				}
				sub = &GDef{Kind: "subscription", Name: "Sub", Sels: []*GSel{f}}
				d.Defs = append(d.Defs, sub)
			}
			switch r.Intn(3) {
			case 0:
				sub.Sels = append(sub.Sels, extra)
			case 1:
				sub.Sels = append(sub.Sels, &GSel{Kind: "inline", Sels: []*GSel{extra}})
			default:
				d.Defs = append(d.Defs, &GDef{IsFrag: true, Name: "SubRoot", TypeCond: v.Subscription, Sels: []*GSel{extra}})
				sub.Sels = append(sub.Sels, &GSel{Kind: "spread", Name: "SubRoot"})
			}
			return true
		}},
	}
}

var _ = fmt.Sprintf
