package main

// Random schema descriptions. Deliberately small name pools: the same field / argument names recur on
// several types with different types, so that overlapping-field and spread-possibility questions
// have both answers within one schema.

import (
	"fmt"

	"verifharness/hx"
)

var execLocations = []string{"QUERY", "MUTATION", "SUBSCRIPTION", "FIELD", "FRAGMENT_DEFINITION", "FRAGMENT_SPREAD", "INLINE_FRAGMENT"}

type schemaGen struct {
	r       *hx.Rand
	d       *SchemaDesc
	leafs   []string // scalar and enum type names usable as output and input
	inputs  []string // input object type names generated so far
	objects []string
	ifaces  []string
	unions  []string
}

func (g *schemaGen) wrapOut(t *TypeRef) *TypeRef {
	switch g.r.Intn(8) {
	case 0:
		return NonNull(t)
	case 1:
		return ListOf(t)
	case 2:
		return NonNull(ListOf(NonNull(t)))
	case 3:
		return ListOf(NonNull(t))
	}
	return t
}

func (g *schemaGen) wrapIn(t *TypeRef) *TypeRef {
	switch g.r.Intn(10) {
	case 0, 1:
		return NonNull(t)
	case 2:
		return ListOf(t)
	case 3:
		return NonNull(ListOf(NonNull(t)))
	case 4:
		return ListOf(NonNull(t))
	case 5:
		// nested list types (seed C04-13: a variable one list level too shallow)
		switch g.r.Intn(6) {
		case 0, 1:
			return ListOf(ListOf(t))
		case 2:
			return NonNull(ListOf(ListOf(t)))
		case 3:
			return ListOf(ListOf(NonNull(t)))
		case 4:
			return ListOf(NonNull(ListOf(t)))
		default:
			return ListOf(ListOf(ListOf(t)))
		}
	}
	return t
}

// inputType draws an input type; maxInput bounds the index of input object types that may be used
// (required fields never refer to their own or a later input type, so values always exist).
func (g *schemaGen) inputType(maxInput int) *TypeRef {
	if maxInput > 0 && g.r.Chance(2, 5) {
		return g.wrapIn(Named(g.inputs[g.r.Intn(maxInput)]))
	}
	return g.wrapIn(Named(hx.Pick(g.r, g.leafs)))
}

func (g *schemaGen) inputDef(name string, maxInput int) InputDesc {
	t := g.inputType(maxInput)
	in := InputDesc{Name: name, Type: t}
	isObj := false
	for _, n := range g.inputs {
		if n == t.Base() {
			isObj = true
		}
	}
	switch {
	case !isObj && g.r.Chance(1, 4):
		in.Default = "value"
	case !t.IsNonNull() && g.r.Chance(1, 8):
		in.Default = "null"
	}
	return in
}

func (g *schemaGen) args(maxN int) []InputDesc {
	n := 0
	if g.r.Chance(1, 2) {
		n = g.r.Range(1, maxN)
	}
	pool := []string{"x", "y", "z", "w"}
	hx.Shuffle(g.r, pool)
	out := []InputDesc{}
	for i := 0; i < n; i++ {
		out = append(out, g.inputDef(pool[i], len(g.inputs)))
	}
	return out
}

func (g *schemaGen) outputType() *TypeRef {
	comps := append(append(append([]string{}, g.objects...), g.ifaces...), g.unions...)
	if len(comps) > 0 && g.r.Chance(1, 2) {
		return g.wrapOut(Named(hx.Pick(g.r, comps)))
	}
	return g.wrapOut(Named(hx.Pick(g.r, g.leafs)))
}

func (g *schemaGen) fieldsFor(pool []string, n int, taken map[string]bool) []FieldDesc {
	out := []FieldDesc{}
	names := append([]string{}, pool...)
	hx.Shuffle(g.r, names)
	for _, nm := range names {
		if len(out) >= n {
			break
		}
		if taken[nm] {
			continue
		}
		taken[nm] = true
		out = append(out, FieldDesc{Name: nm, Type: g.outputType(), Args: g.args(3)})
	}
	return out
}

func genSchema(r *hx.Rand) *SchemaDesc {
	g := &schemaGen{r: r, d: &SchemaDesc{}}
	d := g.d
	g.leafs = []string{"Int", "Float", "String", "Boolean", "ID"}
	// enums
	for i, n := 0, r.Range(1, 2); i < n; i++ {
		vals := []string{"A", "B", "C", "D"}
		hx.Shuffle(r, vals)
		name := fmt.Sprintf("E%d", i)
		d.Types = append(d.Types, TypeDesc{Kind: "enum", Name: name, Values: vals[:r.Range(1, 3)]})
		g.leafs = append(g.leafs, name)
	}
	// custom scalar
	if r.Chance(1, 2) {
		// the literal kinds its LiteralCoercion accepts; "list" / "object": a JSON-like scalar whose
		// literals may hold anything, variables included (F-04g)
		kinds := []string{"int", "float", "string", "bool", "enum", "list", "object"}
		hx.Shuffle(r, kinds)
		acc := kinds[:r.Range(1, 4)]
		if r.Chance(1, 3) {
			acc = append([]string{hx.Pick(r, []string{"list", "object"})}, acc...)
			if acc[1] == acc[0] {
				acc = acc[1:]
			}
			for i := 2; i < len(acc); i++ {
				if acc[i] == acc[0] {
					acc = append(acc[:i], acc[i+1:]...)
					break
				}
			}
		}
		d.Types = append(d.Types, TypeDesc{Kind: "scalar", Name: "S0", Accepts: acc})
		g.leafs = append(g.leafs, "S0")
	}
	// input objects
	for i, n := 0, r.Range(1, 3); i < n; i++ {
		name := fmt.Sprintf("I%d", i)
		pool := []string{"a", "b", "c", "l", "o"}
		hx.Shuffle(r, pool)
		t := TypeDesc{Kind: "input", Name: name}
		for _, fn := range pool[:r.Range(1, 4)] {
			in := g.inputDef(fn, i)
			t.InputFields = append(t.InputFields, in)
		}
		// occasionally an optional self / forward reference (nullable, so values stay finite)
		if r.Chance(1, 3) {
			t.InputFields = append(t.InputFields, InputDesc{Name: "self", Type: hx.Pick(r, []*TypeRef{Named(name), ListOf(Named(name)), ListOf(NonNull(Named(name)))})})
		}
		d.Types = append(d.Types, t)
		g.inputs = append(g.inputs, name)
	}
	// names first, so that fields can refer to any composite type
	nObj, nIf, nUn := r.Range(1, 4), r.Range(0, 2), r.Range(0, 2)
	for i := 0; i < nObj; i++ {
		g.objects = append(g.objects, fmt.Sprintf("O%d", i))
	}
	g.objects = append(g.objects, "Query")
	withMutation, withSub := r.Chance(1, 2), r.Chance(2, 3)
	subIsQuery := withSub && r.Chance(1, 4)
	if withMutation {
		g.objects = append(g.objects, "Mutation")
	}
	if withSub && !subIsQuery {
		g.objects = append(g.objects, "Subscription")
	}
	for i := 0; i < nIf; i++ {
		g.ifaces = append(g.ifaces, fmt.Sprintf("N%d", i))
	}
	for i := 0; i < nUn; i++ {
		g.unions = append(g.unions, fmt.Sprintf("U%d", i))
	}
	fieldPool := []string{"a", "b", "c", "d", "e", "f", "g"}
	ifaceFields := map[string][]FieldDesc{}
	for _, n := range g.ifaces {
		fs := g.fieldsFor(fieldPool, r.Range(1, 3), map[string]bool{})
		ifaceFields[n] = fs
		d.Types = append(d.Types, TypeDesc{Kind: "interface", Name: n, Fields: fs})
	}
	implements := map[string][]string{}
	for _, n := range g.objects {
		t := TypeDesc{Kind: "object", Name: n}
		taken := map[string]bool{}
		for _, in := range g.ifaces {
			if !r.Chance(1, 2) {
				continue
			}
			ok := true
			for _, f := range ifaceFields[in] {
				if taken[f.Name] {
					ok = false // a field of that name with another signature is already there
				}
			}
			if !ok {
				continue
			}
			t.Interfaces = append(t.Interfaces, in)
			implements[in] = append(implements[in], n)
			for _, f := range ifaceFields[in] {
				taken[f.Name] = true
				nf := FieldDesc{Name: f.Name, Type: f.Type, Args: append([]InputDesc{}, f.Args...)}
				if !nf.Type.IsNonNull() && r.Chance(1, 4) {
					nf.Type = NonNull(nf.Type) // covariant: T! is a subtype of T
				}
				if r.Chance(1, 5) {
					// an extra, optional argument is allowed on the implementation
					nf.Args = append(nf.Args, InputDesc{Name: "v", Type: Named("Int")})
				}
				t.Fields = append(t.Fields, nf)
			}
		}
		t.Fields = append(t.Fields, g.fieldsFor(fieldPool, r.Range(2, 4), taken)...)
		if len(t.Fields) == 0 {
			t.Fields = append(t.Fields, FieldDesc{Name: "a", Type: Named("Int")})
		}
		d.Types = append(d.Types, t)
	}
	for _, n := range g.unions {
		ms := append([]string{}, g.objects[:nObj]...)
		hx.Shuffle(r, ms)
		d.Types = append(d.Types, TypeDesc{Kind: "union", Name: n, Members: ms[:r.Range(1, len(ms))]})
	}
	// Boolean and String are always referenced by the user schema: the introspection types use
	// them, but `namedType` only resolves built-in scalars that the schema itself mentions (a
	// variable of type Boolean in a schema that never mentions Boolean is "unknown type"; both
	// sides of this check agree on that, the generator just avoids relying on it).
	if q := d.typ("Query"); q != nil {
		q.Fields = append(q.Fields, FieldDesc{Name: "ok", Type: Named("Boolean"), Args: []InputDesc{{Name: "flag", Type: Named("Boolean")}, {Name: "note", Type: Named("String")}}})
	}
	d.Query = "Query"
	if withMutation {
		d.Mutation = "Mutation"
	}
	if withSub {
		d.Subscription = "Subscription"
		if subIsQuery {
			d.Subscription = "Query"
		}
	}
	// features: hide a few own (non-interface) fields, and sometimes a whole object type that only
	// hidden fields refer to.
	if r.Chance(1, 2) {
		for ti := range d.Types {
			t := &d.Types[ti]
			if t.Kind != "object" || len(t.Fields) < 2 {
				continue
			}
			inIface := map[string]bool{}
			for _, in := range t.Interfaces {
				for _, f := range ifaceFields[in] {
					inIface[f.Name] = true
				}
			}
			for fi := 1; fi < len(t.Fields); fi++ {
				if !inIface[t.Fields[fi].Name] && r.Chance(1, 4) {
					t.Fields[fi].Features = []string{"fx"}
				}
			}
		}
		if r.Chance(2, 3) {
			h := TypeDesc{Kind: "object", Name: "H0", Features: []string{"fx"},
				Fields: []FieldDesc{{Name: "h", Type: Named("String")}}}
			// sometimes the hidden type implements an interface (possible types follow the request's
			// features since b106873): it is then a possible type only when "fx" is enabled
			// (and, with two interfaces, sometimes both: then it may be their only common
			// implementation, and a spread of one inside the other hinges on the feature)
			if len(g.ifaces) > 0 && r.Chance(2, 3) {
				taken := map[string]bool{"h": true}
				for _, in := range g.ifaces {
					if len(h.Interfaces) > 0 && !r.Chance(2, 3) {
						continue
					}
					clash := false
					for _, f := range ifaceFields[in] {
						if taken[f.Name] {
							clash = true
						}
					}
					if clash {
						continue
					}
					h.Interfaces = append(h.Interfaces, in)
					for _, f := range ifaceFields[in] {
						taken[f.Name] = true
						h.Fields = append(h.Fields, FieldDesc{Name: f.Name, Type: f.Type, Args: append([]InputDesc{}, f.Args...)})
					}
				}
			}
			d.Types = append(d.Types, h)
			q := d.typ("Query")
			q.Fields = append(q.Fields, FieldDesc{Name: "hidden", Type: Named("H0"), Features: []string{"fx"}})
		}
	}
	// directives
	if r.Chance(9, 10) {
		d.Directives = append(d.Directives, DirectiveDesc{Name: "skip", Locations: []string{"FIELD", "FRAGMENT_SPREAD", "INLINE_FRAGMENT"}, Args: []InputDesc{{Name: "if", Type: NonNull(Named("Boolean"))}}})
		d.Directives = append(d.Directives, DirectiveDesc{Name: "include", Locations: []string{"FIELD", "FRAGMENT_SPREAD", "INLINE_FRAGMENT"}, Args: []InputDesc{{Name: "if", Type: NonNull(Named("Boolean"))}}})
	}
	for i, n := 0, r.Range(0, 3); i < n; i++ {
		locs := append([]string{}, execLocations...)
		hx.Shuffle(r, locs)
		dd := DirectiveDesc{Name: fmt.Sprintf("d%d", i), Locations: locs[:r.Range(1, 4)]}
		if r.Chance(1, 2) {
			pool := []string{"x", "y", "if"}
			hx.Shuffle(r, pool)
			for _, an := range pool[:r.Range(1, 2)] {
				dd.Args = append(dd.Args, g.inputDef(an, len(g.inputs)))
			}
		}
		d.Directives = append(d.Directives, dd)
	}
	return d
}
