package main

// The parsed document (real parser, real AST) as the S-expression of lean/ApiFu/C04/Wire.lean.

import (
	"fmt"

	"github.com/ccbrown/api-fu/graphql/ast"
	"github.com/ccbrown/api-fu/graphql/token"

	"verifharness/hx"
)

func posAtom(p token.Position) hx.Sexp { return hx.A(fmt.Sprintf("%d:%d", p.Line, p.Column)) }

func valueSexp(v ast.Value) hx.Sexp {
	switch v := v.(type) {
	case *ast.Variable:
		return hx.N("var", hx.A(v.Name.Name), posAtom(v.Position()))
	case *ast.IntValue:
		return hx.N("int", hx.A(v.Value), posAtom(v.Position()))
	case *ast.FloatValue:
		return hx.N("float", hx.A(v.Value), posAtom(v.Position()))
	case *ast.StringValue:
		return hx.N("str", hx.A(v.Value), posAtom(v.Position()))
	case *ast.BooleanValue:
		return hx.N("bool", hx.B(v.Value), posAtom(v.Position()))
	case *ast.NullValue:
		return hx.N("null", posAtom(v.Position()))
	case *ast.EnumValue:
		return hx.N("enum", hx.A(v.Value), posAtom(v.Position()))
	case *ast.ListValue:
		out := []hx.Sexp{hx.A("list"), posAtom(v.Position())}
		for _, it := range v.Values {
			out = append(out, valueSexp(it))
		}
		return hx.L(out...)
	case *ast.ObjectValue:
		out := []hx.Sexp{hx.A("obj"), posAtom(v.Position())}
		for _, f := range v.Fields {
			out = append(out, hx.L(hx.A(f.Name.Name), posAtom(f.Position()), valueSexp(f.Value)))
		}
		return hx.L(out...)
	}
	panic(fmt.Sprintf("unexpected value %T", v))
}

func argsSexp(args []*ast.Argument) []hx.Sexp {
	out := []hx.Sexp{}
	for _, a := range args {
		out = append(out, hx.L(hx.A(a.Name.Name), posAtom(a.Position()), valueSexp(a.Value)))
	}
	return out
}

func dirsSexp(dirs []*ast.Directive) hx.Sexp {
	out := []hx.Sexp{}
	for _, d := range dirs {
		out = append(out, hx.L(append([]hx.Sexp{hx.A(d.Name.Name), posAtom(d.Position())}, argsSexp(d.Arguments)...)...))
	}
	return hx.L(out...)
}

func optName(n *ast.Name) hx.Sexp {
	if n == nil {
		return hx.A("-")
	}
	return hx.L(hx.A(n.Name), posAtom(n.Position()))
}

func selSetSexp(ss *ast.SelectionSet) hx.Sexp {
	out := []hx.Sexp{hx.A("ss"), posAtom(ss.Position())}
	for _, s := range ss.Selections {
		switch s := s.(type) {
		case *ast.Field:
			sub := hx.A("-")
			if s.SelectionSet != nil {
				sub = selSetSexp(s.SelectionSet)
			}
			out = append(out, hx.N("field", optName(s.Alias), hx.A(s.Name.Name), posAtom(s.Name.Position()),
				hx.L(argsSexp(s.Arguments)...), dirsSexp(s.Directives), sub))
		case *ast.FragmentSpread:
			out = append(out, hx.N("spread", hx.A(s.FragmentName.Name), posAtom(s.FragmentName.Position()), posAtom(s.Position()), dirsSexp(s.Directives)))
		case *ast.InlineFragment:
			tc := hx.A("-")
			if s.TypeCondition != nil {
				tc = hx.L(hx.A(s.TypeCondition.Name.Name), posAtom(s.TypeCondition.Position()))
			}
			out = append(out, hx.N("inline", tc, posAtom(s.Position()), dirsSexp(s.Directives), selSetSexp(s.SelectionSet)))
		default:
			panic(fmt.Sprintf("unexpected selection %T", s))
		}
	}
	return hx.L(out...)
}

func typeSexp(t ast.Type) hx.Sexp {
	switch t := t.(type) {
	case *ast.NamedType:
		return hx.N("named", hx.A(t.Name.Name), posAtom(t.Position()))
	case *ast.ListType:
		return hx.N("listt", posAtom(t.Position()), typeSexp(t.Type))
	case *ast.NonNullType:
		return hx.N("nonnull", typeSexp(t.Type))
	}
	panic(fmt.Sprintf("unexpected type %T", t))
}

func docSexp(doc *ast.Document) hx.Sexp {
	out := []hx.Sexp{hx.A("doc")}
	for _, def := range doc.Definitions {
		switch def := def.(type) {
		case *ast.OperationDefinition:
			kind := hx.A("-")
			if def.OperationType != nil {
				kind = hx.L(hx.A(def.OperationType.Value), posAtom(def.OperationType.Position()))
			}
			vars := []hx.Sexp{}
			for _, v := range def.VariableDefinitions {
				dv := hx.A("-")
				if v.DefaultValue != nil {
					dv = valueSexp(v.DefaultValue)
				}
				vars = append(vars, hx.L(hx.A(v.Variable.Name.Name), posAtom(v.Variable.Position()), posAtom(v.Variable.Name.Position()), typeSexp(v.Type), dv))
			}
			out = append(out, hx.N("op", kind, optName(def.Name), hx.L(vars...), dirsSexp(def.Directives), selSetSexp(def.SelectionSet)))
		case *ast.FragmentDefinition:
			out = append(out, hx.N("frag", hx.A(def.Name.Name), posAtom(def.Name.Position()), hx.A(def.TypeCondition.Name.Name),
				posAtom(def.TypeCondition.Position()), posAtom(def.Position()), dirsSexp(def.Directives), selSetSexp(def.SelectionSet)))
		default:
			panic(fmt.Sprintf("unexpected definition %T", def))
		}
	}
	return hx.L(out...)
}
