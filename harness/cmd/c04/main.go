// Harness for C04 — the validator accepts exactly the documents the GraphQL validation rules allow.
//
// Real side: parser.ParseDocument + validator.ValidateDocument (what graphql.ParseAndValidate runs)
// against a real *schema.Schema built from a generated description. Lean side (driver c04model):
// the June-2018 validation rules as a decidable specification (Spec.valid / Spec.violated) and the
// model of the validator as written (all errors, with alternatives where Go map iteration picks).
//
// Streams: (a) valid-by-construction documents, (b) one rule-targeted mutation of such a document,
// kept only if the Lean specification says the targeted rule is violated, (c) every case validated
// three times and twice more against the same schema rebuilt in shuffled definition order.
//
// Oracles on the implementation's own output (model-free apart from the specification's verdict):
//
//	accept  <=> Spec.valid;  reject => >= 1 error, every error located, every location inside the
//	text;  no panic;  identical verdict (and identical primary non-merge errors) on all five runs.
//
// Correspondence: the model's verdict and canonical multiset of (message, locations) against the
// implementation's, with membership where the model lists alternatives.
package main

import (
	"bytes"
	"encoding/json"
	"flag"
	"fmt"
	"os"
	"os/exec"
	"runtime/debug"
	"sort"
	"strings"
	"sync"
	"syscall"
	"time"

	"github.com/ccbrown/api-fu/graphql/ast"
	"github.com/ccbrown/api-fu/graphql/parser"
	"github.com/ccbrown/api-fu/graphql/schema"
	"github.com/ccbrown/api-fu/graphql/validator"

	"verifharness/hx"
)

// Case is one evaluated input (and the replay format).
type Case struct {
	Schema      *SchemaDesc `json:"schema"`
	Features    []string    `json:"features,omitempty"`
	Query       string      `json:"query"`
	Stream      string      `json:"stream"`         // valid | mut:<mutation> | corpus
	Rule        string      `json:"rule,omitempty"` // rule the mutation aims at
	ShuffleSeed uint64      `json:"shuffle_seed"`
	Note        string      `json:"note,omitempty"`
	// History: validations performed on the same long-lived schema object before this case
	// (replay of a history-dependence failure).
	History []HistStep `json:"history,omitempty"`

	gdoc *GDoc // generated cases only (used for shrinking)
}

// HistStep is one earlier validation on a long-lived schema object.
type HistStep struct {
	Query    string   `json:"query"`
	Features []string `json:"features,omitempty"`
}

type obsErr struct {
	Msg  string
	Locs [][2]int
}

func (e obsErr) key() string { return fmt.Sprintf("%s @%v", e.Msg, e.Locs) }

// verdict of one validation run
type realRun struct {
	Panic string
	Errs  []obsErr
	// CostRoute: this run attached the cost rule (see costroute.go); Adequate: every variable the
	// chosen operation requires was supplied, so the rule has no request-level reason to complain.
	CostRoute bool   `json:",omitempty"`
	Adequate  bool   `json:",omitempty"`
	Request   string `json:",omitempty"`
}

func (r realRun) accepted() bool { return r.Panic == "" && len(r.Errs) == 0 }

func (r realRun) canon() []string {
	out := []string{}
	for _, e := range r.Errs {
		out = append(out, e.key())
	}
	sort.Strings(out)
	return out
}

func validateOnce(doc *ast.Document, s *schema.Schema, fs schema.FeatureSet, rules ...validator.Rule) (out realRun) {
	defer func() {
		if p := recover(); p != nil {
			out = realRun{Panic: fmt.Sprint(p)}
		}
	}()
	for _, e := range validator.ValidateDocument(doc, s, fs, rules...) {
		oe := obsErr{Msg: e.Message}
		for _, l := range e.Locations {
			oe.Locs = append(oe.Locs, [2]int{l.Line, l.Column})
		}
		out.Errs = append(out.Errs, oe)
	}
	return out
}

// isMergeClass: errors produced by the overlapping-fields pass, where map iteration decides which
// of several errors is reported.
func isMergeClass(msg string) bool {
	return strings.HasPrefix(msg, "cannot merge") || msg == "non-composite fields of the same name must be the same"
}

func isSecondaryMsg(msg string) bool {
	return strings.HasPrefix(msg, "no type info") || msg == "cycle detected" || strings.HasSuffix(msg, "argument cannot be null")
}

// stable is the part of the observable that may not vary between runs.
func (r realRun) stable() string {
	if r.Panic != "" {
		return "panic"
	}
	if len(r.Errs) == 0 {
		return "accept"
	}
	keep := []string{}
	for _, e := range r.Errs {
		if !isMergeClass(e.Msg) && !isSecondaryMsg(e.Msg) && e.Msg != "undefined fragment" && e.Msg != "undefined directive" {
			keep = append(keep, e.key())
		}
	}
	sort.Strings(keep)
	return "reject " + strings.Join(keep, " | ")
}

// locationsInside checks that every error has a location and every location lies inside the text.
func locationsInside(query string, errs []obsErr) string {
	lines := splitLines(query)
	for _, e := range errs {
		if len(e.Locs) == 0 {
			return fmt.Sprintf("error %q has no location", e.Msg)
		}
		for _, l := range e.Locs {
			if l[0] < 1 || l[0] > len(lines) || l[1] < 1 || l[1] > len([]rune(lines[l[0]-1]))+1 {
				return fmt.Sprintf("error %q: location %d:%d is outside the document (%d lines)", e.Msg, l[0], l[1], len(lines))
			}
		}
	}
	return ""
}

// splitLines splits on the GraphQL line terminators (\n, \r\n, \r).
func splitLines(s string) []string {
	var out []string
	cur := strings.Builder{}
	rs := []rune(s)
	for i := 0; i < len(rs); i++ {
		switch rs[i] {
		case '\r':
			if i+1 < len(rs) && rs[i+1] == '\n' {
				i++
			}
			out = append(out, cur.String())
			cur.Reset()
		case '\n':
			out = append(out, cur.String())
			cur.Reset()
		default:
			cur.WriteRune(rs[i])
		}
	}
	return append(out, cur.String())
}

// ---- the Lean side -----------------------------------------------------------------------------

type altErr struct {
	obsErr
	Secondary bool
}

// slot is one error the model says is reported; several alternatives = Go's map iteration picks one.
type slot struct{ Alts []altErr }

type leanReply struct {
	Raw       string
	SpecValid bool
	Violated  []string
	HasModel  bool
	ModelFuel bool   // the model ran out of fuel (it predicts unbounded recursion)
	Slots     []slot // model: all errors before the primary/secondary filter
	HasHyp    bool
	HypBad    []string // input hypotheses of the assembly theorems that fail for this case
}

func parseReply(raw string) (leanReply, error) {
	out := leanReply{Raw: raw}
	x, err := hx.ParseSexp(raw)
	if err != nil || !x.IsList || len(x.List) < 2 || x.List[0].Atom != "r" {
		return out, fmt.Errorf("unexpected driver reply %q", raw)
	}
	for _, part := range x.List[1:] {
		if !part.IsList || len(part.List) < 2 {
			return out, fmt.Errorf("unexpected driver reply %q", raw)
		}
		switch part.List[0].Atom {
		case "spec":
			out.SpecValid = part.List[1].Atom == "valid"
			for _, r := range part.List[2:] {
				out.Violated = append(out.Violated, r.Atom)
			}
		case "hyp":
			out.HasHyp = true
			if part.List[1].Atom != "ok" {
				for _, r := range part.List[2:] {
					out.HypBad = append(out.HypBad, r.Atom)
				}
				if len(out.HypBad) == 0 {
					out.HypBad = []string{"?"}
				}
			}
		case "model":
			out.HasModel = true
			out.ModelFuel = part.List[1].Atom == "fuel"
			for _, s := range part.List[2:] {
				var sl slot
				for _, a := range s.List[1:] {
					ae := altErr{Secondary: a.List[0].Atom == "x"}
					ae.Msg = a.List[1].Atom
					for _, l := range a.List[2:] {
						var ln, col int
						fmt.Sscanf(l.Atom, "%d:%d", &ln, &col)
						ae.Locs = append(ae.Locs, [2]int{ln, col})
					}
					sl.Alts = append(sl.Alts, ae)
				}
				out.Slots = append(out.Slots, sl)
			}
		}
	}
	return out, nil
}

func (l leanReply) violates(rule string) bool {
	for _, r := range l.Violated {
		if r == rule {
			return true
		}
	}
	return false
}

// assign finds an injective assignment of every error in errs to a slot that lists it among its
// allowed alternatives (augmenting paths). It returns slot index per error, or nil.
func assign(errs []obsErr, slots []slot, allowed func(altErr) bool) []int {
	owner := make([]int, len(slots)) // slot -> error index
	for i := range owner {
		owner[i] = -1
	}
	fits := func(ei, si int) bool {
		for _, a := range slots[si].Alts {
			if allowed(a) && a.key() == errs[ei].key() {
				return true
			}
		}
		return false
	}
	var try func(ei int, seen []bool) bool
	try = func(ei int, seen []bool) bool {
		for si := range slots {
			if seen[si] || !fits(ei, si) {
				continue
			}
			seen[si] = true
			if owner[si] < 0 || try(owner[si], seen) {
				owner[si] = ei
				return true
			}
		}
		return false
	}
	for ei := range errs {
		if !try(ei, make([]bool, len(slots))) {
			return nil
		}
	}
	out := make([]int, len(errs))
	for si, ei := range owner {
		if ei >= 0 {
			out[ei] = si
		}
	}
	return out
}

// matchSlots: can the implementation's error list be explained by the model? The model lists all
// errors before the filter of validator.go:82-91 (primary errors if there are any, else all); a
// slot with several alternatives yields exactly one of them. Exact multiset comparison otherwise.
func matchSlots(real []obsErr, slots []slot) string {
	hasSecondary := func(s slot) bool {
		for _, a := range s.Alts {
			if a.Secondary {
				return true
			}
		}
		return false
	}
	hasPrimary := func(s slot) bool {
		for _, a := range s.Alts {
			if !a.Secondary {
				return true
			}
		}
		return false
	}
	// (A) at least one primary error is picked: the result is exactly the primary picks
	explainA := func() string {
		idx := assign(real, slots, func(a altErr) bool { return !a.Secondary })
		if idx == nil {
			return "an implementation error is not among the model's primary errors"
		}
		if len(real) == 0 {
			return "no primary error"
		}
		used := map[int]bool{}
		for _, si := range idx {
			used[si] = true
		}
		for si, sl := range slots {
			if !used[si] && !hasSecondary(sl) {
				return "a primary error of the model is not reported by the implementation: " + sl.Alts[0].key()
			}
		}
		return ""
	}
	// (B) no primary error is picked: every slot yields a secondary alternative
	explainB := func() string {
		for _, sl := range slots {
			if !hasSecondary(sl) {
				return "the model has a primary error"
			}
		}
		if len(real) != len(slots) {
			return fmt.Sprintf("implementation reports %d errors, model %d (all secondary)", len(real), len(slots))
		}
		if assign(real, slots, func(a altErr) bool { return a.Secondary }) == nil {
			return "an implementation error is not among the model's secondary errors"
		}
		return ""
	}
	anyPrimary := false
	for _, sl := range slots {
		if hasPrimary(sl) {
			anyPrimary = true
		}
	}
	if !anyPrimary {
		return explainB()
	}
	a := explainA()
	if a == "" {
		return ""
	}
	if b := explainB(); b == "" {
		return ""
	}
	return a
}

// ---- evaluation --------------------------------------------------------------------------------

type harness struct {
	run        *hx.Run
	model      *hx.Model
	lastSchema string
	muts       []mutation
	reported   map[string]int
}

type failure struct {
	kind string // crash | property | correspondence | harness
	what string
	cls  string // class used while shrinking ("same failure")
}

type evaluated struct {
	parseErr string
	runs     []realRun
	lean     *leanReply
	fail     *failure
}

func (h *harness) leanLines(c *Case, b *built, doc *ast.Document) []string {
	fs := schema.NewFeatureSet(c.Features...)
	sline := b.view(fs).sexp().String()
	var lines []string
	if sline != h.lastSchema {
		lines = append(lines, sline)
		h.lastSchema = sline
	}
	return append(lines, hx.N("check", docSexp(doc)).String())
}

// judge applies the oracles and the correspondence to one case whose real runs and Lean reply are known.
func judge(c *Case, ev *evaluated) {
	all := ev.runs
	var cost *realRun
	if n := len(all); n > 0 && all[n-1].CostRoute {
		cost = &all[n-1]
		all = all[:n-1]
	}
	first := all[0]
	for i, r := range all {
		if r.Panic != "" {
			ev.fail = &failure{"crash", fmt.Sprintf("validator panicked (run %d): %s", i, r.Panic), "crash:" + r.Panic}
			return
		}
	}
	for i, r := range all[1:] {
		if r.stable() != first.stable() {
			which := "repeat"
			if i+1 >= 3 {
				which = "shuffled schema"
			}
			ev.fail = &failure{"property", fmt.Sprintf("verdict is not a function of document and schema: run 0 gives %q, run %d (%s) gives %q", first.stable(), i+1, which, r.stable()), "nondeterministic"}
			return
		}
	}
	if !first.accepted() {
		if msg := locationsInside(c.Query, first.Errs); msg != "" {
			ev.fail = &failure{"property", "rejected, but " + msg, "location"}
			return
		}
	}
	if cost != nil {
		const route = "the route that attaches the cost rule (ParseAndValidate with Request.ValidateCost and no limit, as the apifu HTTP and WebSocket handlers do; "
		switch {
		case cost.Panic != "":
			ev.fail = &failure{"crash", "validator panicked on " + route + cost.Request + "): " + cost.Panic, "cost-route"}
			return
		case first.accepted() && !cost.accepted() && cost.Adequate:
			ev.fail = &failure{"property", fmt.Sprintf("document is accepted by the validation rules alone but rejected on %s%s): %v", route, cost.Request, cost.canon()), "cost-route"}
			return
		case !first.accepted() && cost.stable() != first.stable():
			ev.fail = &failure{"property", fmt.Sprintf("%s%s) gives %q, the validation rules alone give %q", route, cost.Request, cost.stable(), first.stable()), "cost-route"}
			return
		}
	}
	if ev.lean == nil {
		return
	}
	switch {
	case ev.lean.SpecValid && !first.accepted():
		ev.fail = &failure{"property", fmt.Sprintf("document satisfies every validation rule (Lean specification) but is rejected: %v", first.canon()), "valid-rejected:" + first.Errs[0].Msg}
		return
	case !ev.lean.SpecValid && first.accepted():
		ev.fail = &failure{"property", fmt.Sprintf("document violates %v (Lean specification) but is accepted", ev.lean.Violated), "violating-accepted:" + strings.Join(ev.lean.Violated, ",")}
		return
	}
	if ev.lean.HasModel {
		if ev.lean.ModelFuel {
			ev.fail = &failure{"correspondence", "the model ran out of fuel (it predicts unbounded recursion) but the implementation answered " + first.stable(), "corr-fuel"}
			return
		}
		for i, r := range all {
			if msg := matchSlots(r.Errs, ev.lean.Slots); msg != "" {
				ev.fail = &failure{"correspondence", fmt.Sprintf("model and implementation disagree (run %d): %s; implementation %v; model %s", i, msg, r.canon(), ev.lean.Raw), "corr"}
				return
			}
		}
	}
}

// Limits are in CPU time, not wall time: on a loaded machine a process may not be scheduled for a
// long while, and that must not look like a validation that does not terminate.
const isolatedCPUSeconds = 30         // RLIMIT_CPU of the child process
const isolatedWall = 10 * time.Minute // only a backstop
const inProcessCPU = 90 * time.Second // CPU time one in-process case may consume

func cpuTime() time.Duration {
	var ru syscall.Rusage
	if syscall.Getrusage(syscall.RUSAGE_SELF, &ru) != nil {
		return 0
	}
	return time.Duration(ru.Utime.Nano() + ru.Stime.Nano())
}

// watchdog: an in-process validation that keeps consuming CPU without returning is reported with
// its input (the main goroutine is stuck inside the validator then and does not touch the run).
var watch struct {
	sync.Mutex
	c     *Case
	since time.Duration // process CPU time when the case started
}

func (h *harness) startWatchdog() {
	go func() {
		for {
			time.Sleep(time.Second)
			watch.Lock()
			c, since := watch.c, watch.since
			watch.Unlock()
			if c != nil && cpuTime()-since > inProcessCPU {
				h.run.Violate("property", fmt.Sprintf("validation did not finish within %v of CPU time (no verdict)", inProcessCPU), "", false, c)
				h.run.Finish(nil)
				os.Exit(0)
			}
		}
	}()
}

var childMode = flag.Bool("child", false, "internal: read one case (JSON) on stdin, print its validation runs (JSON)")

// prepare builds both schemas and parses the document.
func prepare(c *Case) (a, b *built, doc *ast.Document, parseErr string, err error) {
	a, err = c.Schema.build(nil)
	if err != nil {
		return nil, nil, nil, "", fmt.Errorf("schema rejected: %v", err)
	}
	b, err = c.Schema.build(hx.NewRand(c.ShuffleSeed))
	if err != nil {
		return nil, nil, nil, "", fmt.Errorf("shuffled schema rejected: %v", err)
	}
	doc, perrs := parser.ParseDocument([]byte(c.Query))
	if len(perrs) > 0 {
		return a, b, nil, perrs[0].Message, nil
	}
	return a, b, doc, "", nil
}

// validateAll: three runs on the schema as described, two on the schema rebuilt in shuffled order.
func validateAll(c *Case, a, b *built, doc *ast.Document) []realRun {
	fs := schema.NewFeatureSet(c.Features...)
	var runs []realRun
	for i := 0; i < 3; i++ {
		runs = append(runs, validateOnce(doc, a.s, fs))
	}
	// a fresh parse for the shuffled schema: nothing may be cached on the AST
	doc2, _ := parser.ParseDocument([]byte(c.Query))
	for i := 0; i < 2; i++ {
		runs = append(runs, validateOnce(doc2, b.s, fs))
	}
	// sixth run: the route apifu's handlers take (the cost rule attached, no limit)
	runs = append(runs, validateCostRoute(c, a, fs))
	return runs
}

// validateIsolated runs the case in a child process: a Go stack overflow is a fatal error that no
// recover() catches. Used for documents with fragment cycles (where unbounded recursion is possible).
func validateIsolated(c *Case) []realRun {
	runs, ok := validateInChild(c)
	if ok {
		return runs
	}
	// the child could not be started or could not set the case up (resource limits of the
	// machine, not the validator): validate in-process rather than report a crash that did not happen
	a, b, doc, perr, err := prepare(c)
	if err != nil || perr != "" {
		return []realRun{{}, {}, {}, {}, {}}
	}
	return validateAll(c, a, b, doc)
}

// validateInChild returns ok=false when the child process itself could not do its job.
func validateInChild(c *Case) ([]realRun, bool) {
	in, _ := json.Marshal(c)
	cmd := exec.Command(os.Args[0], "-child")
	cmd.Stdin = bytes.NewReader(in)
	var out, errb bytes.Buffer
	cmd.Stdout = &out
	cmd.Stderr = &errb
	err := cmd.Start()
	timedOut := false
	if err == nil {
		done := make(chan error, 1)
		go func() { done <- cmd.Wait() }()
		select {
		case err = <-done:
		case <-time.After(isolatedWall):
			cmd.Process.Kill()
			err = <-done
			timedOut = true
		}
		if ee, ok := err.(*exec.ExitError); ok && !timedOut {
			if ws, ok := ee.Sys().(syscall.WaitStatus); ok && ws.Signaled() && (ws.Signal() == syscall.SIGXCPU || ws.Signal() == syscall.SIGKILL) {
				used := cmd.ProcessState.UserTime() + cmd.ProcessState.SystemTime()
				if used >= (isolatedCPUSeconds-2)*time.Second {
					timedOut = true // the CPU limit
				} else if ws.Signal() == syscall.SIGKILL {
					return nil, false // killed by the machine (memory pressure …), not by the validator
				}
			}
		}
	}
	var runs []realRun
	if err == nil && json.Unmarshal(out.Bytes(), &runs) == nil && len(runs) >= 5 {
		return runs, true
	}
	if cmd.ProcessState == nil {
		return nil, false // never started
	}
	if ee, ok := err.(*exec.ExitError); ok && ee.ExitCode() == 3 {
		return nil, false // the child could not decode / prepare the case
	}
	msg := "validator killed the process"
	if timedOut {
		msg = fmt.Sprintf("validation did not finish within %d s of CPU time", isolatedCPUSeconds)
	}
	for _, l := range strings.Split(errb.String(), "\n") {
		if strings.HasPrefix(l, "fatal error:") || strings.HasPrefix(l, "panic:") {
			msg += ": " + l
			break
		}
	}
	return []realRun{{Panic: msg}, {Panic: msg}, {Panic: msg}, {Panic: msg}, {Panic: msg}}, true
}

func childMain() {
	debug.SetMaxStack(48 << 20)
	syscall.Setrlimit(syscall.RLIMIT_CPU, &syscall.Rlimit{Cur: isolatedCPUSeconds, Max: isolatedCPUSeconds + 5})
	var c Case
	if err := json.NewDecoder(os.Stdin).Decode(&c); err != nil {
		os.Exit(3)
	}
	a, b, doc, perr, err := prepare(&c)
	if err != nil || perr != "" {
		os.Exit(3)
	}
	json.NewEncoder(os.Stdout).Encode(validateAll(&c, a, b, doc))
}

// evalOne evaluates a single case interactively (replay, corpus, shrinking).
func (h *harness) evalOne(c *Case) (*evaluated, error) {
	a, b, doc, perr, err := prepare(c)
	if err != nil {
		return nil, err
	}
	ev := &evaluated{parseErr: perr}
	if perr != "" {
		return ev, nil
	}
	if h.model != nil {
		lines := h.leanLines(c, a, doc)
		replies, err := h.model.AskAll(lines)
		if err != nil {
			return nil, err
		}
		if len(lines) == 2 && replies[0] != "ok" {
			return nil, fmt.Errorf("driver rejected the schema: %s", replies[0])
		}
		lr, err := parseReply(replies[len(replies)-1])
		if err != nil {
			return nil, err
		}
		ev.lean = &lr
	}
	ev.runs = h.runReal(c, a, b, doc, ev.lean)
	judge(c, ev)
	return ev, nil
}

// runReal validates in-process, or in a child process when the document has fragment cycles (or,
// without the Lean side, whenever it has fragments at all).
func (h *harness) runReal(c *Case, a, b *built, doc *ast.Document, lean *leanReply) []realRun {
	risky := false
	if lean != nil {
		risky = lean.violates("noFragmentCycles")
	} else {
		risky = strings.Contains(c.Query, "fragment")
	}
	if risky || c.Stream == "corpus" {
		h.run.Count("isolated-in-child-process")
		return validateIsolated(c)
	}
	watch.Lock()
	watch.c, watch.since = c, cpuTime()
	watch.Unlock()
	runs := validateAll(c, a, b, doc)
	watch.Lock()
	watch.c = nil
	watch.Unlock()
	return runs
}

func features(q string) map[string]bool {
	f := map[string]bool{}
	f["spread"] = strings.Contains(q, "fragment ")
	f["inline"] = strings.Contains(q, "... on") || strings.Contains(q, "...{") || strings.Contains(q, "... {") || strings.Contains(q, "...@") || strings.Contains(q, "... @")
	f["variable"] = strings.Contains(q, "$")
	f["directive"] = strings.Contains(q, "@")
	f["alias"] = false
	f["introspection"] = strings.Contains(q, "__schema") || strings.Contains(q, "__type(") || strings.Contains(q, "__typename")
	return f
}

func (h *harness) record(c *Case, ev *evaluated) {
	run := h.run
	run.Count("stream:" + strings.SplitN(c.Stream, ":", 2)[0])
	if ev.parseErr != "" {
		run.Count("gen:parse-error")
		return
	}
	kept := true
	nontrivial := false
	if ev.lean != nil {
		if c.Stream == "valid" {
			if !ev.lean.SpecValid {
				run.Count("gen:valid-stream-but-spec-invalid")
				if os.Getenv("C04_DEBUG") != "" {
					sj, _ := json.Marshal(c.Schema)
					fmt.Fprintf(os.Stderr, "GEN-INVALID %v: %s\n   impl: %v\n   schema: %s\n", ev.lean.Violated, c.gdoc.print(nil), ev.runs[0].canon(), sj)
				}
				for _, r := range ev.lean.Violated {
					run.Count("gen:valid-stream-violates:" + r)
				}
			}
			n := 0
			for k, on := range features(c.Query) {
				if on {
					n++
					run.Count("doc-feature:" + k)
				}
			}
			nontrivial = n >= 2
			if c.gdoc != nil {
				if c.gdoc.Respelled > 0 {
					run.Count("doc-feature:overlapping-fields-with-respelled-string-arguments")
				}
				if lits, vars := c.gdoc.scalarLiteralShape(); lits > 0 {
					run.Count("doc-feature:list-or-object-literal-for-custom-scalar")
					if vars > 0 {
						run.Count("doc-feature:variable-inside-custom-scalar-literal")
					}
				}
			}
		} else if strings.HasPrefix(c.Stream, "mut:") {
			if ev.lean.violates(c.Rule) {
				run.Count("mutation-kept:" + c.Stream[4:])
				run.Count("rule-violated:" + c.Rule)
				nontrivial = true
				if strings.Contains(c.Note, "deep") {
					run.Count("mutation-deep-beneath-args-or-directives")
				}
			} else {
				run.Count("mutation-discarded-by-spec:" + c.Stream[4:])
				kept = false
			}
		}
		if ev.lean.SpecValid {
			run.Count("spec:valid")
		} else {
			run.Count("spec:invalid")
			run.Count(fmt.Sprintf("spec:violated-rules:%d", len(ev.lean.Violated)))
		}
	}
	if len(ev.runs) > 0 {
		if ev.runs[0].accepted() {
			run.Count("impl:accept")
		} else {
			run.Count("impl:reject")
			for _, e := range ev.runs[0].Errs {
				m := e.Msg
				if i := strings.IndexAny(m, "0123456789"); i > 0 && len(m) > 40 {
					m = m[:40]
				}
				run.Count("impl-error:" + classOf(m))
			}
		}
	}
	run.Case(hx.Hash(c.Query)+hx.Hash(fmt.Sprint(c.Features))+schemaHash(c.Schema), nontrivial)
	_ = kept
}

var schemaHashes = map[*SchemaDesc]string{}

func schemaHash(d *SchemaDesc) string {
	if h, ok := schemaHashes[d]; ok {
		return h
	}
	b, _ := json.Marshal(d)
	h := hx.Hash(string(b))
	schemaHashes[d] = h
	return h
}

// classOf maps a message to its class (names and types abstracted).
func classOf(m string) string {
	for _, p := range []string{"field ", "the ", "cannot coerce to "} {
		if strings.HasPrefix(m, p) {
			switch {
			case strings.Contains(m, "does not exist on"):
				return "field does not exist"
			case strings.HasSuffix(m, "argument is required"):
				return "argument is required"
			case strings.HasSuffix(m, "field is required"):
				return "input field is required"
			case strings.HasSuffix(m, "argument cannot be null"):
				return "argument cannot be null"
			case strings.HasPrefix(m, "cannot coerce to "):
				return "cannot coerce"
			}
		}
	}
	switch {
	case strings.HasSuffix(m, "must have a subselection"):
		return "must have a subselection"
	case strings.HasSuffix(m, "cannot have a subselection"):
		return "cannot have a subselection"
	case strings.HasSuffix(m, "is not an input type"):
		return "is not an input type"
	case strings.HasPrefix(m, "field does not exist on"):
		return "input field does not exist"
	}
	return m
}

func (h *harness) oblige(c *Case, ev *evaluated) {
	run := h.run
	fk := ""
	if ev.fail != nil {
		fk = ev.fail.kind
	}
	if len(ev.runs) == 0 {
		return
	}
	run.Oblige("oracle: no panic; >=1 located error on rejection, every location inside the text", "oracle", 1, !(fk == "crash" || (ev.fail != nil && ev.fail.cls == "location")), failWhat(ev))
	run.Oblige("oracle: verdict identical over 3 runs and 2 runs on the schema rebuilt in shuffled order", "oracle", 1, !(ev.fail != nil && ev.fail.cls == "nondeterministic"), failWhat(ev))
	if n := len(ev.runs); ev.runs[n-1].CostRoute {
		run.Oblige("oracle: with the cost rule attached (no limit, the variables the operation requires supplied, defaults left to apply) validation gives the verdict and the errors of the validation rules alone", "oracle", 1, !(ev.fail != nil && ev.fail.cls == "cost-route"), failWhat(ev))
		if ev.runs[n-1].Adequate {
			run.Count("cost-route:variables-adequate")
		}
	}
	if ev.lean != nil {
		bad := ev.fail != nil && (strings.HasPrefix(ev.fail.cls, "valid-rejected") || strings.HasPrefix(ev.fail.cls, "violating-accepted"))
		if ev.lean.SpecValid {
			run.Oblige("oracle: Spec.valid => accepted (valid-by-construction stream and every other Spec-valid case)", "oracle", 1, !bad, failWhat(ev))
		} else {
			run.Oblige("oracle: Spec.violates r => rejected (rule-targeted mutations guarded by the Lean specification)", "oracle", 1, !bad, failWhat(ev))
		}
		// rule groups whose model = spec theorem is not proved yet: decided by the differential alone
		for _, g := range differentialGroups {
			touches := ev.lean.SpecValid
			for _, r := range ev.lean.Violated {
				if g.rules[r] {
					touches = true
				}
			}
			if !touches {
				continue
			}
			groupBad := false
			if bad {
				for _, r := range ev.lean.Violated {
					if g.rules[r] {
						groupBad = true
					}
				}
				if ev.lean.SpecValid && len(ev.runs) > 0 && len(ev.runs[0].Errs) > 0 && g.msg(ev.runs[0].Errs[0].Msg) {
					groupBad = true
				}
			}
			run.Oblige("rule group "+g.name+" (differential only): implementation verdict vs the Lean specification's rule, no model = spec theorem yet", "oracle", 1, !groupBad, failWhat(ev))
		}
		if ev.lean.HasHyp {
			run.Oblige("hypotheses of the assembly and verdict theorems hold for the case (InputOk2: Schema.wf, wfDefaults, typesProper, argDefsUnique; selection sets and field nodes have pairwise distinct positions)", "assumption", 1, len(ev.lean.HypBad) == 0, "failed: "+strings.Join(ev.lean.HypBad, ", ")+" on query "+c.Query)
		}
		if ev.lean.HasModel {
			run.Oblige("correspondence: model verdict + multiset of (message, locations) = implementation's (membership for map-iteration picks)", "correspondence", 1, fk != "correspondence", failWhat(ev))
		}
	}
}

type ruleGroup struct {
	name  string
	rules map[string]bool
	msg   func(string) bool
}

// Every rule group has its model = spec theorem now (overlapping fields: model_merge_eq_spec).
var differentialGroups = []ruleGroup{}

func failWhat(ev *evaluated) string {
	if ev.fail == nil {
		return ""
	}
	return ev.fail.what
}

// ---- shrinking ---------------------------------------------------------------------------------

func (h *harness) shrink(c *Case, ev *evaluated) (*Case, *evaluated) {
	if c.gdoc == nil {
		return c, ev
	}
	cls := ev.fail.cls
	cur, curEv := c, ev
	budget := 250
	try := func(d *GDoc) bool {
		if budget <= 0 {
			return false
		}
		budget--
		nc := *cur
		nc.gdoc = d
		nc.Query = d.print(nil)
		nev, err := h.evalOne(&nc)
		if err != nil || nev.parseErr != "" || nev.fail == nil || nev.fail.cls != cls {
			return false
		}
		cur, curEv = &nc, nev
		return true
	}
	// first: the compact one-line rendering
	try(cur.gdoc.clone())
	for changed := true; changed && budget > 0; {
		changed = false
		// drop definitions
		for i := range cur.gdoc.Defs {
			d := cur.gdoc.clone()
			d.Defs = append(d.Defs[:i], d.Defs[i+1:]...)
			if len(d.Defs) > 0 && try(d) {
				changed = true
				break
			}
		}
		if changed {
			continue
		}
		// drop selections / sub-selections / arguments / directives / variables
		n := len(cur.gdoc.selectionsNoView())
		for i := 0; i < n && !changed; i++ {
			for _, op := range []string{"drop", "leaf", "args", "dirs", "hoist"} {
				d := cur.gdoc.clone()
				refs := d.selectionsNoView()
				if i >= len(refs) {
					break
				}
				s := refs[i]
				x := s.sel()
				switch op {
				case "drop":
					if len(*s.list) < 2 {
						continue
					}
					*s.list = append((*s.list)[:s.idx], (*s.list)[s.idx+1:]...)
				case "leaf":
					if len(x.Sels) < 2 {
						continue
					}
					x.Sels = x.Sels[:1]
				case "args":
					if len(x.Args) == 0 {
						continue
					}
					x.Args = x.Args[:len(x.Args)-1]
				case "dirs":
					if len(x.Dirs) == 0 {
						continue
					}
					x.Dirs = x.Dirs[:len(x.Dirs)-1]
				case "hoist":
					if x.Kind != "inline" || x.TypeCond != "" || len(x.Dirs) > 0 {
						continue
					}
					*s.list = append(append(append([]*GSel{}, (*s.list)[:s.idx]...), x.Sels...), (*s.list)[s.idx+1:]...)
				}
				if try(d) {
					changed = true
					break
				}
			}
		}
		if changed {
			continue
		}
		for di := range cur.gdoc.Defs {
			for vi := range cur.gdoc.Defs[di].Vars {
				d := cur.gdoc.clone()
				d.Defs[di].Vars = append(d.Defs[di].Vars[:vi], d.Defs[di].Vars[vi+1:]...)
				if try(d) {
					changed = true
					break
				}
			}
			if changed {
				break
			}
			if len(cur.gdoc.Defs[di].Dirs) > 0 {
				d := cur.gdoc.clone()
				d.Defs[di].Dirs = d.Defs[di].Dirs[1:]
				if try(d) {
					changed = true
					break
				}
			}
		}
	}
	return cur, curEv
}

func (d *GDoc) selectionsNoView() []selRef {
	return d.selections(&View{})
}

// ---- findings ----------------------------------------------------------------------------------

// classify attaches the key of an open known finding to a (shrunk) failing case. Narrow on purpose.
func classify(c *Case, ev *evaluated) string {
	return ""
}

func (h *harness) report(c *Case, ev *evaluated) {
	// hx keeps three violations per kind; do not spend time shrinking more than that
	if h.reported == nil {
		h.reported = map[string]int{}
	}
	h.reported[ev.fail.kind]++
	if h.reported[ev.fail.kind] > 3 {
		h.run.Violate(ev.fail.kind, ev.fail.what, classify(c, ev), ev.fail.kind == "correspondence", c)
		return
	}
	sc, sev := h.shrink(c, ev)
	key := classify(sc, sev)
	noInput := sev.fail.kind == "correspondence"
	sc.Note = strings.TrimSpace(sc.Note + " " + sev.fail.what)
	h.run.Violate(sev.fail.kind, sev.fail.what, key, noInput, sc)
}

func (h *harness) process(c *Case, ev *evaluated) {
	h.record(c, ev)
	if ev.parseErr != "" {
		return
	}
	h.oblige(c, ev)
	if ev.fail != nil {
		h.report(c, ev)
	}
}

// ---- history: the verdict must not depend on what was validated before on the same schema object --

// onLive validates the history and then the case on one long-lived schema object and returns the
// case's run.
func onLive(c *Case, history []HistStep) (realRun, error) {
	live, err := c.Schema.build(nil)
	if err != nil {
		return realRun{}, err
	}
	for _, st := range history {
		if doc, perrs := parser.ParseDocument([]byte(st.Query)); len(perrs) == 0 {
			validateOnce(doc, live.s, schema.NewFeatureSet(st.Features...))
		}
	}
	doc, perrs := parser.ParseDocument([]byte(c.Query))
	if len(perrs) > 0 {
		return realRun{}, fmt.Errorf("does not parse")
	}
	return validateOnce(doc, live.s, schema.NewFeatureSet(c.Features...)), nil
}

// historyFailure compares the case validated after `history` on a long-lived schema with the case on
// a fresh one.
func historyFailure(c *Case, fresh realRun, history []HistStep) *failure {
	got, err := onLive(c, history)
	if err != nil {
		return nil
	}
	if got.stable() != fresh.stable() {
		return &failure{"property", fmt.Sprintf("verdict depends on what was validated before on the same schema object: on a fresh schema %q, after %d earlier validations %q", fresh.stable(), len(history), got.stable()), "history"}
	}
	return nil
}

// historyPass re-validates the evaluated cases of one schema on long-lived schema objects, in
// several orders (batch order then reverse; with-feature cases first; without-feature cases first),
// each result being compared with the one obtained on a fresh schema.
func (h *harness) historyPass(cases []*Case, fresh []realRun) {
	if len(cases) < 2 {
		return
	}
	idx := func(pred func(*Case) bool) []int {
		var out []int
		for i, c := range cases {
			if pred(c) {
				out = append(out, i)
			}
		}
		return out
	}
	all := idx(func(*Case) bool { return true })
	rev := append([]int{}, all...)
	for i, j := 0, len(rev)-1; i < j; i, j = i+1, j-1 {
		rev[i], rev[j] = rev[j], rev[i]
	}
	with := idx(func(c *Case) bool { return len(c.Features) > 0 })
	without := idx(func(c *Case) bool { return len(c.Features) == 0 })
	orders := [][]int{append(append([]int{}, all...), rev...)}
	if len(with) > 0 && len(without) > 0 {
		orders = append(orders, append(append([]int{}, with...), without...), append(append([]int{}, without...), with...))
		h.run.Count("history:schemas-with-both-feature-sets")
	}
	for _, order := range orders {
		live, err := cases[0].Schema.build(nil)
		if err != nil {
			return
		}
		var hist []HistStep
		for _, i := range order {
			c := cases[i]
			doc, perrs := parser.ParseDocument([]byte(c.Query))
			if len(perrs) > 0 {
				continue
			}
			got := validateOnce(doc, live.s, schema.NewFeatureSet(c.Features...))
			ok := got.stable() == fresh[i].stable()
			h.run.Oblige("oracle: verdict and errors on a long-lived schema object (after other documents and other feature sets, several orders) = those on a fresh schema", "oracle", 1, ok, "history dependence")
			if !ok {
				// shrink the history: drop steps while the difference persists
				cur := append([]HistStep{}, hist...)
				budget := 300
				for changed := true; changed && budget > 0; {
					changed = false
					for k := range cur {
						budget--
						cand := append(append([]HistStep{}, cur[:k]...), cur[k+1:]...)
						if historyFailure(c, fresh[i], cand) != nil {
							cur, changed = cand, true
							break
						}
						if budget <= 0 {
							break
						}
					}
				}
				f := historyFailure(c, fresh[i], cur)
				if f == nil {
					f = &failure{"property", "verdict depends on what was validated before on the same schema object", "history"}
				}
				rc := *c
				rc.History = cur
				rc.Note = f.what
				h.run.Violate("property", f.what, "", false, &rc)
				return
			}
			hist = append(hist, HistStep{Query: c.Query, Features: c.Features})
		}
	}
}

// selfTest feeds the comparison deliberately wrong Lean answers for one rejected corpus case and
// expects them to be reported: a dropped model error must give a correspondence failure, a flipped
// specification verdict a property failure.
func (h *harness) selfTest() {
	if h.model == nil {
		return
	}
	files := h.run.CorpusFiles()
	for _, f := range files {
		var c Case
		if hx.LoadReplayCase(f, &c) != nil || c.Schema == nil {
			continue
		}
		c.Stream = "corpus"
		ev, err := h.evalOne(&c)
		if err != nil || ev.parseErr != "" || ev.fail != nil || ev.lean == nil || !ev.lean.HasModel || len(ev.lean.Slots) == 0 {
			continue
		}
		// (1) drop one model error
		t1 := *ev
		l1 := *ev.lean
		l1.Slots = l1.Slots[1:]
		t1.lean, t1.fail = &l1, nil
		judge(&c, &t1)
		ok1 := t1.fail != nil && t1.fail.kind == "correspondence"
		// (2) flip the specification's verdict
		t2 := *ev
		l2 := *ev.lean
		l2.SpecValid = !l2.SpecValid
		t2.lean, t2.fail = &l2, nil
		judge(&c, &t2)
		ok2 := t2.fail != nil && t2.fail.kind == "property"
		h.run.Oblige("self-test: a wrong model answer / a flipped specification verdict is reported by the comparison", "oracle", 2, ok1 && ok2, fmt.Sprintf("dropped model error reported: %v; flipped verdict reported: %v (%s)", ok1, ok2, f))
		if !(ok1 && ok2) {
			h.run.Violate("harness", "self-test of the comparison failed", "", true, &c)
		}
		return
	}
	h.run.Note("self-test skipped: no rejected corpus case available")
}

// ---- main --------------------------------------------------------------------------------------

func printReplay(c *Case, ev *evaluated) {
	fmt.Printf("replay: stream=%s rule=%s features=%v\nquery: %s\n", c.Stream, c.Rule, c.Features, c.Query)
	if ev.parseErr != "" {
		fmt.Printf("parse error: %s\n", ev.parseErr)
		return
	}
	for i, r := range ev.runs {
		fmt.Printf("implementation run %d: panic=%q errors=%v\n", i, r.Panic, r.canon())
	}
	if ev.lean != nil {
		fmt.Printf("lean: %s\n", ev.lean.Raw)
	}
	if ev.fail != nil {
		fmt.Printf("failure: kind=%s %s\n", ev.fail.kind, ev.fail.what)
	} else {
		fmt.Println("no failure")
	}
}

func main() {
	for _, a := range os.Args[1:] {
		if a == "-child" || a == "--child" {
			childMain()
			return
		}
	}
	run := hx.Init("C04")
	h := &harness{run: run, muts: append(mutations(), kindMutations()...)}
	if run.ModelPath != "" {
		m, err := hx.StartModel(run.ModelPath)
		if err != nil {
			fmt.Fprintln(os.Stderr, "cannot start model:", err)
			os.Exit(2)
		}
		h.model = m
		defer m.Close()
	}
	h.startWatchdog()
	run.SetRule("cases = (generated schema, feature set, document); documents are generated valid-by-construction (type-directed: fragments reached along several paths, aliases, identical overlapping fields, variables in nested input positions, directives with literals and variables, introspection fields, abstract types with fragments) and then optionally mutated by one of 30 rule-targeted mutations; distinct = distinct (schema, features, document text); non-trivial = a valid document using at least two of {fragment spread, inline fragment, variable, directive, introspection field}, or a mutant whose targeted rule the Lean specification reports as violated")

	if run.Replay != "" {
		var sn struct {
			Definition *NDef `json:"definition"`
		}
		if hx.LoadReplayCase(run.Replay, &sn) == nil && sn.Definition != nil {
			// a case of the schema.New stream (schemanew.go)
			var st snStats
			fmt.Printf("replay: schema.New stream, step %s\ndefinition: %s\n", sn.Definition.Mutation_, sn.Definition.sexp())
			h.runSchemaNew(sn.Definition, &st)
			fmt.Printf("real schema.New: accepted=%d rejected=%d; model/description failures: %q %q %q %q\n", st.accepted, st.rejected, st.failVerdict, st.failDesc, st.failIntro, st.failHyp)
			st.oblige(run)
			run.Finish(h.model)
			return
		}
		var c Case
		if err := hx.LoadReplayCase(run.Replay, &c); err != nil {
			fmt.Fprintln(os.Stderr, err)
			os.Exit(2)
		}
		ev, err := h.evalOne(&c)
		if err != nil {
			fmt.Fprintln(os.Stderr, "replay failed:", err)
			os.Exit(2)
		}
		if len(c.History) > 0 && ev.fail == nil && len(ev.runs) > 0 {
			ev.fail = historyFailure(&c, ev.runs[0], c.History)
			got, _ := onLive(&c, c.History)
			fmt.Printf("after %d earlier validations on the same schema object: %v\n", len(c.History), got.canon())
		}
		printReplay(&c, ev)
		if ev.fail != nil {
			run.Violate(ev.fail.kind, ev.fail.what, classify(&c, ev), ev.fail.kind == "correspondence", &c)
		}
		run.Finish(h.model)
		return
	}

	h.selfTest()
	var snst snStats
	for _, f := range run.CorpusFiles() {
		var sn struct {
			Definition *NDef `json:"definition"`
		}
		if hx.LoadReplayCase(f, &sn) == nil && sn.Definition != nil {
			// a hand-picked schema definition (schema.New stream)
			h.runSchemaNew(sn.Definition, &snst)
			run.Count("corpus-definitions")
			continue
		}
		var c Case
		if err := hx.LoadReplayCase(f, &c); err != nil || c.Schema == nil {
			run.Note("corpus file %s unreadable: %v", f, err)
			continue
		}
		c.Stream = "corpus"
		ev, err := h.evalOne(&c)
		if err != nil {
			run.Note("corpus file %s: %v", f, err)
			run.Violate("harness", fmt.Sprintf("corpus case %s cannot be evaluated: %v", f, err), "", true, &c)
			continue
		}
		if ev.parseErr != "" {
			run.Violate("harness", fmt.Sprintf("corpus case %s does not parse: %s", f, ev.parseErr), "", true, &c)
			continue
		}
		run.Count("corpus")
		h.process(&c, ev)
	}

	snSteps := illSteps()
	nSchemas := run.Scale(360, 8000)
	docsPerSchema := run.Scale(14, 16)
	mutsPerDoc := run.Scale(4, 6)
	for si := 0; si < nSchemas; si++ {
		sr := run.Rand.Fork()
		sd := genSchema(sr)
		a, err := sd.build(nil)
		if err != nil {
			run.Count("gen:schema-rejected")
			run.Note("generated schema rejected by schema.New: %v", err)
			continue
		}
		run.Count("schemas")
		h.schemaNewStream(sr.Fork(), sd, run.Scale(6, 8), &snst, snSteps)
		featSets := [][]string{nil}
		hasFx := false
		for _, t := range sd.Types {
			if len(t.Features) > 0 {
				hasFx = true
			}
			for _, f := range t.Fields {
				if len(f.Features) > 0 {
					hasFx = true
				}
			}
		}
		if hasFx {
			featSets = append(featSets, []string{"fx"})
			run.Count("schemas-with-features")
		}
		var batch []*Case
		for di := 0; di < docsPerSchema; di++ {
			r := sr.Fork()
			feats := hx.Pick(r, featSets)
			v := a.view(schema.NewFeatureSet(feats...))
			gd := genDoc(r, v, r.Range(3, 22))
			var layout *hx.Rand
			if r.Chance(2, 3) {
				layout = r.Fork()
			}
			base := &Case{Schema: sd, Features: feats, Query: gd.print(layout), Stream: "valid", ShuffleSeed: r.Uint64(), gdoc: gd}
			batch = append(batch, base)
			for mi := 0; mi < mutsPerDoc; mi++ {
				m := hx.Pick(r, h.muts)
				md := gd.clone()
				mr := r.Fork()
				if !m.f(mr, v, md) {
					run.Count("mutation-not-applicable:" + m.name)
					continue
				}
				var ml *hx.Rand
				if r.Chance(2, 3) {
					ml = r.Fork()
				}
				batch = append(batch, &Case{Schema: sd, Features: feats, Query: md.print(ml), Stream: "mut:" + m.name, Rule: m.rule, ShuffleSeed: r.Uint64(), gdoc: md})
			}
		}
		h.runBatch(batch)
		if si < 2 && len(batch) > 1 {
			run.Sample(map[string]any{"stream": batch[0].Stream, "query": batch[0].Query, "features": batch[0].Features})
			run.Sample(map[string]any{"stream": batch[1].Stream, "rule": batch[1].Rule, "query": batch[1].Query})
		}
	}
	snst.oblige(run)
	run.Finish(h.model)
}

const driverTimeout = 400 * time.Second // wall time; a batch normally takes well under a second

// askAll is AskAll with a time limit: a specification or model evaluation that does not come back
// is reported (with the batch that was being evaluated) instead of stalling the whole check.
func (h *harness) askAll(lines []string, batch []*Case) ([]string, error) {
	type res struct {
		r   []string
		err error
	}
	ch := make(chan res, 1)
	go func() {
		r, err := h.model.AskAll(lines)
		ch <- res{r, err}
	}()
	select {
	case x := <-ch:
		return x.r, x.err
	case <-time.After(driverTimeout):
		qs := []string{}
		for _, c := range batch {
			qs = append(qs, c.Query)
		}
		h.run.Violate("harness", fmt.Sprintf("the Lean driver did not answer a batch of %d requests within %v", len(lines), driverTimeout), "", true,
			map[string]any{"schema": batch[0].Schema, "queries": qs})
		h.run.Finish(nil)
		os.Exit(0)
	}
	return nil, nil
}

// runBatch evaluates a batch: one pipelined exchange with the driver, then the real runs.
func (h *harness) runBatch(batch []*Case) {
	type item struct {
		c      *Case
		ev     *evaluated
		a, b   *built
		doc    *ast.Document
		reply  int // index of the reply line (-1: none)
		schema int // index of the reply to a schema line sent for this item (-1: none)
	}
	var items []item
	var lines []string
	var histCases []*Case
	var histFresh []realRun
	for _, c := range batch {
		a, b, doc, perr, err := prepare(c)
		if err != nil {
			h.run.Note("case cannot be evaluated: %v", err)
			h.run.Count("gen:case-error")
			continue
		}
		it := item{c: c, ev: &evaluated{parseErr: perr}, a: a, b: b, doc: doc, reply: -1, schema: -1}
		if perr == "" && h.model != nil {
			ls := h.leanLines(c, a, doc)
			if len(ls) == 2 {
				it.schema = len(lines)
			}
			lines = append(lines, ls...)
			it.reply = len(lines) - 1
		}
		items = append(items, it)
	}
	var replies []string
	if h.model != nil && len(lines) > 0 {
		var err error
		if f := os.Getenv("C04_DUMP"); f != "" {
			if fh, e := os.OpenFile(f, os.O_APPEND|os.O_CREATE|os.O_WRONLY, 0o644); e == nil {
				for _, l := range lines {
					fh.WriteString(l + "\n")
				}
				fh.Close()
			}
		}
		replies, err = h.askAll(lines, batch)
		if err != nil {
			fmt.Fprintln(os.Stderr, "model driver failed:", err)
			h.run.Violate("harness", "model driver failed: "+err.Error(), "", true, nil)
			h.run.Finish(h.model)
			os.Exit(0)
		}
	}
	for _, it := range items {
		if it.schema >= 0 && replies[it.schema] != "ok" {
			h.run.Violate("harness", "driver rejected the schema description: "+replies[it.schema], "", true, it.c)
			continue
		}
		if it.reply >= 0 {
			lr, err := parseReply(replies[it.reply])
			if err != nil {
				h.run.Violate("harness", err.Error(), "", true, it.c)
				continue
			}
			it.ev.lean = &lr
		}
		if it.ev.parseErr == "" {
			it.ev.runs = h.runReal(it.c, it.a, it.b, it.doc, it.ev.lean)
			judge(it.c, it.ev)
		}
		h.process(it.c, it.ev)
		if it.ev.parseErr == "" && it.ev.fail == nil && len(it.ev.runs) > 0 && it.ev.runs[0].Panic == "" &&
			!(it.ev.lean != nil && it.ev.lean.violates("noFragmentCycles")) {
			histCases = append(histCases, it.c)
			histFresh = append(histFresh, it.ev.runs[0])
		}
	}
	h.historyPass(histCases, histFresh)
}
