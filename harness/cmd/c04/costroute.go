// The second route into the validator: apifu's HTTP and WebSocket handlers validate every request
// with graphql.ParseAndValidate(query, schema, features, req.ValidateCost(-1, ...)) — the validation
// rules plus the cost rule without a limit. Without a limit the cost rule reports nothing of its
// own (only secondary errors when it cannot do its job), so a document must be accepted on this
// route exactly when the validation rules alone accept it, and a rejected document must come back
// with the same (primary) errors. Seed C04-11 broke this in a helper of the cost rule.
package main

import (
	"fmt"
	"hash/fnv"
	"sort"
	"strings"

	"github.com/ccbrown/api-fu/graphql/ast"
	"github.com/ccbrown/api-fu/graphql/parser"
	"github.com/ccbrown/api-fu/graphql/schema"
	"github.com/ccbrown/api-fu/graphql/validator"

	"verifharness/hx"
)

// costFunction is given to most fields of a built schema (which ones is a function of the field's
// name alone, so that rebuilt schemas agree): it looks at its arguments and returns a constant.
func costFunctionFor(fieldName string) func(schema.FieldCostContext) schema.FieldCost {
	h := fnv.New32a()
	h.Write([]byte(fieldName))
	if h.Sum32()%4 == 0 {
		return nil // the default cost applies
	}
	return func(ctx schema.FieldCostContext) schema.FieldCost {
		n := 0
		for range ctx.Arguments {
			n++
		}
		return schema.FieldCost{Resolver: 1 + n%2}
	}
}

// sampleVariableValue: a value that coerces to t (as a request would carry it after JSON decoding).
func sampleVariableValue(t schema.Type, depth int) (interface{}, bool) {
	if depth > 8 {
		return nil, false
	}
	switch t := t.(type) {
	case *schema.NonNullType:
		return sampleVariableValue(t.Type, depth+1)
	case *schema.ListType:
		if depth%2 == 0 {
			return []interface{}{}, true
		}
		item, ok := sampleVariableValue(t.Type, depth+1)
		if !ok {
			return []interface{}{}, true
		}
		return []interface{}{item}, true
	case *schema.ScalarType:
		switch t.Name {
		case "Int":
			return 1, true
		case "Float":
			return 1.5, true
		case "String":
			return "s", true
		case "Boolean":
			return true, true
		case "ID":
			return "id", true
		}
		return 1, true // the harness's custom scalars accept any variable value
	case *schema.EnumType:
		var names []string
		for n := range t.Values {
			names = append(names, n)
		}
		if len(names) == 0 {
			return nil, false
		}
		sort.Strings(names)
		return names[0], true
	case *schema.InputObjectType:
		out := map[string]interface{}{}
		for name, f := range t.Fields {
			if schema.IsNonNullType(f.Type) && f.DefaultValue == nil {
				v, ok := sampleVariableValue(f.Type, depth+1)
				if !ok {
					return nil, false
				}
				out[name] = v
			}
		}
		return out, true
	}
	return nil, false
}

func resolveASTType(t ast.Type, s *schema.Schema, fs schema.FeatureSet) schema.Type {
	switch t := t.(type) {
	case *ast.ListType:
		if inner := resolveASTType(t.Type, s, fs); inner != nil {
			return schema.NewListType(inner)
		}
	case *ast.NonNullType:
		if inner := resolveASTType(t.Type, s, fs); inner != nil {
			return schema.NewNonNullType(inner)
		}
	case *ast.NamedType:
		if nt := s.NamedTypes()[t.Name.Name]; nt != nil && nt.TypeRequiredFeatures().IsSubsetOf(fs) {
			return nt
		}
		if b, ok := builtinScalars[t.Name.Name]; ok {
			return b
		}
	}
	return nil
}

// validateCostRoute validates the case with the cost rule attached. The operation and the variable
// values are a function of the query text (replays reproduce them): the operation is the only one,
// or one of the named ones; every variable it requires (non-null type, no default) gets a value,
// variables with a default are mostly left out so that the default applies, the others are
// supplied now and then.
func validateCostRoute(c *Case, a *built, fs schema.FeatureSet) realRun {
	doc, perrs := parser.ParseDocument([]byte(c.Query))
	if len(perrs) > 0 || doc == nil {
		return realRun{CostRoute: true}
	}
	h := fnv.New64a()
	h.Write([]byte(c.Query))
	r := hx.NewRand(h.Sum64() | 1)
	var ops []*ast.OperationDefinition
	for _, d := range doc.Definitions {
		if op, ok := d.(*ast.OperationDefinition); ok {
			ops = append(ops, op)
		}
	}
	opName := ""
	var op *ast.OperationDefinition
	if len(ops) == 1 {
		op = ops[0]
		if op.Name != nil && r.Bool() {
			opName = op.Name.Name
		}
	} else if len(ops) > 1 {
		op = ops[r.Intn(len(ops))]
		if op.Name != nil {
			opName = op.Name.Name
		} else {
			op = nil
		}
	}
	adequate := op != nil
	vars := map[string]interface{}{}
	var desc []string
	if op != nil {
		for _, vd := range op.VariableDefinitions {
			t := resolveASTType(vd.Type, a.s, fs)
			required := t != nil && schema.IsNonNullType(t) && vd.DefaultValue == nil
			supply := required || (vd.DefaultValue != nil && r.Chance(1, 6)) || (vd.DefaultValue == nil && r.Chance(1, 3))
			if !supply || t == nil {
				if t == nil {
					adequate = false
				}
				continue
			}
			v, ok := sampleVariableValue(t, 0)
			if !ok {
				if required {
					adequate = false
				}
				continue
			}
			vars[vd.Variable.Name.Name] = v
			desc = append(desc, fmt.Sprintf("$%s=%v", vd.Variable.Name.Name, v))
		}
	}
	var actual int
	out := validateOnce(doc, a.s, fs, validator.ValidateCost(opName, vars, -1, &actual, schema.FieldCost{Resolver: 1}))
	out.CostRoute = true
	out.Adequate = adequate
	out.Request = fmt.Sprintf("operationName %q, variables {%s}", opName, strings.Join(desc, ", "))
	return out
}
