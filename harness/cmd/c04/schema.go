package main

// Schema descriptions: generated (SchemaDesc, JSON-serialisable so that a replay rebuilds exactly the
// same schema), built into a real *schema.Schema (optionally in shuffled definition order), and
// exported back from the real schema object as the S-expression the Lean driver reads (the view of
// the schema that one request with a given feature set has).

import (
	"fmt"
	"sort"

	"github.com/ccbrown/api-fu/graphql/ast"
	"github.com/ccbrown/api-fu/graphql/schema"
	"github.com/ccbrown/api-fu/graphql/schema/introspection"

	"verifharness/hx"
)

type TypeRef struct {
	Kind string   `json:"k"` // named | list | nonnull
	Name string   `json:"n,omitempty"`
	Of   *TypeRef `json:"of,omitempty"`
}

func Named(n string) *TypeRef     { return &TypeRef{Kind: "named", Name: n} }
func ListOf(t *TypeRef) *TypeRef  { return &TypeRef{Kind: "list", Of: t} }
func NonNull(t *TypeRef) *TypeRef { return &TypeRef{Kind: "nonnull", Of: t} }

func (t *TypeRef) String() string {
	switch t.Kind {
	case "list":
		return "[" + t.Of.String() + "]"
	case "nonnull":
		return t.Of.String() + "!"
	}
	return t.Name
}

func (t *TypeRef) Base() string {
	for t.Kind != "named" {
		t = t.Of
	}
	return t.Name
}

func (t *TypeRef) IsNonNull() bool { return t.Kind == "nonnull" }

func (t *TypeRef) Nullable() *TypeRef {
	if t.Kind == "nonnull" {
		return t.Of
	}
	return t
}

func (t *TypeRef) Equal(o *TypeRef) bool {
	if t.Kind != o.Kind {
		return false
	}
	if t.Kind == "named" {
		return t.Name == o.Name
	}
	return t.Of.Equal(o.Of)
}

type InputDesc struct {
	Name    string   `json:"name"`
	Type    *TypeRef `json:"type"`
	Default string   `json:"default,omitempty"` // "" | null | value
}

func (d InputDesc) Required() bool { return d.Type.IsNonNull() && d.Default == "" }

type FieldDesc struct {
	Name     string      `json:"name"`
	Type     *TypeRef    `json:"type"`
	Args     []InputDesc `json:"args,omitempty"`
	Features []string    `json:"features,omitempty"`
}

type TypeDesc struct {
	Kind        string      `json:"kind"` // scalar object interface union enum input
	Name        string      `json:"name"`
	Fields      []FieldDesc `json:"fields,omitempty"`
	Interfaces  []string    `json:"interfaces,omitempty"`
	Members     []string    `json:"members,omitempty"`
	Values      []string    `json:"values,omitempty"`
	InputFields []InputDesc `json:"input_fields,omitempty"`
	Accepts     []string    `json:"accepts,omitempty"` // custom scalar: accepted literal kinds
	Features    []string    `json:"features,omitempty"`
}

type DirectiveDesc struct {
	Name      string      `json:"name"`
	Locations []string    `json:"locations"`
	Args      []InputDesc `json:"args,omitempty"`
}

type SchemaDesc struct {
	Types        []TypeDesc      `json:"types"`
	Query        string          `json:"query"`
	Mutation     string          `json:"mutation,omitempty"`
	Subscription string          `json:"subscription,omitempty"`
	Directives   []DirectiveDesc `json:"directives"`
}

var builtinScalars = map[string]*schema.ScalarType{
	"Int": schema.IntType, "Float": schema.FloatType, "String": schema.StringType,
	"Boolean": schema.BooleanType, "ID": schema.IDType,
}

func literalKind(v ast.Value) string {
	switch v.(type) {
	case *ast.IntValue:
		return "int"
	case *ast.FloatValue:
		return "float"
	case *ast.StringValue:
		return "string"
	case *ast.BooleanValue:
		return "bool"
	case *ast.EnumValue:
		return "enum"
	case *ast.ListValue:
		return "list"
	case *ast.ObjectValue:
		return "object"
	}
	return "other"
}

// built is a real schema together with what the exporter needs to know about function-valued
// members (the literal kinds a custom scalar accepts).
type built struct {
	s       *schema.Schema
	accepts map[string][]string
}

func featureSet(fs []string) schema.FeatureSet {
	if len(fs) == 0 {
		return nil
	}
	return schema.NewFeatureSet(fs...)
}

// build constructs the real schema. When r is non-nil every definition order that the library
// could observe (map insertion order, AdditionalTypes, union members, interface lists, directive
// locations) is shuffled.
func (d *SchemaDesc) build(r *hx.Rand) (*built, error) {
	b := &built{accepts: map[string][]string{}}
	types := append([]TypeDesc{}, d.Types...)
	if r != nil {
		hx.Shuffle(r, types)
	}
	named := map[string]schema.NamedType{}
	for k, v := range builtinScalars {
		named[k] = v
	}
	for _, t := range types {
		switch t.Kind {
		case "scalar":
			acc := map[string]bool{}
			for _, k := range t.Accepts {
				acc[k] = true
			}
			b.accepts[t.Name] = append([]string{}, t.Accepts...)
			named[t.Name] = &schema.ScalarType{
				Name:             t.Name,
				RequiredFeatures: featureSet(t.Features),
				LiteralCoercion: func(v ast.Value) interface{} {
					if acc[literalKind(v)] {
						return "ok"
					}
					return nil
				},
				VariableValueCoercion: func(v interface{}) interface{} { return v },
				ResultCoercion:        func(v interface{}) interface{} { return v },
			}
		case "object":
			named[t.Name] = &schema.ObjectType{Name: t.Name, RequiredFeatures: featureSet(t.Features), IsTypeOf: func(interface{}) bool { return false }}
		case "interface":
			named[t.Name] = &schema.InterfaceType{Name: t.Name, RequiredFeatures: featureSet(t.Features)}
		case "union":
			named[t.Name] = &schema.UnionType{Name: t.Name, RequiredFeatures: featureSet(t.Features)}
		case "enum":
			vals := map[string]*schema.EnumValueDefinition{}
			vs := append([]string{}, t.Values...)
			if r != nil {
				hx.Shuffle(r, vs)
			}
			for _, v := range vs {
				vals[v] = &schema.EnumValueDefinition{Value: v}
			}
			named[t.Name] = &schema.EnumType{Name: t.Name, Values: vals, RequiredFeatures: featureSet(t.Features)}
		case "input":
			named[t.Name] = &schema.InputObjectType{Name: t.Name, RequiredFeatures: featureSet(t.Features)}
		default:
			return nil, fmt.Errorf("unknown type kind %q", t.Kind)
		}
	}
	var mk func(t *TypeRef) (schema.Type, error)
	mk = func(t *TypeRef) (schema.Type, error) {
		switch t.Kind {
		case "named":
			if nt, ok := named[t.Name]; ok {
				return nt, nil
			}
			return nil, fmt.Errorf("unknown type %q", t.Name)
		case "list":
			in, err := mk(t.Of)
			if err != nil {
				return nil, err
			}
			return schema.NewListType(in), nil
		default:
			in, err := mk(t.Of)
			if err != nil {
				return nil, err
			}
			return schema.NewNonNullType(in), nil
		}
	}
	defaultFor := func(in InputDesc) interface{} {
		switch in.Default {
		case "null":
			return schema.Null
		case "value":
			if in.Type.Nullable().Kind == "list" {
				return []interface{}{}
			}
			switch in.Type.Base() {
			case "Int":
				return 7
			case "Float":
				return 1.5
			case "Boolean":
				return true
			default:
				return "d"
			}
		}
		return nil
	}
	inputs := func(ins []InputDesc) (map[string]*schema.InputValueDefinition, error) {
		if len(ins) == 0 {
			return nil, nil
		}
		ins = append([]InputDesc{}, ins...)
		if r != nil {
			hx.Shuffle(r, ins)
		}
		out := map[string]*schema.InputValueDefinition{}
		for _, in := range ins {
			t, err := mk(in.Type)
			if err != nil {
				return nil, err
			}
			out[in.Name] = &schema.InputValueDefinition{Type: t, DefaultValue: defaultFor(in)}
		}
		return out, nil
	}
	fields := func(fs []FieldDesc) (map[string]*schema.FieldDefinition, error) {
		fs = append([]FieldDesc{}, fs...)
		if r != nil {
			hx.Shuffle(r, fs)
		}
		out := map[string]*schema.FieldDefinition{}
		for _, f := range fs {
			t, err := mk(f.Type)
			if err != nil {
				return nil, err
			}
			args, err := inputs(f.Args)
			if err != nil {
				return nil, err
			}
			out[f.Name] = &schema.FieldDefinition{Type: t, Arguments: args, RequiredFeatures: featureSet(f.Features),
				Cost:    costFunctionFor(f.Name),
				Resolve: func(schema.FieldContext) (interface{}, error) { return nil, nil }}
		}
		return out, nil
	}
	for _, t := range types {
		var err error
		switch t.Kind {
		case "object":
			o := named[t.Name].(*schema.ObjectType)
			if o.Fields, err = fields(t.Fields); err != nil {
				return nil, err
			}
			ifs := append([]string{}, t.Interfaces...)
			if r != nil {
				hx.Shuffle(r, ifs)
			}
			for _, i := range ifs {
				it, ok := named[i].(*schema.InterfaceType)
				if !ok {
					return nil, fmt.Errorf("%s is not an interface", i)
				}
				o.ImplementedInterfaces = append(o.ImplementedInterfaces, it)
			}
		case "interface":
			if named[t.Name].(*schema.InterfaceType).Fields, err = fields(t.Fields); err != nil {
				return nil, err
			}
		case "union":
			ms := append([]string{}, t.Members...)
			if r != nil {
				hx.Shuffle(r, ms)
			}
			u := named[t.Name].(*schema.UnionType)
			for _, m := range ms {
				ot, ok := named[m].(*schema.ObjectType)
				if !ok {
					return nil, fmt.Errorf("%s is not an object", m)
				}
				u.MemberTypes = append(u.MemberTypes, ot)
			}
		case "input":
			if named[t.Name].(*schema.InputObjectType).Fields, err = inputs(t.InputFields); err != nil {
				return nil, err
			}
		}
	}
	def := &schema.SchemaDefinition{Directives: map[string]*schema.DirectiveDefinition{}}
	obj := func(n string) (*schema.ObjectType, error) {
		if n == "" {
			return nil, nil
		}
		o, ok := named[n].(*schema.ObjectType)
		if !ok {
			return nil, fmt.Errorf("root %s is not an object", n)
		}
		return o, nil
	}
	var err error
	if def.Query, err = obj(d.Query); err != nil {
		return nil, err
	}
	if def.Mutation, err = obj(d.Mutation); err != nil {
		return nil, err
	}
	if def.Subscription, err = obj(d.Subscription); err != nil {
		return nil, err
	}
	dirs := append([]DirectiveDesc{}, d.Directives...)
	if r != nil {
		hx.Shuffle(r, dirs)
	}
	for _, dd := range dirs {
		args, err := inputs(dd.Args)
		if err != nil {
			return nil, err
		}
		locs := []schema.DirectiveLocation{}
		ls := append([]string{}, dd.Locations...)
		if r != nil {
			hx.Shuffle(r, ls)
		}
		for _, l := range ls {
			locs = append(locs, schema.DirectiveLocation(l))
		}
		def.Directives[dd.Name] = &schema.DirectiveDefinition{Arguments: args, Locations: locs}
	}
	for _, t := range types {
		def.AdditionalTypes = append(def.AdditionalTypes, named[t.Name])
	}
	s, err := schema.New(def)
	if err != nil {
		return nil, err
	}
	b.s = s
	return b, nil
}

// ---- the view of the real schema object that one request with feature set fs has ---------------

// View is read off the real *schema.Schema (plus the introspection types and meta fields) with
// `namedType` / `GetField` visibility applied. It is what the Lean driver is told and what the
// document generator draws from. Everything is sorted by name: it does not depend on map order.
type View struct {
	Types        []TypeDesc
	Query        string
	Mutation     string
	Subscription string
	Directives   []DirectiveDesc
	Meta         []FieldDesc
	byName       map[string]*TypeDesc
}

func (v *View) typ(n string) *TypeDesc { return v.byName[n] }

func (v *View) directive(n string) *DirectiveDesc {
	for i := range v.Directives {
		if v.Directives[i].Name == n {
			return &v.Directives[i]
		}
	}
	return nil
}

func trefOf(t schema.Type) *TypeRef {
	switch t := t.(type) {
	case *schema.ListType:
		return ListOf(trefOf(t.Type))
	case *schema.NonNullType:
		return NonNull(trefOf(t.Type))
	case schema.NamedType:
		return Named(t.TypeName())
	}
	panic(fmt.Sprintf("unexpected schema type %T", t))
}

func inputsOf(m map[string]*schema.InputValueDefinition) []InputDesc {
	names := make([]string, 0, len(m))
	for n := range m {
		names = append(names, n)
	}
	sort.Strings(names)
	out := []InputDesc{}
	for _, n := range names {
		d := m[n]
		dv := "value"
		if d.DefaultValue == nil {
			dv = ""
		} else if d.DefaultValue == schema.Null {
			dv = "null"
		}
		out = append(out, InputDesc{Name: n, Type: trefOf(d.Type), Default: dv})
	}
	return out
}

func fieldsOf(m map[string]*schema.FieldDefinition, fs schema.FeatureSet) []FieldDesc {
	names := []string{}
	for n, f := range m {
		if f.RequiredFeatures.IsSubsetOf(fs) {
			names = append(names, n)
		}
	}
	sort.Strings(names)
	out := []FieldDesc{}
	for _, n := range names {
		out = append(out, FieldDesc{Name: n, Type: trefOf(m[n].Type), Args: inputsOf(m[n].Arguments)})
	}
	return out
}

func (b *built) view(fs schema.FeatureSet) *View {
	all := map[string]schema.NamedType{}
	for n, t := range introspection.NamedTypes {
		all[n] = t
	}
	for n, t := range b.s.NamedTypes() {
		if t.TypeRequiredFeatures().IsSubsetOf(fs) {
			all[n] = t
		}
	}
	names := []string{}
	for n := range all {
		names = append(names, n)
	}
	sort.Strings(names)
	v := &View{byName: map[string]*TypeDesc{}}
	for _, n := range names {
		td := TypeDesc{Name: n}
		switch t := all[n].(type) {
		case *schema.ScalarType:
			td.Kind = "scalar"
			if bt, ok := builtinScalars[n]; !(ok && bt == t) {
				td.Accepts = append([]string{"custom"}, b.accepts[n]...)
				sort.Strings(td.Accepts[1:])
			}
		case *schema.ObjectType:
			td.Kind = "object"
			td.Fields = fieldsOf(t.Fields, fs)
			for _, i := range t.ImplementedInterfaces {
				td.Interfaces = append(td.Interfaces, i.Name)
			}
			sort.Strings(td.Interfaces)
		case *schema.InterfaceType:
			td.Kind = "interface"
			td.Fields = fieldsOf(t.Fields, fs)
		case *schema.UnionType:
			td.Kind = "union"
			for _, m := range t.MemberTypes {
				td.Members = append(td.Members, m.Name)
			}
			sort.Strings(td.Members)
		case *schema.EnumType:
			td.Kind = "enum"
			for val := range t.Values {
				td.Values = append(td.Values, val)
			}
			sort.Strings(td.Values)
		case *schema.InputObjectType:
			td.Kind = "input"
			td.InputFields = inputsOf(t.Fields)
		default:
			panic(fmt.Sprintf("unexpected named type %T", t))
		}
		v.Types = append(v.Types, td)
	}
	for i := range v.Types {
		v.byName[v.Types[i].Name] = &v.Types[i]
	}
	dnames := []string{}
	for n := range b.s.Directives() {
		dnames = append(dnames, n)
	}
	sort.Strings(dnames)
	for _, n := range dnames {
		d := b.s.Directives()[n]
		locs := []string{}
		for _, l := range d.Locations {
			locs = append(locs, string(l))
		}
		sort.Strings(locs)
		v.Directives = append(v.Directives, DirectiveDesc{Name: n, Locations: locs, Args: inputsOf(d.Arguments)})
	}
	mnames := []string{}
	for n := range introspection.MetaFields {
		mnames = append(mnames, n)
	}
	sort.Strings(mnames)
	for _, n := range mnames {
		f := introspection.MetaFields[n]
		v.Meta = append(v.Meta, FieldDesc{Name: n, Type: trefOf(f.Type), Args: inputsOf(f.Arguments)})
	}
	v.Query = b.s.QueryType().Name
	if o := b.s.MutationType(); o != nil {
		v.Mutation = o.Name
	}
	if o := b.s.SubscriptionType(); o != nil {
		v.Subscription = o.Name
	}
	return v
}

func atoms(xs []string) hx.Sexp {
	out := make([]hx.Sexp, len(xs))
	for i, x := range xs {
		out[i] = hx.A(x)
	}
	return hx.L(out...)
}

func (t *TypeRef) sexp() hx.Sexp {
	switch t.Kind {
	case "list":
		return hx.N("list", t.Of.sexp())
	case "nonnull":
		return hx.N("nn", t.Of.sexp())
	}
	return hx.A(t.Name)
}

func inputsSexp(ins []InputDesc) hx.Sexp {
	out := []hx.Sexp{}
	for _, d := range ins {
		dv := d.Default
		if dv == "" {
			dv = "none"
		}
		out = append(out, hx.L(hx.A(d.Name), d.Type.sexp(), hx.A(dv)))
	}
	return hx.L(out...)
}

func fieldsSexp(fs []FieldDesc) hx.Sexp {
	out := []hx.Sexp{}
	for _, f := range fs {
		out = append(out, hx.L(hx.A(f.Name), f.Type.sexp(), inputsSexp(f.Args)))
	}
	return hx.L(out...)
}

// sexp is the `(schema …)` line of the driver protocol (lean/ApiFu/C04/Wire.lean).
func (v *View) sexp() hx.Sexp {
	types := []hx.Sexp{}
	for _, t := range v.Types {
		switch t.Kind {
		case "scalar":
			var spec hx.Sexp
			if len(t.Accepts) == 0 {
				spec = hx.A(t.Name)
			} else {
				spec = atoms(t.Accepts)
			}
			types = append(types, hx.N("scalar", hx.A(t.Name), spec))
		case "object":
			types = append(types, hx.N("object", hx.A(t.Name), fieldsSexp(t.Fields), atoms(t.Interfaces)))
		case "interface":
			types = append(types, hx.N("interface", hx.A(t.Name), fieldsSexp(t.Fields)))
		case "union":
			types = append(types, hx.N("union", hx.A(t.Name), atoms(t.Members)))
		case "enum":
			types = append(types, hx.N("enum", hx.A(t.Name), atoms(t.Values)))
		case "input":
			types = append(types, hx.N("input", hx.A(t.Name), inputsSexp(t.InputFields)))
		}
	}
	dirs := []hx.Sexp{}
	for _, d := range v.Directives {
		dirs = append(dirs, hx.L(hx.A(d.Name), atoms(d.Locations), inputsSexp(d.Args)))
	}
	opt := func(s string) hx.Sexp {
		if s == "" {
			return hx.A("-")
		}
		return hx.A(s)
	}
	return hx.N("schema", hx.A(v.Query), opt(v.Mutation), opt(v.Subscription), hx.L(types...), hx.L(dirs...), fieldsSexp(v.Meta))
}

func (d *SchemaDesc) typ(n string) *TypeDesc {
	for i := range d.Types {
		if d.Types[i].Name == n {
			return &d.Types[i]
		}
	}
	return nil
}
