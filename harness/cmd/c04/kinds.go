package main

// Literal kinds and spellings in overlapping fields (added after seed C04-24: valuesAreIdentical
// compared only the literals' text, so `node(id: 1)` and `node(id: "1")` were merged).
//
// "fieldA and fieldB must have identical sets of arguments" (§5.3.2). Reading (the same as
// Spec.sameValue): two argument values are identical when they are the same kind of literal and
// denote the same literal value — for Int / Float / enum / variable the token text, for a string
// the value its StringValue semantics give (§2.9.4: the quoted form, its escapes and the block
// form are spellings of one string), lists item by item, objects field by field in order. So
//   * the same text in different kinds (`1` / `"1"`, `RED` / `"RED"`, `true` / `"true"`,
//     `$v` / `v` / `"v"`, `null` / `"null"`) is a conflict, at top level and at any depth;
//   * numerically equal numbers written differently (`1` / `1.0`, `1e3` / `1000.0`, `0` / `-0`)
//     are different literals: a conflict (no canonical form of numbers is defined for the rule);
//   * one string in two spellings (`"A"`, `"A"`, `"""A"""`) is identical: it merges.
// The first two are mutations (kept only if Spec.violates fieldsMerge), the third is part of the
// valid stream (docgen.go respells the arguments of identical overlapping fields).

import (
	"fmt"
	"regexp"
	"strings"

	"verifharness/hx"
)

// stringValueOf decodes a string literal of the forms the generator writes (quoted with the
// standard escapes, or a one-line block string without escapes).
func stringValueOf(text string) (string, bool) {
	if len(text) >= 6 && strings.HasPrefix(text, `"""`) && strings.HasSuffix(text, `"""`) {
		body := text[3 : len(text)-3]
		if strings.ContainsAny(body, "\n\r\\") || strings.Contains(body, `"""`) {
			return "", false
		}
		if strings.TrimLeft(body, " \t") == "" {
			return "", true
		}
		return body, true
	}
	if len(text) < 2 || text[0] != '"' || text[len(text)-1] != '"' {
		return "", false
	}
	body := []rune(text[1 : len(text)-1])
	var b strings.Builder
	for i := 0; i < len(body); i++ {
		c := body[i]
		if c != '\\' {
			if c == '"' || c == '\n' || c == '\r' {
				return "", false
			}
			b.WriteRune(c)
			continue
		}
		i++
		if i >= len(body) {
			return "", false
		}
		switch body[i] {
		case '"', '\\', '/':
			b.WriteRune(body[i])
		case 'b':
			b.WriteRune('\b')
		case 'f':
			b.WriteRune('\f')
		case 'n':
			b.WriteRune('\n')
		case 'r':
			b.WriteRune('\r')
		case 't':
			b.WriteRune('\t')
		case 'u':
			if i+4 > len(body)-1 {
				return "", false
			}
			var x rune
			for _, h := range body[i+1 : i+5] {
				switch {
				case h >= '0' && h <= '9':
					x = x*16 + h - '0'
				case h >= 'a' && h <= 'f':
					x = x*16 + h - 'a' + 10
				case h >= 'A' && h <= 'F':
					x = x*16 + h - 'A' + 10
				default:
					return "", false
				}
			}
			if x >= 0xD800 && x <= 0xDFFF {
				return "", false
			}
			b.WriteRune(x)
			i += 4
		default:
			return "", false
		}
	}
	return b.String(), true
}

// quoteString writes a string value in the plain quoted form.
func quoteString(s string) (string, bool) {
	var b strings.Builder
	b.WriteByte('"')
	for _, c := range s {
		switch {
		case c == '"' || c == '\\':
			b.WriteByte('\\')
			b.WriteRune(c)
		case c == '\n':
			b.WriteString(`\n`)
		case c == '\t':
			b.WriteString(`\t`)
		case c < 0x20 || c == 0xFFFD:
			return "", false
		default:
			b.WriteRune(c)
		}
	}
	b.WriteByte('"')
	return b.String(), true
}

// canonString is the key under which two spellings of one string literal agree.
func canonString(text string) string {
	if s, ok := stringValueOf(text); ok {
		return fmt.Sprintf("%q", s)
	}
	return text
}

// respellString returns another spelling of the same string value ("" when there is none).
func respellString(r *hx.Rand, text string) string {
	val, ok := stringValueOf(text)
	if !ok {
		return ""
	}
	var alts []string
	if q, ok := quoteString(val); ok && q != text {
		alts = append(alts, q)
	}
	if !strings.ContainsAny(val, "\n\r\\") && !strings.Contains(val, `"""`) && !strings.HasSuffix(val, `"`) &&
		(val == "" || strings.Trim(val, " \t") != "") && !strings.ContainsRune(val, 0xFFFD) {
		if b := `"""` + val + `"""`; b != text {
			alts = append(alts, b)
		}
	}
	if rs := []rune(val); len(rs) > 0 {
		// one character as a \uXXXX escape (BMP only), the rest quoted
		i := r.Intn(len(rs))
		if rs[i] < 0x10000 && !(rs[i] >= 0xD800 && rs[i] <= 0xDFFF) {
			pre, ok1 := quoteString(string(rs[:i]))
			post, ok2 := quoteString(string(rs[i+1:]))
			if ok1 && ok2 {
				hex := fmt.Sprintf(`\u%04X`, rs[i])
				if r.Bool() {
					hex = fmt.Sprintf(`\u%04x`, rs[i])
				}
				if e := pre[:len(pre)-1] + hex + post[1:]; e != text {
					alts = append(alts, e)
				}
			}
		}
	}
	if len(alts) == 0 {
		return ""
	}
	return hx.Pick(r, alts)
}

// respellArgs respells about half of the string literals in args (any depth); returns how many.
func respellArgs(r *hx.Rand, args []GArg) int {
	n := 0
	var walk func(v *GValue)
	walk = func(v *GValue) {
		if v.Kind == "string" && r.Bool() {
			if t := respellString(r, v.Text); t != "" {
				v.Text = t
				n++
			}
		}
		for _, it := range v.Items {
			walk(it)
		}
		for i := range v.Fields {
			walk(v.Fields[i].Value)
		}
	}
	for i := range args {
		walk(args[i].Value)
	}
	return n
}

var (
	reIntLit   = regexp.MustCompile(`^-?(0|[1-9][0-9]*)$`)
	reFloatLit = regexp.MustCompile(`^-?(0|[1-9][0-9]*)(\.[0-9]+)?([eE][+-]?[0-9]+)?$`)
	reNameLit  = regexp.MustCompile(`^[_A-Za-z][_0-9A-Za-z]*$`)
)

// coreText is what a comparison that forgets the literal kind would see.
func coreText(v *GValue) (string, bool) {
	switch v.Kind {
	case "int", "float", "enum", "bool", "var":
		return v.Text, true
	case "null":
		return "null", true
	case "string":
		return stringValueOf(v.Text)
	}
	return "", false
}

// literalOfKind writes core as a literal of the given kind (nil when it cannot be one).
func literalOfKind(kind, core string) *GValue {
	switch kind {
	case "int":
		if reIntLit.MatchString(core) {
			return &GValue{Kind: "int", Text: core}
		}
	case "float":
		if reFloatLit.MatchString(core) && !reIntLit.MatchString(core) {
			return &GValue{Kind: "float", Text: core}
		}
	case "enum":
		if reNameLit.MatchString(core) && core != "true" && core != "false" && core != "null" {
			return &GValue{Kind: "enum", Text: core}
		}
	case "bool":
		if core == "true" || core == "false" {
			return &GValue{Kind: "bool", Text: core}
		}
	case "null":
		if core == "null" {
			return &GValue{Kind: "null"}
		}
	case "string":
		if q, ok := quoteString(core); ok {
			return &GValue{Kind: "string", Text: q}
		}
	}
	return nil
}

// kindsAt lists the leaf literal kinds that are well-typed at the position of v.
func kindsAt(view *View, v *GValue) []string {
	if v.Free {
		return []string{"int", "float", "string", "enum", "bool", "null"}
	}
	if v.Type == nil {
		return nil
	}
	switch base := v.Type.Base(); base {
	case "ID":
		return []string{"int", "string"}
	case "Float":
		return []string{"int", "float"}
	case "Int", "String", "Boolean":
		return nil
	default:
		td := view.typ(base)
		if td == nil || td.Kind != "scalar" || len(td.Accepts) < 2 {
			return nil
		}
		var out []string
		for _, k := range td.Accepts[1:] {
			if k != "list" && k != "object" {
				out = append(out, k)
			}
		}
		return out
	}
}

// switchKind: the same text as another, equally well-typed, kind of literal.
func switchKind(r *hx.Rand, view *View, v *GValue) *GValue {
	core, ok := coreText(v)
	if !ok {
		return nil
	}
	var alts []*GValue
	for _, k := range kindsAt(view, v) {
		if k == v.Kind {
			continue
		}
		if n := literalOfKind(k, core); n != nil {
			alts = append(alts, n)
		}
	}
	if len(alts) == 0 {
		return nil
	}
	n := hx.Pick(r, alts)
	n.Type, n.Const, n.Free = v.Type, v.Const, v.Free
	return n
}

// renumber: a numerically equal number written differently (same or other numeric kind).
func renumber(r *hx.Rand, view *View, v *GValue) *GValue {
	if v.Kind != "int" && v.Kind != "float" {
		return nil
	}
	floatOK, intOK := false, false
	for _, k := range kindsAt(view, v) {
		floatOK = floatOK || k == "float"
		intOK = intOK || k == "int"
	}
	if v.Type != nil && !v.Free && v.Type.Base() == "Int" {
		intOK = true
	}
	var alts []*GValue
	switch v.Kind {
	case "int":
		if intOK || !floatOK {
			switch v.Text {
			case "0":
				alts = append(alts, &GValue{Kind: "int", Text: "-0"})
			case "-0":
				alts = append(alts, &GValue{Kind: "int", Text: "0"})
			}
		}
		if floatOK && len(v.Text) < 8 {
			alts = append(alts, &GValue{Kind: "float", Text: v.Text + ".0"}, &GValue{Kind: "float", Text: v.Text + "e0"})
		}
	case "float":
		if !floatOK {
			return nil
		}
		table := map[string][]string{
			"1.5": {"1.50", "15e-1"}, "0.0": {"0.00", "-0.0", "0e0"}, "-2.25": {"-2.250", "-225E-2"}, "1e3": {"1000.0", "1E3", "1e+3"},
			"6.0E-2": {"0.06", "6.0e-2"}, "3.5e+2": {"350.0", "3.5e2"}, "2.5": {"2.50", "25e-1"},
		}
		for _, t := range table[v.Text] {
			alts = append(alts, &GValue{Kind: "float", Text: t})
		}
		if intOK && v.Text == "1e3" {
			alts = append(alts, &GValue{Kind: "int", Text: "1000"})
		}
	}
	if len(alts) == 0 {
		return nil
	}
	n := hx.Pick(r, alts)
	n.Type, n.Const, n.Free = v.Type, v.Const, v.Free
	return n
}

// leafSlots lists the leaf value positions of an argument list with a setter each.
func leafSlots(args []GArg) []valueRef {
	var out []valueRef
	var val func(set func(*GValue), x *GValue, nest int)
	val = func(set func(*GValue), x *GValue, nest int) {
		if x.Kind != "list" && x.Kind != "object" {
			out = append(out, valueRef{set: set, v: x, nest: nest})
		}
		for i := range x.Items {
			i := i
			val(func(n *GValue) { x.Items[i] = n }, x.Items[i], nest+1)
		}
		for i := range x.Fields {
			i := i
			val(func(n *GValue) { x.Fields[i].Value = n }, x.Fields[i].Value, nest+1)
		}
	}
	for i := range args {
		i := i
		val(func(n *GValue) { args[i].Value = n }, args[i].Value, 0)
	}
	return out
}

// overlapWith duplicates a field selection under its own response name — directly, inside an
// inline fragment (with or without type condition) or inside a new named fragment spread next to
// it — with one leaf of its arguments replaced by alt's answer.
func overlapWith(r *hx.Rand, v *View, d *GDoc, alt func(*hx.Rand, *View, *GValue) *GValue) bool {
	probe := r.Fork()
	cands := fieldsOnly(d.selections(v), func(s *GSel) bool {
		for _, l := range leafSlots(s.Args) {
			if alt(probe, v, l.v) != nil {
				return true
			}
		}
		return false
	})
	s, ok := pickRef(r, cands, isDeepSel)
	if !ok {
		return false
	}
	cur := s.sel()
	n := &GSel{Kind: "field", Name: cur.Name, Alias: cur.Alias, Args: cloneArgs(cur.Args), Parent: cur.Parent, HasArgs: cur.HasArgs, FType: cur.FType, Inner: cur.Inner}
	if cur.Sels != nil {
		n.Sels = []*GSel{{Kind: "field", Name: "__typename"}}
	}
	var slots []valueRef
	for _, l := range leafSlots(n.Args) {
		if alt(probe, v, l.v) != nil {
			slots = append(slots, l)
		}
	}
	if len(slots) == 0 {
		return false
	}
	// prefer a nested leaf when there is one
	slot, _ := pickRef(r, slots, func(x valueRef) bool { return x.nest > 0 })
	nv := alt(r, v, slot.v)
	if nv == nil {
		return false
	}
	slot.set(nv)
	ins := n
	switch c := r.Intn(5); {
	case c == 1:
		ins = &GSel{Kind: "inline", Sels: []*GSel{n}, Inner: s.parent}
	case c == 2 && s.parent != "":
		ins = &GSel{Kind: "inline", TypeCond: s.parent, Sels: []*GSel{n}, Inner: s.parent}
	case c == 3 && s.parent != "":
		name := ""
		for i := 0; ; i++ {
			name = fmt.Sprintf("Kf%d", i)
			if d.frag(name) == nil {
				break
			}
		}
		d.Defs = append(d.Defs, &GDef{IsFrag: true, Name: name, TypeCond: s.parent, Sels: []*GSel{n}})
		ins = &GSel{Kind: "spread", Name: name}
	}
	insertAt(s.list, r, ins)
	return true
}

func kindMutations() []mutation {
	return []mutation{
		{"kind-switched-overlap", "fieldsMerge", func(r *hx.Rand, v *View, d *GDoc) bool { return overlapWith(r, v, d, switchKind) }},
		{"renumbered-overlap", "fieldsMerge", func(r *hx.Rand, v *View, d *GDoc) bool { return overlapWith(r, v, d, renumber) }},
	}
}
