package engine

import (
	"fmt"
	"sort"
	"strconv"
	"strings"
)

// ---- structural oracle: no missing / blank / unset response key ------------------------------

// Conform checks that the data tree has, at every object position, exactly the collected response
// keys of the selection set in document order (so no "" key, no missing key), lists where lists
// are declared, and no null beneath a non-null type. It returns "" when the data conforms.
func Conform(c *Case, o *Observed) string {
	return conformObj(c.Shape, o.tree, "$", true)
}

func conformObj(t *TShape, v any, at string, rootNullable bool) string {
	if v == nil {
		return ""
	}
	kvs, ok := v.([]kv)
	if !ok {
		return fmt.Sprintf("%s: expected an object, found %T", at, v)
	}
	if len(kvs) != len(t.Fields) {
		return fmt.Sprintf("%s: object has %d keys, the selection set has %d", at, len(kvs), len(t.Fields))
	}
	for i, f := range t.Fields {
		if kvs[i].K == "" {
			return fmt.Sprintf("%s: slot %d has a blank response key (expected %q)", at, i, f.Key())
		}
		if kvs[i].K != f.Key() {
			return fmt.Sprintf("%s: slot %d has key %q, expected %q", at, i, kvs[i].K, f.Key())
		}
		here := at + "." + f.Key()
		if f.Typename {
			if s, ok := kvs[i].V.(string); !ok || s != t.TypeName {
				return fmt.Sprintf("%s: __typename is %v, expected %q", here, kvs[i].V, t.TypeName)
			}
			continue
		}
		if kvs[i].V == nil {
			if f.NN {
				return fmt.Sprintf("%s: null in a non-null position", here)
			}
			continue
		}
		if m := conformVal(f.T, kvs[i].V, here); m != "" {
			return m
		}
	}
	return ""
}

func conformVal(t *TShape, v any, at string) string {
	switch t.Kind {
	case "int":
		if _, ok := v.(int); !ok {
			return fmt.Sprintf("%s: expected an Int, found %T", at, v)
		}
	case "list":
		xs, ok := v.([]any)
		if !ok {
			return fmt.Sprintf("%s: expected a list, found %T", at, v)
		}
		for i, x := range xs {
			here := at + "[" + strconv.Itoa(i) + "]"
			if x == nil {
				if t.ElemNN {
					return fmt.Sprintf("%s: null in a non-null position", here)
				}
				continue
			}
			if m := conformVal(t.Elem, x, here); m != "" {
				return m
			}
		}
	case "object":
		return conformObj(t, v, at, false)
	}
	return ""
}

// ---- error oracles ----------------------------------------------------------------------------

func splitPath(p string) []string {
	p = strings.TrimSuffix(strings.TrimPrefix(p, "["), "]")
	if p == "" {
		return nil
	}
	return strings.Split(p, ",") // keys are identifiers, no commas inside
}

// Landing walks an error path through the data and returns the prefix at which a null is met (the
// null that the error explains). ok=false when the whole path leads to a non-null value, or leaves
// the data.
func Landing(tree any, path string) (string, bool) {
	cur := tree
	segs := splitPath(path)
	for i := 0; ; i++ {
		if cur == nil {
			return "[" + strings.Join(segs[:i], ",") + "]", true
		}
		if i == len(segs) {
			return "", false
		}
		switch v := cur.(type) {
		case []kv:
			key, err := strconv.Unquote(segs[i])
			if err != nil {
				return "", false
			}
			found := false
			for _, e := range v {
				if e.K == key {
					cur, found = e.V, true
					break
				}
			}
			if !found {
				return "", false
			}
		case []any:
			n, err := strconv.Atoi(segs[i])
			if err != nil || n < 0 || n >= len(v) {
				return "", false
			}
			cur = v[n]
		default:
			return "", false
		}
	}
}

// SelfCheck evaluates the single-run part of the property: no crash, termination within
// #promises idle rounds, no duplicate (path, message), every error explains a null of the data,
// data conforms to the selection sets.
func SelfCheck(c *Case, o *Observed) string {
	if o.Panic != "" {
		return "crash|panic: " + o.Panic
	}
	if o.Stuck {
		return fmt.Sprintf("stuck|did not finish: idle handler called in round %d with no outstanding promise (%d promises created)", o.Rounds, o.Promises)
	}
	if o.Rounds > o.Promises {
		return fmt.Sprintf("rounds|%d idle rounds for %d promises", o.Rounds, o.Promises)
	}
	seen := map[ErrObs]bool{}
	for _, e := range o.Errors {
		if seen[e] {
			return fmt.Sprintf("dup|duplicate error %s %q", e.Path, e.Msg)
		}
		seen[e] = true
	}
	if m := DirectiveErrorOnce(o); m != "" {
		return m
	}
	if m := Conform(c, o); m != "" {
		return "shape|" + m
	}
	all := AllErrors(c)
	for _, e := range o.Errors {
		if !all[e] {
			return fmt.Sprintf("spurious|error %s %q is not a field error of this request (resolver outcomes allow only {%s})", e.Path, e.Msg, keys(all, func(e ErrObs) string { return e.Path + ":" + e.Msg }))
		}
	}
	for _, e := range o.Errors {
		if _, ok := Landing(o.tree, e.Path); !ok {
			return fmt.Sprintf("landing|error %s %q does not lead to a null in the data %s", e.Path, e.Msg, o.Data)
		}
	}
	return ""
}

func landingSets(o *Observed) (lands map[string]bool, direct map[ErrObs]bool) {
	lands, direct = map[string]bool{}, map[ErrObs]bool{}
	for _, e := range o.Errors {
		if l, ok := Landing(o.tree, e.Path); ok {
			lands[l] = true
			if l == e.Path {
				direct[e] = true
			}
		}
	}
	return
}

func keys[T comparable](m map[T]bool, show func(T) string) string {
	var xs []string
	for k := range m {
		xs = append(xs, show(k))
	}
	sort.Strings(xs)
	return strings.Join(xs, " ")
}

// CompareWithSync evaluates the relational part of the property on two runs of the same request:
// equal data; the same set of explained nulls; for every null whose own field failed (the error
// path is the null's path) exactly the same error. Errors that land on a null produced by a
// *different* failing field beneath a non-null type are schedule-dependent by the GraphQL rules
// (any one of the failures may be the one reported) and are only required to exist.
func CompareWithSync(sync, async *Observed) string {
	if sync.Data != async.Data {
		return fmt.Sprintf("data|data differs: all-sync %s, this run %s", sync.Data, async.Data)
	}
	ls, ds := landingSets(sync)
	la, da := landingSets(async)
	id := func(s string) string { return s }
	if keys(ls, id) != keys(la, id) {
		return fmt.Sprintf("nulls|explained nulls differ: all-sync {%s}, this run {%s}", keys(ls, id), keys(la, id))
	}
	se := func(e ErrObs) string { return e.Path + ":" + e.Msg }
	if keys(ds, se) != keys(da, se) {
		return fmt.Sprintf("errors|errors of visible nulls differ: all-sync {%s}, this run {%s}", keys(ds, se), keys(da, se))
	}
	return ""
}

// ---- C11: serial order of the event log ---------------------------------------------------------

// RootKeyOf returns the first path component (quoted) of an event path.
func RootKeyOf(path string) string {
	segs := splitPath(path)
	if len(segs) == 0 {
		return ""
	}
	return segs[0]
}

// SerialOrder checks the C11 property on the event log: every event under root key k_i precedes
// every event under k_{i+1} (keys in document order), no resolver under k_j is called while a
// promise under an earlier root key is still outstanding, and the data lists the root keys in
// document order. With excuseAbandoned, promises the executor never received are left out of
// both checks when their root field has an error beneath it (finding F-11a: a failing sibling made
// the executor give up on them).
func SerialOrder(c *Case, o *Observed, excuseAbandoned bool) string {
	rank := map[string]int{}
	for i, f := range c.Shape.Fields {
		rank[strconv.Quote(f.Key())] = i
	}
	failedRoot := map[string]bool{}
	for _, e := range o.Errors {
		failedRoot[RootKeyOf(e.Path)] = true
	}
	excused := map[string]bool{}
	if excuseAbandoned {
		for _, p := range o.Abandoned {
			if failedRoot[RootKeyOf(p)] {
				excused[p] = true
			}
		}
	}
	last := -1
	lastEvent := ""
	for _, e := range o.Events {
		if e.Kind == "fulfil" && excused[e.Path] {
			continue
		}
		r, ok := rank[RootKeyOf(e.Path)]
		if !ok {
			return fmt.Sprintf("event %s%s is under no root field", e.Kind, e.Path)
		}
		if r < last {
			return fmt.Sprintf("event %s%s (root field #%d) happens after %s (root field #%d)", e.Kind, e.Path, r, lastEvent, last)
		}
		if r > last {
			last = r
			lastEvent = e.Kind + e.Path
		}
		for _, p := range e.Pending {
			if excused[p] {
				continue
			}
			if pr, ok := rank[RootKeyOf(p)]; ok && pr < r {
				return fmt.Sprintf("resolver %s (root field #%d) is called while promise %s of root field #%d is still outstanding", e.Path, r, p, pr)
			}
		}
	}
	if kvs, ok := o.tree.([]kv); ok {
		for i, f := range c.Shape.Fields {
			if i >= len(kvs) || kvs[i].K != f.Key() {
				return fmt.Sprintf("data does not list root field #%d %q in document order: %s", i, f.Key(), o.Data)
			}
		}
	}
	return ""
}

// AllErrors lists every field error the request can raise according to the GraphQL rules, read
// off the world alone (no execution): resolver errors, completion errors, and a null resolved for
// a non-null position. Which of them are reported depends on propagation (and, by the rules, on
// execution order), but no run may report anything else.
func AllErrors(c *Case) map[ErrObs]bool {
	out := map[ErrObs]bool{}
	var walkVal func(t *TShape, nn bool, w *WVal, path string)
	walkObj := func(t *TShape, w *WVal, path string) {
		for i, f := range t.Fields {
			if f.Typename || i >= len(w.Fields) || w.Fields[i] == nil {
				continue
			}
			wf := w.Fields[i]
			p := pathJoin(path, strconv.Quote(f.Key()))
			if wf.Err != "" {
				out[ErrObs{"[" + p + "]", wf.Err}] = true
				continue
			}
			walkVal(f.T, f.NN, wf.V, p)
		}
	}
	walkVal = func(t *TShape, nn bool, w *WVal, path string) {
		if w == nil {
			return
		}
		switch w.Kind {
		case "null":
			if nn {
				out[ErrObs{"[" + path + "]", MsgNonNull}] = true
			}
		case "badint":
			out[ErrObs{"[" + path + "]", MsgCoerce}] = true
		case "notlist":
			out[ErrObs{"[" + path + "]", MsgNotList}] = true
		case "list":
			for i, it := range w.Items {
				walkVal(t.Elem, t.ElemNN, it, pathJoin(path, strconv.Itoa(i)))
			}
		case "object":
			walkObj(t, w, path)
		}
	}
	walkObj(c.Shape, c.World, "")
	return out
}

// SplitCat splits "category|message".
func SplitCat(m string) (cat, msg string) {
	if i := strings.Index(m, "|"); i >= 0 {
		return m[:i], m[i+1:]
	}
	return "", m
}

// SpecCheck compares the implementation's output with the Lean *specification* of the request
// (Spec.data, Spec.required, Spec.errsF, shipped in the model's reply): equal data, every required
// error reported, every reported error a field error, and the Lean list of field errors equal (as a
// set) to the one the harness reads off the world.
func SpecCheck(c *Case, real, model *Observed) string {
	if model == nil || !model.HasSpec {
		return ""
	}
	if real.Data != model.SpecData {
		return fmt.Sprintf("data: implementation %s, Spec.data %s", real.Data, model.SpecData)
	}
	have := map[ErrObs]bool{}
	for _, e := range real.Errors {
		have[e] = true
	}
	for _, e := range model.SpecRequired {
		if !have[e] {
			return fmt.Sprintf("required error %s %q (Spec.required) is not reported: %v", e.Path, e.Msg, real.Errors)
		}
	}
	all := map[ErrObs]bool{}
	for _, e := range model.SpecAll {
		all[e] = true
	}
	for _, e := range real.Errors {
		if !all[e] {
			return fmt.Sprintf("reported error %s %q is not in Spec.errsF", e.Path, e.Msg)
		}
	}
	// Spec.nulls (theorem visible_null_has_error): the implementation's data has a null exactly at
	// every listed position, and its error list holds at least one of that null's candidates.
	for _, n := range model.SpecNulls {
		if at, ok := Landing(real.tree, n.Path); !ok || at != n.Path {
			return fmt.Sprintf("Spec.nulls lists a null at %s; the data %s has none exactly there (walk ends at %q, null met: %v)", n.Path, real.Data, at, ok)
		}
		hit := false
		for _, e := range n.Cands {
			if have[e] {
				hit = true
				break
			}
		}
		if !hit {
			return fmt.Sprintf("the null at %s has no explaining error: none of its candidates %v (Spec.nulls) is reported: %v", n.Path, n.Cands, real.Errors)
		}
	}
	goAll := AllErrors(c)
	se := func(e ErrObs) string { return e.Path + ":" + e.Msg }
	if keys(all, se) != keys(goAll, se) {
		return fmt.Sprintf("field errors: harness {%s}, Spec.errsF {%s}", keys(goAll, se), keys(all, se))
	}
	return ""
}

// DirectiveErrorOnce: the document has at most one selection whose directive argument cannot be
// coerced at run time (syntax.go, addUncoercibleDirective), in one selection set; its error belongs
// to the collection of that (object type, selection set) and may be reported at most once, however
// many objects the selection set is applied to and in whatever order they are completed.
func DirectiveErrorOnce(o *Observed) string {
	if len(o.DirectiveErrors) > 1 {
		return fmt.Sprintf("dup|the run-time coercion error of one directive argument is reported %d times: %q", len(o.DirectiveErrors), o.DirectiveErrors)
	}
	return ""
}
