package engine

import (
	"strconv"
	"strings"

	"verifharness/hx"
)

// ---- document syntax ---------------------------------------------------------------------------
//
// A Case's Shape is the *collected* form of its selection sets: per object the response keys in
// order, each with the merged sub-selection — what executeSelections iterates over after
// collectFields and mergeSelectionSets, and what the Lean model starts from. The document the
// implementation receives is an *un-collected* presentation of it, chosen by Case.Syntax
// (0 = the plain presentation: one field per key, in order, no fragments):
//
//   * a response key may occur several times; an object-typed key may have its sub-selection split
//     over its occurrences (a prefix in the first one, the rest — overlapping or not — in a later
//     one) or repeated in part;
//   * runs of selections are wrapped — nested — in inline fragments (without type condition, on
//     the object type, on an interface it implements, on a union it belongs to) and in named
//     fragments; the same named fragment may be spread twice;
//   * selections that collect to nothing are added anywhere, also in front: @skip(if: true),
//     @include(if: false) (on fields, inline fragments and spreads), and inline fragments on an
//     object type other than the concrete one where the static type is an interface or a union;
//   * kept selections may carry @skip(if: false) / @include(if: true).
//
// So the number of AST selections of a selection set differs from its number of response keys in
// both directions. The only constraint — the one collectFields is specified by — is that the first
// occurrences of the keys, in document traversal order, are in Shape order and that the union of a
// key's sub-selections, in traversal order, first occurrences only, is the Shape's sub-selection.
//
// Object shapes marked Abstract are declared in the schema as an interface I<n> (implemented by
// the concrete type T<n> and by a second object type X<n> that never matches) or as a union
// U<n> = X<n> | T<n>; the field that returns them has the abstract type.

type synItem struct {
	idx int  // field index in the object shape
	dup bool // not the first occurrence of its key in the merged selection set
}

type synAtom struct {
	idx    int
	sub    []synItem // object-typed fields: what this occurrence selects
	vanish string    // "" | "skip" | "include": the occurrence is removed by a directive
	alias  string    // alias of a vanishing occurrence
}

type synth struct {
	r     *hx.Rand
	frags []string
	n     int
}

func unwrapList(t *TShape) *TShape {
	for t != nil && t.Kind == "list" {
		t = t.Elem
	}
	return t
}

func typeNum(t *TShape) string { return strings.TrimPrefix(t.TypeName, "T") }

func allItems(t *TShape, dup bool) []synItem {
	out := make([]synItem, len(t.Fields))
	for i := range t.Fields {
		out[i] = synItem{idx: i, dup: dup}
	}
	return out
}

// randomSub draws a non-empty ordered subset of the object's fields, all marked dup.
func (s *synth) randomSub(t *TShape) []synItem {
	var out []synItem
	for i := range t.Fields {
		if s.r.Bool() {
			out = append(out, synItem{idx: i, dup: true})
		}
	}
	if len(out) == 0 {
		out = append(out, synItem{idx: s.r.Intn(len(t.Fields)), dup: true})
	}
	return out
}

func (s *synth) keptDirective() string {
	switch s.r.Intn(10) {
	case 0:
		return " @skip(if: false)"
	case 1:
		return " @include(if: true)"
	case 2:
		return " @include(if: true) @skip(if: false)"
	}
	return ""
}

func vanishDirective(kind string) string {
	if kind == "skip" {
		return " @skip(if: true)"
	}
	return " @include(if: false)"
}

// fieldText renders one occurrence.
func (s *synth) fieldText(t *TShape, a synAtom) string {
	f := t.Fields[a.idx]
	var b strings.Builder
	switch {
	case a.alias != "":
		b.WriteString(a.alias + ":")
	case f.Alias != "":
		b.WriteString(f.Alias + ":")
	}
	if f.Typename {
		b.WriteString("__typename")
	} else {
		b.WriteString(f.Name)
	}
	if a.vanish != "" {
		b.WriteString(vanishDirective(a.vanish))
	} else {
		b.WriteString(s.keptDirective())
	}
	if ot := unwrapList(f.T); !f.Typename && ot != nil && ot.Kind == "object" {
		b.WriteString(s.selSet(ot, a.sub))
	}
	return b.String()
}

// selSet renders a selection set on a position whose concrete object shape is t (static type: the
// object type, or the interface / union t.Abstract names) that collects to exactly `items`.
func (s *synth) selSet(t *TShape, items []synItem) string {
	isObj := func(i int) bool {
		f := t.Fields[i]
		ot := unwrapList(f.T)
		return !f.Typename && ot != nil && ot.Kind == "object"
	}
	var atoms []synAtom
	type late struct {
		after int // index in atoms of the first occurrence
		a     synAtom
	}
	var lates []late
	for _, it := range items {
		a := synAtom{idx: it.idx}
		seen := -1 // object-typed: how many sub-fields have had their first occurrence after this atom (-1: all)
		if isObj(it.idx) {
			ot := unwrapList(t.Fields[it.idx].T)
			k := len(ot.Fields)
			switch {
			case it.dup:
				a.sub = s.randomSub(ot)
			case k >= 2 && s.r.Chance(1, 4):
				// split: prefix here, the rest (overlapping from m2) in a later occurrence
				m := s.r.Range(1, k)
				m2 := s.r.Range(0, m)
				if m2 >= k {
					m2 = k - 1
				}
				for i := 0; i < m; i++ {
					a.sub = append(a.sub, synItem{idx: i})
				}
				seen = m
				b := synAtom{idx: it.idx}
				for i := m2; i < k; i++ {
					b.sub = append(b.sub, synItem{idx: i, dup: i < m})
				}
				lates = append(lates, late{after: len(atoms), a: b})
			default:
				a.sub = allItems(ot, false)
			}
		}
		if s.r.Chance(1, 6) {
			// a plain repeated occurrence later on
			b := synAtom{idx: it.idx}
			if isObj(it.idx) {
				b.sub = s.randomSub(unwrapList(t.Fields[it.idx].T))
				if seen >= 0 {
					// it may stand before the occurrence that carries the rest: only what the
					// first occurrence already selected
					var keep []synItem
					for _, x := range b.sub {
						if x.idx < seen {
							keep = append(keep, x)
						}
					}
					if len(keep) == 0 {
						keep = []synItem{{idx: 0, dup: true}}
					}
					b.sub = keep
				}
			}
			lates = append(lates, late{after: len(atoms), a: b})
		}
		atoms = append(atoms, a)
	}
	// place the later occurrences: anywhere after their first occurrence (processing in reverse
	// keeps the recorded indices valid)
	for i := len(lates) - 1; i >= 0; i-- {
		l := lates[i]
		pos := s.r.Range(l.after+1, len(atoms))
		atoms = append(atoms[:pos], append([]synAtom{l.a}, atoms[pos:]...)...)
	}
	// occurrences that collect to nothing: anywhere
	for n := s.r.Intn(3); n > 0 && s.r.Chance(1, 2); n-- {
		i := s.r.Intn(len(t.Fields))
		s.n++
		a := synAtom{idx: i, vanish: hx.Pick(s.r, []string{"skip", "include"}), alias: "sk" + strconv.Itoa(s.n)}
		if isObj(i) {
			a.sub = s.randomSub(unwrapList(t.Fields[i].T))
		}
		pos := s.r.Intn(len(atoms) + 1)
		atoms = append(atoms[:pos], append([]synAtom{a}, atoms[pos:]...)...)
	}
	sels := make([]string, len(atoms))
	bare := make([]bool, len(atoms)) // may stand directly in a union-typed selection set
	for i, a := range atoms {
		sels[i] = s.fieldText(t, a)
		bare[i] = t.Fields[a.idx].Typename
	}
	num := typeNum(t)
	conds := []string{"", " on T" + num, " on T" + num}
	switch t.Abstract {
	case "iface":
		conds = append(conds, " on I"+num)
	case "union":
		conds = append(conds, " on U"+num)
	}
	wrap := func(lo, hi int, forceType bool) {
		body := "{" + strings.Join(sels[lo:hi], " ") + "}"
		cond := hx.Pick(s.r, conds)
		if forceType {
			cond = " on T" + num
		}
		if strings.HasPrefix(cond, " on U") {
			// a union has no fields: only type-conditioned selections and __typename may stand in it
			for _, ok := range bare[lo:hi] {
				if !ok {
					cond = " on T" + num
				}
			}
		}
		var text string
		if s.r.Chance(1, 3) {
			if cond == "" {
				cond = " on T" + num
			}
			s.n++
			name := "F" + strconv.Itoa(s.n)
			s.frags = append(s.frags, "fragment "+name+cond+body)
			text = "..." + name + s.keptDirective()
			if s.r.Chance(1, 5) {
				text += " ..." + name // a second spread of a visited fragment collects nothing
			}
		} else {
			text = "..." + cond + s.keptDirective() + body
		}
		sels = append(sels[:lo], append([]string{text}, sels[hi:]...)...)
		bare = append(bare[:lo], append([]bool{cond != ""}, bare[hi:]...)...)
	}
	for n := s.r.Intn(4); n > 0 && len(sels) > 0; n-- {
		lo := s.r.Intn(len(sels))
		hi := s.r.Range(lo+1, len(sels))
		wrap(lo, hi, false)
	}
	if t.Abstract == "union" {
		// a union has no fields of its own: everything that is not __typename or already
		// type-conditioned goes under `... on T<n>`
		for i := 0; i < len(sels); i++ {
			if bare[i] {
				continue
			}
			j := i
			for j < len(sels) && (!bare[j] || s.r.Bool()) {
				j++
			}
			wrap(i, j, true)
		}
	}
	if t.Abstract != "" {
		// fragments that do not apply to the concrete type
		for n := s.r.Intn(2); n > 0; n-- {
			sub := s.randomSub(t)
			var parts []string
			for _, it := range sub {
				a := synAtom{idx: it.idx}
				if isObj(it.idx) {
					a.sub = s.randomSub(unwrapList(t.Fields[it.idx].T))
				}
				parts = append(parts, s.fieldText(t, a))
			}
			text := "... on X" + num + "{" + strings.Join(parts, " ") + "}"
			pos := s.r.Intn(len(sels) + 1)
			sels = append(sels[:pos], append([]string{text}, sels[pos:]...)...)
			bare = append(bare[:pos], append([]bool{true}, bare[pos:]...)...)
		}
	}
	return "{" + strings.Join(sels, " ") + "}"
}

// plainSet is the presentation for Syntax == 0.
func plainSet(b *strings.Builder, t *TShape) {
	t = unwrapList(t)
	if t == nil || t.Kind != "object" {
		return
	}
	b.WriteString("{")
	if t.Abstract == "union" {
		b.WriteString("... on " + t.TypeName + "{")
	}
	for i, f := range t.Fields {
		if i > 0 {
			b.WriteString(" ")
		}
		if f.Alias != "" {
			b.WriteString(f.Alias + ":")
		}
		if f.Typename {
			b.WriteString("__typename")
			continue
		}
		b.WriteString(f.Name)
		plainSet(b, f.T)
	}
	if t.Abstract == "union" {
		b.WriteString("}")
	}
	b.WriteString("}")
}

// Document prints the operation text.
func (c *Case) Document() string {
	AssignTypeNames(c.Shape)
	var b strings.Builder
	if c.Mutation {
		b.WriteString("mutation ")
	}
	if c.Syntax == 0 {
		plainSet(&b, c.Shape)
		return b.String()
	}
	s := &synth{r: hx.NewRand(c.Syntax)}
	b.WriteString(s.selSet(c.Shape, allItems(c.Shape, false)))
	for _, f := range s.frags {
		b.WriteString(" " + f)
	}
	return b.String()
}
