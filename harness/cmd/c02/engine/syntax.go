package engine

import (
	"strconv"
	"strings"

	"verifharness/hx"
)

// ---- document syntax ---------------------------------------------------------------------------
//
// A Case's Shape is the *collected* form of its selection sets: per object the response keys in
// order, each with the merged sub-selection — what executeSelections iterates over after
// collectFields and mergeSelectionSets, and what the Lean model starts from. The document the
// implementation receives is an *un-collected* presentation of it, chosen by Case.Syntax
// (0 = the plain presentation: one field per key, in order, no fragments):
//
//   * a response key may occur several times; an object-typed key may have its sub-selection split
//     over its occurrences (a prefix in the first one, the rest — overlapping or not — in a later
//     one) or repeated in part;
//   * runs of selections are wrapped — nested — in inline fragments (without type condition, on
//     the object type, on an interface it implements, on a union it belongs to) and in named
//     fragments; the same named fragment may be spread twice;
//   * selections that collect to nothing are added anywhere, also in front: @skip(if: true),
//     @include(if: false) (on fields, inline fragments and spreads), and inline fragments on an
//     object type other than the concrete one where the static type is an interface or a union;
//   * kept selections may carry @skip(if: false) / @include(if: true).
//
// So the number of AST selections of a selection set differs from its number of response keys in
// both directions. The only constraint — the one collectFields is specified by — is that the first
// occurrences of the keys, in document traversal order, are in Shape order and that the union of a
// key's sub-selections, in traversal order, first occurrences only, is the Shape's sub-selection.
//
// Object shapes marked Abstract are declared in the schema as an interface I<n> (implemented by
// the concrete type T<n> and by a second object type X<n> that never matches) or as a union
// U<n> = X<n> | T<n>; the field that returns them has the abstract type.

// selNode is a selection of the document: what is printed, and what the model's collectFields
// (lean/ApiFu/C02/Collect.lean) is told about it.
type selNode struct {
	kind    string // field | inline | spread
	key     string // field: response key
	name    string // field: field name
	alias   bool   // field: print `key:name`
	dirs    string // directives, as printed
	skip    bool   // some directive filters the selection out
	cond    string // inline / fragment definition: type condition ("" = none)
	applies bool   // the type condition holds for the concrete object type
	frag    string // spread: fragment name
	hasSub  bool   // field: has a selection set
	// uncoercible: the selection's directive argument is $nv (explicit null at Boolean!): left out,
	// with an error
	uncoercible bool
	body        []*selNode
}

func (n *selNode) text(b *strings.Builder) {
	switch n.kind {
	case "field":
		if n.alias {
			b.WriteString(n.key + ":")
		}
		b.WriteString(n.name + n.dirs)
		if n.hasSub {
			nodesText(b, n.body)
		}
	case "inline":
		b.WriteString("...")
		if n.cond != "" {
			b.WriteString(" on " + n.cond)
		}
		b.WriteString(n.dirs)
		nodesText(b, n.body)
	case "spread":
		b.WriteString("..." + n.frag + n.dirs)
	}
}

func nodesText(b *strings.Builder, ns []*selNode) {
	b.WriteString("{")
	for i, n := range ns {
		if i > 0 {
			b.WriteString(" ")
		}
		n.text(b)
	}
	b.WriteString("}")
}

// fragDefs lists the fragment definitions the spreads refer to (each name once, in order of first
// occurrence, nested ones after the fragment that spreads them).
func fragDefs(ns []*selNode, seen map[string]bool, out *[]string) {
	for _, n := range ns {
		if n.kind == "spread" && !seen[n.frag] {
			seen[n.frag] = true
			var b strings.Builder
			b.WriteString("fragment " + n.frag + " on " + n.cond)
			nodesText(&b, n.body)
			*out = append(*out, b.String())
		}
		fragDefs(n.body, seen, out)
	}
}

func nodeSexp(n *selNode) hx.Sexp {
	var body []hx.Sexp
	for _, c := range n.body {
		body = append(body, nodeSexp(c))
	}
	switch n.kind {
	case "field":
		return hx.N("f", hx.A(n.key), hx.A(n.name), hx.B(n.skip), hx.L(body...))
	case "inline":
		return hx.N("inl", hx.B(n.skip), hx.B(n.applies), hx.L(body...))
	}
	return hx.N("spr", hx.B(n.skip), hx.A(n.frag), hx.B(n.applies), hx.L(body...))
}

type synItem struct {
	idx int  // field index in the object shape
	dup bool // not the first occurrence of its key in the merged selection set
}

type synAtom struct {
	idx    int
	sub    []synItem // object-typed fields: what this occurrence selects
	vanish string    // "" | "skip" | "include": the occurrence is removed by a directive
	alias  string    // alias of a vanishing occurrence
}

type synth struct {
	r *hx.Rand
	n int
}

func unwrapList(t *TShape) *TShape {
	for t != nil && t.Kind == "list" {
		t = t.Elem
	}
	return t
}

func typeNum(t *TShape) string { return strings.TrimPrefix(t.TypeName, "T") }

func allItems(t *TShape, dup bool) []synItem {
	out := make([]synItem, len(t.Fields))
	for i := range t.Fields {
		out[i] = synItem{idx: i, dup: dup}
	}
	return out
}

// randomSub draws a non-empty ordered subset of the object's fields, all marked dup.
func (s *synth) randomSub(t *TShape) []synItem {
	var out []synItem
	for i := range t.Fields {
		if s.r.Bool() {
			out = append(out, synItem{idx: i, dup: true})
		}
	}
	if len(out) == 0 {
		out = append(out, synItem{idx: s.r.Intn(len(t.Fields)), dup: true})
	}
	return out
}

func (s *synth) keptDirective() string {
	switch s.r.Intn(10) {
	case 0:
		return " @skip(if: false)"
	case 1:
		return " @include(if: true)"
	case 2:
		return " @include(if: true) @skip(if: false)"
	}
	return ""
}

func vanishDirective(kind string) string {
	if kind == "skip" {
		return " @skip(if: true)"
	}
	return " @include(if: false)"
}

func isObjField(f *FShape) bool {
	ot := unwrapList(f.T)
	return !f.Typename && ot != nil && ot.Kind == "object"
}

// fieldNode builds one occurrence.
func (s *synth) fieldNode(t *TShape, a synAtom) *selNode {
	f := t.Fields[a.idx]
	n := &selNode{kind: "field", key: f.Key(), name: f.Name, alias: f.Alias != ""}
	if a.alias != "" {
		n.key, n.alias = a.alias, true
	}
	if a.vanish != "" {
		n.dirs, n.skip = vanishDirective(a.vanish), true
	} else {
		n.dirs = s.keptDirective()
	}
	if isObjField(f) {
		n.hasSub = true
		n.body = s.selSet(unwrapList(f.T), a.sub)
	}
	return n
}

// selSet builds a selection set on a position whose concrete object shape is t (static type: the
// object type, or the interface / union t.Abstract names) that collects to exactly `items`.
func (s *synth) selSet(t *TShape, items []synItem) []*selNode {
	isObj := func(i int) bool { return isObjField(t.Fields[i]) }
	var atoms []synAtom
	type late struct {
		after int // index in atoms of the first occurrence
		a     synAtom
	}
	var lates []late
	// wide selection sets (≥ 5 keys): every position's key is repeated with probability 1/3, and one
	// position chosen at random always is — the 1st … last key, selected again after 0 … n other
	// selections, directly or (after wrapping) through fragments
	repeatDen, forced := 6, -1
	if len(items) >= 5 {
		repeatDen, forced = 3, s.r.Intn(len(items))
	}
	for pos, it := range items {
		a := synAtom{idx: it.idx}
		seen := -1 // object-typed: how many sub-fields have had their first occurrence after this atom (-1: all)
		if isObj(it.idx) {
			ot := unwrapList(t.Fields[it.idx].T)
			k := len(ot.Fields)
			switch {
			case it.dup:
				a.sub = s.randomSub(ot)
			case k >= 2 && s.r.Chance(1, 4):
				// split: prefix here, the rest (overlapping from m2) in a later occurrence
				m := s.r.Range(1, k)
				m2 := s.r.Range(0, m)
				if m2 >= k {
					m2 = k - 1
				}
				for i := 0; i < m; i++ {
					a.sub = append(a.sub, synItem{idx: i})
				}
				seen = m
				b := synAtom{idx: it.idx}
				for i := m2; i < k; i++ {
					b.sub = append(b.sub, synItem{idx: i, dup: i < m})
				}
				lates = append(lates, late{after: len(atoms), a: b})
			default:
				a.sub = allItems(ot, false)
			}
		}
		if s.r.Chance(1, repeatDen) || pos == forced {
			// a plain repeated occurrence later on
			b := synAtom{idx: it.idx}
			if isObj(it.idx) {
				b.sub = s.randomSub(unwrapList(t.Fields[it.idx].T))
				if seen >= 0 {
					// it may stand before the occurrence that carries the rest: only what the
					// first occurrence already selected
					var keep []synItem
					for _, x := range b.sub {
						if x.idx < seen {
							keep = append(keep, x)
						}
					}
					if len(keep) == 0 {
						keep = []synItem{{idx: 0, dup: true}}
					}
					b.sub = keep
				}
			}
			lates = append(lates, late{after: len(atoms), a: b})
		}
		atoms = append(atoms, a)
	}
	// place the later occurrences: anywhere after their first occurrence (processing in reverse
	// keeps the recorded indices valid)
	for i := len(lates) - 1; i >= 0; i-- {
		l := lates[i]
		pos := s.r.Range(l.after+1, len(atoms))
		atoms = append(atoms[:pos], append([]synAtom{l.a}, atoms[pos:]...)...)
	}
	// occurrences that collect to nothing: anywhere
	for n := s.r.Intn(3); n > 0 && s.r.Chance(1, 2); n-- {
		i := s.r.Intn(len(t.Fields))
		s.n++
		a := synAtom{idx: i, vanish: hx.Pick(s.r, []string{"skip", "include"}), alias: "sk" + strconv.Itoa(s.n)}
		if isObj(i) {
			a.sub = s.randomSub(unwrapList(t.Fields[i].T))
		}
		pos := s.r.Intn(len(atoms) + 1)
		atoms = append(atoms[:pos], append([]synAtom{a}, atoms[pos:]...)...)
	}
	sels := make([]*selNode, len(atoms))
	bare := make([]bool, len(atoms)) // may stand directly in a union-typed selection set
	for i, a := range atoms {
		sels[i] = s.fieldNode(t, a)
		bare[i] = t.Fields[a.idx].Typename
	}
	num := typeNum(t)
	conds := []string{"", "T" + num, "T" + num}
	switch t.Abstract {
	case "iface":
		conds = append(conds, "I"+num)
	case "union":
		conds = append(conds, "U"+num)
	}
	wrap := func(lo, hi int, forceType bool) {
		body := append([]*selNode{}, sels[lo:hi]...)
		cond := hx.Pick(s.r, conds)
		if forceType {
			cond = "T" + num
		}
		if strings.HasPrefix(cond, "U") {
			// a union has no fields: only type-conditioned selections and __typename may stand in it
			for _, ok := range bare[lo:hi] {
				if !ok {
					cond = "T" + num
				}
			}
		}
		var repl []*selNode
		if s.r.Chance(1, 3) {
			if cond == "" {
				cond = "T" + num
			}
			s.n++
			name := "F" + strconv.Itoa(s.n)
			repl = append(repl, &selNode{kind: "spread", frag: name, cond: cond, applies: true, dirs: s.keptDirective(), body: body})
			if s.r.Chance(1, 5) {
				// a second spread of a visited fragment collects nothing
				repl = append(repl, &selNode{kind: "spread", frag: name, cond: cond, applies: true, body: body})
			}
		} else {
			repl = append(repl, &selNode{kind: "inline", cond: cond, applies: true, dirs: s.keptDirective(), body: body})
		}
		rb := make([]bool, len(repl))
		for i := range rb {
			rb[i] = cond != "" || repl[i].kind == "spread"
		}
		sels = append(sels[:lo], append(repl, sels[hi:]...)...)
		bare = append(bare[:lo], append(rb, bare[hi:]...)...)
	}
	for n := s.r.Intn(4); n > 0 && len(sels) > 0; n-- {
		lo := s.r.Intn(len(sels))
		hi := s.r.Range(lo+1, len(sels))
		wrap(lo, hi, false)
	}
	if t.Abstract == "union" {
		// a union has no fields of its own: everything that is not __typename or already
		// type-conditioned goes under `... on T<n>`
		for i := 0; i < len(sels); i++ {
			if bare[i] {
				continue
			}
			j := i
			for j < len(sels) && (!bare[j] || s.r.Bool()) {
				j++
			}
			wrap(i, j, true)
		}
	}
	if t.Abstract != "" {
		// fragments that do not apply to the concrete type
		for n := s.r.Intn(2); n > 0; n-- {
			sub := s.randomSub(t)
			var parts []*selNode
			for _, it := range sub {
				a := synAtom{idx: it.idx}
				if isObj(it.idx) {
					a.sub = s.randomSub(unwrapList(t.Fields[it.idx].T))
				}
				parts = append(parts, s.fieldNode(t, a))
			}
			// the condition that does not apply: the other object type, an interface only it implements
			// (J<n>), or a union of which only it is a member (V<n>; a union has no fields, so its body
			// is typed again) — chosen without drawing from the generator
			// a key of its own in front, so that a condition that wrongly applies always shows in the data
			s.n++
			mark := &selNode{kind: "field", key: "na" + strconv.Itoa(s.n), name: "__typename", alias: true}
			x := &selNode{kind: "inline", cond: "X" + num, applies: false, body: append([]*selNode{mark}, parts...)}
			switch (s.n + len(sels) + len(parts)) % 3 {
			case 1:
				x.cond = "J" + num
			case 2:
				s.n++
				mark2 := &selNode{kind: "field", key: "na" + strconv.Itoa(s.n), name: "__typename", alias: true}
				x = &selNode{kind: "inline", cond: "V" + num, applies: false, body: []*selNode{mark2, x}}
			}
			pos := s.r.Intn(len(sels) + 1)
			sels = append(sels[:pos], append([]*selNode{x}, sels[pos:]...)...)
			bare = append(bare[:pos], append([]bool{true}, bare[pos:]...)...)
		}
	}
	return sels
}

// plainSet is the presentation for Syntax == 0.
func plainSet(t *TShape) []*selNode {
	t = unwrapList(t)
	if t == nil || t.Kind != "object" {
		return nil
	}
	var out []*selNode
	for _, f := range t.Fields {
		n := &selNode{kind: "field", key: f.Key(), name: f.Name, alias: f.Alias != ""}
		if isObjField(f) {
			n.hasSub = true
			n.body = plainSet(f.T)
		}
		out = append(out, n)
	}
	if t.Abstract == "union" {
		return []*selNode{{kind: "inline", cond: t.TypeName, applies: true, body: out}}
	}
	return out
}

// NullVar is the operation's variable `$nv: Boolean = <default>` for which the request sends an
// explicit null. Used at `if: Boolean!` of @skip / @include the document is valid (a variable with
// a default may stand in a non-null position), but at run time the directive's argument cannot be
// coerced: collectFieldsImpl reports that as an error (no path) and leaves the selection out. The
// error belongs to the collection of one (object type, selection set), which the executor memoises:
// it must be reported once, not once per object the selection set is applied to.
const NullVar = "nv"

// addUncoercibleDirective inserts, into one selection set of the tree (the root's, a field's or an
// inline fragment's — not a named fragment's, whose body may be spread into several selection
// sets), the selection `bv:__typename @skip(if: $nv)` (or @include). It draws from its own
// generator so that the presentations chosen by Case.Syntax stay what they were.
func addUncoercibleDirective(root []*selNode, r *hx.Rand) ([]*selNode, bool) {
	if !r.Chance(1, 4) {
		return root, false
	}
	var slots []*selNode // nil = the root selection set
	slots = append(slots, nil)
	var walk func(ns []*selNode)
	walk = func(ns []*selNode) {
		for _, n := range ns {
			if n.kind == "spread" {
				continue
			}
			if (n.kind == "field" && n.hasSub) || n.kind == "inline" {
				slots = append(slots, n)
			}
			walk(n.body)
		}
	}
	walk(root)
	dir := " @skip(if: $" + NullVar + ")"
	if r.Bool() {
		dir = " @include(if: $" + NullVar + ")"
	}
	bad := &selNode{kind: "field", key: "bv", name: "__typename", alias: true, dirs: dir, skip: true, uncoercible: true}
	slot := slots[r.Intn(len(slots))]
	ins := func(ns []*selNode) []*selNode {
		pos := r.Intn(len(ns) + 1)
		return append(append(append([]*selNode{}, ns[:pos]...), bad), ns[pos:]...)
	}
	if slot == nil {
		return ins(root), true
	}
	slot.body = ins(slot.body)
	return root, true
}

func usesNullVar(ns []*selNode) bool {
	for _, n := range ns {
		if n.uncoercible || usesNullVar(n.body) {
			return true
		}
	}
	return false
}

// Selections builds the root selection set of the document.
func (c *Case) Selections() []*selNode {
	AssignTypeNames(c.Shape)
	if c.Syntax == 0 {
		return plainSet(c.Shape)
	}
	s := &synth{r: hx.NewRand(c.Syntax)}
	sels := s.selSet(c.Shape, allItems(c.Shape, false))
	sels, _ = addUncoercibleDirective(sels, hx.NewRand(c.Syntax^0x9e3779b97f4a7c15))
	if c.Syntax&4 != 0 {
		sels = variablise(sels, hx.NewRand(c.Syntax^0x51ed270b8d5a3c11))
	}
	return sels
}

// UsesNullVar reports whether the document has a directive on $nv (the request then carries
// `{"nv": null}`).
func (c *Case) UsesNullVar() bool { return usesNullVar(c.Selections()) }

// Document prints the operation text.
func (c *Case) Document() string {
	sels := c.Selections()
	var b strings.Builder
	if c.Mutation {
		b.WriteString("mutation ")
	}
	if c.Subscription {
		b.WriteString("subscription ")
	}
	if decl := varDeclarations(sels, c.Mutation); decl != "" {
		if !c.Mutation && !c.Subscription {
			b.WriteString("query ")
		}
		b.WriteString(decl)
	}
	nodesText(&b, sels)
	var defs []string
	fragDefs(sels, map[string]bool{}, &defs)
	for _, f := range defs {
		b.WriteString(" " + f)
	}
	return b.String()
}
