package engine

import (
	"fmt"
	"strconv"
)

// ---- context cancellation ------------------------------------------------------------------------
//
// Case.CancelAt = k > 0: the k-th resolver the executor calls cancels the request's context before
// it returns. From then on executeField fails every field it reaches with the context's error
// (executor.go: `if err := e.Context.Err(); err != nil { return future.Err(newFieldResolveError…) }`)
// without calling its resolver; everything else — promises already returned, idle rounds, value
// completion, null propagation — goes on as before.
//
// Which invocations are reached after the cancellation depends on the execution order, hence on the
// async subset and the schedule: a cancelled run is not expected to equal the all-sync run. It is
// expected to equal the *uncancelled* run of the request in which exactly those invocations fail
// synchronously with "context canceled" — except that their resolvers are not called. The model
// has no notion of a context; the harness finds the set K of such invocations by asking the model
// repeatedly (the first resolver start beyond the k-th, not yet in K, is the next member of K and
// is turned into a synchronous failure), and then compares the cancelled run of the implementation
// with the model's run of the transformed request: data, ordered errors, idle rounds, promises
// created, and the event log without the starts of K. So the executor model covers the
// cancellation path by reduction to resolver failures; what is checked is the reduction.

const MsgCancelled = "context canceled"

// invocationAt returns the world's field invocation at a response path (JSON array text).
func (c *Case) invocationAt(path string) *WField {
	segs := splitPath(path)
	t, w := c.Shape, c.World
	var wf *WField
	for i := 0; i < len(segs); i++ {
		for t != nil && t.Kind == "list" {
			n, err := strconv.Atoi(segs[i])
			if err != nil || w == nil || w.Kind != "list" || n < 0 || n >= len(w.Items) {
				return nil
			}
			t, w = t.Elem, w.Items[n]
			i++
			if i == len(segs) {
				return nil
			}
		}
		if t == nil || t.Kind != "object" || w == nil || w.Kind != "object" {
			return nil
		}
		key, err := strconv.Unquote(segs[i])
		if err != nil {
			return nil
		}
		wf = nil
		for j, f := range t.Fields {
			if f.Key() == key && !f.Typename && j < len(w.Fields) {
				wf = w.Fields[j]
				t, w = f.T, nil
				if wf != nil && wf.Err == "" {
					w = wf.V
				}
				break
			}
		}
		if wf == nil {
			return nil
		}
	}
	return wf
}

// CancelReduce computes the transformed request for c (CancelAt > 0): the same request without
// cancellation in which the invocations reached after the cancellation fail synchronously. It
// returns the transformed case, the response paths of those invocations, and the model's
// observation of the transformed case.
func CancelReduce(c *Case, ask func(string) (string, error)) (*Case, map[string]bool, *Observed, error) {
	d := c.Clone()
	d.CancelAt = 0
	K := map[string]bool{}
	for iter := 0; iter < 200; iter++ {
		reply, err := ask(d.ModelLine())
		if err != nil {
			return nil, nil, nil, err
		}
		mo, err := ParseModelReply(reply)
		if err != nil {
			return nil, nil, nil, err
		}
		count, next := 0, ""
		for _, ev := range mo.Events {
			if ev.Kind == "start" && !K[ev.Path] {
				count++
				if count == c.CancelAt+1 {
					next = ev.Path
					break
				}
			}
		}
		if next == "" {
			return d, K, mo, nil
		}
		wf := d.invocationAt(next)
		if wf == nil {
			return nil, nil, nil, fmt.Errorf("no invocation at %s", next)
		}
		K[next] = true
		wf.Mode, wf.Err, wf.ErrKind, wf.NilErr, wf.V = "sync", MsgCancelled, "ptr", false, nil
	}
	return nil, nil, nil, fmt.Errorf("cancellation set did not stabilise")
}

// CancelSelfCheck is the model-free part for a cancelled run: no resolver is called after the
// cancellation; "context canceled" is only reported for fields whose resolver was not called; and
// the single-run oracles of SelfCheck, with those errors allowed.
func CancelSelfCheck(c *Case, o *Observed) string {
	if o.Panic != "" {
		return "crash|panic: " + o.Panic
	}
	if o.Stuck {
		return fmt.Sprintf("stuck|did not finish: idle handler called in round %d with no outstanding promise (%d promises created)", o.Rounds, o.Promises)
	}
	started := map[string]bool{}
	n := 0
	for _, ev := range o.Events {
		if ev.Kind == "start" {
			n++
			started[ev.Path] = true
		}
	}
	if n > c.CancelAt {
		return fmt.Sprintf("called|%d resolvers were called although the %d. one cancelled the context", n, c.CancelAt)
	}
	if o.Rounds > o.Promises {
		return fmt.Sprintf("rounds|%d idle rounds for %d promises", o.Rounds, o.Promises)
	}
	seen := map[ErrObs]bool{}
	for _, e := range o.Errors {
		if seen[e] {
			return fmt.Sprintf("dup|duplicate error %s %q", e.Path, e.Msg)
		}
		seen[e] = true
	}
	if m := DirectiveErrorOnce(o); m != "" {
		return m
	}
	if m := Conform(c, o); m != "" {
		return "shape|" + m
	}
	all := AllErrors(c)
	for _, e := range o.Errors {
		if e.Msg == MsgCancelled {
			if started[e.Path] {
				return fmt.Sprintf("uncalled|%s reports %q although its resolver was called", e.Path, e.Msg)
			}
			if c.invocationPathExists(e.Path) {
				continue
			}
		}
		if !all[e] {
			return fmt.Sprintf("spurious|error %s %q is not a field error of this request", e.Path, e.Msg)
		}
	}
	for _, e := range o.Errors {
		if _, ok := Landing(o.tree, e.Path); !ok {
			return fmt.Sprintf("landing|error %s %q does not lead to a null in the data %s", e.Path, e.Msg, o.Data)
		}
	}
	return ""
}

func (c *Case) invocationPathExists(path string) bool { return c.invocationAt(path) != nil }

// CompareCancelled compares the cancelled run of the implementation with the model's run of the
// transformed request.
func CompareCancelled(real, mo *Observed, K map[string]bool) string {
	if real.Data != mo.Data {
		return fmt.Sprintf("data: implementation %s, model (transformed request) %s", real.Data, mo.Data)
	}
	if len(real.Errors) != len(mo.Errors) {
		return fmt.Sprintf("error list: implementation %v, model (transformed request) %v", real.Errors, mo.Errors)
	}
	for i := range real.Errors {
		if real.Errors[i] != mo.Errors[i] {
			return fmt.Sprintf("error list: implementation %v, model (transformed request) %v", real.Errors, mo.Errors)
		}
	}
	if real.Rounds != mo.Rounds || real.Promises != mo.Promises {
		return fmt.Sprintf("idle rounds/promises: implementation %d/%d, model (transformed request) %d/%d", real.Rounds, real.Promises, mo.Rounds, mo.Promises)
	}
	var evs []Event
	for _, ev := range mo.Events {
		if ev.Kind == "start" && K[ev.Path] {
			continue
		}
		evs = append(evs, ev)
	}
	if len(evs) != len(real.Events) {
		return fmt.Sprintf("events: implementation %v, model (transformed request, starts of the cancelled fields removed) %v", real.Events, evs)
	}
	for i := range evs {
		if evs[i].Kind != real.Events[i].Kind || evs[i].Path != real.Events[i].Path {
			return fmt.Sprintf("events: implementation %v, model (transformed request, starts of the cancelled fields removed) %v", real.Events, evs)
		}
	}
	return ""
}
