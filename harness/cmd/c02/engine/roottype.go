package engine

import (
	"context"
	"fmt"
	"strings"

	"github.com/ccbrown/api-fu/graphql"
)

// ---- a root type that is also a field type --------------------------------------------------------
//
// The generated schemas never reach the query type beneath the root. The validator accepts the
// meta fields `__schema` and `__type` wherever the parent type IS the query type, so the executor
// has to define them at every such position — a Relay-style `self: Query` field, list items of
// type Query, a mutation payload's `query` field, directly or through a promise — or the
// pre-allocated slot of the meta field stays unset: `{"":null}` without an error (seed C02-26; the
// property's "never returns an object with a missing, blank or unset response key").
//
//	type Query { n: Int  self: Query  selfs: [Query!] (two items) }
//	type Mutation { doIt: Payload }     type Payload { query: Query }
//
// `__typename`, `__schema { queryType { name } }` and `__type(name: "Query") { name }` are selected at
// the root and at the nested positions; every subset of {self, selfs, doIt, query} answers through
// promises × every schedule. Oracle, model-free and absolute: the data is the expected text (every
// object has exactly the keys of its selection set), no errors, idle rounds ≤ promises.

type rootVal struct {
	rt    *runtime
	modes map[string]string
}

var rootSchema *graphql.Schema

func rootBuildSchema() (*graphql.Schema, error) {
	if rootSchema != nil {
		return rootSchema, nil
	}
	query := &graphql.ObjectType{Name: "Query"}
	again := func(pos string) func(graphql.FieldContext) (interface{}, error) {
		return func(ctx graphql.FieldContext) (interface{}, error) {
			o := ctx.Object.(*rootVal)
			return o.rt.answer(o.modes[pos], &rootVal{rt: o.rt, modes: o.modes})
		}
	}
	query.Fields = map[string]*graphql.FieldDefinition{
		"n":    {Type: graphql.IntType, Resolve: func(graphql.FieldContext) (interface{}, error) { return 1, nil }},
		"self": {Type: query, Resolve: again("self")},
		"selfs": {Type: graphql.NewListType(graphql.NewNonNullType(query)), Resolve: func(ctx graphql.FieldContext) (interface{}, error) {
			o := ctx.Object.(*rootVal)
			return o.rt.answer(o.modes["selfs"], []any{&rootVal{rt: o.rt, modes: o.modes}, &rootVal{rt: o.rt, modes: o.modes}})
		}},
	}
	payload := &graphql.ObjectType{Name: "Payload", Fields: map[string]*graphql.FieldDefinition{"query": {Type: query, Resolve: again("query")}}}
	mutation := &graphql.ObjectType{Name: "Mutation", Fields: map[string]*graphql.FieldDefinition{"doIt": {Type: payload, Resolve: again("doIt")}}}
	s, err := graphql.NewSchema(&graphql.SchemaDefinition{Query: query, Mutation: mutation})
	if err != nil {
		return nil, err
	}
	rootSchema = s
	return s, nil
}

const (
	rootS = `{"queryType":{"name":"Query"}}`
	rootT = `{"name":"Query"}`
)

// RootDocs: the documents of the family with their expected data.
var RootDocs = []ArgsDoc{
	{`{__typename __schema{queryType{name}} __type(name:"Query"){name} self{__typename n __schema{queryType{name}} t:__type(name:"Query"){name}}}`,
		`{"__typename":"Query","__schema":` + rootS + `,"__type":` + rootT + `,"self":{"__typename":"Query","n":1,"__schema":` + rootS + `,"t":` + rootT + `}}`, []string{"self"}},
	{`{selfs{n __schema{queryType{name}}} n}`,
		`{"selfs":[{"n":1,"__schema":` + rootS + `},{"n":1,"__schema":` + rootS + `}],"n":1}`, []string{"selfs"}},
	{`{self{self{__type(name:"Query"){name} n} s:__schema{queryType{name}}}}`,
		`{"self":{"self":{"__type":` + rootT + `,"n":1},"s":` + rootS + `}}`, []string{"self"}},
	{`{selfs{self{n t:__type(name:"Query"){name}}} self{n}}`,
		`{"selfs":[{"self":{"n":1,"t":` + rootT + `}},{"self":{"n":1,"t":` + rootT + `}}],"self":{"n":1}}`, []string{"selfs", "self"}},
	{`mutation{doIt{query{n __schema{queryType{name}} self{__type(name:"Query"){name}}}}}`,
		`{"doIt":{"query":{"n":1,"__schema":` + rootS + `,"self":{"__type":` + rootT + `}}}}`, []string{"doIt", "query", "self"}},
}

// RootRun executes one document of the family.
func RootRun(doc string, async []string, sched []uint64) (*Observed, error) {
	s, err := rootBuildSchema()
	if err != nil {
		return nil, err
	}
	parsed, errs := graphql.ParseAndValidate(doc, s, nil)
	if len(errs) > 0 {
		return nil, fmt.Errorf("document %q rejected: %v", doc, errs[0].Message)
	}
	modes := map[string]string{}
	for _, p := range async {
		modes[p] = "promise"
	}
	rt := &runtime{sched: sched}
	obs := &Observed{}
	var resp *graphql.Response
	func() {
		defer func() {
			if p := recover(); p != nil {
				if _, ok := p.(stuckSentinel); ok {
					obs.Stuck = true
					return
				}
				obs.Panic = fmt.Sprint(p)
			}
		}()
		resp = graphql.Execute(&graphql.Request{
			Context:      context.Background(),
			Document:     parsed,
			Schema:       s,
			InitialValue: &rootVal{rt: rt, modes: modes},
			IdleHandler:  rt.idle,
		})
	}()
	obs.Rounds, obs.Promises, obs.Widths = rt.rounds, rt.all, rt.widths
	if resp == nil {
		obs.Data = "<none>"
		return obs, nil
	}
	var data any
	if resp.Data != nil {
		data = *resp.Data
	}
	obs.tree = dataTree(data)
	var b strings.Builder
	treeText(&b, obs.tree)
	obs.Data = b.String()
	for _, e := range resp.Errors {
		obs.Errors = append(obs.Errors, ErrObs{Path: pathText(e.Path), Msg: canonMsg(e.Message)})
	}
	return obs, nil
}

// RootCheck is the oracle for one run.
func RootCheck(d ArgsDoc, o *Observed) string {
	switch {
	case o.Panic != "":
		return "panic: " + o.Panic
	case o.Stuck:
		return "did not finish"
	case len(o.Errors) > 0:
		return fmt.Sprintf("errors %v", o.Errors)
	case o.Data != d.Want:
		return fmt.Sprintf("data %s, expected (every object has exactly the keys of its selection set, the meta fields are defined wherever the parent type is the query type) %s", o.Data, d.Want)
	case o.Rounds > o.Promises:
		return fmt.Sprintf("%d idle rounds for %d promises", o.Rounds, o.Promises)
	}
	return ""
}

// RootFamily runs every document × every async subset × every schedule.
func RootFamily(perDoc int, report func(d ArgsDoc, async []string, sched []uint64, o *Observed, fail string)) (complete bool, err error) {
	complete = true
	for _, d := range RootDocs {
		n := 0
		for sub := 0; sub < 1<<len(d.Positions); sub++ {
			var async []string
			for i, p := range d.Positions {
				if sub>>i&1 == 1 {
					async = append(async, p)
				}
			}
			var rec func(prefix []uint64) error
			rec = func(prefix []uint64) error {
				if n >= perDoc {
					complete = false
					return nil
				}
				o, err := RootRun(d.Doc, async, prefix)
				if err != nil {
					return err
				}
				n++
				report(d, async, prefix, o, RootCheck(d, o))
				for k := len(prefix); k < len(o.Widths); k++ {
					w := o.Widths[k]
					if w > 6 {
						w = 6
					}
					for m := uint64(1); m < (uint64(1)<<uint(w))-1; m++ {
						p := append([]uint64{}, prefix...)
						for len(p) < k {
							p = append(p, AllMask)
						}
						if err := rec(append(p, m)); err != nil {
							return err
						}
					}
				}
				return nil
			}
			if err := rec(nil); err != nil {
				return complete, err
			}
		}
	}
	return complete, nil
}
