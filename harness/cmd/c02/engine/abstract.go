package engine

import (
	"context"
	"fmt"
	"strings"

	"github.com/ccbrown/api-fu/graphql"
)

// ---- abstract positions whose candidate types overlap -------------------------------------------
//
// In the generated schemas (real.go) exactly one candidate type accepts a value. completeValue's
// rule for an interface / union position is "the first candidate, in the schema's order
// (InterfaceImplementations / MemberTypes), whose IsTypeOf accepts the value"; with a specific type
// declared before a catch-all one, several candidates accept the same value and the order decides.
// Nothing but the value and that order may decide: not which other values of the abstract type were
// completed before — which depends on which resolvers answer through promises and on the fulfilment
// order (seed C02-24). This fixed family has such a pair behind a union and behind an interface,
// several values of the abstract type per request (sibling fields, list items, nested), every
// subset of the positions answering through promises × every fulfilment schedule.
//
//	type Square implements Shape { name: String!  side: Int  next: Thing }    IsTypeOf: squares only
//	type Blob   implements Shape { name: String!  mass: Int  next: Thing }    IsTypeOf: every value (catch-all)
//	union Thing = Square | Blob          interface Shape { name: String! }
//	type Query { a, c: Thing (squares)  b: Thing (a blob)  things: [Thing] = [sq, bl, sq]
//	             sa: Shape (square)  sb: Shape (blob)  shapes: [Shape] = [bl, sq, sq] }
//	next of a square is a blob, next of a blob is a square.
//
// Oracle, model-free and absolute: the data is the text written down from the rule above — the
// same for every async subset and schedule —, no errors, idle rounds ≤ promises.

type absVal struct {
	rt    *runtime
	modes map[string]string
	kind  string // sq | bl
}

var absSchema *graphql.Schema
var absShapeOrder []string // the schema's order of Shape's implementations

func absBuildSchema() (*graphql.Schema, error) {
	if absSchema != nil {
		return absSchema, nil
	}
	shape := &graphql.InterfaceType{Name: "Shape", Fields: map[string]*graphql.FieldDefinition{
		"name": {Type: graphql.NewNonNullType(graphql.StringType)},
	}}
	thing := &graphql.UnionType{Name: "Thing"}
	name := &graphql.FieldDefinition{Type: graphql.NewNonNullType(graphql.StringType), Resolve: func(ctx graphql.FieldContext) (interface{}, error) {
		return ctx.Object.(*absVal).kind, nil
	}}
	num := func(n int) *graphql.FieldDefinition {
		return &graphql.FieldDefinition{Type: graphql.IntType, Resolve: func(graphql.FieldContext) (interface{}, error) { return n, nil }}
	}
	next := &graphql.FieldDefinition{Type: thing, Resolve: func(ctx graphql.FieldContext) (interface{}, error) {
		o := ctx.Object.(*absVal)
		other := "bl"
		if o.kind == "bl" {
			other = "sq"
		}
		return o.rt.answer(o.modes["next"], &absVal{rt: o.rt, modes: o.modes, kind: other})
	}}
	square := &graphql.ObjectType{Name: "Square", ImplementedInterfaces: []*graphql.InterfaceType{shape},
		Fields:   map[string]*graphql.FieldDefinition{"name": name, "side": num(4), "next": next},
		IsTypeOf: func(v interface{}) bool { o, ok := v.(*absVal); return ok && o.kind == "sq" }}
	blob := &graphql.ObjectType{Name: "Blob", ImplementedInterfaces: []*graphql.InterfaceType{shape},
		Fields:   map[string]*graphql.FieldDefinition{"name": name, "mass": num(7), "next": next},
		IsTypeOf: func(v interface{}) bool { _, ok := v.(*absVal); return ok }}
	thing.MemberTypes = []*graphql.ObjectType{square, blob}
	one := func(field, kind string, t graphql.Type) *graphql.FieldDefinition {
		return &graphql.FieldDefinition{Type: t, Resolve: func(ctx graphql.FieldContext) (interface{}, error) {
			o := ctx.Object.(*absVal)
			return o.rt.answer(o.modes[field], &absVal{rt: o.rt, modes: o.modes, kind: kind})
		}}
	}
	many := func(field string, kinds []string, t graphql.Type) *graphql.FieldDefinition {
		return &graphql.FieldDefinition{Type: graphql.NewListType(t), Resolve: func(ctx graphql.FieldContext) (interface{}, error) {
			o := ctx.Object.(*absVal)
			var out []any
			for _, k := range kinds {
				out = append(out, &absVal{rt: o.rt, modes: o.modes, kind: k})
			}
			return o.rt.answer(o.modes[field], out)
		}}
	}
	query := &graphql.ObjectType{Name: "Query", Fields: map[string]*graphql.FieldDefinition{
		"a": one("a", "sq", thing), "b": one("b", "bl", thing), "c": one("c", "sq", thing),
		"things": many("things", []string{"sq", "bl", "sq"}, thing),
		"sa":     one("sa", "sq", shape), "sb": one("sb", "bl", shape),
		"shapes": many("shapes", []string{"bl", "sq", "sq"}, shape),
	}}
	s, err := graphql.NewSchema(&graphql.SchemaDefinition{Query: query, AdditionalTypes: []graphql.NamedType{square, blob},
		Directives: map[string]*graphql.DirectiveDefinition{"skip": graphql.SkipDirective, "include": graphql.IncludeDirective}})
	if err != nil {
		return nil, err
	}
	for _, t := range s.InterfaceImplementations("Shape") {
		absShapeOrder = append(absShapeOrder, t.Name)
	}
	absSchema = s
	return s, nil
}

// absTypeOf: the first candidate in `order` that accepts a value of the kind.
func absTypeOf(kind string, order []string) string {
	for _, t := range order {
		if t == "Blob" || (t == "Square" && kind == "sq") {
			return t
		}
	}
	return "?"
}

// absSelI stands where the static type is the interface, absSel where it is the union (a union
// has no fields of its own); both collect to __typename, name, side | mass.
const absSelI = `{__typename name ... on Square {side} ... on Blob {mass}}`
const absSel = `{__typename ... on Square {name side} ... on Blob {name mass}}`

// … and with the type-conditioned fragments only *inside* an inline fragment that has no type
// condition (one that groups selections or carries a directive): the selection set has no type
// condition at its top level, yet collects differently for different object types (seed C02-22:
// a collectFields memo that leaves the object type out of its key for such selection sets).
const absSelNested = `{__typename ... {... on Square {name side} ... on Blob {name mass}}}`
const absSelINested = `{__typename name ... @include(if: true) {... on Square {side} ... on Blob {mass}}}`

// absObj: the data of one value under absSel (plus `extra`, already printed, if any).
func absObj(kind string, order []string, extra string) string {
	t := absTypeOf(kind, order)
	s := `{"__typename":"` + t + `","name":"` + kind + `"`
	if t == "Square" {
		s += `,"side":4`
	} else {
		s += `,"mass":7`
	}
	return s + extra + "}"
}

// AbsDocs builds the documents with their expected data (needs the schema for Shape's order).
func AbsDocs() ([]ArgsDoc, error) {
	if _, err := absBuildSchema(); err != nil {
		return nil, err
	}
	u := []string{"Square", "Blob"}
	i := absShapeOrder
	list := func(kinds []string, order []string) string {
		var parts []string
		for _, k := range kinds {
			parts = append(parts, absObj(k, order, ""))
		}
		return "[" + strings.Join(parts, ",") + "]"
	}
	return []ArgsDoc{
		{`{x: b ` + absSel + ` y: a ` + absSel + `}`,
			`{"x":` + absObj("bl", u, "") + `,"y":` + absObj("sq", u, "") + `}`, []string{"a", "b"}},
		{`{x: a ` + absSel + ` y: b ` + absSel + ` z: c ` + absSel + `}`,
			`{"x":` + absObj("sq", u, "") + `,"y":` + absObj("bl", u, "") + `,"z":` + absObj("sq", u, "") + `}`, []string{"a", "b", "c"}},
		{`{things ` + absSel + ` c ` + absSel + `}`,
			`{"things":` + list([]string{"sq", "bl", "sq"}, u) + `,"c":` + absObj("sq", u, "") + `}`, []string{"things", "c"}},
		{`{x: sb ` + absSelI + ` y: sa ` + absSelI + `}`,
			`{"x":` + absObj("bl", i, "") + `,"y":` + absObj("sq", i, "") + `}`, []string{"sa", "sb"}},
		{`{shapes ` + absSelI + ` sa ` + absSelI + `}`,
			`{"shapes":` + list([]string{"bl", "sq", "sq"}, i) + `,"sa":` + absObj("sq", i, "") + `}`, []string{"shapes", "sa"}},
		{`{b {__typename ... on Blob {name mass next ` + absSel + `}} a {__typename ... on Square {name side next ` + absSel + `}}}`,
			`{"b":{"__typename":"Blob","name":"bl","mass":7,"next":` + absObj("sq", u, "") + `},"a":{"__typename":"Square","name":"sq","side":4,"next":` + absObj("bl", u, "") + `}}`,
			[]string{"a", "b", "next"}},
		{`{things ` + absSelNested + ` b ` + absSelNested + `}`,
			`{"things":` + list([]string{"sq", "bl", "sq"}, u) + `,"b":` + absObj("bl", u, "") + `}`, []string{"things", "b"}},
		{`{shapes ` + absSelINested + ` x: sa ` + absSelINested + `}`,
			`{"shapes":` + list([]string{"bl", "sq", "sq"}, i) + `,"x":` + absObj("sq", i, "") + `}`, []string{"shapes", "sa"}},
		{`{x: a {...F} y: b {...F} z: c {...F}} fragment F on Thing ` + absSelNested,
			`{"x":` + absObj("sq", u, "") + `,"y":` + absObj("bl", u, "") + `,"z":` + absObj("sq", u, "") + `}`, []string{"a", "b", "c"}},
	}, nil
}

// AbsRun executes one document of the family.
func AbsRun(doc string, async []string, sched []uint64) (*Observed, error) {
	s, err := absBuildSchema()
	if err != nil {
		return nil, err
	}
	parsed, errs := graphql.ParseAndValidate(doc, s, nil)
	if len(errs) > 0 {
		return nil, fmt.Errorf("document %q rejected: %v", doc, errs[0].Message)
	}
	modes := map[string]string{}
	for _, p := range async {
		modes[p] = "promise"
	}
	rt := &runtime{sched: sched}
	obs := &Observed{}
	var resp *graphql.Response
	func() {
		defer func() {
			if p := recover(); p != nil {
				if _, ok := p.(stuckSentinel); ok {
					obs.Stuck = true
					return
				}
				obs.Panic = fmt.Sprint(p)
			}
		}()
		resp = graphql.Execute(&graphql.Request{
			Context:      context.Background(),
			Document:     parsed,
			Schema:       s,
			InitialValue: &absVal{rt: rt, modes: modes},
			IdleHandler:  rt.idle,
		})
	}()
	obs.Rounds, obs.Promises, obs.Widths = rt.rounds, rt.all, rt.widths
	if resp == nil {
		obs.Data = "<none>"
		return obs, nil
	}
	var data any
	if resp.Data != nil {
		data = *resp.Data
	}
	obs.tree = dataTree(data)
	var b strings.Builder
	treeText(&b, obs.tree)
	obs.Data = b.String()
	for _, e := range resp.Errors {
		obs.Errors = append(obs.Errors, ErrObs{Path: pathText(e.Path), Msg: canonMsg(e.Message)})
	}
	return obs, nil
}

// AbsCheck is the oracle for one run.
func AbsCheck(d ArgsDoc, o *Observed) string {
	switch {
	case o.Panic != "":
		return "panic: " + o.Panic
	case o.Stuck:
		return "did not finish"
	case len(o.Errors) > 0:
		return fmt.Sprintf("errors %v", o.Errors)
	case o.Data != d.Want:
		return fmt.Sprintf("data %s, expected (the concrete type of a value is the first candidate in the schema's order that accepts it) %s", o.Data, d.Want)
	case o.Rounds > o.Promises:
		return fmt.Sprintf("%d idle rounds for %d promises", o.Rounds, o.Promises)
	}
	return ""
}

// AbsFamily runs every document × every async subset × every schedule (at most perDoc runs per
// document) and calls report for each run.
func AbsFamily(perDoc int, report func(d ArgsDoc, async []string, sched []uint64, o *Observed, fail string)) (complete bool, err error) {
	docs, err := AbsDocs()
	if err != nil {
		return false, err
	}
	complete = true
	for _, d := range docs {
		n := 0
		for sub := 0; sub < 1<<len(d.Positions); sub++ {
			var async []string
			for i, p := range d.Positions {
				if sub>>i&1 == 1 {
					async = append(async, p)
				}
			}
			var rec func(prefix []uint64) error
			rec = func(prefix []uint64) error {
				if n >= perDoc {
					complete = false
					return nil
				}
				o, err := AbsRun(d.Doc, async, prefix)
				if err != nil {
					return err
				}
				n++
				report(d, async, prefix, o, AbsCheck(d, o))
				for k := len(prefix); k < len(o.Widths); k++ {
					w := o.Widths[k]
					if w > 6 {
						w = 6
					}
					for m := uint64(1); m < (uint64(1)<<uint(w))-1; m++ {
						p := append([]uint64{}, prefix...)
						for len(p) < k {
							p = append(p, AllMask)
						}
						if err := rec(append(p, m)); err != nil {
							return err
						}
					}
				}
				return nil
			}
			if err := rec(nil); err != nil {
				return complete, err
			}
		}
	}
	return complete, nil
}
