package engine

import (
	"fmt"
	"strconv"
)

// ParseShape reads the compact shape notation used for the fixed requests of the bounded-exhaustive
// part:   type := "i" | "[" type "!"? "]" | "{" (name "!"? ":" type | name "#")* "}"
// e.g. `{a:i b!:i o:{x!:i t# y:i} l:[{z!:i}!]}`   (`t#` is an aliased __typename).
func ParseShape(src string) (*TShape, error) {
	p := &shapeParser{s: src}
	t, err := p.ty()
	if err != nil {
		return nil, err
	}
	p.ws()
	if p.i != len(p.s) {
		return nil, fmt.Errorf("trailing input at %d in %q", p.i, src)
	}
	if t.Kind != "object" {
		return nil, fmt.Errorf("root must be an object: %q", src)
	}
	AssignTypeNames(t)
	return t, nil
}

func MustShape(src string) *TShape {
	t, err := ParseShape(src)
	if err != nil {
		panic(err)
	}
	return t
}

type shapeParser struct {
	s string
	i int
}

func (p *shapeParser) ws() {
	for p.i < len(p.s) && (p.s[p.i] == ' ' || p.s[p.i] == '\n' || p.s[p.i] == '\t') {
		p.i++
	}
}

func (p *shapeParser) ty() (*TShape, error) {
	p.ws()
	if p.i >= len(p.s) {
		return nil, fmt.Errorf("unexpected end of %q", p.s)
	}
	switch p.s[p.i] {
	case 'i':
		p.i++
		return &TShape{Kind: "int"}, nil
	case '[':
		p.i++
		e, err := p.ty()
		if err != nil {
			return nil, err
		}
		t := &TShape{Kind: "list", Elem: e}
		p.ws()
		if p.i < len(p.s) && p.s[p.i] == '!' {
			t.ElemNN = true
			p.i++
		}
		p.ws()
		if p.i >= len(p.s) || p.s[p.i] != ']' {
			return nil, fmt.Errorf("expected ] at %d in %q", p.i, p.s)
		}
		p.i++
		return t, nil
	case '{':
		p.i++
		t := &TShape{Kind: "object"}
		for {
			p.ws()
			if p.i >= len(p.s) {
				return nil, fmt.Errorf("unterminated { in %q", p.s)
			}
			if p.s[p.i] == '}' {
				p.i++
				if p.i+1 < len(p.s) && p.s[p.i] == '~' {
					switch p.s[p.i+1] {
					case 'i':
						t.Abstract = "iface"
					case 'u':
						t.Abstract = "union"
					default:
						return nil, fmt.Errorf("expected ~i or ~u at %d in %q", p.i, p.s)
					}
					p.i += 2
				}
				return t, nil
			}
			st := p.i
			for p.i < len(p.s) && (p.s[p.i] >= 'a' && p.s[p.i] <= 'z' || p.s[p.i] >= '0' && p.s[p.i] <= '9' || p.s[p.i] >= 'A' && p.s[p.i] <= 'Z') {
				p.i++
			}
			name := p.s[st:p.i]
			if name == "" {
				return nil, fmt.Errorf("expected a field name at %d in %q", p.i, p.s)
			}
			f := &FShape{Name: name}
			if p.i < len(p.s) && p.s[p.i] == '#' {
				p.i++
				f.Typename, f.Alias, f.Name = true, name, "__typename"
				t.Fields = append(t.Fields, f)
				continue
			}
			if p.i < len(p.s) && p.s[p.i] == '!' {
				f.NN = true
				p.i++
			}
			if p.i >= len(p.s) || p.s[p.i] != ':' {
				return nil, fmt.Errorf("expected : at %d in %q", p.i, p.s)
			}
			p.i++
			ft, err := p.ty()
			if err != nil {
				return nil, err
			}
			f.T = ft
			t.Fields = append(t.Fields, f)
		}
	}
	return nil, fmt.Errorf("unexpected %q at %d in %q", p.s[p.i], p.i, p.s)
}

// EnumWorlds enumerates worlds for a shape: every Int-typed field invocation and list item takes
// each outcome of `leaf` (val | null | err | errv | bad), object-typed fields take each of `obj`
// (val | null | err), lists have exactly listLen items (plus null / notlist when listAlt).
// All invocations are synchronous; the caller assigns modes. visit returns false to stop.
func EnumWorlds(t *TShape, leaf, obj []string, listLen int, listAlt bool, visit func(*WVal) bool) {
	n := 0
	var vals func(t *TShape, inField bool) []*WVal
	fieldOutcomes := func(f *FShape) []*WField {
		var out []*WField
		kinds := obj
		if f.T.Kind == "int" {
			kinds = leaf
		}
		hasErr, hasErrV := false, false
		for _, k := range kinds {
			if k == "err" {
				hasErr = true
			}
			if k == "errv" {
				hasErrV = true
			}
		}
		for _, v := range vals(f.T, true) {
			out = append(out, &WField{Mode: "sync", V: v})
		}
		if hasErr {
			n++
			out = append(out, &WField{Mode: "sync", Err: "e" + strconv.Itoa(n%7), ErrKind: "ptr"})
		}
		if hasErrV {
			out = append(out, &WField{Mode: "sync", Err: "ev", ErrKind: "value"})
		}
		return out
	}
	has := func(xs []string, k string) bool {
		for _, x := range xs {
			if x == k {
				return true
			}
		}
		return false
	}
	vals = func(t *TShape, inField bool) []*WVal {
		switch t.Kind {
		case "int":
			var out []*WVal
			if has(leaf, "val") {
				out = append(out, &WVal{Kind: "int", N: 1})
			}
			if has(leaf, "null") {
				out = append(out, &WVal{Kind: "null"})
			}
			if has(leaf, "bad") {
				out = append(out, &WVal{Kind: "badint"})
			}
			return out
		case "list":
			items := vals(t.Elem, false)
			var out []*WVal
			// all item tuples of length listLen
			var rec func(prefix []*WVal)
			rec = func(prefix []*WVal) {
				if len(prefix) == listLen {
					w := &WVal{Kind: "list"}
					for _, it := range prefix {
						w.Items = append(w.Items, it.Clone())
					}
					out = append(out, w)
					return
				}
				for _, it := range items {
					rec(append(prefix, it))
				}
			}
			rec(nil)
			if listAlt {
				out = append(out, &WVal{Kind: "null"}, &WVal{Kind: "notlist"})
			}
			return out
		default:
			// cartesian product of the field outcomes
			var per [][]*WField
			for _, f := range t.Fields {
				if f.Typename {
					per = append(per, []*WField{nil})
					continue
				}
				per = append(per, fieldOutcomes(f))
			}
			var out []*WVal
			var rec func(i int, acc []*WField)
			rec = func(i int, acc []*WField) {
				if len(out) > 200000 {
					return
				}
				if i == len(per) {
					w := &WVal{Kind: "object"}
					for _, f := range acc {
						if f == nil {
							w.Fields = append(w.Fields, nil)
						} else {
							g := *f
							g.V = f.V.Clone()
							w.Fields = append(w.Fields, &g)
						}
					}
					out = append(out, w)
					return
				}
				for _, o := range per[i] {
					rec(i+1, append(acc, o))
				}
			}
			rec(0, nil)
			if inField && has(obj, "null") {
				out = append(out, &WVal{Kind: "null"})
			}
			return out
		}
	}
	for _, w := range vals(t, false) {
		if !visit(w) {
			return
		}
	}
}
