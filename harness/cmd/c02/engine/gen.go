package engine

import (
	"strconv"

	"verifharness/hx"
)

// GenOpts steers the random generator.
type GenOpts struct {
	MaxDepth   int
	MaxFields  int
	MaxItems   int
	Mutation   bool
	RootFields int  // 0 = random
	NoAbstract bool // never declare a position with an interface or union type
}

var errMsgs = []string{"boom", "nope", "E3"}

// GenShape draws an object shape.
func GenShape(r *hx.Rand, o GenOpts, depth int, nfields int) *TShape {
	t := &TShape{Kind: "object"}
	if depth > 0 && !o.NoAbstract {
		switch r.Intn(8) {
		case 0:
			t.Abstract = "iface"
		case 1:
			t.Abstract = "union"
		}
	}
	if nfields == 0 {
		nfields = r.Range(1, o.MaxFields)
	}
	plainTypename := false
	for i := 0; i < nfields; i++ {
		f := &FShape{Name: "f" + strconv.Itoa(i)}
		if r.Chance(1, 8) {
			f.Alias = "a" + strconv.Itoa(i)
		}
		if depth > 0 && i > 0 && r.Chance(1, 14) {
			f.Typename = true
			f.Name = "__typename"
			f.Alias = ""
			if plainTypename || r.Bool() {
				f.Alias = "tn" + strconv.Itoa(i)
			} else {
				plainTypename = true
			}
			t.Fields = append(t.Fields, f)
			continue
		}
		f.NN = r.Chance(2, 5)
		f.T = genType(r, o, depth)
		t.Fields = append(t.Fields, f)
	}
	return t
}

func genType(r *hx.Rand, o GenOpts, depth int) *TShape {
	if depth >= o.MaxDepth {
		if r.Chance(1, 4) {
			return &TShape{Kind: "list", Elem: &TShape{Kind: "int"}, ElemNN: r.Bool()}
		}
		return &TShape{Kind: "int"}
	}
	switch r.Intn(10) {
	case 0, 1, 2:
		return &TShape{Kind: "int"}
	case 3, 4, 5:
		return &TShape{Kind: "list", Elem: genType(r, o, depth+1), ElemNN: r.Chance(2, 5)}
	default:
		return GenShape(r, o, depth+1, 0)
	}
}

// GenWorld draws a world for the shape. pAsync/8 is the probability of a promise per invocation,
// pFail/16 that of a failing invocation, pNull/16 that of a null.
type WorldOpts struct {
	PAsync, PFail, PNull, PBad int
	MaxItems                   int
	ValueKindErrors            bool
	NilKindErrors              bool // errors whose dynamic value is a nil slice / nil map of an error type (F-02c)
}

func GenWorld(r *hx.Rand, t *TShape, o WorldOpts) *WVal {
	return genVal(r, t, o, true)
}

func genVal(r *hx.Rand, t *TShape, o WorldOpts, forceNonNull bool) *WVal {
	if !forceNonNull && r.Chance(o.PNull, 16) {
		return &WVal{Kind: "null"}
	}
	switch t.Kind {
	case "int":
		if r.Chance(o.PBad, 16) {
			return &WVal{Kind: "badint"}
		}
		return &WVal{Kind: "int", N: r.Range(-3, 99)}
	case "list":
		if r.Chance(o.PBad, 24) {
			return &WVal{Kind: "notlist"}
		}
		n := r.Range(0, o.MaxItems)
		w := &WVal{Kind: "list"}
		for i := 0; i < n; i++ {
			w.Items = append(w.Items, genVal(r, t.Elem, o, false))
		}
		return w
	default:
		w := &WVal{Kind: "object"}
		for _, f := range t.Fields {
			if f.Typename {
				w.Fields = append(w.Fields, nil)
				continue
			}
			wf := &WField{Mode: "sync"}
			switch {
			case r.Chance(o.PAsync, 8):
				wf.Mode = "promise"
				if r.Chance(1, 8) {
					wf.Mode = "pre"
				}
			}
			if r.Chance(o.PFail, 16) {
				wf.Err = hx.Pick(r, errMsgs)
				wf.ErrKind = "ptr"
				if o.ValueKindErrors && r.Chance(1, 3) {
					wf.ErrKind = "value"
				} else if o.NilKindErrors && r.Chance(1, 6) {
					if r.Bool() {
						wf.ErrKind, wf.Err = "nilslice", MsgNilSliceErr
					} else {
						wf.ErrKind, wf.Err = "nilmap", MsgNilMapErr
					}
				}
			} else {
				wf.V = genVal(r, f.T, o, false)
				wf.NilErr = r.Chance(1, 12)
			}
			w.Fields = append(w.Fields, wf)
		}
		return w
	}
}

// GenSchedule draws masks for `rounds` idle rounds in one of several styles.
func GenSchedule(r *hx.Rand, rounds int) []uint64 {
	style := r.Intn(6)
	out := make([]uint64, 0, rounds)
	for i := 0; i < rounds; i++ {
		switch style {
		case 0: // one promise per round, oldest first
			out = append(out, 1)
		case 1: // one promise per round, random position
			out = append(out, 1<<uint(r.Intn(6)))
		case 2: // newest-ish first
			out = append(out, 1<<uint(5-r.Intn(3))|1<<uint(r.Intn(8)))
		case 3: // random subsets
			out = append(out, r.Uint64()&0xff)
		case 4: // everything
			out = append(out, AllMask)
		default: // mixed
			switch r.Intn(3) {
			case 0:
				out = append(out, 1<<uint(r.Intn(4)))
			case 1:
				out = append(out, r.Uint64()&0x3f)
			default:
				out = append(out, AllMask)
			}
		}
	}
	return out
}

// ---- shrinking ----------------------------------------------------------------------------------

// Shrinks returns smaller variants of the case (each a deep copy).
func Shrinks(c *Case) []*Case {
	var out []*Case
	// presentation: the plain document; object types instead of interfaces / unions
	if c.LazyIdle {
		d := c.Clone()
		d.LazyIdle = false
		out = append(out, d)
	}
	if c.Syntax != 0 {
		d := c.Clone()
		d.Syntax = 0
		out = append(out, d)
		for _, s := range []uint64{1, 2, 3, 4, 5, 6, 7, 8} {
			if s < c.Syntax {
				d := c.Clone()
				d.Syntax = s
				out = append(out, d)
			}
		}
	}
	{
		n := 0
		var count func(t *TShape)
		count = func(t *TShape) {
			if t == nil {
				return
			}
			if t.Kind == "object" && t.Abstract != "" {
				n++
			}
			count(t.Elem)
			for _, f := range t.Fields {
				count(f.T)
			}
		}
		count(c.Shape)
		for k := 0; k < n; k++ {
			d := c.Clone()
			i := 0
			var clear func(t *TShape)
			clear = func(t *TShape) {
				if t == nil {
					return
				}
				if t.Kind == "object" && t.Abstract != "" {
					if i == k {
						t.Abstract = ""
					}
					i++
				}
				clear(t.Elem)
				for _, f := range t.Fields {
					clear(f.T)
				}
			}
			clear(d.Shape)
			out = append(out, d)
		}
	}
	// schedule: drop a round, or make a round fulfil everything / only the first
	for i := range c.Schedule {
		d := c.Clone()
		d.Schedule = append(d.Schedule[:i], d.Schedule[i+1:]...)
		out = append(out, d)
	}
	for i, m := range c.Schedule {
		if m != AllMask {
			d := c.Clone()
			d.Schedule[i] = AllMask
			out = append(out, d)
		}
		if m != 1 && m != AllMask {
			d := c.Clone()
			d.Schedule[i] = 1
			out = append(out, d)
		}
	}
	// modes: promise → sync, pre → promise
	n := len(c.Invocations())
	for i := 0; i < n; i++ {
		if m := c.Invocations()[i].Mode; m != "sync" {
			d := c.Clone()
			d.Invocations()[i].Mode = "sync"
			out = append(out, d)
			if m == "pre" {
				d := c.Clone()
				d.Invocations()[i].Mode = "promise"
				out = append(out, d)
			}
		}
		if c.Invocations()[i].NilErr {
			d := c.Clone()
			d.Invocations()[i].NilErr = false
			out = append(out, d)
		}
		if k := c.Invocations()[i].ErrKind; k == "nilslice" || k == "nilmap" {
			d := c.Clone()
			d.Invocations()[i].ErrKind = "ptr"
			out = append(out, d)
		}
		if c.Invocations()[i].ErrKind == "value" {
			d := c.Clone()
			d.Invocations()[i].ErrKind = "ptr"
			out = append(out, d)
		}
	}
	out = append(out, structuralShrinks(c)...)
	return out
}

// structuralShrinks removes one field from one object shape (and from all world objects at that
// shape), removes one list item, or replaces an object/list value by null.
func structuralShrinks(c *Case) []*Case {
	var out []*Case
	// enumerate object shapes by pre-order index
	count := 0
	var countShapes func(t *TShape)
	countShapes = func(t *TShape) {
		if t == nil {
			return
		}
		switch t.Kind {
		case "list":
			countShapes(t.Elem)
		case "object":
			count++
			for _, f := range t.Fields {
				countShapes(f.T)
			}
		}
	}
	countShapes(c.Shape)
	for target := 0; target < count; target++ {
		// find number of fields of the target
		var nf int
		idx := 0
		var find func(t *TShape)
		find = func(t *TShape) {
			if t == nil {
				return
			}
			switch t.Kind {
			case "list":
				find(t.Elem)
			case "object":
				if idx == target {
					nf = len(t.Fields)
				}
				idx++
				for _, f := range t.Fields {
					find(f.T)
				}
			}
		}
		find(c.Shape)
		if nf <= 1 {
			continue
		}
		for fi := 0; fi < nf; fi++ {
			d := c.Clone()
			idx = 0
			var edit func(t *TShape, ws []*WVal)
			edit = func(t *TShape, ws []*WVal) {
				if t == nil {
					return
				}
				switch t.Kind {
				case "list":
					var next []*WVal
					for _, w := range ws {
						if w != nil && w.Kind == "list" {
							next = append(next, w.Items...)
						}
					}
					edit(t.Elem, next)
				case "object":
					mine := idx == target
					idx++
					var objs []*WVal
					for _, w := range ws {
						if w != nil && w.Kind == "object" {
							objs = append(objs, w)
						}
					}
					for i, f := range t.Fields {
						var next []*WVal
						for _, w := range objs {
							if i < len(w.Fields) && w.Fields[i] != nil && w.Fields[i].Err == "" {
								next = append(next, w.Fields[i].V)
							}
						}
						if !f.Typename {
							edit(f.T, next)
						}
					}
					if mine {
						t.Fields = append(t.Fields[:fi], t.Fields[fi+1:]...)
						for _, w := range objs {
							w.Fields = append(w.Fields[:fi], w.Fields[fi+1:]...)
						}
					}
				}
			}
			edit(d.Shape, []*WVal{d.World})
			out = append(out, d)
		}
	}
	// list items and value simplifications
	var paths [][]int
	var walk func(w *WVal, p []int)
	walk = func(w *WVal, p []int) {
		if w == nil {
			return
		}
		paths = append(paths, append([]int{}, p...))
		for i, it := range w.Items {
			walk(it, append(p, i))
		}
		for i, f := range w.Fields {
			if f != nil && f.Err == "" {
				walk(f.V, append(p, i))
			}
		}
	}
	walk(c.World, nil)
	get := func(root *WVal, p []int) *WVal {
		w := root
		for _, i := range p {
			if w.Kind == "list" {
				w = w.Items[i]
			} else {
				w = w.Fields[i].V
			}
		}
		return w
	}
	for _, p := range paths {
		w := get(c.World, p)
		if w.Kind == "list" {
			for i := range w.Items {
				d := c.Clone()
				x := get(d.World, p)
				x.Items = append(x.Items[:i], x.Items[i+1:]...)
				out = append(out, d)
			}
		}
		if len(p) > 0 && (w.Kind == "list" || w.Kind == "object") {
			d := c.Clone()
			x := get(d.World, p)
			*x = WVal{Kind: "null"}
			out = append(out, d)
		}
	}
	return out
}

// Shrink greedily applies Shrinks while `fails` keeps returning the same failure class.
func Shrink(c *Case, class string, fails func(*Case) string) *Case {
	cur := c
	budget := 4000 // candidate evaluations
	for steps := 0; steps < 400 && budget > 0; steps++ {
		progressed := false
		for _, d := range Shrinks(cur) {
			budget--
			if budget <= 0 {
				break
			}
			if fails(d) == class {
				cur, progressed = d, true
				break
			}
		}
		if !progressed {
			break
		}
	}
	return cur
}

// WideCases lists deterministic requests over selection sets with 5–12 distinct response keys (at
// the root and nested), each under the un-collected presentations Syntax = 1 … perShape: every
// position's key repeated after 0 … n other selections, directly and through inline / named
// fragments, sub-selections split across the occurrences. Every third invocation answers through a
// promise. (GroupedFieldSet implementations that treat small and large sets differently are only
// exercised by such sets.)
func WideCases(mutation bool, perShape int) []*Case {
	shapes := []string{
		"{a:i b:[{k:i l:i}] c:i}", // (not wide) a selection set applied to two list items: collected once
		"{a:i b:i c:i d:i e:i}",
		"{a:i b:i c:i d:i e:i f:i g:i}",
		"{a:{x:i} b:i c:i d:{y:i z:i} e:{u:i v:i} f:i}",
		"{o:{a:i b:i c:i d:i e:i f:i} p:i}",
		"{a:i b:[{k:i l:i m:i n:i q:i r:i}] c:i d:i e:i f:i g:i h:i}",
		"{a:i b:i c:i d:i e:{p:i q:i r:i s:i t:{w:i} u:i}~i f:i g:i h:i i2:i j:i k:i l:i}",
	}
	var out []*Case
	for _, src := range shapes {
		shape := MustShape(src)
		var world *WVal
		EnumWorlds(shape, []string{"val"}, []string{"val"}, 2, false, func(w *WVal) bool {
			world = w
			return false
		})
		base := &Case{Mutation: mutation, Shape: shape, World: world}
		for i, f := range base.Invocations() {
			if i%3 == 1 {
				f.Mode = "promise"
			}
		}
		for syn := 1; syn <= perShape; syn++ {
			c := base.Clone()
			c.Syntax = uint64(syn)
			out = append(out, c)
		}
	}
	return out
}
