package engine

import (
	"regexp"
	"sort"
	"strings"

	"verifharness/hx"
)

// ---- the document as written, for the instantiated model ---------------------------------------
//
// lean/ApiFu/C02/CollectInst.lean evaluates directive arguments (literals and variables), type
// conditions (object / interface / union relations of the schema) and fragment lookups itself
// (`runc`). Cases whose Syntax has bit 1 set are sent to the model that way, the others with the
// flags evaluated by the harness (`rund`).
//
// Variables: cases whose Syntax has bit 2 set have some of the literal `if:` arguments of their
// directives replaced by variables with the same value — $vt: Boolean! = true and $vf: Boolean! =
// false sent with the request, $dt: Boolean = true and $df: Boolean = false left to their defaults —
// and, in front of some fragment spreads, a second spread of the same fragment that a
// variable-driven directive filters out (which must not count as a visit of the fragment). The pass
// draws from a generator of its own, so the presentation chosen by the Syntax seed is unchanged.

type dirSpec struct {
	name string // skip | include
	lit  string // "true" | "false" | "" (variable)
	vr   string // variable name
}

var dirRe = regexp.MustCompile(`@(\w+)\(if: (\$?)(\w+)\)`)

func parseDirs(text string) []dirSpec {
	var out []dirSpec
	for _, m := range dirRe.FindAllStringSubmatch(text, -1) {
		if m[2] == "$" {
			out = append(out, dirSpec{name: m[1], vr: m[3]})
		} else {
			out = append(out, dirSpec{name: m[1], lit: m[3]})
		}
	}
	return out
}

// VarDefs: declaration, and the value sent with the request (absent: not sent).
var varDecl = map[string]string{"vt": "Boolean!", "vf": "Boolean!", "dt": "Boolean=true", "df": "Boolean=false"}
var varSent = map[string]interface{}{"vt": true, "vf": false}

func variablise(root []*selNode, r *hx.Rand) []*selNode {
	seen := map[*selNode]bool{}
	var texts func(ns []*selNode)
	texts = func(ns []*selNode) {
		for _, n := range ns {
			if seen[n] {
				continue
			}
			seen[n] = true
			if n.dirs != "" && !n.uncoercible {
				n.dirs = dirRe.ReplaceAllStringFunc(n.dirs, func(d string) string {
					if !r.Bool() {
						return d
					}
					if strings.Contains(d, "if: true") {
						return strings.Replace(d, "if: true", "if: $"+hx.Pick(r, []string{"vt", "vt", "dt"}), 1)
					}
					if strings.Contains(d, "if: false") {
						return strings.Replace(d, "if: false", "if: $"+hx.Pick(r, []string{"vf", "vf", "df"}), 1)
					}
					return d
				})
			}
			texts(n.body)
		}
	}
	texts(root)
	var spreads func(ns []*selNode, inFrag bool) []*selNode
	spreads = func(ns []*selNode, inFrag bool) []*selNode {
		var out []*selNode
		for _, n := range ns {
			if n.kind == "spread" && !n.skip && !inFrag && r.Chance(1, 3) {
				dir := " @skip(if: $" + hx.Pick(r, []string{"vt", "dt"}) + ")"
				if r.Bool() {
					dir = " @include(if: $" + hx.Pick(r, []string{"vf", "df"}) + ")"
				}
				out = append(out, &selNode{kind: "spread", frag: n.frag, cond: n.cond, applies: n.applies, dirs: dir, skip: true, body: n.body})
			}
			if n.kind != "spread" {
				n.body = spreads(n.body, inFrag)
			}
			out = append(out, n)
		}
		return out
	}
	return spreads(root, false)
}

func usedVars(ns []*selNode, out map[string]bool, seen map[*selNode]bool) {
	for _, n := range ns {
		if seen[n] {
			continue
		}
		seen[n] = true
		for _, d := range parseDirs(n.dirs) {
			if d.vr != "" {
				out[d.vr] = true
			}
		}
		usedVars(n.body, out, seen)
	}
}

// varDeclarations prints the operation's variable definitions for the variables the document uses
// (`$nv` as before), "" if none.
func varDeclarations(sels []*selNode, mutation bool) string {
	used := map[string]bool{}
	usedVars(sels, used, map[*selNode]bool{})
	var names []string
	for v := range used {
		names = append(names, v)
	}
	sort.Strings(names)
	var parts []string
	for _, v := range names {
		if v == NullVar {
			d := "false"
			if mutation {
				d = "true"
			}
			parts = append(parts, "$"+v+":Boolean="+d)
		} else {
			parts = append(parts, "$"+v+":"+varDecl[v])
		}
	}
	if len(parts) == 0 {
		return ""
	}
	return "(" + strings.Join(parts, " ") + ") "
}

// VariableValues is what the request sends for the variables the document uses.
func (c *Case) VariableValues() map[string]interface{} {
	if c.Syntax == 0 {
		return nil
	}
	used := map[string]bool{}
	usedVars(c.Selections(), used, map[*selNode]bool{})
	var out map[string]interface{}
	for v := range used {
		if out == nil {
			out = map[string]interface{}{}
		}
		if v == NullVar {
			out[v] = nil
		} else if val, ok := varSent[v]; ok {
			out[v] = val
		}
	}
	return out
}

func dirsSexp(text string) hx.Sexp {
	var ds []hx.Sexp
	for _, d := range parseDirs(text) {
		if d.vr != "" {
			ds = append(ds, hx.N("d", hx.A(d.name), hx.A("var"), hx.A(d.vr)))
		} else {
			ds = append(ds, hx.N("d", hx.A(d.name), hx.A("lit"), hx.A(d.lit)))
		}
	}
	return hx.L(ds...)
}

func nodeSexpC(n *selNode) hx.Sexp {
	switch n.kind {
	case "field":
		return hx.N("f", hx.A(n.key), hx.A(n.name), dirsSexp(n.dirs), hx.L(nodesSexpC(n.body)...))
	case "inline":
		cond := n.cond
		if cond == "" {
			cond = "-"
		}
		return hx.N("inl", dirsSexp(n.dirs), hx.A(cond), hx.L(nodesSexpC(n.body)...))
	}
	return hx.N("spr", dirsSexp(n.dirs), hx.A(n.frag))
}

func nodesSexpC(ns []*selNode) []hx.Sexp {
	var out []hx.Sexp
	for _, n := range ns {
		out = append(out, nodeSexpC(n))
	}
	return out
}

func fragSexps(ns []*selNode, seen map[string]bool, out *[]hx.Sexp) {
	for _, n := range ns {
		if n.kind == "spread" && !seen[n.frag] {
			seen[n.frag] = true
			*out = append(*out, hx.N("fr", hx.A(n.frag), hx.A(n.cond), hx.L(nodesSexpC(n.body)...)))
		}
		fragSexps(n.body, seen, out)
	}
}

// typeSexps lists the schema's type relations: every object type with the interfaces it
// implements, the interfaces, the unions with their members (see objectType in real.go).
func typeSexps(t *TShape, out *[]hx.Sexp) {
	if t == nil {
		return
	}
	switch t.Kind {
	case "list":
		typeSexps(t.Elem, out)
	case "object":
		num := typeNum(t)
		switch t.Abstract {
		case "iface":
			*out = append(*out, hx.N("obj", hx.A("T"+num), hx.L(hx.A("I"+num))), hx.N("obj", hx.A("X"+num), hx.L(hx.A("I"+num), hx.A("J"+num))), hx.N("iface", hx.A("I"+num)),
				hx.N("iface", hx.A("J"+num)), hx.N("union", hx.A("V"+num), hx.L(hx.A("X"+num))))
		case "union":
			*out = append(*out, hx.N("obj", hx.A("T"+num), hx.L()), hx.N("obj", hx.A("X"+num), hx.L(hx.A("J"+num))), hx.N("union", hx.A("U"+num), hx.L(hx.A("X"+num), hx.A("T"+num))),
				hx.N("iface", hx.A("J"+num)), hx.N("union", hx.A("V"+num), hx.L(hx.A("X"+num))))
		default:
			*out = append(*out, hx.N("obj", hx.A("T"+num), hx.L()))
		}
		for _, f := range t.Fields {
			typeSexps(f.T, out)
		}
	}
}

// ConcreteLine: the document goes to the instantiated model (`runc`).
func (c *Case) ConcreteLine() bool { return c.Syntax&2 != 0 && !PlanLines }

func (c *Case) modelLineC(kind string, sched []hx.Sexp) string {
	sels := c.Selections()
	var frags, types []hx.Sexp
	fragSexps(sels, map[string]bool{}, &frags)
	typeSexps(c.Shape, &types)
	vars := []hx.Sexp{hx.A("vars"), hx.N("v", hx.A("vt"), hx.A("true")), hx.N("v", hx.A("vf"), hx.A("false")),
		hx.N("v", hx.A("dt"), hx.A("true")), hx.N("v", hx.A("df"), hx.A("false")), hx.N("v", hx.A(NullVar), hx.A("null"))}
	return hx.N("runc", hx.A(kind), hx.L(nodesSexpC(sels)...), hx.A(c.Shape.TypeName), hx.L(worldFields(c.Shape, c.World)...), hx.L(sched...),
		hx.L(vars...), hx.L(append([]hx.Sexp{hx.A("frags")}, frags...)...), hx.L(append([]hx.Sexp{hx.A("types")}, types...)...)).String()
}
