package engine

import (
	"context"
	"fmt"
	"sort"
	"strings"

	"github.com/ccbrown/api-fu/graphql"
)

// ---- field arguments whose defaults differ between the implementations of an interface ----------
//
// The generated schemas (real.go) have no field arguments. This fixed family covers what
// executeField does with them — coerceArgumentValues(field, fieldDef.Arguments, …) per *execution*,
// with the definition of the concrete object type the field is executed for: one AST node (a
// selection on an interface, directly or in a named fragment) is executed for several
// implementations whose argument definitions legally differ (other defaults, extra optional
// arguments). Which implementation executes the node first depends on which parents answer through
// promises and on the fulfilment order, so anything that shares coerced arguments between
// executions of a node makes the response schedule-dependent (seed C02-13).
//
//	interface Pet { sound(loud: Boolean = false, times: Int = 1): String!  friend: Pet }
//	type Dog implements Pet { sound(loud: Boolean = true,  times: Int = 2): String!  friend: Pet }
//	type Cat implements Pet { sound(loud: Boolean = false, times: Int = 3, extra: Int = 9): String!  friend: Pet }
//	type Query { dog: Dog  cat: Cat  pets: [Pet] }        dog.friend = a cat, cat.friend = a dog
//
// `sound` answers with the arguments it received, e.g. "dog:loud=true,times=2". Every position
// (dog, cat, pets, friend, Dog.sound, Cat.sound) answers directly or through a promise; all
// subsets of the positions a document reaches × all fulfilment schedules are run through graphql.Execute. Oracle, model-free: every
// run's response is the expected one, written down per document from the schema above (each
// execution gets the literal arguments of the node and, for the rest, the defaults of *its own*
// type).

type argsPet struct {
	rt    *runtime
	modes map[string]string
	kind  string
}

func (rt *runtime) answer(mode string, val any) (any, error) {
	if mode != "promise" {
		return val, nil
	}
	ch := make(graphql.ResolvePromise, 1)
	p := &promise{id: rt.all, ch: ch, res: graphql.ResolveResult{Value: val}, path: ""}
	rt.all++
	rt.promises = append(rt.promises, p)
	rt.outstanding = append(rt.outstanding, p)
	return ch, nil
}

var argsSchema *graphql.Schema

func argsBuildSchema() (*graphql.Schema, error) {
	if argsSchema != nil {
		return argsSchema, nil
	}
	pet := &graphql.InterfaceType{Name: "Pet", Fields: map[string]*graphql.FieldDefinition{}}
	sound := func(kind string, loud bool, times int, extra bool) *graphql.FieldDefinition {
		args := map[string]*graphql.InputValueDefinition{
			"loud":  {Type: graphql.BooleanType, DefaultValue: loud},
			"times": {Type: graphql.IntType, DefaultValue: times},
		}
		if extra {
			args["extra"] = &graphql.InputValueDefinition{Type: graphql.IntType, DefaultValue: 9}
		}
		return &graphql.FieldDefinition{
			Type:      graphql.NewNonNullType(graphql.StringType),
			Arguments: args,
			Resolve: func(ctx graphql.FieldContext) (interface{}, error) {
				o := ctx.Object.(*argsPet)
				var keys []string
				for k := range ctx.Arguments {
					keys = append(keys, k)
				}
				sort.Strings(keys)
				parts := make([]string, len(keys))
				for i, k := range keys {
					parts[i] = fmt.Sprintf("%s=%v", k, ctx.Arguments[k])
				}
				return o.rt.answer(o.modes[kind+".sound"], o.kind+":"+strings.Join(parts, ","))
			},
		}
	}
	friend := func() *graphql.FieldDefinition {
		return &graphql.FieldDefinition{Type: pet, Resolve: func(ctx graphql.FieldContext) (interface{}, error) {
			o := ctx.Object.(*argsPet)
			other := "cat"
			if o.kind == "cat" {
				other = "dog"
			}
			return o.rt.answer(o.modes["friend"], &argsPet{rt: o.rt, modes: o.modes, kind: other})
		}}
	}
	pet.Fields["sound"] = &graphql.FieldDefinition{Type: graphql.NewNonNullType(graphql.StringType), Arguments: map[string]*graphql.InputValueDefinition{
		"loud":  {Type: graphql.BooleanType, DefaultValue: false},
		"times": {Type: graphql.IntType, DefaultValue: 1},
	}}
	pet.Fields["friend"] = &graphql.FieldDefinition{Type: pet}
	mk := func(name, kind string, loud bool, times int, extra bool) *graphql.ObjectType {
		return &graphql.ObjectType{
			Name:                  name,
			ImplementedInterfaces: []*graphql.InterfaceType{pet},
			Fields:                map[string]*graphql.FieldDefinition{"sound": sound(kind, loud, times, extra), "friend": friend()},
			IsTypeOf: func(v interface{}) bool {
				o, ok := v.(*argsPet)
				return ok && o.kind == kind
			},
		}
	}
	dog := mk("Dog", "dog", true, 2, false)
	cat := mk("Cat", "cat", false, 3, true)
	root := func(field, kind string, t graphql.Type) *graphql.FieldDefinition {
		return &graphql.FieldDefinition{Type: t, Resolve: func(ctx graphql.FieldContext) (interface{}, error) {
			o := ctx.Object.(*argsPet)
			if field == "pets" {
				return o.rt.answer(o.modes[field], []any{
					&argsPet{rt: o.rt, modes: o.modes, kind: "dog"},
					&argsPet{rt: o.rt, modes: o.modes, kind: "cat"},
					&argsPet{rt: o.rt, modes: o.modes, kind: "dog"},
				})
			}
			return o.rt.answer(o.modes[field], &argsPet{rt: o.rt, modes: o.modes, kind: kind})
		}}
	}
	query := &graphql.ObjectType{Name: "Query", Fields: map[string]*graphql.FieldDefinition{
		"dog":  root("dog", "dog", dog),
		"cat":  root("cat", "cat", cat),
		"pets": root("pets", "", graphql.NewListType(pet)),
	}}
	s, err := graphql.NewSchema(&graphql.SchemaDefinition{Query: query, AdditionalTypes: []graphql.NamedType{dog, cat}})
	if err != nil {
		return nil, err
	}
	argsSchema = s
	return s, nil
}

// ArgsDoc is one document of the family with its expected data.
type ArgsDoc struct {
	Doc, Want string
	Positions []string // the positions the document reaches (the others cannot matter)
}

const (
	dogDef = `"dog:loud=true,times=2"`
	catDef = `"cat:extra=9,loud=false,times=3"`
)

// ArgsDocs: in every document one `sound` node is executed for a Dog and for a Cat.
var ArgsDocs = []ArgsDoc{
	{`{a: dog {...F} b: cat {...F}} fragment F on Pet {sound}`,
		`{"a":{"sound":` + dogDef + `},"b":{"sound":` + catDef + `}}`, []string{"dog", "cat", "dog.sound", "cat.sound"}},
	{`{b: cat {...F} a: dog {...F}} fragment F on Pet {sound}`,
		`{"b":{"sound":` + catDef + `},"a":{"sound":` + dogDef + `}}`, []string{"dog", "cat", "dog.sound", "cat.sound"}},
	{`{pets {sound}}`,
		`{"pets":[{"sound":` + dogDef + `},{"sound":` + catDef + `},{"sound":` + dogDef + `}]}`, []string{"pets", "dog.sound", "cat.sound"}},
	{`{dog {...F friend {...F}}} fragment F on Pet {sound}`,
		`{"dog":{"sound":` + dogDef + `,"friend":{"sound":` + catDef + `}}}`, []string{"dog", "friend", "dog.sound", "cat.sound"}},
	{`{cat {friend {...F} ...F} dog {...F}} fragment F on Pet {s: sound(loud: false)}`,
		`{"cat":{"friend":{"s":"dog:loud=false,times=2"},"s":"cat:extra=9,loud=false,times=3"},"dog":{"s":"dog:loud=false,times=2"}}`, []string{"dog", "cat", "friend", "dog.sound", "cat.sound"}},
	{`{a: dog {...F} b: cat {...F} c: dog {...F}} fragment F on Pet {s1: sound s2: sound(times: 5) ... on Cat {s3: sound(extra: 1)}}`,
		`{"a":{"s1":` + dogDef + `,"s2":"dog:loud=true,times=5"},"b":{"s1":` + catDef + `,"s2":"cat:extra=9,loud=false,times=5","s3":"cat:extra=1,loud=false,times=3"},"c":{"s1":` + dogDef + `,"s2":"dog:loud=true,times=5"}}`, []string{"dog", "cat", "dog.sound", "cat.sound"}},
	{`{pets {friend {sound}}}`,
		`{"pets":[{"friend":{"sound":` + catDef + `}},{"friend":{"sound":` + dogDef + `}},{"friend":{"sound":` + catDef + `}}]}`, []string{"pets", "friend", "dog.sound", "cat.sound"}},
}

// ArgsRun executes one document of the family: async = the positions answering through promises.
func ArgsRun(doc string, async []string, sched []uint64) (*Observed, error) {
	s, err := argsBuildSchema()
	if err != nil {
		return nil, err
	}
	parsed, errs := graphql.ParseAndValidate(doc, s, nil)
	if len(errs) > 0 {
		return nil, fmt.Errorf("document %q rejected: %v", doc, errs[0].Message)
	}
	modes := map[string]string{}
	for _, p := range async {
		modes[p] = "promise"
	}
	rt := &runtime{sched: sched}
	obs := &Observed{}
	var resp *graphql.Response
	func() {
		defer func() {
			if p := recover(); p != nil {
				if _, ok := p.(stuckSentinel); ok {
					obs.Stuck = true
					return
				}
				obs.Panic = fmt.Sprint(p)
			}
		}()
		resp = graphql.Execute(&graphql.Request{
			Context:      context.Background(),
			Document:     parsed,
			Schema:       s,
			InitialValue: &argsPet{rt: rt, modes: modes},
			IdleHandler:  rt.idle,
		})
	}()
	obs.Rounds, obs.Promises, obs.Widths = rt.rounds, rt.all, rt.widths
	if resp == nil {
		obs.Data = "<none>"
		return obs, nil
	}
	var data any
	if resp.Data != nil {
		data = *resp.Data
	}
	obs.tree = dataTree(data)
	var b strings.Builder
	treeText(&b, obs.tree)
	obs.Data = b.String()
	for _, e := range resp.Errors {
		obs.Errors = append(obs.Errors, ErrObs{Path: pathText(e.Path), Msg: canonMsg(e.Message)})
	}
	return obs, nil
}

// ArgsCheck is the oracle for one run.
func ArgsCheck(d ArgsDoc, o *Observed) string {
	switch {
	case o.Panic != "":
		return "panic: " + o.Panic
	case o.Stuck:
		return "did not finish"
	case len(o.Errors) > 0:
		return fmt.Sprintf("errors %v", o.Errors)
	case o.Data != d.Want:
		return fmt.Sprintf("data %s, expected (every execution of a field gets the argument defaults of its own object type) %s", o.Data, d.Want)
	case o.Rounds > o.Promises:
		return fmt.Sprintf("%d idle rounds for %d promises", o.Rounds, o.Promises)
	}
	return ""
}

// ArgsFamily runs every document × every async subset × every schedule (at most perDoc runs per
// document) and calls report for each run.
func ArgsFamily(perDoc int, report func(d ArgsDoc, async []string, sched []uint64, o *Observed, fail string)) (complete bool, err error) {
	complete = true
	for _, d := range ArgsDocs {
		n := 0
		for sub := 0; sub < 1<<len(d.Positions); sub++ {
			var async []string
			for i, p := range d.Positions {
				if sub>>i&1 == 1 {
					async = append(async, p)
				}
			}
			var rec func(prefix []uint64) error
			rec = func(prefix []uint64) error {
				if n >= perDoc {
					complete = false
					return nil
				}
				o, err := ArgsRun(d.Doc, async, prefix)
				if err != nil {
					return err
				}
				n++
				report(d, async, prefix, o, ArgsCheck(d, o))
				for k := len(prefix); k < len(o.Widths); k++ {
					w := o.Widths[k]
					if w > 6 {
						w = 6
					}
					for m := uint64(1); m < (uint64(1)<<uint(w))-1; m++ {
						p := append([]uint64{}, prefix...)
						for len(p) < k {
							p = append(p, AllMask)
						}
						if err := rec(append(p, m)); err != nil {
							return err
						}
					}
				}
				return nil
			}
			if err := rec(nil); err != nil {
				return complete, err
			}
		}
	}
	return complete, nil
}
