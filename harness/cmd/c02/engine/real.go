package engine

import (
	"context"
	"errors"
	"fmt"
	"strconv"
	"strings"

	"github.com/ccbrown/api-fu/graphql"
	"github.com/ccbrown/api-fu/graphql/ast"
	"github.com/ccbrown/api-fu/graphql/executor"
)

// ---- the Go values the resolvers hand to the executor ---------------------------------------

type objVal struct {
	rt    *runtime
	shape *TShape
	w     *WVal
	path  string // JSON array body without brackets, e.g. `"a",0,"b"`
}

type ptrErr struct{ msg string }

func (e *ptrErr) Error() string { return e.msg }

// valErr is an error whose dynamic value is a struct, not a pointer (F-03d).
type valErr struct{ msg string }

func (e valErr) Error() string { return e.msg }

// sliceErr / mapErr are error types whose dynamic kind is a slice / a map (like a list of
// validation errors, or errors keyed by field). A nil value of such a type stored in an `error`
// is a non-nil interface: `err != nil` holds and Error() can be called (finding F-02c).
type sliceErr []string

func (e sliceErr) Error() string { return MsgNilSliceErr }

type mapErr map[string]string

func (e mapErr) Error() string { return MsgNilMapErr }

type promise struct {
	id   int
	ch   graphql.ResolvePromise
	res  graphql.ResolveResult
	path string
	// delivered: the result was sent on the channel (by the idle handler or by a `pre` resolver)
	delivered bool
}

type stuckSentinel struct{}

type runtime struct {
	sched       []uint64
	all         int
	promises    []*promise
	outstanding []*promise
	events      []Event
	rounds      int
	widths      []int
	stuck       bool
	cancelAt    int
	lazy        bool // every other idle call delivers nothing
	exact       bool // Case.ExactMasks
	shared      map[int]graphql.ResolvePromise
	panicAt     int
	calls       int
	started     int
	cancel      func()
}

func pathJoin(p, seg string) string {
	if p == "" {
		return seg
	}
	return p + "," + seg
}

func (rt *runtime) goValue(t *TShape, w *WVal, path string) any {
	if w == nil {
		return nil
	}
	switch w.Kind {
	case "null":
		return nil
	case "int":
		return w.N
	case "badint":
		return "not an int"
	case "notlist":
		return 7
	case "list":
		out := make([]any, len(w.Items))
		for i, it := range w.Items {
			out[i] = rt.goValue(t.Elem, it, pathJoin(path, strconv.Itoa(i)))
		}
		return out
	case "object":
		return &objVal{rt: rt, shape: t, w: w, path: path}
	}
	panic("bad world kind " + w.Kind)
}

func (rt *runtime) idle() {
	rt.calls++
	if rt.lazy && rt.calls%2 == 1 && len(rt.outstanding) > 0 {
		// a call that comes back without having delivered anything (Case.LazyIdle): not a round
		return
	}
	rt.rounds++
	n := len(rt.outstanding)
	rt.widths = append(rt.widths, n)
	if n == 0 || rt.rounds > 10000 {
		rt.stuck = true
		panic(stuckSentinel{})
	}
	mask := AllMask
	if k := rt.rounds - 1; k < len(rt.sched) {
		mask = rt.sched[k]
	}
	picked := SelectMask(mask, n)
	if rt.exact {
		picked = SelectExact(mask, n)
	}
	var rest []*promise
	pi := 0
	for j, p := range rt.outstanding {
		if pi < len(picked) && picked[pi] == j {
			pi++
			rt.events = append(rt.events, Event{Kind: "fulfil", Path: "[" + p.path + "]"})
			p.delivered = true
			p.ch <- p.res
		} else {
			rest = append(rest, p)
		}
	}
	rt.outstanding = rest
}

func resolver(idx int, f *FShape) func(graphql.FieldContext) (interface{}, error) {
	key := strconv.Quote(f.Key())
	return func(ctx graphql.FieldContext) (interface{}, error) {
		o, ok := ctx.Object.(*objVal)
		if !ok || idx >= len(o.w.Fields) || o.w.Fields[idx] == nil {
			return nil, fmt.Errorf("harness: no world for field %s", key)
		}
		rt := o.rt
		wf := o.w.Fields[idx]
		path := pathJoin(o.path, key)
		ev := Event{Kind: "start", Path: "[" + path + "]"}
		for _, p := range rt.outstanding {
			ev.Pending = append(ev.Pending, "["+p.path+"]")
		}
		rt.events = append(rt.events, ev)
		rt.started++
		if rt.cancelAt > 0 && rt.started == rt.cancelAt {
			defer rt.cancel()
		}
		if rt.panicAt > 0 && rt.started == rt.panicAt {
			panic(PanicText)
		}
		var val any
		var err error
		if wf.Err != "" {
			switch wf.ErrKind {
			case "value":
				err = valErr{wf.Err}
			case "nilslice":
				// a value next to an error whose dynamic value is a nil slice / nil map
				val, err = 7, sliceErr(nil)
			case "nilmap":
				val, err = 7, mapErr(nil)
			default:
				err = &ptrErr{wf.Err}
			}
		} else {
			val = rt.goValue(f.T, wf.V, path)
			if wf.NilErr {
				err = (*ptrErr)(nil)
			}
		}
		if wf.Mode == "sync" {
			return val, err
		}
		ch := make(graphql.ResolvePromise, 1)
		if wf.Share > 0 {
			if rt.shared == nil {
				rt.shared = map[int]graphql.ResolvePromise{}
			}
			if rt.shared[wf.Share] == nil {
				rt.shared[wf.Share] = make(graphql.ResolvePromise, 64)
			}
			ch = rt.shared[wf.Share]
		}
		p := &promise{id: rt.all, ch: ch, res: graphql.ResolveResult{Value: val, Error: err}, path: path}
		rt.all++
		rt.promises = append(rt.promises, p)
		if wf.Mode == "pre" {
			rt.events = append(rt.events, Event{Kind: "fulfil", Path: "[" + path + "]"})
			p.delivered = true
			ch <- p.res
		} else {
			rt.outstanding = append(rt.outstanding, p)
		}
		return ch, nil
	}
}

// ---- schema + document per shape (cached) ----------------------------------------------------

type compiled struct {
	schema  *graphql.Schema
	doc     *ast.Document
	usesVar bool // the document has a directive on $nv
	vars    map[string]interface{}
}

var compileCache = map[string]*compiled{}

type schemaTypes struct {
	objects map[string]*graphql.ObjectType
	named   map[string]graphql.Type // the type a field holding the object is declared with
	extra   []graphql.NamedType     // types only reachable through an interface
}

func gqlType(t *TShape, nn bool, types *schemaTypes) graphql.Type {
	var out graphql.Type
	switch t.Kind {
	case "int":
		out = graphql.IntType
	case "list":
		out = graphql.NewListType(gqlType(t.Elem, t.ElemNN, types))
	case "object":
		objectType(t, types)
		out = types.named[t.TypeName]
	}
	if nn {
		return graphql.NewNonNullType(out)
	}
	return out
}

// objectType declares T<n> for the object shape and, for an abstract position, the interface
// I<n> (implemented by T<n> and by X<n>, an object type with the same fields that no value ever
// belongs to) or the union U<n> = X<n> | T<n>.
func objectType(t *TShape, types *schemaTypes) *graphql.ObjectType {
	if ot, ok := types.objects[t.TypeName]; ok {
		return ot
	}
	ot := &graphql.ObjectType{Name: t.TypeName, Fields: map[string]*graphql.FieldDefinition{}}
	types.objects[t.TypeName] = ot
	types.named[t.TypeName] = ot
	for i, f := range t.Fields {
		if f.Typename {
			continue
		}
		ot.Fields[f.Name] = &graphql.FieldDefinition{Type: gqlType(f.T, f.NN, types), Resolve: resolver(i, f)}
	}
	ot.IsTypeOf = func(v interface{}) bool {
		o, ok := v.(*objVal)
		return ok && o.shape.TypeName == ot.Name
	}
	if t.Abstract == "" {
		return ot
	}
	num := strings.TrimPrefix(t.TypeName, "T")
	other := &graphql.ObjectType{Name: "X" + num, Fields: map[string]*graphql.FieldDefinition{},
		IsTypeOf: func(interface{}) bool { return false }}
	for name, def := range ot.Fields {
		other.Fields[name] = &graphql.FieldDefinition{Type: def.Type, Resolve: func(graphql.FieldContext) (interface{}, error) {
			return nil, errors.New("harness: resolver of a type no value belongs to")
		}}
	}
	// J<n>: an interface only X<n> implements; V<n>: a union whose only member is X<n> — type
	// conditions that are valid where I<n> / U<n> is expected but never apply to T<n>
	second := &graphql.InterfaceType{Name: "J" + num, Fields: map[string]*graphql.FieldDefinition{}}
	for name, def := range ot.Fields {
		second.Fields[name] = &graphql.FieldDefinition{Type: def.Type}
	}
	other.ImplementedInterfaces = []*graphql.InterfaceType{second}
	types.extra = append(types.extra, second, &graphql.UnionType{Name: "V" + num, MemberTypes: []*graphql.ObjectType{other}})
	switch t.Abstract {
	case "iface":
		iface := &graphql.InterfaceType{Name: "I" + num, Fields: map[string]*graphql.FieldDefinition{}}
		for name, def := range ot.Fields {
			iface.Fields[name] = &graphql.FieldDefinition{Type: def.Type}
		}
		ot.ImplementedInterfaces = []*graphql.InterfaceType{iface}
		other.ImplementedInterfaces = []*graphql.InterfaceType{iface, second}
		types.named[t.TypeName] = iface
		types.extra = append(types.extra, other, ot)
	case "union":
		types.named[t.TypeName] = &graphql.UnionType{Name: "U" + num, MemberTypes: []*graphql.ObjectType{other, ot}}
	}
	return ot
}

var dummyQuery = &graphql.ObjectType{Name: "Q", Fields: map[string]*graphql.FieldDefinition{
	"zz": {Type: graphql.IntType, Resolve: func(graphql.FieldContext) (interface{}, error) { return 0, nil }},
}}

func compile(c *Case) (*compiled, error) {
	AssignTypeNames(c.Shape)
	key := c.ShapeKey()
	if cc, ok := compileCache[key]; ok {
		return cc, nil
	}
	if len(compileCache) > 20000 {
		compileCache = map[string]*compiled{}
	}
	types := &schemaTypes{objects: map[string]*graphql.ObjectType{}, named: map[string]graphql.Type{}}
	root := objectType(c.Shape, types)
	def := &graphql.SchemaDefinition{Query: root}
	if c.Mutation {
		def = &graphql.SchemaDefinition{Query: dummyQuery, Mutation: root}
	}
	if c.Subscription {
		def = &graphql.SchemaDefinition{Query: dummyQuery, Subscription: root}
	}
	def.AdditionalTypes = types.extra
	def.Directives = map[string]*graphql.DirectiveDefinition{"skip": graphql.SkipDirective, "include": graphql.IncludeDirective}
	s, err := graphql.NewSchema(def)
	if err != nil {
		return nil, fmt.Errorf("schema rejected: %v", err)
	}
	doc, errs := graphql.ParseAndValidate(c.Document(), s, nil)
	if len(errs) > 0 {
		return nil, fmt.Errorf("document %q rejected: %v", c.Document(), errs[0].Message)
	}
	cc := &compiled{schema: s, doc: doc, usesVar: c.Syntax != 0 && c.UsesNullVar(), vars: c.VariableValues()}
	compileCache[key] = cc
	return cc, nil
}

// ---- running ---------------------------------------------------------------------------------

func canonMsg(m string) string {
	if strings.HasPrefix(m, "Unexpected result:") {
		return MsgCoerce
	}
	return m
}

func pathText(p []interface{}) string {
	parts := make([]string, len(p))
	for i, s := range p {
		switch s := s.(type) {
		case string:
			parts[i] = strconv.Quote(s)
		case int:
			parts[i] = strconv.Itoa(s)
		default:
			parts[i] = fmt.Sprintf("?%v", s)
		}
	}
	return "[" + strings.Join(parts, ",") + "]"
}

// dataText prints the response data compactly, keys in OrderedMap order, and returns a plain tree
// (objects as []kv) for the structural oracles.
type kv struct {
	K string
	V any
}

func dataTree(v any) any {
	switch v := v.(type) {
	case nil:
		return nil
	case *executor.OrderedMap:
		if v == nil {
			return nil
		}
		out := make([]kv, 0, v.Len())
		for _, it := range v.Items() {
			out = append(out, kv{it.Key, dataTree(it.Value)})
		}
		return out
	case []any:
		out := make([]any, len(v))
		for i, x := range v {
			out[i] = dataTree(x)
		}
		return out
	case int, string, bool, float64:
		return v
	}
	return fmt.Sprintf("?%T", v)
}

func treeText(b *strings.Builder, v any) {
	switch v := v.(type) {
	case nil:
		b.WriteString("null")
	case []kv:
		b.WriteString("{")
		for i, e := range v {
			if i > 0 {
				b.WriteString(",")
			}
			b.WriteString(strconv.Quote(e.K) + ":")
			treeText(b, e.V)
		}
		b.WriteString("}")
	case []any:
		b.WriteString("[")
		for i, x := range v {
			if i > 0 {
				b.WriteString(",")
			}
			treeText(b, x)
		}
		b.WriteString("]")
	case int:
		b.WriteString(strconv.Itoa(v))
	case string:
		b.WriteString(strconv.Quote(v))
	default:
		fmt.Fprintf(b, "%v", v)
	}
}

// RunReal executes the case through graphql.Execute.
func RunReal(c *Case) (obs *Observed, err error) {
	cc, err := compile(c)
	if err != nil {
		return nil, err
	}
	usesVar := cc.usesVar
	vars := cc.vars
	ctx, cancel := context.WithCancel(context.Background())
	defer cancel()
	rt := &runtime{sched: c.Schedule, cancelAt: c.CancelAt, cancel: cancel, lazy: c.LazyIdle, exact: c.ExactMasks, panicAt: c.PanicAt}
	obs = &Observed{}
	var resp *graphql.Response
	func() {
		defer func() {
			if p := recover(); p != nil {
				if _, ok := p.(stuckSentinel); ok {
					obs.Stuck = true
					return
				}
				obs.Panic = fmt.Sprint(p)
			}
		}()
		req := &graphql.Request{
			VariableValues: vars,
			Context:        ctx,
			Document:       cc.doc,
			Schema:         cc.schema,
			InitialValue:   &objVal{rt: rt, shape: c.Shape, w: c.World, path: ""},
		}
		if !c.NoIdle {
			req.IdleHandler = rt.idle
		}
		resp = graphql.Execute(req)
	}()
	obs.Rounds = rt.rounds
	obs.Promises = rt.all
	obs.Events = rt.events
	obs.Widths = rt.widths
	for _, p := range rt.promises {
		// delivered but never received, or never delivered: the executor never took this promise's result
		if !p.delivered || len(p.ch) > 0 {
			obs.Abandoned = append(obs.Abandoned, "["+p.path+"]")
		}
	}
	if resp == nil {
		obs.Data = "<none>"
		return obs, nil
	}
	var data any
	if resp.Data != nil {
		data = *resp.Data
	}
	obs.tree = dataTree(data)
	var b strings.Builder
	treeText(&b, obs.tree)
	obs.Data = b.String()
	for _, e := range resp.Errors {
		if len(e.Path) == 0 && usesVar && strings.Contains(e.Message, "argument cannot be null") {
			// the run-time coercion error of a directive argument: a request-level error of one
			// collectFields call, kept apart from the field errors (see SelfCheck)
			obs.DirectiveErrors = append(obs.DirectiveErrors, e.Message)
			continue
		}
		obs.Errors = append(obs.Errors, ErrObs{Path: pathText(e.Path), Msg: canonMsg(e.Message)})
	}
	return obs, nil
}

var ErrNoModel = errors.New("no model")
