// Package engine is shared by the C02 and C11 harnesses: request shapes (schema + document),
// resolver-outcome worlds with a sync|promise flag per field invocation, fulfilment schedules,
// the runner over the real graphql.Execute (the harness's IdleHandler is the only thing that
// fulfils promises), the wire format of the Lean model, and the model-free oracles.
package engine

import (
	"fmt"
	"strconv"
	"strings"

	"verifharness/hx"
)

// ---- shapes: what the schema and the document say ------------------------------------------

// TShape is the (nullable) type of a position: Int, a list, or an object with a selection set.
type TShape struct {
	Kind     string    `json:"kind"`              // int | list | object
	Elem     *TShape   `json:"elem,omitempty"`    // list element type
	ElemNN   bool      `json:"elem_nn,omitempty"` // list: element type is non-null
	Fields   []*FShape `json:"fields,omitempty"`  // object: the collected response keys, in order
	TypeName string    `json:"type_name,omitempty"`
	// Abstract: how the schema declares the type of the position that holds this object:
	// "" (the object type itself), "iface" (an interface the object type implements) or "union".
	Abstract string `json:"abstract,omitempty"`
}

// FShape is one selected field of an object.
type FShape struct {
	Name     string  `json:"name"`
	Alias    string  `json:"alias,omitempty"`
	NN       bool    `json:"nn,omitempty"`       // field type is non-null
	Typename bool    `json:"typename,omitempty"` // the field is __typename (no resolver)
	T        *TShape `json:"t,omitempty"`
}

func (f *FShape) Key() string {
	if f.Alias != "" {
		return f.Alias
	}
	return f.Name
}

// ---- worlds: what the resolvers answer -----------------------------------------------------

// WField is the outcome of one field invocation.
type WField struct {
	Mode    string `json:"mode"`               // sync | promise | pre (promise already fulfilled when returned)
	Err     string `json:"err,omitempty"`      // resolver error message ("" = success)
	ErrKind string `json:"err_kind,omitempty"` // ptr | value | nilslice | nilmap : dynamic kind of the Go error value (nil*: a nil slice / map of an error type, next to a value; Err is then MsgNilSliceErr / MsgNilMapErr)
	NilErr  bool   `json:"nil_err,omitempty"`  // success, but the error result is a typed nil pointer
	V       *WVal  `json:"v,omitempty"`        // the resolved value when Err == ""
	// Share = g > 0 (mode promise only): the invocation returns the ResolvePromise channel of group g
	// — one buffered channel handed to every invocation of the group, as a memoising loader does, on
	// which the idle handler sends one result per consumer. Whichever consumer polls first takes the
	// first result, so the members of a group must have the same outcome, and the per-promise
	// correspondence with the model does not apply (model-free oracles only; C11: harness/cmd/c11,
	// shared()).
	Share int `json:"share,omitempty"`
}

// WVal is a resolved Go value, described by how completeValue will treat it.
type WVal struct {
	Kind   string    `json:"kind"` // null | int | badint (a string where an Int is declared) | notlist (an int where a list is declared) | list | object
	N      int       `json:"n,omitempty"`
	Items  []*WVal   `json:"items,omitempty"`
	Fields []*WField `json:"fields,omitempty"` // parallel to the object shape's fields (nil for __typename)
}

// Case is one request: shape (schema + document), world, schedule.
type Case struct {
	Mutation bool     `json:"mutation,omitempty"`
	Shape    *TShape  `json:"shape"` // root object
	World    *WVal    `json:"world"` // root object value
	Schedule []uint64 `json:"schedule"`
	// Syntax chooses the presentation of the selection sets in the document (see syntax.go):
	// 0 = one field per response key; otherwise the seed of the un-collected presentation.
	Syntax uint64 `json:"syntax,omitempty"`
	// LazyIdle: every other call of the idle handler (the 1st, 3rd, …) returns without having
	// delivered anything — as api-fu's own handler does when a resolver chains Go tasks by hand, and
	// tick-based test handlers do; the executor has to keep idling (wait, settleSerialPromises).
	// Rounds counts the delivering calls only, so the model's run is the same.
	LazyIdle bool `json:"lazy_idle,omitempty"`
	// NoIdle: the request has no IdleHandler at all (against the documented rule for resolvers that
	// return promises): `promise` invocations are never fulfilled, `pre` ones are fulfilled when
	// returned. Only the model-free oracles apply (C11: harness/cmd/c11, noIdle).
	NoIdle bool `json:"no_idle,omitempty"`
	// CancelAt = k > 0: the k-th resolver called cancels the request's context (see cancel.go).
	CancelAt int `json:"cancel_at,omitempty"`
	// ExactMasks (C11, extended model ApiFu/C11/Ext.lean): call k of the idle handler delivers
	// exactly the outstanding promises mask k selects — none when it selects none —, everything once
	// the schedule is used up; Rounds counts every call.
	ExactMasks bool `json:"exact_masks,omitempty"`
	// Subscription: the operation is a subscription and graphql.Execute runs one source event of it
	// (executeSubscriptionEvent: the root value is the event); the model is the query executor.
	// One root field, plain presentation (the validator counts every root selection of a subscription).
	Subscription bool `json:"subscription,omitempty"`
	// PanicAt = k > 0: the k-th resolver called panics (after its start event was logged).
	PanicAt int    `json:"panic_at,omitempty"`
	Note    string `json:"note,omitempty"`
}

// PanicText is what the PanicAt-th resolver panics with.
const PanicText = "harness: resolver panic"

// SelectExact is the schedule semantics of the extended C11 model: bit j selects position j, an
// empty selection stays empty.
func SelectExact(mask uint64, n int) []int {
	var out []int
	for j := 0; j < n && j < 62; j++ {
		if mask>>uint(j)&1 == 1 {
			out = append(out, j)
		}
	}
	return out
}

// ModelLineX is the request line of the extended C11 model (`runx`, lean/ApiFu/C11/DriverExt.lean).
func (c *Case) ModelLineX(fuel int) string {
	AssignTypeNames(c.Shape)
	var sched []hx.Sexp
	for _, m := range c.Schedule {
		sched = append(sched, hx.A(strconv.FormatUint(m&(1<<62-1), 10)))
	}
	var sels []hx.Sexp
	for _, n := range c.Selections() {
		sels = append(sels, nodeSexp(n))
	}
	return hx.N("runx", hx.L(sels...), hx.A(c.Shape.TypeName), hx.L(worldFields(c.Shape, c.World)...), hx.L(sched...),
		hx.A(strconv.Itoa(fuel)), hx.A(strconv.Itoa(c.PanicAt))).String()
}

const AllMask = ^uint64(0)

// SelectMask is the schedule semantics shared with the Lean model: round k over the n outstanding
// promises (creation order) fulfils position j iff bit j of the mask is set (only the low 62 bits
// are ever used); an empty selection fulfils position 0. A missing mask means "all".
func SelectMask(mask uint64, n int) []int {
	var out []int
	for j := 0; j < n && j < 62; j++ {
		if mask>>uint(j)&1 == 1 {
			out = append(out, j)
		}
	}
	if len(out) == 0 && n > 0 {
		out = []int{0}
	}
	return out
}

// ---- deep copies -----------------------------------------------------------------------------

func (t *TShape) Clone() *TShape {
	if t == nil {
		return nil
	}
	c := *t
	c.Elem = t.Elem.Clone()
	c.Fields = nil
	for _, f := range t.Fields {
		g := *f
		g.T = f.T.Clone()
		c.Fields = append(c.Fields, &g)
	}
	return &c
}

func (w *WVal) Clone() *WVal {
	if w == nil {
		return nil
	}
	c := *w
	c.Items = nil
	for _, it := range w.Items {
		c.Items = append(c.Items, it.Clone())
	}
	c.Fields = nil
	for _, f := range w.Fields {
		if f == nil {
			c.Fields = append(c.Fields, nil)
			continue
		}
		g := *f
		g.V = f.V.Clone()
		c.Fields = append(c.Fields, &g)
	}
	return &c
}

func (c *Case) Clone() *Case {
	d := *c
	d.Shape = c.Shape.Clone()
	d.World = c.World.Clone()
	d.Schedule = append([]uint64{}, c.Schedule...)
	return &d
}

// Invocations lists every resolver-backed field invocation of the world (pre-order, document
// order), i.e. the places where a sync|promise choice exists.
func (c *Case) Invocations() []*WField {
	var out []*WField
	var val func(t *TShape, w *WVal)
	val = func(t *TShape, w *WVal) {
		if w == nil || t == nil {
			return
		}
		switch w.Kind {
		case "list":
			for _, it := range w.Items {
				val(t.Elem, it)
			}
		case "object":
			for i, f := range t.Fields {
				if f.Typename || i >= len(w.Fields) || w.Fields[i] == nil {
					continue
				}
				out = append(out, w.Fields[i])
				if w.Fields[i].Err == "" {
					val(f.T, w.Fields[i].V)
				}
			}
		}
	}
	val(c.Shape, c.World)
	return out
}

// AllSync returns a copy in which every invocation answers synchronously.
func (c *Case) AllSync() *Case {
	d := c.Clone()
	for _, f := range d.Invocations() {
		f.Mode = "sync"
	}
	d.Schedule = nil
	return d
}

// ---- document and type names -----------------------------------------------------------------

// AssignTypeNames names every object shape (T0 is the root).
func AssignTypeNames(root *TShape) {
	n := 0
	var walk func(t *TShape)
	walk = func(t *TShape) {
		if t == nil {
			return
		}
		switch t.Kind {
		case "list":
			walk(t.Elem)
		case "object":
			t.TypeName = "T" + strconv.Itoa(n)
			n++
			for _, f := range t.Fields {
				walk(f.T)
			}
		}
	}
	walk(root)
}

// ShapeKey is a canonical text of the shape (schema + document cache key).
func (c *Case) ShapeKey() string {
	var b strings.Builder
	var ty func(t *TShape)
	ty = func(t *TShape) {
		switch t.Kind {
		case "int":
			b.WriteString("i")
		case "list":
			b.WriteString("[")
			ty(t.Elem)
			if t.ElemNN {
				b.WriteString("!")
			}
			b.WriteString("]")
		case "object":
			b.WriteString("{")
			for _, f := range t.Fields {
				b.WriteString(f.Key() + "=" + f.Name)
				if f.Typename {
					b.WriteString("#")
				} else {
					b.WriteString(":")
					ty(f.T)
				}
				if f.NN {
					b.WriteString("!")
				}
				b.WriteString(",")
			}
			b.WriteString("}")
			if t.Abstract != "" {
				b.WriteString("~" + t.Abstract)
			}
		}
	}
	if c.Mutation {
		b.WriteString("M")
	}
	if c.Subscription {
		b.WriteString("S")
	}
	if c.Syntax != 0 {
		b.WriteString(strconv.FormatUint(c.Syntax, 10) + "/")
	}
	ty(c.Shape)
	return b.String()
}

// ---- the model's input ----------------------------------------------------------------------

const MsgNonNull = "Null result for non-null field."
const MsgNotList = "Result is not a list."
const MsgCoerce = "Unexpected result"
const MsgNilSliceErr = "slice-kind error (nil slice)"
const MsgNilMapErr = "map-kind error (nil map)"

func compSexp(t *TShape, w *WVal) hx.Sexp {
	if w == nil {
		return hx.A("null")
	}
	switch w.Kind {
	case "null":
		return hx.A("null")
	case "int":
		return hx.N("s", hx.A(strconv.Itoa(w.N)))
	case "badint":
		return hx.N("bad", hx.A(MsgCoerce))
	case "notlist":
		return hx.N("bad", hx.A(MsgNotList))
	case "list":
		xs := []hx.Sexp{hx.B(t.ElemNN)}
		for _, it := range w.Items {
			xs = append(xs, compSexp(t.Elem, it))
		}
		return hx.N("list", xs...)
	case "object":
		return hx.N("obj", fieldsSexp(t, w)...)
	}
	panic("bad world kind " + w.Kind)
}

func fieldsSexp(t *TShape, w *WVal) []hx.Sexp {
	var xs []hx.Sexp
	for i, f := range t.Fields {
		if f.Typename {
			xs = append(xs, hx.N("f", hx.A(f.Key()), hx.B(false), hx.A("meta"), hx.A("none"), hx.N("s", hx.A(strconv.Quote(t.TypeName)))))
			continue
		}
		wf := w.Fields[i]
		e := hx.A("none")
		comp := hx.A("null")
		if wf.Err != "" {
			e = hx.N("e", hx.A(wf.Err))
		} else {
			comp = compSexp(f.T, wf.V)
		}
		xs = append(xs, hx.N("f", hx.A(f.Key()), hx.B(f.NN), hx.A(wf.Mode), e, comp))
	}
	return xs
}

// worldComp / worldFields print the resolver outcomes keyed by field *name* (as the schema's
// resolvers are); the model finds the outcome of a collected key by the name of its first field.
func worldComp(t *TShape, w *WVal) hx.Sexp {
	if w == nil {
		return hx.A("null")
	}
	switch w.Kind {
	case "null":
		return hx.A("null")
	case "int":
		return hx.N("s", hx.A(strconv.Itoa(w.N)))
	case "badint":
		return hx.N("bad", hx.A(MsgCoerce))
	case "notlist":
		return hx.N("bad", hx.A(MsgNotList))
	case "list":
		xs := []hx.Sexp{hx.B(t.ElemNN)}
		for _, it := range w.Items {
			xs = append(xs, worldComp(t.Elem, it))
		}
		return hx.N("list", xs...)
	case "object":
		return hx.N("wobj", append([]hx.Sexp{hx.A(t.TypeName)}, worldFields(t, w)...)...)
	}
	panic("bad world kind " + w.Kind)
}

func worldFields(t *TShape, w *WVal) []hx.Sexp {
	var xs []hx.Sexp
	for i, f := range t.Fields {
		if f.Typename {
			continue
		}
		wf := w.Fields[i]
		e := hx.A("none")
		comp := hx.A("null")
		if wf.Err != "" {
			e = hx.N("e", hx.A(wf.Err))
		} else {
			comp = worldComp(f.T, wf.V)
		}
		xs = append(xs, hx.N("w", hx.A(f.Name), hx.B(f.NN), hx.A(wf.Mode), e, comp))
	}
	return xs
}

// SettleMode says which serial executor the model is asked to run for mutations: true — the
// executor repaired for F-11a (repo commit eabb795, settleSerialPromises: after wait the idle
// handler is driven until every promise returned beneath the current root field has been received;
// model kind `mutation-settle`); false — the one before the repair (model kind `mutation`, kept in
// the model for the negation witness `strict_serial_fails`). The oracles do not depend on it.
var SettleMode = true

// ModelLine is the request line for c02model / c11model: the document's selection sets exactly as
// printed in Document() (fragments inlined at their spreads, directives and type conditions
// evaluated to flags), the resolver outcomes by field name, the schedule.
func (c *Case) ModelLine() string {
	AssignTypeNames(c.Shape)
	kind := "query"
	if c.Mutation {
		kind = "mutation"
		if SettleMode {
			kind = "mutation-settle"
		}
	}
	var sched []hx.Sexp
	for _, m := range c.Schedule {
		sched = append(sched, hx.A(strconv.FormatUint(m&(1<<62-1), 10)))
	}
	if PlanLines {
		return hx.N("run", hx.A(kind), hx.L(fieldsSexp(c.Shape, c.World)...), hx.L(sched...)).String()
	}
	if c.ConcreteLine() {
		return c.modelLineC(kind, sched)
	}
	var sels []hx.Sexp
	for _, n := range c.Selections() {
		sels = append(sels, nodeSexp(n))
	}
	return hx.N("rund", hx.A(kind), hx.L(sels...), hx.A(c.Shape.TypeName), hx.L(worldFields(c.Shape, c.World)...), hx.L(sched...)).String()
}

// PlanLines makes ModelLine send the collected plan (`run`: the harness's own Shape, fused with
// the world) instead of the document's selections (`rund`: the model runs collectFields and
// mergeSelectionSets itself, lean/ApiFu/C02/Collect.lean, and fuses the result with the world).
var PlanLines = false

// ---- observables ------------------------------------------------------------------------------

// NullObs is an entry of the model's Spec.nulls: a null the reference semantics leaves visible in
// the data because something failed, with the field errors that can explain it.
type NullObs struct {
	Path  string
	Cands []ErrObs
}

type ErrObs struct {
	Path string `json:"path"` // JSON array text
	Msg  string `json:"msg"`
}

type Event struct {
	Kind string `json:"kind"` // start | fulfil
	Path string `json:"path"`
	// Pending (real side, start events only): promises outstanding when the resolver was called.
	Pending []string `json:"pending,omitempty"`
}

// Observed is the canonical observable of one run (either side).
type Observed struct {
	Data     string   `json:"data"`   // compact JSON, keys in response order
	Errors   []ErrObs `json:"errors"` // in append order
	Rounds   int      `json:"rounds"`
	Promises int      `json:"promises"` // promises created
	Events   []Event  `json:"events"`
	Panic    string   `json:"panic,omitempty"`
	Stuck    bool     `json:"stuck,omitempty"` // the idle handler was called with nothing left to fulfil
	Widths   []int    `json:"-"`               // outstanding promises at each idle round (real side only)
	// The Lean reference semantics of the request (model side only): Spec.data, Spec.required, Spec.errsF.
	HasSpec      bool      `json:"-"`
	SpecData     string    `json:"-"`
	SpecRequired []ErrObs  `json:"-"`
	SpecAll      []ErrObs  `json:"-"`
	SpecNulls    []NullObs `json:"-"`
	// Abandoned lists the promises whose result the executor never received (real side only):
	// delivered but left in the channel, or still outstanding when execution returned.
	Abandoned []string `json:"abandoned,omitempty"`
	// DirectiveErrors (real side only): path-less errors about the uncoercible directive argument
	// $nv, in append order; not part of Errors.
	DirectiveErrors []string `json:"directive_errors,omitempty"`
	tree            any
}

func (o *Observed) Line(withEvents bool) string {
	var b strings.Builder
	fmt.Fprintf(&b, "data=%s errors=[", o.Data)
	for i, e := range o.Errors {
		if i > 0 {
			b.WriteString(" ")
		}
		fmt.Fprintf(&b, "%s:%q", e.Path, e.Msg)
	}
	fmt.Fprintf(&b, "] rounds=%d promises=%d", o.Rounds, o.Promises)
	if withEvents {
		b.WriteString(" events=[")
		for i, e := range o.Events {
			if i > 0 {
				b.WriteString(" ")
			}
			b.WriteString(e.Kind + e.Path)
		}
		b.WriteString("]")
	}
	if o.Panic != "" {
		b.WriteString(" panic=" + o.Panic)
	}
	if o.Stuck {
		b.WriteString(" STUCK")
	}
	return b.String()
}

// ParseModelReply reads `(out "<data>" ((err "<path>" "<msg>")…) rounds promises ((ev kind "<path>")…))`.
func ParseModelReply(line string) (*Observed, error) {
	x, err := hx.ParseSexp(line)
	if err != nil {
		return nil, fmt.Errorf("model reply %q: %v", line, err)
	}
	if !x.IsList || (len(x.List) != 6 && len(x.List) != 7) || x.List[0].Atom != "out" {
		return nil, fmt.Errorf("unexpected model reply %q", line)
	}
	o := &Observed{Data: x.List[1].Atom}
	for _, e := range x.List[2].List {
		if len(e.List) != 3 {
			return nil, fmt.Errorf("bad error entry in %q", line)
		}
		o.Errors = append(o.Errors, ErrObs{Path: e.List[1].Atom, Msg: e.List[2].Atom})
	}
	o.Rounds, _ = strconv.Atoi(x.List[3].Atom)
	o.Promises, _ = strconv.Atoi(x.List[4].Atom)
	for _, e := range x.List[5].List {
		if len(e.List) != 3 {
			return nil, fmt.Errorf("bad event entry in %q", line)
		}
		o.Events = append(o.Events, Event{Kind: e.List[1].Atom, Path: e.List[2].Atom})
	}
	if len(x.List) == 7 && len(x.List[6].List) >= 4 {
		sp := x.List[6].List
		o.HasSpec = true
		o.SpecData = sp[1].Atom
		for _, e := range sp[2].List {
			if len(e.List) == 3 {
				o.SpecRequired = append(o.SpecRequired, ErrObs{Path: e.List[1].Atom, Msg: e.List[2].Atom})
			}
		}
		for _, e := range sp[3].List {
			if len(e.List) == 3 {
				o.SpecAll = append(o.SpecAll, ErrObs{Path: e.List[1].Atom, Msg: e.List[2].Atom})
			}
		}
		if len(sp) >= 5 {
			for _, n := range sp[4].List {
				if len(n.List) != 3 {
					return nil, fmt.Errorf("bad null entry in %q", line)
				}
				no := NullObs{Path: n.List[1].Atom}
				for _, e := range n.List[2].List {
					if len(e.List) == 3 {
						no.Cands = append(no.Cands, ErrObs{Path: e.List[1].Atom, Msg: e.List[2].Atom})
					}
				}
				o.SpecNulls = append(o.SpecNulls, no)
			}
		}
	}
	return o, nil
}
