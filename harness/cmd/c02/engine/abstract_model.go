package engine

import (
	"fmt"
	"strconv"

	"github.com/ccbrown/api-fu/graphql"
	"github.com/ccbrown/api-fu/graphql/ast"

	"verifharness/hx"
)

// ---- the abstract-overlap family through the instantiated Lean model -----------------------------
//
// The documents of the family (abstract.go) are sent to the model as written (`runc`,
// lean/ApiFu/C02/CollectInst.lean): the parsed AST is converted to the model's concrete syntax, the
// schema's relations are listed, and every object value of the world carries its concrete type —
// the first candidate in the schema's order that accepts it —, so the model collects one selection
// set separately for the Square and the Blob values it is applied to (`WComp.planC`), as
// collectFields(objectType, …) must.

func astDirs(ds []*ast.Directive) hx.Sexp {
	var out []hx.Sexp
	for _, d := range ds {
		for _, a := range d.Arguments {
			if a.Name.Name != "if" {
				continue
			}
			switch v := a.Value.(type) {
			case *ast.BooleanValue:
				out = append(out, hx.N("d", hx.A(d.Name.Name), hx.A("lit"), hx.B(v.Value)))
			case *ast.Variable:
				out = append(out, hx.N("d", hx.A(d.Name.Name), hx.A("var"), hx.A(v.Name.Name)))
			}
		}
	}
	return hx.L(out...)
}

func astSels(ss *ast.SelectionSet) []hx.Sexp {
	var out []hx.Sexp
	if ss == nil {
		return out
	}
	for _, s := range ss.Selections {
		switch s := s.(type) {
		case *ast.Field:
			key := s.Name.Name
			if s.Alias != nil {
				key = s.Alias.Name
			}
			out = append(out, hx.N("f", hx.A(key), hx.A(s.Name.Name), astDirs(s.Directives), hx.L(astSels(s.SelectionSet)...)))
		case *ast.InlineFragment:
			cond := "-"
			if s.TypeCondition != nil {
				cond = s.TypeCondition.Name.Name
			}
			out = append(out, hx.N("inl", astDirs(s.Directives), hx.A(cond), hx.L(astSels(s.SelectionSet)...)))
		case *ast.FragmentSpread:
			out = append(out, hx.N("spr", astDirs(s.Directives), hx.A(s.FragmentName.Name)))
		}
	}
	return out
}

func absWorldObj(kind string, order []string, modes map[string]string, depth int) hx.Sexp {
	t := absTypeOf(kind, order)
	fields := []hx.Sexp{hx.A(t), hx.N("w", hx.A("name"), hx.B(true), hx.A("sync"), hx.A("none"), hx.N("s", hx.A(strconv.Quote(kind))))}
	if t == "Square" {
		fields = append(fields, hx.N("w", hx.A("side"), hx.B(false), hx.A("sync"), hx.A("none"), hx.N("s", hx.A("4"))))
	} else {
		fields = append(fields, hx.N("w", hx.A("mass"), hx.B(false), hx.A("sync"), hx.A("none"), hx.N("s", hx.A("7"))))
	}
	if depth > 0 {
		other := "bl"
		if kind == "bl" {
			other = "sq"
		}
		fields = append(fields, hx.N("w", hx.A("next"), hx.B(false), hx.A(absMode(modes, "next")), hx.A("none"), absWorldObj(other, []string{"Square", "Blob"}, modes, depth-1)))
	}
	return hx.N("wobj", fields...)
}

func absMode(modes map[string]string, pos string) string {
	if modes[pos] == "promise" {
		return "promise"
	}
	return "sync"
}

// AbsModelLine is the `runc` request for one run of the family.
func AbsModelLine(doc string, async []string, sched []uint64) (string, error) {
	s, err := absBuildSchema()
	if err != nil {
		return "", err
	}
	parsed, errs := graphql.ParseAndValidate(doc, s, nil)
	if len(errs) > 0 {
		return "", fmt.Errorf("document %q rejected: %v", doc, errs[0].Message)
	}
	modes := map[string]string{}
	for _, p := range async {
		modes[p] = "promise"
	}
	var sels, frags []hx.Sexp
	for _, def := range parsed.Definitions {
		switch def := def.(type) {
		case *ast.OperationDefinition:
			sels = astSels(def.SelectionSet)
		case *ast.FragmentDefinition:
			frags = append(frags, hx.N("fr", hx.A(def.Name.Name), hx.A(def.TypeCondition.Name.Name), hx.L(astSels(def.SelectionSet)...)))
		}
	}
	u := []string{"Square", "Blob"}
	one := func(field, kind string, order []string) hx.Sexp {
		return hx.N("w", hx.A(field), hx.B(false), hx.A(absMode(modes, field)), hx.A("none"), absWorldObj(kind, order, modes, 2))
	}
	many := func(field string, kinds []string, order []string) hx.Sexp {
		items := []hx.Sexp{hx.B(false)}
		for _, k := range kinds {
			items = append(items, absWorldObj(k, order, modes, 2))
		}
		return hx.N("w", hx.A(field), hx.B(false), hx.A(absMode(modes, field)), hx.A("none"), hx.N("list", items...))
	}
	world := []hx.Sexp{one("a", "sq", u), one("b", "bl", u), one("c", "sq", u), many("things", []string{"sq", "bl", "sq"}, u),
		one("sa", "sq", absShapeOrder), one("sb", "bl", absShapeOrder), many("shapes", []string{"bl", "sq", "sq"}, absShapeOrder)}
	types := []hx.Sexp{hx.A("types"), hx.N("obj", hx.A("Query"), hx.L()), hx.N("obj", hx.A("Square"), hx.L(hx.A("Shape"))),
		hx.N("obj", hx.A("Blob"), hx.L(hx.A("Shape"))), hx.N("iface", hx.A("Shape")), hx.N("union", hx.A("Thing"), hx.L(hx.A("Square"), hx.A("Blob")))}
	var ms []hx.Sexp
	for _, m := range sched {
		ms = append(ms, hx.A(strconv.FormatUint(m&(1<<62-1), 10)))
	}
	return hx.N("runc", hx.A("query"), hx.L(sels...), hx.A("Query"), hx.L(world...), hx.L(ms...),
		hx.L(hx.A("vars")), hx.L(append([]hx.Sexp{hx.A("frags")}, frags...)...), hx.L(types...)).String(), nil
}
