package main

import (
	"encoding/json"
	"fmt"
	"os"

	"verifharness/cmd/c02/engine"
)

const obRoot = "a root type that is also a field type: __typename, __schema and __type selected where the query type is reached beneath the root (a field of type Query, list items, a mutation payload's field; directly and through promises): every object has exactly the keys of its selection set, none blank — every async subset × every schedule (engine/roottype.go)"

// rootFamily runs the fixed family of engine/roottype.go.
func (h *harness) rootFamily() {
	failed := 0
	complete, err := engine.RootFamily(h.run.Scale(1500, 100000), func(d engine.ArgsDoc, async []string, sched []uint64, o *engine.Observed, fail string) {
		ac := argsCase{Doc: d.Doc, Async: async, Schedule: sched}
		b, _ := json.Marshal(ac)
		h.run.Case("root:"+string(b), o.Promises >= 1)
		h.run.Count("root-type-as-field-type family")
		h.run.Oblige(obRoot, "oracle", 1, fail == "", fail)
		if fail != "" {
			failed++
			if failed <= 3 {
				h.run.Violate("property", fmt.Sprintf("root type beneath the root: %s  [document %s, answering through promises: %v, schedule %v]", fail, d.Doc, async, sched), "", false,
					map[string]any{"level": "root", "case": ac, "what": fail, "implementation": o.Line(false)})
			}
		}
	})
	if err != nil {
		h.run.Oblige("harness self-consistency (generated schema/document accepted)", "oracle", 1, false, "root-type family: "+err.Error())
	}
	h.run.Note("root-type-as-field-type family: %d documents × all async subsets of the positions they reach × all schedules (complete=%v)", len(engine.RootDocs), complete)
}

func (h *harness) replayRoot(raw json.RawMessage) {
	var ac argsCase
	if err := json.Unmarshal(raw, &ac); err != nil {
		fmt.Fprintln(os.Stderr, err)
		os.Exit(2)
	}
	o, err := engine.RootRun(ac.Doc, ac.Async, ac.Schedule)
	if err != nil {
		fmt.Fprintln(os.Stderr, err)
		os.Exit(2)
	}
	want := ""
	for _, d := range engine.RootDocs {
		if d.Doc == ac.Doc {
			want = engine.RootCheck(d, o)
		}
	}
	fmt.Printf("document:       %s\nanswering through promises: %v  schedule: %v\nimplementation: %s\nverdict:        %s\n", ac.Doc, ac.Async, ac.Schedule, o.Line(false), want)
	if want != "" {
		h.run.Violate("property", "root type beneath the root: "+want, "", false, map[string]any{"level": "root", "case": ac})
	}
}
