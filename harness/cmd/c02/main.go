// Harness for C02 — the response is independent of sync/async resolution and promise order.
//
// Two levels, both on every run:
//
//	(a) combinator level (comb.go): random future terms and fulfil/poll scripts run through the
//	    `verif`-tagged hook graphql/executor/verif_future.go (an interpreter over the internal future
//	    package) and through the Lean model of future.go; results per step and the side-effect log
//	    are compared exactly; model-free laws (no callback runs twice, a ready future stays as it is).
//	(b) executor level: generated requests (schema + document + resolver outcomes with a
//	    sync|promise flag per field invocation + fulfilment schedule) run through the real
//	    graphql.Execute; the harness's IdleHandler is the only thing that fulfils promises.
//	    Observable = data + ordered error list + idle rounds + promises created, compared with the
//	    Lean model; model-free oracle = the property itself against the all-sync run.
package main

import (
	"encoding/json"
	"fmt"
	"os"
	"reflect"
	"strings"

	"verifharness/cmd/c02/engine"
	"verifharness/hx"
)

type harness struct {
	run   *hx.Run
	model *hx.Model
	// statistics
	syncCache map[string]*engine.Observed
	failed    map[string]int
}

type verdict struct {
	Class string // "" | property | crash | correspondence
	Cat   string
	What  string
	Real  *engine.Observed
	Model *engine.Observed
	Sync  *engine.Observed
	// cancelled: number of invocations reached after the cancellation (cancel cases)
	cancelled int
}

func (v verdict) key() string { return v.Class + ":" + v.Cat }

func (h *harness) syncRun(c *engine.Case) (*engine.Observed, error) {
	s := c.AllSync()
	s.Syntax = 0 // the reference run also uses the plain presentation of the selection sets
	b, _ := json.Marshal(struct {
		S *engine.TShape
		W *engine.WVal
		M bool
	}{s.Shape, s.World, s.Mutation})
	k := string(b)
	if o, ok := h.syncCache[k]; ok {
		return o, nil
	}
	o, err := engine.RunReal(s)
	if err != nil {
		return nil, err
	}
	if len(h.syncCache) > 50000 {
		h.syncCache = map[string]*engine.Observed{}
	}
	h.syncCache[k] = o
	return o, nil
}

func sameObs(a, b *engine.Observed) string {
	if a.Data != b.Data {
		return fmt.Sprintf("data: implementation %s, model %s", a.Data, b.Data)
	}
	if len(a.Errors) != len(b.Errors) || (len(a.Errors) > 0 && !reflect.DeepEqual(a.Errors, b.Errors)) {
		return fmt.Sprintf("error list: implementation %v, model %v", a.Errors, b.Errors)
	}
	if a.Rounds != b.Rounds {
		return fmt.Sprintf("idle rounds: implementation %d, model %d", a.Rounds, b.Rounds)
	}
	if a.Promises != b.Promises {
		return fmt.Sprintf("promises created: implementation %d, model %d", a.Promises, b.Promises)
	}
	return ""
}

// judge evaluates one case given the model's reply line ("" = no model).
func (h *harness) judge(c *engine.Case, modelReply string) verdict {
	real, err := engine.RunReal(c)
	if err != nil {
		return verdict{Class: "harness", Cat: "compile", What: err.Error()}
	}
	v := verdict{Real: real}
	var mo *engine.Observed
	var moErr error
	if modelReply != "" {
		mo, moErr = engine.ParseModelReply(modelReply)
		v.Model = mo
	}
	sync, err := h.syncRun(c)
	if err != nil {
		return verdict{Class: "harness", Cat: "compile", What: err.Error()}
	}
	v.Sync = sync
	if m := engine.SelfCheck(c, real); m != "" {
		cat, msg := engine.SplitCat(m)
		v.Class, v.Cat, v.What = "property", cat, msg
		if cat == "crash" {
			v.Class = "crash"
		}
		return v
	}
	if m := engine.SelfCheck(c.AllSync(), sync); m != "" {
		cat, msg := engine.SplitCat(m)
		v.Class, v.Cat, v.What = "property", "sync-"+cat, "all-sync run: "+msg
		if cat == "crash" {
			v.Class = "crash"
		}
		return v
	}
	if m := engine.CompareWithSync(sync, real); m != "" {
		cat, msg := engine.SplitCat(m)
		v.Class, v.Cat, v.What = "property", cat, msg
		return v
	}
	if modelReply != "" {
		if moErr != nil {
			v.Class, v.Cat, v.What = "correspondence", "reply", moErr.Error()
			return v
		}
		if d := sameObs(real, mo); d != "" {
			v.Class, v.Cat, v.What = "correspondence", strings.SplitN(d, ":", 2)[0], d
		} else if d := engine.SpecCheck(c, real, mo); d != "" {
			v.Class, v.Cat, v.What = "correspondence", "spec", "Lean reference semantics vs implementation: "+d
		}
	}
	return v
}

// judgeCancel evaluates a case whose k-th resolver cancels the context (engine/cancel.go): the
// model-free oracle on the run itself, then the reduction — the model's run of the request in which
// the invocations reached after the cancellation fail synchronously — against the implementation.
func (h *harness) judgeCancel(c *engine.Case) verdict {
	real, err := engine.RunReal(c)
	if err != nil {
		return verdict{Class: "harness", Cat: "compile", What: err.Error()}
	}
	v := verdict{Real: real}
	if m := engine.CancelSelfCheck(c, real); m != "" {
		cat, msg := engine.SplitCat(m)
		v.Class, v.Cat, v.What = "property", "cancel-"+cat, "cancelled run: "+msg
		if cat == "crash" {
			v.Class = "crash"
		}
		return v
	}
	if h.model == nil {
		return v
	}
	d, K, mo, err := engine.CancelReduce(c, h.model.Ask)
	if err != nil {
		v.Class, v.Cat, v.What = "correspondence", "cancel-driver", err.Error()
		return v
	}
	v.Model = mo
	v.cancelled = len(K)
	if m := engine.CompareCancelled(real, mo, K); m != "" {
		v.Class, v.Cat, v.What = "correspondence", "cancel", fmt.Sprintf("cancelled run vs the model's run of the request with %d cancelled invocations failing synchronously: %s", len(K), m)
	} else if m := engine.SelfCheck(d, real); m != "" {
		v.Class, v.Cat, v.What = "correspondence", "cancel-oracle", "cancelled run against the oracles of the transformed request: "+m
	} else if m := engine.SpecCheck(d, real, mo); m != "" {
		v.Class, v.Cat, v.What = "correspondence", "spec", "Lean reference semantics of the transformed request vs implementation: "+m
	}
	return v
}

func (h *harness) judgeAsk(c *engine.Case) verdict {
	if c.CancelAt > 0 {
		return h.judgeCancel(c)
	}
	reply := ""
	if h.model != nil {
		r, err := h.model.Ask(c.ModelLine())
		if err != nil {
			return verdict{Class: "correspondence", Cat: "driver", What: err.Error()}
		}
		reply = r
	}
	return h.judge(c, reply)
}

func nontrivial(c *engine.Case, real *engine.Observed) bool {
	// at least two promises, at least two idle rounds or a failure/null crossing an async boundary
	return real != nil && real.Promises >= 2 && (real.Rounds >= 2 || len(real.Errors) > 0)
}

const findingNilKindErr = "F-02c-nil-slice-or-map-error-lost-through-promise"

// classify attaches an open finding to a failing case. F-02c: some invocation answers through a
// promise with an error whose dynamic value is a nil slice / nil map, and the very same case passes
// once those errors are pointer-kind errors with the same message (nothing else is excused).
func (h *harness) classify(c *engine.Case, v verdict) string {
	if v.Class == "" || v.Class == "harness" || v.Class == "crash" {
		return ""
	}
	d := c.Clone()
	found := false
	for _, f := range d.Invocations() {
		if (f.ErrKind == "nilslice" || f.ErrKind == "nilmap") && f.Mode != "sync" {
			found = true
		}
		if f.ErrKind == "nilslice" || f.ErrKind == "nilmap" {
			f.ErrKind = "ptr"
		}
	}
	if !found || h.judgeAsk(d).Class != "" {
		return ""
	}
	return findingNilKindErr
}

func (h *harness) record(c *engine.Case, v verdict, source string) {
	finding := h.classify(c, v)
	if finding != "" {
		h.run.Count("finding:" + finding)
	}
	b, _ := json.Marshal(c)
	h.run.Case(string(b), nontrivial(c, v.Real))
	if v.Real != nil {
		h.run.Count(fmt.Sprintf("%s:promises=%d", source, min(v.Real.Promises, 8)))
		switch {
		case c.Syntax == 0:
			h.run.Count("model line: rund, plain document")
		case c.ConcreteLine():
			h.run.Count(fmt.Sprintf("model line: runc (collectFields instantiated), variable-driven directives=%v", c.Syntax&4 != 0))
		default:
			h.run.Count(fmt.Sprintf("model line: rund (flags), variable-driven directives=%v", c.Syntax&4 != 0))
		}
		h.run.Count(fmt.Sprintf("rounds=%d", min(v.Real.Rounds, 8)))
		h.run.Count(fmt.Sprintf("errors=%d", min(len(v.Real.Errors), 5)))
		if v.Real.Data == "null" {
			h.run.Count("data:null")
		}
		if c.Mutation {
			h.run.Count("op:mutation")
		}
		if n := len(v.Real.DirectiveErrors); n > 0 {
			h.run.Count(fmt.Sprintf("uncoercible directive argument: error reported %d×", n))
		}
		if c.CancelAt > 0 {
			h.run.Count(fmt.Sprintf("cancel: fields reached after the cancellation=%d", min(v.cancelled, 4)))
		}
	}
	if c.CancelAt > 0 {
		h.run.Oblige("context cancellation: no resolver called after the cancellation, `context canceled` only for fields whose resolver was not called, single-run oracles; the cancelled run = the model's run of the request with the fields reached after the cancellation failing synchronously", "oracle", 1, v.Class == "" || finding != "", v.What)
	}
	h.run.Oblige("executor correspondence (data, ordered errors, idle rounds, promises created) vs Lean ExecAsync", "correspondence", 1, v.Class != "correspondence" || finding != "", v.What)
	h.run.Oblige("oracle: every schedule = all-sync run on data and required errors; no duplicate error; no blank/missing key; rounds ≤ promises; no crash", "oracle", 1, (v.Class != "property" && v.Class != "crash") || finding != "", v.What)
	if v.Model != nil && v.Model.HasSpec {
		h.run.Oblige("Lean reference semantics (Spec.data, Spec.required ⊆ errors ⊆ Spec.errsF, every Spec.nulls position is a null of the data with an explaining error) vs the implementation's output", "correspondence", 1, !(v.Class == "correspondence" && v.Cat == "spec") || finding != "", v.What)
		h.run.Count(fmt.Sprintf("spec-nulls=%d", min(len(v.Model.SpecNulls), 4)))
		for _, n := range v.Model.SpecNulls {
			if len(n.Cands) > 1 {
				h.run.Count("spec-null with several candidate errors")
				break
			}
		}
	}
	if v.Class == "" {
		return
	}
	if v.Class == "harness" {
		h.run.Oblige("harness self-consistency (generated schema/document accepted)", "oracle", 1, false, v.What)
		return
	}
	// shrink while the failure class stays the same (only for the first few failures of a class)
	want := v.key()
	h.failed[want]++
	if h.failed[want] > 3 {
		h.run.Violate(v.Class, fmt.Sprintf("%s: %s  [document %s]", v.Cat, v.What, c.Document()), finding, v.Class == "correspondence", nil)
		return
	}
	small := engine.Shrink(c, want, func(d *engine.Case) string { return h.judgeAsk(d).key() })
	sv := h.judgeAsk(small)
	if sv.key() != want {
		small, sv = c, v
	}
	replay := map[string]any{"level": "executor", "case": small, "document": small.Document(), "what": sv.What}
	if sv.Real != nil {
		replay["implementation"] = sv.Real.Line(false)
	}
	if sv.Sync != nil {
		replay["all_sync"] = sv.Sync.Line(false)
	}
	if sv.Model != nil {
		replay["model"] = sv.Model.Line(false)
	}
	h.run.Violate(sv.Class, fmt.Sprintf("%s: %s  [document %s]", sv.Cat, sv.What, small.Document()), h.classify(small, sv), sv.Class == "correspondence", replay)
}

// batch judges many cases with one pipelined model exchange.
func (h *harness) batch(cs []*engine.Case, source string) {
	replies := make([]string, len(cs))
	if h.model != nil {
		lines := make([]string, len(cs))
		for i, c := range cs {
			lines[i] = c.ModelLine() // (unused for cancel cases, which ask the model themselves)
		}
		r, err := h.model.AskAll(lines)
		if err != nil {
			h.run.Oblige("executor correspondence (data, ordered errors, idle rounds, promises created) vs Lean ExecAsync", "correspondence", 1, false, "model driver: "+err.Error())
			h.model = nil
		} else {
			replies = r
		}
	}
	for i, c := range cs {
		if c.CancelAt > 0 {
			h.record(c, h.judgeCancel(c), source)
			continue
		}
		h.record(c, h.judge(c, replies[i]), source)
	}
}

// schedules enumerates every fulfilment schedule of the case (depth-first over the widths the
// real run reveals) and calls visit with the case carrying the explicit schedule.
func schedules(c *engine.Case, limit int, visit func(*engine.Case)) (count int, complete bool) {
	complete = true
	var rec func(prefix []uint64)
	rec = func(prefix []uint64) {
		if count >= limit {
			complete = false
			return
		}
		d := c.Clone()
		d.Schedule = append([]uint64{}, prefix...)
		obs, err := engine.RunReal(d)
		if err != nil {
			return
		}
		count++
		visit(d)
		for k := len(prefix); k < len(obs.Widths); k++ {
			w := obs.Widths[k]
			if w > 10 {
				w = 10
			}
			for m := uint64(1); m < (uint64(1)<<uint(w))-1; m++ {
				p := append([]uint64{}, prefix...)
				for len(p) < k {
					p = append(p, engine.AllMask)
				}
				rec(append(p, m))
			}
		}
	}
	rec(nil)
	return
}

// modeSubsets calls visit for every assignment of the given modes to the invocations.
func modeSubsets(c *engine.Case, modes []string, visit func(*engine.Case)) {
	n := len(c.Invocations())
	var rec func(i int, d *engine.Case)
	rec = func(i int, d *engine.Case) {
		if i == n {
			visit(d.Clone())
			return
		}
		for _, m := range modes {
			d.Invocations()[i].Mode = m
			rec(i+1, d)
		}
	}
	rec(0, c.Clone())
}

type fixedReq struct {
	shape    string
	mutation bool
	leaf     []string
	obj      []string
	listLen  int
	listAlt  bool
	maxInv   int    // skip worlds with more invocations than this (keeps the schedule space bounded)
	syntax   uint64 // presentation of the selection sets in the document (engine/syntax.go); 0 = plain
}

func (h *harness) exhaustive() {
	run := h.run
	vle := []string{"val", "null", "err"}
	ve := []string{"val", "err"}
	v := []string{"val"}
	reqs := []fixedReq{
		{shape: "{o:{n!:i}}", leaf: vle, obj: vle, maxInv: 4},                // F-02a shape
		{shape: "{a:i b:i c:i}", leaf: vle, obj: v, maxInv: 4},               // F-02b shape
		{shape: "{a!:i b:i c:i}", leaf: vle, obj: v, maxInv: 4},              // root non-null failing beside caught errors
		{shape: "{o:{a!:i b:i} c:i}", leaf: vle, obj: vle, maxInv: 4},        // propagation into a nullable object
		{shape: "{o!:{a!:i b:i}}", leaf: vle, obj: ve, maxInv: 4},            // propagation to the root
		{shape: "{l:[{x!:i}!]}", leaf: ve, obj: v, listLen: 2, maxInv: 4},    // Join early exit on either item
		{shape: "{l:[{x!:i}] c:i}", leaf: ve, obj: v, listLen: 2, maxInv: 4}, // per-item catch
		{shape: "{l:[{x:i y!:i}]}", leaf: ve, obj: v, listLen: 1, maxInv: 4}, //
		{shape: "{o:{p:{q!:i} r:i}}", leaf: vle, obj: v, maxInv: 4},          // nested objects
		{shape: "{o:{t# a:i} b!:i}", leaf: vle, obj: v, maxInv: 4},           // __typename slot beside deferred slots
		{shape: "{m:[[i!]] a:i}", leaf: []string{"val", "null"}, obj: v, listLen: 2, listAlt: true, maxInv: 4},
		{shape: "{a:i b!:[i]}", leaf: []string{"val", "bad"}, obj: v, listLen: 1, listAlt: true, maxInv: 4},
		{shape: "{a:{x:i} b:{y!:i}}", mutation: true, leaf: ve, obj: vle, maxInv: 4}, // serial root fields
		{shape: "{a:i b:i}", mutation: true, leaf: vle, obj: v, maxInv: 4},
	}
	reqs = append(reqs,
		fixedReq{shape: "{a:i b:i c:i d:i}", leaf: ve, obj: v, maxInv: 4},                     // four siblings: 75 schedules when all are promises
		fixedReq{shape: "{a!:i b:i c:i d:i}", leaf: []string{"err"}, obj: v, maxInv: 4},       //
		fixedReq{shape: "{o:{a!:i b:i} p:{c:i}}", leaf: ve, obj: ve, maxInv: 5},               // two objects side by side, promised themselves
		fixedReq{shape: "{l:[{x!:i y:i}] c:i}", leaf: ve, obj: v, listLen: 1, maxInv: 5},      // list items with two promised fields each
		fixedReq{shape: "{o:{p:{q!:i r:i}} s:i}", leaf: ve, obj: ve, maxInv: 5},               // promise chains three deep
		fixedReq{shape: "{a:{x:i y:i} b:{z:i}}", mutation: true, leaf: ve, obj: v, maxInv: 5}, // serial root with nested promises
	)
	reqs = append(reqs,
		// interface- and union-typed positions (plain, in lists, at the root of a mutation)
		fixedReq{shape: "{o:{n!:i}~i}", leaf: vle, obj: vle, maxInv: 4},
		fixedReq{shape: "{o:{a!:i b:i}~u c:i}", leaf: vle, obj: vle, maxInv: 4},
		fixedReq{shape: "{l:[{x!:i}~i] c:i}", leaf: ve, obj: v, listLen: 2, maxInv: 4},
		fixedReq{shape: "{l:[{x:i y!:i}~u!]}", leaf: ve, obj: v, listLen: 1, maxInv: 4},
		fixedReq{shape: "{a:{x:i}~u b:{y!:i}~i}", mutation: true, leaf: ve, obj: vle, maxInv: 4},
		// un-collected presentations: repeated keys, split sub-selections, fragments, skipped selections
		fixedReq{shape: "{o:{a!:i b:i} c:i}", leaf: vle, obj: vle, maxInv: 4, syntax: 9},
		fixedReq{shape: "{o:{p:{q!:i} r:i}}", leaf: vle, obj: v, maxInv: 4, syntax: 10},
		fixedReq{shape: "{l:[{x!:i y:i}~i] c:i}", leaf: ve, obj: v, listLen: 1, maxInv: 5, syntax: 13},
		fixedReq{shape: "{a:{x:i y:i} b:{z:i}}", mutation: true, leaf: ve, obj: v, maxInv: 5, syntax: 14},
	)
	modes := []string{"sync", "promise"}
	if run.Thorough() {
		modes = []string{"sync", "promise", "pre"}
		reqs = append(reqs,
			fixedReq{shape: "{a:i b:i c:i d:i e:i}", leaf: ve, obj: v, maxInv: 5},
			fixedReq{shape: "{a:i b!:i c:i d:i e:i f:i}", leaf: []string{"err"}, obj: v, maxInv: 6},
			fixedReq{shape: "{o:{a!:i b:i} p:{c:i d!:i} e:i}", leaf: ve, obj: v, maxInv: 7},
			fixedReq{shape: "{l:[{x!:i y:i}!] c:i}", leaf: ve, obj: v, listLen: 2, maxInv: 6},
			fixedReq{shape: "{l:[{x:i m:[{z!:i}]}]}", leaf: ve, obj: v, listLen: 2, maxInv: 7},
			fixedReq{shape: "{a:{x:i y:i} b:{z:i} c:i}", mutation: true, leaf: ve, obj: v, maxInv: 6},
			fixedReq{shape: "{o:{n!:i}}", leaf: []string{"val", "null", "err", "errv", "bad"}, obj: vle, maxInv: 4},
		)
	}
	perReqLimit := run.Scale(60000, 1500000)
	allComplete := true
	total := 0
	for _, rq := range reqs {
		shape := engine.MustShape(rq.shape)
		n := 0
		var pending []*engine.Case
		flush := func() {
			if len(pending) > 0 {
				h.batch(pending, "exh")
				pending = nil
			}
		}
		engine.EnumWorlds(shape, rq.leaf, rq.obj, max(rq.listLen, 1), rq.listAlt, func(w *engine.WVal) bool {
			base := &engine.Case{Mutation: rq.mutation, Shape: shape.Clone(), World: w, Syntax: rq.syntax}
			if len(base.Invocations()) > rq.maxInv {
				return true
			}
			modeSubsets(base, modes, func(c *engine.Case) {
				cnt, complete := schedules(c, 6000, func(d *engine.Case) {
					pending = append(pending, d)
					if len(pending) >= 4000 {
						flush()
					}
				})
				n += cnt
				if !complete {
					allComplete = false
				}
			})
			if n > perReqLimit {
				allComplete = false
				return false
			}
			return true
		})
		flush()
		total += n
		run.CountN(fmt.Sprintf("exhaustive:%s/syntax=%d", rq.shape, rq.syntax), n)
	}
	run.Note("bounded-exhaustive part: %d fixed request shapes × all worlds over the listed outcomes × all async subsets × all fulfilment schedules = %d runs (complete=%v)", len(reqs), total, allComplete)
	run.SetExhaustive(allComplete)
}

const obArgs = "field arguments: every execution of a field node gets the literal arguments of the node and the defaults of its own object type — one node executed for two implementations of an interface, every async subset × every schedule (engine/args.go)"

type argsCase struct {
	Doc      string   `json:"doc"`
	Async    []string `json:"async"`
	Schedule []uint64 `json:"schedule"`
}

// argsFamily runs the fixed family of engine/args.go.
func (h *harness) argsFamily() {
	failed := 0
	complete, err := engine.ArgsFamily(h.run.Scale(3000, 100000), func(d engine.ArgsDoc, async []string, sched []uint64, o *engine.Observed, fail string) {
		ac := argsCase{Doc: d.Doc, Async: async, Schedule: sched}
		b, _ := json.Marshal(ac)
		h.run.Case("args:"+string(b), o.Promises >= 2)
		h.run.Count("args family")
		h.run.Oblige(obArgs, "oracle", 1, fail == "", fail)
		if fail != "" {
			failed++
			if failed <= 3 {
				h.run.Violate("property", fmt.Sprintf("args: %s  [document %s, answering through promises: %v, schedule %v]", fail, d.Doc, async, sched), "", false,
					map[string]any{"level": "args", "case": ac, "what": fail, "implementation": o.Line(false)})
			}
		}
	})
	if err != nil {
		h.run.Oblige("harness self-consistency (generated schema/document accepted)", "oracle", 1, false, "args family: "+err.Error())
	}
	h.run.Note("argument-defaults family: %d documents × all async subsets of the positions they reach × all schedules (complete=%v)", len(engine.ArgsDocs), complete)
}

func (h *harness) replayArgs(raw json.RawMessage) {
	var ac argsCase
	if err := json.Unmarshal(raw, &ac); err != nil {
		fmt.Fprintln(os.Stderr, err)
		os.Exit(2)
	}
	o, err := engine.ArgsRun(ac.Doc, ac.Async, ac.Schedule)
	if err != nil {
		fmt.Fprintln(os.Stderr, err)
		os.Exit(2)
	}
	want := ""
	for _, d := range engine.ArgsDocs {
		if d.Doc == ac.Doc {
			want = engine.ArgsCheck(d, o)
		}
	}
	fmt.Printf("document:       %s\nanswering through promises: %v  schedule: %v\nimplementation: %s\nverdict:        %s\n", ac.Doc, ac.Async, ac.Schedule, o.Line(false), want)
	if want != "" {
		h.run.Violate("property", "args: "+want, "", false, map[string]any{"level": "args", "case": ac})
	}
}

// wide runs the deterministic wide-selection-set requests (engine.WideCases), as query and as
// mutation.
func (h *harness) wide() {
	n := h.run.Scale(60, 400)
	cs := append(engine.WideCases(false, n), engine.WideCases(true, n)...)
	h.run.CountN("wide selection sets (5–12 keys) × presentations", len(cs))
	h.batch(cs, "wide")
}

// subscriptionEvents: one source event of a subscription is executed like a query
// (executeSubscriptionEvent → executeSelections with forceSerial = false): single-root subscription
// documents through graphql.Execute with the event as root value, against the query model.
func (h *harness) subscriptionEvents() {
	run := h.run
	n := run.Scale(3000, 20000)
	var pending []*engine.Case
	for i := 0; i < n; i++ {
		r := run.Rand.Fork()
		o := engine.GenOpts{MaxDepth: r.Range(1, 3), MaxFields: r.Range(2, 4), MaxItems: 3}
		wo := engine.WorldOpts{PAsync: r.Range(3, 7), PFail: r.Range(0, 4), PNull: r.Range(0, 2), PBad: r.Range(0, 2), MaxItems: 3, ValueKindErrors: true}
		inner := engine.GenShape(r, o, 1, 0)
		var t *engine.TShape = inner
		if r.Chance(1, 4) {
			t = &engine.TShape{Kind: "list", Elem: inner, ElemNN: r.Bool()}
		}
		shape := &engine.TShape{Kind: "object", Fields: []*engine.FShape{{Name: "ev", NN: r.Chance(1, 4), T: t}}}
		c := &engine.Case{Subscription: true, Shape: shape, World: engine.GenWorld(r, shape, wo)}
		for _, f := range c.Invocations() {
			f.Mode = hx.Pick(r, []string{"sync", "promise", "promise", "pre"})
		}
		c.Schedule = engine.GenSchedule(r, r.Range(0, 10))
		pending = append(pending, c)
		run.Count("subscription event")
	}
	h.batch(pending, "subscription-event")
}

func (h *harness) random() {
	run := h.run
	n := run.Scale(40000, 250000)
	var pending []*engine.Case
	for i := 0; i < n; i++ {
		r := run.Rand.Fork()
		o := engine.GenOpts{MaxDepth: r.Range(1, 3), MaxFields: r.Range(2, 4), MaxItems: 3, Mutation: r.Chance(1, 5)}
		wo := engine.WorldOpts{PAsync: r.Range(2, 7), PFail: r.Range(0, 5), PNull: r.Range(0, 3), PBad: r.Range(0, 2), MaxItems: 3, ValueKindErrors: true, NilKindErrors: true}
		if r.Chance(1, 6) {
			// wide selection sets: up to 5–12 distinct keys per set (shallower, fewer promises)
			o.MaxDepth, o.MaxFields, o.MaxItems = r.Range(1, 2), r.Range(5, 12), 2
			wo.PAsync, wo.MaxItems = r.Range(1, 3), 2
			run.Count("rand:wide")
		}
		shape := engine.GenShape(r, o, 0, 0)
		world := engine.GenWorld(r, shape, wo)
		base := &engine.Case{Mutation: o.Mutation, Shape: shape, World: world}
		for k := 0; k < 4; k++ {
			c := base.Clone()
			if k > 0 && r.Chance(1, 2) {
				// re-draw the async subset for the same outcomes
				for _, f := range c.Invocations() {
					f.Mode = hx.Pick(r, []string{"sync", "promise", "promise", "pre"})
				}
			}
			c.Schedule = engine.GenSchedule(r, r.Range(0, 10))
			if k%2 == 1 {
				c.Syntax = r.Uint64() | 1
			}
			pending = append(pending, c)
			if i < 2 && k == 0 {
				run.Sample(map[string]any{"document": c.Document(), "case": c})
			}
		}
		if i%4 == 0 {
			// the same request with the context cancelled by one of its resolvers
			c := base.Clone()
			for _, f := range c.Invocations() {
				f.Mode = hx.Pick(r, []string{"sync", "promise", "promise", "pre"})
			}
			c.Schedule = engine.GenSchedule(r, r.Range(0, 10))
			if r.Bool() {
				c.Syntax = r.Uint64() | 1
			}
			c.CancelAt = r.Range(1, max(1, (len(c.Invocations())+1)/2))
			pending = append(pending, c)
		}
		if len(pending) >= 2000 {
			h.batch(pending, "rand")
			pending = nil
		}
	}
	h.batch(pending, "rand")
}

func main() {
	run := hx.Init("C02")
	h := &harness{run: run, syncCache: map[string]*engine.Observed{}, failed: map[string]int{}}
	if run.ModelPath != "" {
		m, err := hx.StartModel(run.ModelPath)
		if err != nil {
			fmt.Fprintln(os.Stderr, "cannot start model:", err)
			os.Exit(2)
		}
		h.model = m
		defer m.Close()
	}
	run.SetRule("executor level: (request shape, resolver outcomes, async subset, schedule) through graphql.Execute; distinct = distinct case; non-trivial = at least two promises and (at least two idle rounds or at least one error). Combinator level: (future term, fulfil/poll script) through the verif hook; non-trivial = a callback-carrying combinator over a not-ready child that later completes")

	if run.Replay != "" {
		var rp struct {
			Level string          `json:"level"`
			Case  json.RawMessage `json:"case"`
		}
		if err := hx.LoadReplayCase(run.Replay, &rp); err != nil {
			fmt.Fprintln(os.Stderr, err)
			os.Exit(2)
		}
		if rp.Level == "args" {
			h.replayArgs(rp.Case)
		} else if rp.Level == "abs" {
			h.replayAbs(rp.Case)
		} else if rp.Level == "root" {
			h.replayRoot(rp.Case)
		} else if rp.Level == "combinator" {
			var cc CombCase
			if err := json.Unmarshal(rp.Case, &cc); err != nil {
				fmt.Fprintln(os.Stderr, err)
				os.Exit(2)
			}
			h.replayComb(&cc)
		} else {
			var c engine.Case
			if err := json.Unmarshal(rp.Case, &c); err != nil {
				fmt.Fprintln(os.Stderr, err)
				os.Exit(2)
			}
			v := h.judgeAsk(&c)
			fmt.Printf("document:       %s\n", c.Document())
			if v.Real != nil {
				fmt.Printf("implementation: %s\n", v.Real.Line(false))
			}
			if v.Sync != nil {
				fmt.Printf("all-sync run:   %s\n", v.Sync.Line(false))
			}
			if v.Model != nil {
				fmt.Printf("model:          %s\n", v.Model.Line(false))
			}
			fmt.Printf("verdict:        class=%q %s %s\n", v.Class, v.Cat, v.What)
			if v.Class != "" {
				run.Violate(v.Class, v.What, h.classify(&c, v), v.Class == "correspondence", map[string]any{"level": "executor", "case": &c})
			}
		}
		run.Finish(h.model)
		return
	}

	for _, f := range run.CorpusFiles() {
		var rp struct {
			Level string          `json:"level"`
			Case  json.RawMessage `json:"case"`
		}
		if hx.LoadReplayCase(f, &rp) != nil {
			continue
		}
		if rp.Level == "combinator" {
			var cc CombCase
			if json.Unmarshal(rp.Case, &cc) == nil {
				h.checkComb(&cc, "corpus")
			}
			continue
		}
		var c engine.Case
		if json.Unmarshal(rp.Case, &c) == nil && c.Shape != nil {
			h.record(&c, h.judgeAsk(&c), "corpus")
			// and the same request under every schedule
			var pending []*engine.Case
			schedules(&c, 2000, func(d *engine.Case) { pending = append(pending, d) })
			h.batch(pending, "corpus")
		}
		run.Count("corpus")
	}

	h.combinators()
	h.inventory()
	h.exhaustive()
	h.argsFamily()
	h.absFamily()
	h.rootFamily()
	h.subscriptionEvents()
	h.wide()
	h.random()
	run.Finish(h.model)
}

func min(a, b int) int {
	if a < b {
		return a
	}
	return b
}

func max(a, b int) int {
	if a > b {
		return a
	}
	return b
}
