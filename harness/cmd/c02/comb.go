package main

import (
	"encoding/json"
	"fmt"
	"strconv"
	"strings"

	"github.com/ccbrown/api-fu/graphql/executor"

	"verifharness/hx"
)

// ---- combinator-level cases -------------------------------------------------------------------

type CombStep struct {
	Op    string `json:"op"` // fulfil | poll
	ID    int    `json:"id,omitempty"`
	Null  bool   `json:"null,omitempty"`
	Value int    `json:"value,omitempty"`
	Err   string `json:"err,omitempty"`
}

type CombCase struct {
	Term   *executor.VerifFutureTerm `json:"term"`
	Script []CombStep                `json:"script"`
}

type combObs struct {
	States []string // after construction, then after every step: "pending" | "ok:…" | "err:…"
	Log    []string
	Panic  string
}

func (o *combObs) String() string {
	return fmt.Sprintf("states=%v log=%v%s", o.States, o.Log, map[bool]string{true: " panic=" + o.Panic}[o.Panic != ""])
}

func runCombReal(c *CombCase) (o *combObs) {
	o = &combObs{}
	defer func() {
		if p := recover(); p != nil {
			o.Panic = fmt.Sprint(p)
		}
	}()
	m, err := executor.VerifNewFutureMachine(c.Term)
	if err != nil {
		o.Panic = "hook: " + err.Error()
		return
	}
	st := func() {
		if ready, res := m.State(); ready {
			o.States = append(o.States, res)
		} else {
			o.States = append(o.States, "pending")
		}
		o.Log = o.Log[:0]
		for _, l := range m.Log {
			// the model's CatchError carries no tag (the executor has one shared closure): drop it
			if parts := strings.SplitN(l, ":", 3); len(parts) == 3 && parts[0] == "catch" {
				l = "catch:" + parts[2]
			}
			o.Log = append(o.Log, l)
		}
	}
	st()
	for _, s := range c.Script {
		if s.Op == "fulfil" {
			m.Fulfil(s.ID, s.Null, s.Value, s.Err)
		} else {
			m.Poll()
		}
		st()
	}
	return
}

func termSexp(t *executor.VerifFutureTerm) hx.Sexp {
	val := func(null bool, v int) hx.Sexp {
		if null {
			return hx.A("null")
		}
		return hx.A(strconv.Itoa(v))
	}
	switch t.Op {
	case "ready":
		if t.Err != "" {
			return hx.N("ready", hx.A("err"), hx.A(t.Err))
		}
		return hx.N("ready", hx.A("ok"), val(t.Null, t.Value))
	case "promise":
		return hx.N("promise", hx.I(int64(t.ID)))
	case "map":
		return hx.N("map", hx.A(t.Fn), hx.A(t.Tag), termSexp(t.Child))
	case "mapOk":
		return hx.N("mapOk", hx.A(t.Tag), termSexp(t.Child))
	case "mapOkToAny":
		return hx.N("mapOkToAny", termSexp(t.Child))
	case "mapOkValue":
		return hx.N("mapOkValue", val(t.Null, t.Value), termSexp(t.Child))
	case "then":
		return hx.N("then", hx.A(t.Tag), termSexp(t.Child), termSexp(t.OnOk), termSexp(t.OnErr))
	case "join", "after":
		xs := make([]hx.Sexp, len(t.Children))
		for i, c := range t.Children {
			xs[i] = termSexp(c)
		}
		return hx.N(t.Op, xs...)
	}
	panic("bad op " + t.Op)
}

func (c *CombCase) modelLine() string {
	var steps []hx.Sexp
	for _, s := range c.Script {
		switch {
		case s.Op == "poll":
			steps = append(steps, hx.N("poll"))
		case s.Err != "":
			steps = append(steps, hx.N("fulfil", hx.I(int64(s.ID)), hx.A("err"), hx.A(s.Err)))
		case s.Null:
			steps = append(steps, hx.N("fulfil", hx.I(int64(s.ID)), hx.A("ok"), hx.A("null")))
		default:
			steps = append(steps, hx.N("fulfil", hx.I(int64(s.ID)), hx.A("ok"), hx.A(strconv.Itoa(s.Value))))
		}
	}
	return hx.N("comb", termSexp(c.Term), hx.L(steps...)).String()
}

func parseCombReply(line string) (*combObs, error) {
	x, err := hx.ParseSexp(line)
	if err != nil || !x.IsList || len(x.List) != 3 || x.List[0].Atom != "comb" {
		return nil, fmt.Errorf("unexpected model reply %q", line)
	}
	o := &combObs{}
	for _, s := range x.List[1].List {
		o.States = append(o.States, s.Atom)
	}
	for _, s := range x.List[2].List {
		o.Log = append(o.Log, s.Atom)
	}
	return o, nil
}

// ---- generator --------------------------------------------------------------------------------

type combGen struct {
	r      *hx.Rand
	nextID int
	nextTg int
	ids    []int
	rich   bool // a callback-carrying combinator sits over a not-ready child
}

func (g *combGen) tag() string { g.nextTg++; return "t" + strconv.Itoa(g.nextTg) }

func (g *combGen) leaf() *executor.VerifFutureTerm {
	switch g.r.Intn(7) {
	case 0:
		return &executor.VerifFutureTerm{Op: "ready", Ok: true, Value: g.r.Range(1, 9)}
	case 1:
		return &executor.VerifFutureTerm{Op: "ready", Ok: true, Null: true}
	case 2:
		return &executor.VerifFutureTerm{Op: "ready", Err: "r" + g.tag()}
	default:
		g.nextID++
		g.ids = append(g.ids, g.nextID)
		return &executor.VerifFutureTerm{Op: "promise", ID: g.nextID}
	}
}

// kind: 0 = Future[any], 1 = Future[[]any] (join), 2 = Future[struct{}] (after)
func (g *combGen) term(depth int, kind int) *executor.VerifFutureTerm {
	if kind == 1 || kind == 2 {
		n := g.r.Range(0, 3)
		if g.r.Chance(1, 6) {
			n = 4
		}
		t := &executor.VerifFutureTerm{Op: map[int]string{1: "join", 2: "after"}[kind]}
		for i := 0; i < n; i++ {
			t.Children = append(t.Children, g.term(depth-1, 0))
		}
		return t
	}
	if depth <= 0 {
		return g.leaf()
	}
	switch g.r.Intn(12) {
	case 0:
		return g.leaf()
	case 1, 2:
		g.rich = true
		return &executor.VerifFutureTerm{Op: "map", Fn: hx.Pick(g.r, []string{"catch", "catch", "nonnull", "log"}), Tag: g.tag(), Child: g.term(depth-1, 0)}
	case 3, 4:
		g.rich = true
		return &executor.VerifFutureTerm{Op: "mapOk", Tag: g.tag(), Child: g.term(depth-1, 0)}
	case 5:
		return &executor.VerifFutureTerm{Op: "mapOkToAny", Child: g.term(depth-1, g.r.Intn(3))}
	case 6:
		t := &executor.VerifFutureTerm{Op: "mapOkValue", Value: g.r.Range(10, 19), Child: g.term(depth-1, g.r.Intn(3))}
		if g.r.Chance(1, 4) {
			t.Null, t.Value = true, 0
		}
		return t
	case 7, 8:
		return &executor.VerifFutureTerm{Op: "then", Tag: g.tag(), Child: g.term(depth-1, 0), OnOk: g.term(depth-1, 0), OnErr: g.term(depth-2, 0)}
	case 9:
		return &executor.VerifFutureTerm{Op: "mapOkToAny", Child: g.term(depth-1, 1)}
	case 10:
		return &executor.VerifFutureTerm{Op: "mapOkValue", Value: g.r.Range(10, 19), Child: g.term(depth-1, 2)}
	default:
		// the executor's own stacks
		inner := g.term(depth-1, 0)
		return &executor.VerifFutureTerm{Op: "mapOk", Tag: g.tag(), Child: &executor.VerifFutureTerm{Op: "map", Fn: "catch", Tag: g.tag(), Child: inner}}
	}
}

func genComb(r *hx.Rand) (*CombCase, bool) {
	g := &combGen{r: r}
	root := g.term(r.Range(1, 5), hx.Pick(r, []int{0, 0, 0, 1, 2}))
	c := &CombCase{Term: root}
	ids := append([]int{}, g.ids...)
	hx.Shuffle(r, ids)
	fulfil := func(id int) CombStep {
		switch r.Intn(4) {
		case 0:
			return CombStep{Op: "fulfil", ID: id, Err: "p" + strconv.Itoa(id)}
		case 1:
			return CombStep{Op: "fulfil", ID: id, Null: true}
		default:
			return CombStep{Op: "fulfil", ID: id, Value: 20 + id}
		}
	}
	style := r.Intn(4)
	for len(ids) > 0 {
		k := 1
		switch style {
		case 0:
			k = len(ids)
		case 1:
			k = r.Range(1, len(ids))
		}
		for i := 0; i < k; i++ {
			c.Script = append(c.Script, fulfil(ids[0]))
			ids = ids[1:]
		}
		for p := r.Range(0, 2); p > 0; p-- {
			c.Script = append(c.Script, CombStep{Op: "poll"})
		}
	}
	for p := 0; p < 3; p++ {
		c.Script = append(c.Script, CombStep{Op: "poll"})
	}
	return c, g.rich && len(g.ids) > 0
}

// ---- oracles (model-free laws of the combinators) -------------------------------------------------

func combLaws(c *CombCase, o *combObs) string {
	if o.Panic != "" {
		return "crash|panic: " + o.Panic
	}
	// (1) a callback runs at most once: tags and error messages are unique per node
	seen := map[string]bool{}
	for _, l := range o.Log {
		k := l
		if parts := strings.SplitN(l, ":", 3); len(parts) == 3 && parts[0] != "catch" {
			k = parts[0] + ":" + parts[1]
		}
		if seen[k] {
			return "twice|callback ran twice: " + l
		}
		seen[k] = true
	}
	// (2) a ready future stays ready with the same result
	for i := 1; i < len(o.States); i++ {
		if o.States[i-1] != "pending" && o.States[i] != o.States[i-1] {
			return fmt.Sprintf("unstable|result changed after ready: %s then %s", o.States[i-1], o.States[i])
		}
	}
	// (3) progress: the script ends with all promises fulfilled followed by polls
	if n := len(o.States); n > 0 && o.States[n-1] == "pending" {
		return "stuck|every promise fulfilled and the future polled, still pending"
	}
	// (4) the final three polls (everything fulfilled) are no-ops after the first
	n := len(o.States)
	if n >= 3 && !(o.States[n-1] == o.States[n-2] && o.States[n-2] == o.States[n-3]) {
		return "unstable|result differs between the trailing polls"
	}
	return ""
}

func (h *harness) judgeComb(c *CombCase, reply string) (class, cat, what string, real, model *combObs) {
	real = runCombReal(c)
	if strings.HasPrefix(real.Panic, "hook: ") {
		return "harness", "hook", real.Panic, real, nil
	}
	if m := combLaws(c, real); m != "" {
		cat, what = splitCat(m)
		class = "property"
		if cat == "crash" {
			class = "crash"
		}
		return
	}
	if reply != "" {
		mo, err := parseCombReply(reply)
		if err != nil {
			return "correspondence", "reply", err.Error(), real, nil
		}
		model = mo
		if fmt.Sprint(real.States) != fmt.Sprint(mo.States) {
			return "correspondence", "states", fmt.Sprintf("results per step: implementation %v, model %v", real.States, mo.States), real, mo
		}
		if fmt.Sprint(real.Log) != fmt.Sprint(mo.Log) {
			return "correspondence", "log", fmt.Sprintf("side-effect log: implementation %v, model %v", real.Log, mo.Log), real, mo
		}
	}
	return
}

func splitCat(m string) (string, string) {
	if i := strings.Index(m, "|"); i >= 0 {
		return m[:i], m[i+1:]
	}
	return "", m
}

func (h *harness) askComb(c *CombCase) string {
	if h.model == nil {
		return ""
	}
	r, err := h.model.Ask(c.modelLine())
	if err != nil {
		return "driver-error " + err.Error()
	}
	return r
}

func combShrinks(c *CombCase) []*CombCase {
	var out []*CombCase
	clone := func() *CombCase {
		b, _ := json.Marshal(c)
		var d CombCase
		json.Unmarshal(b, &d)
		return &d
	}
	// drop a poll step (never a fulfil that is followed by nothing: keeps "all fulfilled then polled")
	for i, s := range c.Script {
		if s.Op == "poll" && i < len(c.Script)-3 {
			d := clone()
			d.Script = append(d.Script[:i], d.Script[i+1:]...)
			out = append(out, d)
		}
	}
	// replace a subterm by one of its children / a ready leaf
	var paths [][]int
	var walk func(t *executor.VerifFutureTerm, p []int)
	kids := func(t *executor.VerifFutureTerm) []*executor.VerifFutureTerm {
		var ks []*executor.VerifFutureTerm
		if t.Child != nil {
			ks = append(ks, t.Child)
		}
		if t.OnOk != nil {
			ks = append(ks, t.OnOk)
		}
		if t.OnErr != nil {
			ks = append(ks, t.OnErr)
		}
		return append(ks, t.Children...)
	}
	walk = func(t *executor.VerifFutureTerm, p []int) {
		paths = append(paths, append([]int{}, p...))
		for i, k := range kids(t) {
			walk(k, append(p, i))
		}
	}
	walk(c.Term, nil)
	get := func(root *executor.VerifFutureTerm, p []int) *executor.VerifFutureTerm {
		t := root
		for _, i := range p {
			t = kids(t)[i]
		}
		return t
	}
	for _, p := range paths {
		t := get(c.Term, p)
		switch t.Op {
		case "map", "mapOk", "then":
			d := clone()
			x := get(d.Term, p)
			*x = *x.Child
			out = append(out, d)
		case "join", "after":
			for i := range t.Children {
				d := clone()
				x := get(d.Term, p)
				x.Children = append(x.Children[:i], x.Children[i+1:]...)
				out = append(out, d)
			}
		}
		if t.Op != "ready" && t.Op != "promise" && t.Op != "join" && t.Op != "after" && len(p) > 0 {
			d := clone()
			x := get(d.Term, p)
			*x = executor.VerifFutureTerm{Op: "ready", Ok: true, Value: 1}
			out = append(out, d)
		}
	}
	return out
}

func (h *harness) checkComb(c *CombCase, source string) {
	class, cat, what, real, model := h.judgeComb(c, h.askComb(c))
	_ = real
	_ = model
	h.run.Oblige("combinator correspondence (result per step, side-effect log) vs Lean Fut.poll through the verif hook", "correspondence", 1, class != "correspondence", what)
	h.run.Oblige("oracle: combinator laws (no callback twice, ready is stable, progress once every promise is fulfilled)", "oracle", 1, class != "property" && class != "crash", what)
	if class == "" {
		return
	}
	if class == "harness" {
		h.run.Oblige("harness self-consistency (hook accepts generated terms)", "oracle", 1, false, what)
		return
	}
	want := class + ":" + cat
	h.failed["comb:"+want]++
	if h.failed["comb:"+want] > 3 {
		h.run.Violate(class, fmt.Sprintf("combinator level, %s: %s", cat, what), "", class == "correspondence", nil)
		return
	}
	cur := c
	for steps := 0; steps < 300; steps++ {
		progressed := false
		for _, d := range combShrinks(cur) {
			k, ct, _, _, _ := h.judgeComb(d, h.askComb(d))
			if k+":"+ct == want {
				cur, progressed = d, true
				break
			}
		}
		if !progressed {
			break
		}
	}
	class, cat, what, real, model = h.judgeComb(cur, h.askComb(cur))
	replay := map[string]any{"level": "combinator", "case": cur, "what": what, "term": termSexp(cur.Term).String()}
	if real != nil {
		replay["implementation"] = real.String()
	}
	if model != nil {
		replay["model"] = model.String()
	}
	h.run.Violate(class, fmt.Sprintf("combinator level, %s: %s  [term %s]", cat, what, termSexp(cur.Term).String()), "", class == "correspondence", replay)
}

func (h *harness) replayComb(c *CombCase) {
	class, cat, what, real, model := h.judgeComb(c, h.askComb(c))
	fmt.Printf("term:           %s\n", termSexp(c.Term).String())
	if real != nil {
		fmt.Printf("implementation: %s\n", real)
	}
	if model != nil {
		fmt.Printf("model:          %s\n", model)
	}
	fmt.Printf("verdict:        class=%q %s %s\n", class, cat, what)
	if class != "" {
		h.run.Violate(class, what, "", class == "correspondence", map[string]any{"level": "combinator", "case": c})
	}
}

func (h *harness) combinators() {
	n := h.run.Scale(80000, 500000)
	type item struct {
		c    *CombCase
		rich bool
	}
	var pend []item
	flush := func() {
		replies := make([]string, len(pend))
		if h.model != nil {
			lines := make([]string, len(pend))
			for i, it := range pend {
				lines[i] = it.c.modelLine()
			}
			if r, err := h.model.AskAll(lines); err == nil {
				replies = r
			} else {
				h.run.Oblige("combinator correspondence (result per step, side-effect log) vs Lean Fut.poll through the verif hook", "correspondence", 1, false, "model driver: "+err.Error())
				h.model = nil
			}
		}
		for i, it := range pend {
			class, _, _, real, _ := h.judgeComb(it.c, replies[i])
			b, _ := json.Marshal(it.c)
			h.run.Case("comb:"+string(b), it.rich)
			h.run.Count("comb:root=" + it.c.Term.Op)
			countOps(it.c.Term)
			if real != nil && len(real.States) > 0 {
				h.run.Count("comb:final=" + strings.SplitN(real.States[len(real.States)-1], ":", 2)[0])
			}
			if class != "" {
				h.checkComb(it.c, "comb")
			} else {
				h.run.Oblige("combinator correspondence (result per step, side-effect log) vs Lean Fut.poll through the verif hook", "correspondence", 1, true, "")
				h.run.Oblige("oracle: combinator laws (no callback twice, ready is stable, progress once every promise is fulfilled)", "oracle", 1, true, "")
			}
		}
		pend = nil
	}
	for i := 0; i < n; i++ {
		c, rich := genComb(h.run.Rand.Fork())
		pend = append(pend, item{c, rich})
		if len(pend) >= 2000 {
			flush()
		}
	}
	flush()
}
