package main

import (
	"encoding/json"
	"fmt"
	"os"

	"verifharness/cmd/c02/engine"
)

const obAbs = "abstract positions with overlapping candidates: the concrete type of every value is the first candidate in the schema's order whose IsTypeOf accepts it — several values of one union / interface per request (siblings, list items, nested), a specific member declared before a catch-all, every async subset × every schedule (engine/abstract.go)"

const obAbsModel = "abstract-overlap family vs the instantiated Lean model (runc, Request.ofDocC: one selection set collected per concrete type of the values it is applied to): data, idle rounds, promises"

// absFamily runs the fixed family of engine/abstract.go.
func (h *harness) absFamily() {
	failed := 0
	ndocs := 0
	complete, err := engine.AbsFamily(h.run.Scale(1500, 100000), func(d engine.ArgsDoc, async []string, sched []uint64, o *engine.Observed, fail string) {
		ac := argsCase{Doc: d.Doc, Async: async, Schedule: sched}
		b, _ := json.Marshal(ac)
		h.run.Case("abs:"+string(b), o.Promises >= 2)
		h.run.Count("abstract-overlap family")
		h.run.Oblige(obAbs, "oracle", 1, fail == "", fail)
		if h.model != nil && fail == "" {
			// … and against the instantiated Lean model: one selection set collected per concrete type
			what := ""
			if line, err := engine.AbsModelLine(d.Doc, async, sched); err != nil {
				what = err.Error()
			} else if reply, err := h.model.Ask(line); err != nil {
				what = "model driver: " + err.Error()
			} else if mo, err := engine.ParseModelReply(reply); err != nil {
				what = err.Error()
			} else if mo.Data != o.Data || len(mo.Errors) != 0 || mo.Rounds != o.Rounds || mo.Promises != o.Promises {
				what = fmt.Sprintf("implementation %s, model %s  [document %s, answering through promises: %v, schedule %v]", o.Line(false), mo.Line(false), d.Doc, async, sched)
			}
			h.run.Oblige(obAbsModel, "correspondence", 1, what == "", what)
			if what != "" {
				failed++
				if failed <= 3 {
					h.run.Violate("correspondence", "abstract-overlap family vs Lean Request.ofDocC: "+what, "", true, nil)
				}
			}
		}
		if fail != "" {
			failed++
			if failed <= 3 {
				h.run.Violate("property", fmt.Sprintf("abstract type: %s  [document %s, answering through promises: %v, schedule %v]", fail, d.Doc, async, sched), "", false,
					map[string]any{"level": "abs", "case": ac, "what": fail, "implementation": o.Line(false)})
			}
		}
	})
	if err != nil {
		h.run.Oblige("harness self-consistency (generated schema/document accepted)", "oracle", 1, false, "abstract-overlap family: "+err.Error())
	}
	if docs, err := engine.AbsDocs(); err == nil {
		ndocs = len(docs)
	}
	h.run.Note("abstract-overlap family: %d documents × all async subsets of the positions they reach × all schedules (complete=%v)", ndocs, complete)
}

func (h *harness) replayAbs(raw json.RawMessage) {
	var ac argsCase
	if err := json.Unmarshal(raw, &ac); err != nil {
		fmt.Fprintln(os.Stderr, err)
		os.Exit(2)
	}
	o, err := engine.AbsRun(ac.Doc, ac.Async, ac.Schedule)
	if err != nil {
		fmt.Fprintln(os.Stderr, err)
		os.Exit(2)
	}
	want := ""
	docs, _ := engine.AbsDocs()
	for _, d := range docs {
		if d.Doc == ac.Doc {
			want = engine.AbsCheck(d, o)
		}
	}
	fmt.Printf("document:       %s\nanswering through promises: %v  schedule: %v\nimplementation: %s\nverdict:        %s\n", ac.Doc, ac.Async, ac.Schedule, o.Line(false), want)
	if want != "" {
		h.run.Violate("property", "abstract type: "+want, "", false, map[string]any{"level": "abs", "case": ac})
	}
}
