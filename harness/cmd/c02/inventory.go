// Inventory of graphql/executor/internal/future: every exported item of the package (types, struct
// fields, functions, methods), listed from the source of the tree under test with go/parser on
// every run, against the model's list (lean/ApiFu/C02/Combinators.lean, asked with `(inventory)`;
// lean/ApiFu/C02/PropsFuture.lean proves the equation of each entry and that the theorems the
// entries name exist). A new, removed or re-signatured combinator is an undischarged obligation:
// the theorems would no longer speak about all of future.go.
package main

import (
	"crypto/sha256"
	"fmt"
	"go/ast"
	"go/parser"
	"go/token"
	"os"
	"path/filepath"
	"sort"
	"strings"

	"github.com/ccbrown/api-fu/graphql/executor"

	"verifharness/hx"
)

type invItem struct {
	Kind       string
	Params     int
	Variadic   bool
	TypeParams int
	Hash       string   // of the declaration's source text (evidence only, never compared)
	Theorems   []string // model side
	Model      string
}

func (it invItem) sig() string {
	return fmt.Sprintf("%s params=%d variadic=%v typeparams=%d", it.Kind, it.Params, it.Variadic, it.TypeParams)
}

func repoTree() string {
	if r := os.Getenv("VERIF_REPO"); r != "" {
		return r
	}
	return "/repo"
}

func fieldCount(fl *ast.FieldList) int {
	if fl == nil {
		return 0
	}
	n := 0
	for _, f := range fl.List {
		if len(f.Names) == 0 {
			n++
		} else {
			n += len(f.Names)
		}
	}
	return n
}

func recvText(e ast.Expr) (string, bool) {
	switch e := e.(type) {
	case *ast.StarExpr:
		s, ok := recvText(e.X)
		return "(*" + s + ")", ok
	case *ast.IndexExpr:
		return recvText(e.X)
	case *ast.IndexListExpr:
		return recvText(e.X)
	case *ast.Ident:
		return e.Name, e.IsExported()
	}
	return "?", false
}

// sourceInventory lists the exported items of every non-test file of the package directory.
func sourceInventory(dir string) (map[string]invItem, error) {
	fset := token.NewFileSet()
	pkgs, err := parser.ParseDir(fset, dir, func(fi os.FileInfo) bool { return !strings.HasSuffix(fi.Name(), "_test.go") }, 0)
	if err != nil {
		return nil, err
	}
	out := map[string]invItem{}
	for _, pkg := range pkgs {
		for fname, file := range pkg.Files {
			src, _ := os.ReadFile(fname)
			hash := func(n ast.Node) string {
				a, b := fset.Position(n.Pos()).Offset, fset.Position(n.End()).Offset
				if a < 0 || b > len(src) || a > b {
					return ""
				}
				return fmt.Sprintf("%x", sha256.Sum256(src[a:b]))[:10]
			}
			for _, d := range file.Decls {
				switch d := d.(type) {
				case *ast.GenDecl:
					for _, sp := range d.Specs {
						switch sp := sp.(type) {
						case *ast.TypeSpec:
							if !sp.Name.IsExported() {
								continue
							}
							out[sp.Name.Name] = invItem{Kind: "type", TypeParams: fieldCount(sp.TypeParams), Hash: hash(sp)}
							if st, ok := sp.Type.(*ast.StructType); ok {
								for _, f := range st.Fields.List {
									for _, n := range f.Names {
										if n.IsExported() {
											out[sp.Name.Name+"."+n.Name] = invItem{Kind: "field", Hash: hash(f)}
										}
									}
								}
							}
						case *ast.ValueSpec:
							for _, n := range sp.Names {
								if n.IsExported() {
									out[n.Name] = invItem{Kind: "value", Hash: hash(sp)}
								}
							}
						}
					}
				case *ast.FuncDecl:
					if !d.Name.IsExported() {
						continue
					}
					it := invItem{Kind: "func", Params: fieldCount(d.Type.Params), TypeParams: fieldCount(d.Type.TypeParams), Hash: hash(d)}
					if d.Type.Params != nil && len(d.Type.Params.List) > 0 {
						if _, ok := d.Type.Params.List[len(d.Type.Params.List)-1].Type.(*ast.Ellipsis); ok {
							it.Variadic = true
						}
					}
					name := d.Name.Name
					if d.Recv != nil && len(d.Recv.List) == 1 {
						r, exported := recvText(d.Recv.List[0].Type)
						if !exported {
							continue
						}
						it.Kind = "method"
						name = r + "." + name
					}
					out[name] = it
				}
			}
		}
	}
	return out, nil
}

func modelInventory(m *hx.Model) (map[string]invItem, error) {
	reply, err := m.Ask("(inventory)")
	if err != nil {
		return nil, err
	}
	x, err := hx.ParseSexp(reply)
	if err != nil || !x.IsList || len(x.List) < 1 || x.List[0].Atom != "inventory" {
		return nil, fmt.Errorf("unexpected reply to (inventory): %.80q", reply)
	}
	out := map[string]invItem{}
	for _, e := range x.List[1:] {
		if !e.IsList || len(e.List) != 8 || e.List[0].Atom != "c" {
			return nil, fmt.Errorf("bad inventory entry %v", e)
		}
		it := invItem{Kind: e.List[2].Atom, Variadic: e.List[4].Atom == "true", Model: e.List[6].Atom}
		fmt.Sscanf(e.List[3].Atom, "%d", &it.Params)
		fmt.Sscanf(e.List[5].Atom, "%d", &it.TypeParams)
		for _, t := range e.List[7].List {
			it.Theorems = append(it.Theorems, t.Atom)
		}
		out[e.List[1].Atom] = it
	}
	return out, nil
}

// usedSelectors collects the names X of every selector expression `_.X` of a Go file.
func usedSelectors(path string) map[string]bool {
	out := map[string]bool{}
	f, err := parser.ParseFile(token.NewFileSet(), path, nil, 0)
	if err != nil {
		return out
	}
	ast.Inspect(f, func(n ast.Node) bool {
		if s, ok := n.(*ast.SelectorExpr); ok {
			out[s.Sel.Name] = true
		}
		return true
	})
	return out
}

// combOpUses counts the operators of the generated combinator terms (filled by combinators()).
var combOpUses = map[string]int{}

func countOps(t *executor.VerifFutureTerm) {
	if t == nil {
		return
	}
	switch {
	case t.Op == "ready" && t.Err != "":
		combOpUses["Err"]++
	case t.Op == "ready":
		combOpUses["Ok"]++
	default:
		combOpUses[map[string]string{"promise": "New", "map": "Map", "mapOk": "MapOk", "mapOkToAny": "MapOkToAny",
			"mapOkValue": "MapOkValue", "then": "Then", "join": "Join", "after": "After"}[t.Op]]++
	}
	countOps(t.Child)
	countOps(t.OnOk)
	countOps(t.OnErr)
	for _, c := range t.Children {
		countOps(c)
	}
}

const obInvSource = "future.go inventory: every exported item of the source (go/parser, this tree) is in the model's combinator table with the same kind and arity, and every table entry is in the source"
const obInvProved = "future.go inventory: every function and method of the table names its equation theorem(s) (ApiFu/C02/PropsFuture.lean, inventory_theorems_exist)"
const obInvUsed = "future.go inventory: every function of the source is exercised by the combinator-level generator in this run, every method is called by the hook or the executor"

// inventory runs after combinators() (it reads combOpUses).
func (h *harness) inventory() {
	dir := filepath.Join(repoTree(), "graphql", "executor", "internal", "future")
	src, err := sourceInventory(dir)
	if err != nil {
		h.run.Oblige(obInvSource, "correspondence", 1, false, "cannot parse "+dir+": "+err.Error())
		h.run.Violate("correspondence", "future.go inventory: cannot parse "+dir+": "+err.Error(), "", true, nil)
		return
	}
	names := make([]string, 0, len(src))
	for n := range src {
		names = append(names, n)
	}
	sort.Strings(names)
	var listing []string
	for _, n := range names {
		listing = append(listing, fmt.Sprintf("%s[%s #%s]", n, src[n].sig(), src[n].Hash))
	}
	h.run.Note("future.go inventory (%s): %s", dir, strings.Join(listing, "; "))
	h.run.CountN("inventory: exported items of the future package", len(src))

	// exercised?
	var unused []string
	sel := usedSelectors(filepath.Join(repoTree(), "graphql", "executor", "verif_future.go"))
	for k := range usedSelectors(filepath.Join(repoTree(), "graphql", "executor", "executor.go")) {
		sel[k] = true
	}
	for _, n := range names {
		switch src[n].Kind {
		case "func":
			h.run.CountN("inventory: uses of "+n+" in generated terms", combOpUses[n])
			if combOpUses[n] == 0 {
				unused = append(unused, n+" (not generated)")
			}
		case "method":
			if !sel[n[strings.LastIndex(n, ".")+1:]] {
				unused = append(unused, n+" (not called by hook or executor)")
			}
		}
	}
	h.run.Oblige(obInvUsed, "oracle", len(names), len(unused) == 0, strings.Join(unused, "; "))
	if len(unused) > 0 {
		h.run.Violate("correspondence", "future.go inventory: not exercised by the correspondence: "+strings.Join(unused, "; "), "", true, nil)
	}

	if h.model == nil {
		return
	}
	mod, err := modelInventory(h.model)
	if err != nil {
		h.run.Oblige(obInvSource, "correspondence", 1, false, err.Error())
		h.run.Violate("correspondence", "future.go inventory: "+err.Error(), "", true, nil)
		return
	}
	var bad, unproved []string
	for _, n := range names {
		m, ok := mod[n]
		switch {
		case !ok:
			bad = append(bad, fmt.Sprintf("%s (%s) is exported by the source but not in the model's table", n, src[n].sig()))
		case m.sig() != src[n].sig():
			bad = append(bad, fmt.Sprintf("%s: source %s, model %s", n, src[n].sig(), m.sig()))
		}
	}
	for n, m := range mod {
		if _, ok := src[n]; !ok {
			bad = append(bad, fmt.Sprintf("%s is in the model's table but not exported by the source", n))
		}
		if (m.Kind == "func" || m.Kind == "method") && len(m.Theorems) == 0 {
			unproved = append(unproved, n)
		}
	}
	sort.Strings(bad)
	sort.Strings(unproved)
	h.run.Oblige(obInvSource, "correspondence", len(names), len(bad) == 0, strings.Join(bad, "; "))
	h.run.Oblige(obInvProved, "correspondence", len(mod), len(unproved) == 0, strings.Join(unproved, "; "))
	if len(bad) > 0 {
		h.run.Violate("correspondence", "future.go inventory: "+strings.Join(bad, "; "), "", true, nil)
	}
	if len(unproved) > 0 {
		h.run.Violate("correspondence", "future.go inventory: no equation theorem for "+strings.Join(unproved, ", "), "", true, nil)
	}
}
