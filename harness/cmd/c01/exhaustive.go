package main

import (
	"fmt"

	"verifharness/gqlgen"
	"verifharness/hx"
)

// The fixed schema of the bounded-exhaustive part.
func fixedSchema() *gqlgen.SchemaDesc {
	N, L, NN := gqlgen.Named, gqlgen.ListOf, gqlgen.NonNull
	k := []gqlgen.ArgDesc{{Name: "k", Type: N("Int")}}
	// owner: a composite field of the interface, of the same object type in every implementation (the
	// sub-selections of one response key then merge per concrete parent type into lists for one object type)
	pet := []gqlgen.FieldDesc{{Name: "name", Type: NN(N("String"))}, {Name: "age", Type: N("Int")}, {Name: "owner", Type: N("Person")}}
	return &gqlgen.SchemaDesc{Query: "Query", Mutation: "Mutation", Types: []gqlgen.TypeDesc{
		{Kind: "interface", Name: "Pet", Fields: pet},
		{Kind: "object", Name: "Dog", Interfaces: []string{"Pet"}, Fields: append(append([]gqlgen.FieldDesc{}, pet...),
			gqlgen.FieldDesc{Name: "barks", Type: NN(L(NN(N("Int"))))})},
		{Kind: "object", Name: "Cat", Interfaces: []string{"Pet"}, Fields: append(append([]gqlgen.FieldDesc{}, pet...),
			gqlgen.FieldDesc{Name: "lives", Type: NN(N("Int"))}, gqlgen.FieldDesc{Name: "friend", Type: N("Pet")})},
		{Kind: "object", Name: "Person", Fields: []gqlgen.FieldDesc{
			{Name: "name", Type: N("String")}, {Name: "pets", Type: NN(L(NN(N("Pet"))))}, {Name: "best", Type: NN(N("Pet"))},
			{Name: "friend", Type: N("Person")}, {Name: "tags", Type: L(L(NN(N("String"))))}, {Name: "mood", Type: NN(N("Mood"))},
			{Name: "id", Type: NN(N("ID"))}, {Name: "maybePets", Type: L(N("Pet"))}}},
		{Kind: "union", Name: "Animal", Members: []string{"Dog", "Cat"}},
		{Kind: "enum", Name: "Mood", Values: []gqlgen.EnumValDesc{{Name: "HAPPY", Value: gqlgen.StrVal("happy")}, {Name: "SAD", Value: gqlgen.IntVal(2)}}},
		{Kind: "object", Name: "Query", Fields: []gqlgen.FieldDesc{
			{Name: "me", Type: NN(N("Person"))}, {Name: "maybe", Type: N("Person")}, {Name: "pet", Type: N("Pet"), Args: k},
			{Name: "animals", Type: L(N("Animal"))}, {Name: "n", Type: NN(N("Int"))}, {Name: "f", Type: N("Float")},
			{Name: "req", Type: N("Int"), Args: []gqlgen.ArgDesc{{Name: "r", Type: NN(N("Int"))}}}}},
		{Kind: "object", Name: "Mutation", Fields: []gqlgen.FieldDesc{
			{Name: "set", Type: NN(N("Person"))}, {Name: "inc", Type: N("Int")}, {Name: "must", Type: NN(N("Int"))}}},
	}}
}

type fixedPair struct {
	Query string
	Vars  map[string]interface{}
	// Mixed: the base world must hold a list with objects of at least two concrete types
	Mixed bool
}

// hasMixedList reports whether some list of the world holds objects of two different types.
func hasMixedList(o *gqlgen.Outcome) bool {
	if o == nil {
		return false
	}
	first := ""
	for _, it := range o.Items {
		if it != nil && it.Kind == "obj" {
			if first == "" {
				first = it.Type
			} else if it.Type != first {
				return true
			}
		}
	}
	for _, it := range o.Items {
		if hasMixedList(it) {
			return true
		}
	}
	for _, f := range o.Fields {
		if hasMixedList(f.Out) {
			return true
		}
	}
	return false
}

var fixedPairs = []fixedPair{
	{Query: `{ n f maybe { name id } }`},
	{Query: `{ me { name best { name age } } }`},
	{Query: `{ maybe { best { name } pets { name } } n }`},
	{Query: `{ me { friend { pets { name } } name } }`}, // [Pet!]! under a nullable parent under a non-null grandparent
	{Query: `{ pet { ...A ...B } } fragment A on Pet { name ... on Dog { owner { name } } } fragment B on Dog { owner { id } name }`},
	{Query: `{ animals { __typename ... on Dog { name barks } ... on Cat { lives } } }`},
	{Query: `query($s: Boolean!) { n @skip(if: $s) me @include(if: $s) { name } maybe { mood tags } }`, Vars: map[string]interface{}{"s": true}},
	{Query: `query($s: Boolean!) { n @skip(if: $s) me @include(if: $s) { name } maybe { mood tags } }`, Vars: map[string]interface{}{"s": false}},
	{Query: `{ a: pet(k: 1) { name } b: pet(k: 2) { name age } pet { age } }`},
	{Query: `mutation { set { name } inc must again: inc }`},
	{Query: `{ me { ...P best { ...N } } maybe { ...P } } fragment P on Person { name best { ...N } } fragment N on Pet { name }`},
	{Query: `{ me { tags mood id } f n }`},
	{Query: `{ maybe { maybePets { name ... on Cat { lives friend { name } } } } }`},
	{Query: `{ pet { age } pet { name } ... on Query { pet { ... on Cat { lives } } } }`},
	{Query: `{ x: n y: n me { a: name b: name } }`},
	// a defaulted variable at a non-null argument: absent (default), a value, explicitly null (field error)
	{Query: `query($nd: Int = 7) { req(r: $nd) maybe { name } }`},
	{Query: `query($nd: Int = 7) { req(r: $nd) maybe { name } }`, Vars: map[string]interface{}{"nd": 3}},
	{Query: `query($nd: Int = 7) { req(r: $nd) maybe { name } }`, Vars: map[string]interface{}{"nd": nil}},
	{Query: `query($bn: Boolean! = true) { n @include(if: $bn) f }`, Vars: map[string]interface{}{"bn": nil}},
	{Query: `query($bd: Boolean = true) { n @skip(if: $bd) f }`, Vars: map[string]interface{}{"bd": false}},
	// one field node merged with different partners in different places (memo key = type + every selection position)
	{Query: `{ me { ...F } maybe { ...F friend { id } } } fragment F on Person { friend { name } }`},
	{Query: `{ me { ...F friend { id } } maybe { ...F friend { mood } } } fragment F on Person { friend { name } }`},
	// the same fragment reached through another fragment and directly: visited once (shared visited set)
	{Query: `{ maybe { ...A ...B } } fragment A on Person { ...B name } fragment B on Person { friend { name } id }`},
	{Query: `{ pet { ...A ... on Cat { ...C } } } fragment A on Pet { ...C age } fragment C on Cat { friend { age } lives }`},
	// merged sub-selection lists for one object type that agree in their first and last selection and in
	// their length but not in the middle (seed C01-13: a memo key that summarises the list of positions):
	// per concrete parent type in one list ...
	{Query: `{ animals { ... on Pet { owner { __typename } } ... on Dog { owner { id } } ... on Cat { owner { name } } ... on Pet { owner { t: __typename } } } }`, Mixed: true},
	{Query: `{ maybe { pets { owner { __typename } ... on Dog { owner { id } } ... on Cat { owner { name } } owner { t: __typename } } } }`, Mixed: true},
	// ... and per place of use of shared fragments
	{Query: `{ me { ...F friend { id } ...H } maybe { ...F friend { mood } ...H } } fragment F on Person { friend { __typename } } fragment H on Person { friend { t: __typename } }`},
	// the same selections merged in a different order
	{Query: `{ me { ...F ...G } maybe { ...G ...F } } fragment F on Person { friend { name } } fragment G on Person { friend { __typename } }`},
}

// exhaustive enumerates, for every fixed (schema, document) pair, every assignment of
// {value, null, resolver error} to the field invocations (and {value, null} to the list items) of a
// base world, as long as the number of assignments stays below the tier's cap.
func (h *harness) exhaustive() {
	s := fixedSchema()
	b, err := h.built(s)
	if err != nil {
		fmt.Println("fixed schema rejected:", err)
		h.run.Oblige("exhaustive worlds over fixed (schema, document) pairs", "exhaustive", 0, false, "fixed schema rejected: "+err.Error())
		return
	}
	capCombos := h.run.Scale(2200, 40000)
	total := 0
	complete := true
	for pi, p := range fixedPairs {
		if h.failures >= maxFailures {
			complete = false
			break
		}
		doc, errs, vcrash := parseAndValidate(p.Query, b.Schema)
		if vcrash != "" || len(errs) > 0 {
			// the validator is not C01's: a fixed pair it rejects (e.g. F-04a, false "cycle detected") is skipped
			msg := vcrash
			if len(errs) > 0 {
				msg = errs[0].Message
			}
			h.run.Note("fixed pair %d rejected by the validator (%s): skipped", pi, msg)
			h.run.Count("exhaustive:pair-rejected")
			complete = false
			continue
		}
		dd := gqlgen.DocFromAST(doc)
		req := &gqlgen.Request{Doc: dd, Variables: p.Vars}
		op := dd.SelectedOp("")
		// find a base world whose assignment space fits
		var seed uint64
		var opts []int
		found := false
		for try := uint64(0); try < 400 && !found; try++ {
			seed = uint64(pi)*1000 + try + 1
			w := gqlgen.BaseWorld(hx.NewRand(seed), s, req, op)
			combos := 1
			opts = opts[:0]
			for _, site := range w.Sites {
				n := 2
				if site.IsEntry {
					n = 3
				}
				opts = append(opts, n)
				combos *= n
				if combos > capCombos {
					break
				}
			}
			entries := 0
			for _, site := range w.Sites {
				if site.IsEntry {
					entries++
				}
			}
			if combos <= capCombos && len(w.Sites) >= 3 && entries <= 7 && (!p.Mixed || hasMixedList(w.Root)) {
				found = true
			}
		}
		if !found {
			// too many field invocations for every assignment: sample assignments of one base world instead
			complete = false
			seed = uint64(pi)*1000 + 1
			w := gqlgen.BaseWorld(hx.NewRand(seed), s, req, op)
			for try := uint64(1); p.Mixed && !hasMixedList(w.Root) && try < 400; try++ {
				seed = uint64(pi)*1000 + 1 + try
				w = gqlgen.BaseWorld(hx.NewRand(seed), s, req, op)
			}
			sr := hx.NewRand(seed + 7)
			nsamp := capCombos / 4
			for n := 0; n < nsamp && h.failures < maxFailures; n++ {
				w = gqlgen.BaseWorld(hx.NewRand(seed), s, req, op)
				if n > 0 {
					for i, site := range w.Sites {
						switch sr.Intn(6) {
						case 0:
							w.Inject(i, "null")
						case 1:
							if site.IsEntry {
								w.Inject(i, "err")
							}
						}
					}
				}
				c := &Case{Schema: s, Query: p.Query, Doc: dd, Variables: p.Vars, World: w.Root, Note: fmt.Sprintf("fixed pair %d (sampled)", pi)}
				h.check(c, fmt.Sprintf("exhaustive-%02d-sampled", pi))
				total++
			}
			h.run.Note("fixed pair %d: more than %d assignments, %d sampled instead", pi, capCombos, nsamp)
			continue
		}
		choice := make([]int, len(opts))
		for {
			w := gqlgen.BaseWorld(hx.NewRand(seed), s, req, op)
			for i, ch := range choice {
				switch ch {
				case 1:
					w.Inject(i, "null")
				case 2:
					w.Inject(i, "err")
				}
			}
			c := &Case{Schema: s, Query: p.Query, Doc: dd, Variables: p.Vars, World: w.Root, Note: fmt.Sprintf("fixed pair %d", pi)}
			h.check(c, fmt.Sprintf("exhaustive-%02d", pi))
			total++
			// next assignment
			i := 0
			for ; i < len(choice); i++ {
				choice[i]++
				if choice[i] < opts[i] {
					break
				}
				choice[i] = 0
			}
			if i == len(choice) {
				break
			}
			if h.failures >= maxFailures {
				complete = false
				break
			}
		}
	}
	h.run.SetExhaustive(complete)
	h.run.Oblige("exhaustive worlds over fixed (schema, document) pairs", "exhaustive", total, true, "")
	h.run.Note("bounded-exhaustive: %d worlds over %d fixed (schema, document) pairs (cap %d assignments per pair)", total, len(fixedPairs), capCombos)
}

// leafSweep evaluates every boundary number (every Go integer and float kind at its own limits and
// around ±2^31, 2^32, 2^53, 2^63, MaxUint64; integral / non-integral floats up to beyond the int64
// range) as the result of an Int, Float, ID and Boolean field and as an item of [Int] and [ID!] lists.
func (h *harness) leafSweep() {
	N, L, NN := gqlgen.Named, gqlgen.ListOf, gqlgen.NonNull
	s := &gqlgen.SchemaDesc{Query: "Query", Types: []gqlgen.TypeDesc{{Kind: "object", Name: "Query", Fields: []gqlgen.FieldDesc{
		{Name: "i", Type: N("Int")}, {Name: "f", Type: N("Float")}, {Name: "id", Type: N("ID")}, {Name: "b", Type: N("Boolean")},
		{Name: "s", Type: N("String")}, {Name: "li", Type: L(N("Int"))}, {Name: "lid", Type: L(NN(N("ID")))}, {Name: "lf", Type: NN(L(N("Float")))}}}}}
	q := "{ i f id b s li lid lf }"
	total := 0
	vals := append(gqlgen.BoundaryNumbers(), gqlgen.BoolVal(true), gqlgen.BoolVal(false), gqlgen.StrVal("7"), gqlgen.WrongVal())
	for _, v := range vals {
		if h.failures >= maxFailures {
			break
		}
		leaf := func() *gqlgen.Outcome { return gqlgen.Leaf(v) }
		w := gqlgen.Obj("Query",
			gqlgen.Entry{Key: "i", Out: leaf()}, gqlgen.Entry{Key: "f", Out: leaf()}, gqlgen.Entry{Key: "id", Out: leaf()},
			gqlgen.Entry{Key: "b", Out: leaf()}, gqlgen.Entry{Key: "s", Out: leaf()},
			gqlgen.Entry{Key: "li", Out: gqlgen.List(gqlgen.Leaf(gqlgen.IntVal(1)), leaf(), gqlgen.Null())},
			gqlgen.Entry{Key: "lid", Out: gqlgen.List(gqlgen.Leaf(gqlgen.StrVal("a")), leaf())},
			gqlgen.Entry{Key: "lf", Out: gqlgen.List(leaf(), leaf())})
		h.check(&Case{Schema: s, Query: q, World: w, Note: "leaf sweep " + v.String()}, "leaf-sweep")
		total++
	}
	h.run.Oblige("leaf sweep: every Go integer/float kind at its boundaries through Int, Float, ID, Boolean, String and list items", "exhaustive", total, true, "")
}
