// Harness for C01 — execution result equals the GraphQL execution algorithm's result.
//
// Real side: graphql.ParseAndValidate + graphql.Execute on a generated (schema, document, variables,
// world) with synchronous generic resolvers; observable = the marshalled response: ordered data JSON
// (key order kept) and the error list (message class, path, locations) in order.
// Model side: lean/ApiFu/C01 (driver c01model) on the parsed AST + schema description + world.
// Model-free oracle: Ref (ref.go), an independent implementation of the June-2018 algorithm:
//
//	data equal; requiredErrors ⊆ errors ⊆ allErrors as multisets keyed by (path, locations);
//	every required error (one per failure-null visible in data) reported exactly once.
package main

import (
	"encoding/json"
	"fmt"
	"os"
	"sort"
	"strings"

	"github.com/ccbrown/api-fu/graphql"
	"github.com/ccbrown/api-fu/graphql/ast"
	"github.com/ccbrown/api-fu/graphql/executor"

	"verifharness/gqlgen"
	"verifharness/hx"
)

// Case is one replayable input.
type Case struct {
	Schema    *gqlgen.SchemaDesc     `json:"schema"`
	Query     string                 `json:"query"`
	Doc       *gqlgen.DocDesc        `json:"doc,omitempty"` // structured form (for shrinking); Query is what runs
	Layout    gqlgen.Layout          `json:"layout"`
	Variables map[string]interface{} `json:"variables,omitempty"`
	OpName    string                 `json:"op_name,omitempty"`
	World     *gqlgen.Outcome        `json:"world"`
	// AsyncSeed seeds the idle handler's choices when the world has outcomes marked async (async.go).
	AsyncSeed uint64 `json:"async_seed,omitempty"`
	Note      string `json:"note,omitempty"`
	// CloneOf: Schema is not built from scratch but reached from this one by build, Clone, edit of the
	// clone's enum values, build again (gqlgen.BuildViaClone). It differs from Schema in enum values only.
	CloneOf *gqlgen.SchemaDesc `json:"clone_of,omitempty"`
	// Meta: introspection meta fields of the query type to put where the placeholders stand (meta.go)
	Meta []gqlgen.MetaUse `json:"meta,omitempty"`
}

// Eval is everything observed for one case.
type Eval struct {
	Status   string // ok | schema-rejected | rejected | uncoercible
	Detail   string
	Real     Obs
	RealJSON string
	Ref      RefResult
	Model    *ModelReply
	Kind     string // "" | property | correspondence | crash
	Oracle   string // which oracle / obligation failed
	What     string
	Stats    *gqlgen.DocStats
	// the asynchronous run (only when the world has outcomes marked async)
	Async     *Obs
	AsyncJSON string
	AsyncInfo string
}

type harness struct {
	run       *hx.Run
	model     *hx.Model
	schemas   map[string]*gqlgen.Built
	asyncTick int
	failures  int // failing cases seen so far (the first few are shrunk and reported, then the run stops)
}

const maxFailures = 6

func (h *harness) built(desc *gqlgen.SchemaDesc) (*gqlgen.Built, error) {
	return h.builtVia(nil, desc)
}

func (h *harness) builtVia(orig, desc *gqlgen.SchemaDesc) (*gqlgen.Built, error) {
	kb, _ := json.Marshal(desc)
	k := string(kb)
	if orig != nil {
		ob, _ := json.Marshal(orig)
		k = string(ob) + " => " + k
	}
	if b, ok := h.schemas[k]; ok {
		if b == nil {
			return nil, fmt.Errorf("schema rejected")
		}
		return b, nil
	}
	var b *gqlgen.Built
	var err error
	if orig != nil {
		b, err = gqlgen.BuildViaClone(orig, desc)
	} else {
		b, err = gqlgen.Build(desc)
	}
	if len(h.schemas) > 256 {
		h.schemas = map[string]*gqlgen.Built{}
	}
	if err != nil {
		h.schemas[k] = nil
		return nil, err
	}
	h.schemas[k] = b
	return b, nil
}

func multiset(es []ObsErr) map[string]int {
	m := map[string]int{}
	for _, e := range es {
		m[e.Key()]++
	}
	return m
}

func subMultiset(a, b map[string]int) (string, bool) {
	keys := []string{}
	for k := range a {
		keys = append(keys, k)
	}
	sort.Strings(keys)
	for _, k := range keys {
		if a[k] > b[k] {
			return k, false
		}
	}
	return "", true
}

func sortedFull(es []ObsErr) string {
	xs := []string{}
	for _, e := range es {
		xs = append(xs, e.Msg+" "+e.Key())
	}
	sort.Strings(xs)
	return strings.Join(xs, " | ")
}

// evaluate runs one case on all sides and applies the oracles.
func (h *harness) evaluate(c *Case) *Eval {
	ev := &Eval{Status: "ok"}
	b, err := h.builtVia(c.CloneOf, c.Schema)
	if err != nil {
		ev.Status, ev.Detail = "schema-rejected", err.Error()
		return ev
	}
	doc, errs, vcrash := parseAndValidate(c.Query, b.Schema)
	if vcrash != "" {
		// the validator itself crashed (C03/C04 own that, e.g. F-03a): the document is not "validated"
		ev.Status, ev.Detail = "rejected", "validator panic"
		return ev
	}
	if len(errs) > 0 {
		ev.Status, ev.Detail = "rejected", errs[0].Message
		return ev
	}
	// coerced variables: by the specification's CoerceVariableValues written independently of the library
	// (gqlgen.SpecCoerceVariables) for the generated variable shapes — the reference, the model's inputs
	// and the expectation "request error" derive from it; other shapes fall back to the library's coercion
	var vars map[string]interface{}
	expectRequestError := false
	if op, operr := executor.GetOperation(doc, c.OpName); operr == nil {
		if sv, reqErr, supported := gqlgen.SpecCoerceVariables(op, c.Variables); supported {
			vars, expectRequestError = sv, reqErr
			for k, v := range c.Variables {
				if v == nil {
					for _, d := range op.VariableDefinitions {
						if d.Variable.Name.Name == k && d.DefaultValue != nil {
							h.run.Count("vars:explicit-null-for-defaulted-variable")
						}
					}
				}
			}
		} else {
			var ok bool
			if vars, ok = gqlgen.CoercedVariables(b, doc, c.OpName, c.Variables); !ok {
				ev.Status = "uncoercible"
				return ev
			}
		}
	}
	if expectRequestError {
		// the variables cannot be coerced: a request error (no data, one error without a path), nothing runs
		h.run.Count("vars:request-error-expected")
		ev.Real, ev.RealJSON = h.runReal(b, doc, c, nil)
		if ev.Real.Crash != "" {
			ev.Kind, ev.Oracle, ev.What = "crash", "crash", ev.Real.Crash
			return ev
		}
		ev.Ref = RefResult{RequestError: true}
		h.oracles(ev)
		return ev
	}
	docSexp, stats := gqlgen.DocSexp(b, doc, vars)
	ev.Stats = stats
	if stats.DirErrs > 0 {
		ev.Status = "uncoercible-directive"
		return ev
	}

	// real (synchronous: without a scheduler every outcome is delivered directly)
	ev.Real, ev.RealJSON = h.runReal(b, doc, c, nil)
	if ev.Real.Crash != "" {
		ev.Kind, ev.Oracle, ev.What = "crash", "crash", ev.Real.Crash
		return ev
	}

	// reference and property oracles
	ev.Ref = RunRef(b, doc, c.OpName, vars, c.World)
	h.oracles(ev)

	// the theorems' hypothesis on parsed documents: distinct selection nodes have distinct positions
	if stats.DupPositions > 0 || stats.EmptyKeys > 0 {
		h.corr(ev, "positions-not-distinct", fmt.Sprintf("%d selection nodes share a (line, column) with an earlier one, %d field selections have an empty response key", stats.DupPositions, stats.EmptyKeys))
	}

	// model
	if h.model != nil {
		line := hx.N("case", c.Schema.Sexp(), docSexp, c.World.Sexp(), hx.A(c.OpName), hx.A("auto")).String()
		reply, err := h.model.Ask(line)
		if err != nil {
			fmt.Fprintln(os.Stderr, "model driver failed:", err)
			os.Exit(2)
		}
		mr, perr := parseModelReply(reply)
		switch {
		case perr != nil:
			h.corr(ev, "model-reply", "cannot read the model's reply: "+perr.Error())
		case mr.Stuck != "":
			ev.Model = mr
			h.corr(ev, "model-stuck", "model is stuck: "+mr.Stuck)
		default:
			ev.Model = mr
			if mr.HypKnown && !mr.HypHold && !ev.Ref.Undef {
				// a validated document over an accepted schema must satisfy the theorem's decidable hypotheses
				h.corr(ev, "theorem-hypotheses", "the hypotheses of exec_correct_total_driver (distinct positions, non-empty keys, closed and well-formed schema, composite type conditions, no spread cycle, type check, typed, fields can merge) do not hold for this validated document")
			}
			if !mr.Model.Equal(ev.Real) {
				h.corr(ev, "model-vs-real", fmt.Sprintf("implementation: %s\nmodel:          %s", ev.Real, mr.Model))
			}
			h.specVsRef(ev, mr)
		}
	}

	// the same request with the marked outcomes delivered through promises
	if ev.Kind == "" && c.World.HasAsync() {
		h.evalAsync(ev, b, doc, c)
	}
	// the same request with `__schema` / `__type` where the placeholders stand
	if ev.Kind == "" && len(c.Meta) > 0 && !ev.Ref.RequestError {
		h.metaCheck(ev, b, c, nil)
		if ev.Kind == "" && c.World.HasAsync() {
			h.metaCheck(ev, b, c, gqlgen.NewScheduler(c.AsyncSeed))
		}
	}
	return ev
}

func parseAndValidate(q string, s *graphql.Schema) (doc *ast.Document, errs []*graphql.Error, crash string) {
	defer func() {
		if p := recover(); p != nil {
			crash = fmt.Sprint(p)
		}
	}()
	doc, errs = graphql.ParseAndValidate(q, s, nil)
	return
}

// corr records a correspondence failure unless a property oracle already failed.
func (h *harness) corr(ev *Eval, oracle, what string) {
	if ev.Kind == "" {
		ev.Kind, ev.Oracle, ev.What = "correspondence", oracle, what
	}
}

func (h *harness) specVsRef(ev *Eval, mr *ModelReply) {
	switch {
	case ev.Ref.RequestError:
		if mr.SpecKind != "requestError" {
			h.corr(ev, "leanspec-vs-goref", "Go Ref says request error, Lean Spec says "+mr.SpecKind)
		}
	case mr.SpecKind != "executed":
		h.corr(ev, "leanspec-vs-goref", "Go Ref executed, Lean Spec says "+mr.SpecKind)
	default:
		if mr.SpecData != ev.Ref.Data || sortedFull(mr.SpecAll) != sortedFull(ev.Ref.All) || sortedFull(mr.SpecReq) != sortedFull(ev.Ref.Req) || mr.SpecUndef != ev.Ref.Undef {
			h.corr(ev, "leanspec-vs-goref", fmt.Sprintf("Go Ref:    data=%s all=[%s] req=[%s] undef=%v\nLean Spec: data=%s all=[%s] req=[%s] undef=%v",
				ev.Ref.Data, sortedFull(ev.Ref.All), sortedFull(ev.Ref.Req), ev.Ref.Undef, mr.SpecData, sortedFull(mr.SpecAll), sortedFull(mr.SpecReq), mr.SpecUndef))
		}
	}
}

// oracles states the property on the implementation's own output.
func (h *harness) oracles(ev *Eval) {
	if oracle, what := oracleVerdict(ev.Real, ev.Ref); oracle != "" && ev.Kind == "" {
		ev.Kind, ev.Oracle, ev.What = "property", oracle, what
	}
}

// oracleVerdict evaluates the property oracles on one observable against the reference; it returns the
// first failing oracle ("" when all hold). None of them depends on the order of the errors.
func oracleVerdict(real Obs, ref RefResult) (oracle, what string) {
	fail := func(o, w string) {
		if oracle == "" {
			oracle, what = o, w
		}
	}
	if ref.RequestError {
		// no operation selected / no root type: a request error, no data
		if real.Data != "null" || len(real.Errors) != 1 || real.Errors[0].Path != "" {
			fail("request-error", "the request selects no operation, expected null data and one error without path; got "+real.String())
		}
		return
	}
	if ref.Undef {
		return // a selected field is not defined on its object type: outside the validated domain
	}
	if strings.Contains(real.Data, `"":`) {
		fail("blank-key", "response contains a blank key: "+real.Data)
	}
	if real.Data != ref.Data {
		fail("data", fmt.Sprintf("data differs from the reference\nimplementation: %s\nreference:      %s\nerrors: %v", real.Data, ref.Data, real.Errors))
	}
	got, req, all := multiset(real.Errors), multiset(ref.Req), multiset(ref.All)
	if k, ok := subMultiset(req, got); !ok {
		fail("errors-required", fmt.Sprintf("required error missing: %s\nimplementation: %s\nrequired: %v", k, real, ref.Req))
	}
	if k, ok := subMultiset(got, all); !ok {
		fail("errors-allowed", fmt.Sprintf("error reported that no evaluation order produces (or reported too often): %s\nimplementation: %s\nall: %v", k, real, ref.All))
	}
	for k := range req {
		if got[k] != 1 {
			fail("explained-once", fmt.Sprintf("the failure-null explained by %s has %d errors, want exactly 1\nimplementation: %s", k, got[k], real))
		}
	}
	// every error has the path of a field and at least one location
	for _, e := range real.Errors {
		if e.Path == "" || e.Locs == "" {
			fail("error-shape", fmt.Sprintf("field error without path or location: %+v\nimplementation: %s", e, real))
		}
	}
	return
}

// findingKey recognises the pre-fix signatures of the two repaired defects (status "fixed" in the
// ledger: a recurrence is reported as a violation; the key only labels it).
func findingKey(ev *Eval) string {
	if ev.Kind != "property" {
		return ""
	}
	for _, e := range ev.Real.Errors {
		if e.Path == "" && strings.HasPrefix(e.Msg, "text:") && !ev.Ref.RequestError {
			for _, r := range ev.Ref.Req {
				if r.Msg == e.Msg && r.Locs == e.Locs {
					return "F-01a-argument-coercion-error-without-path"
				}
			}
		}
	}
	if ev.Oracle == "errors-required" || ev.Oracle == "data" {
		got := multiset(ev.Real.Errors)
		for _, r := range ev.Ref.Req {
			if got[r.Key()] == 0 && ev.Ref.Crossed > 0 {
				return "F-01b-nonnull-sync-path-drops-error"
			}
		}
	}
	return ""
}

func nontrivial(ev *Eval) bool {
	return ev.Status == "ok" && !ev.Ref.RequestError && ev.Ref.Crossed > 0
}

func (h *harness) record(c *Case, ev *Eval, family string) {
	run := h.run
	run.Count("family:" + family)
	run.Count("status:" + ev.Status)
	if ev.Status != "ok" {
		if ev.Status == "rejected" {
			d := ev.Detail
			if i := strings.Index(d, ":"); i > 0 {
				d = d[:i]
			}
			if len(d) > 60 {
				d = d[:60]
			}
			run.Count("rejected:" + d)
		}
		return
	}
	key := hx.Hash(c.Query + "\x00" + c.OpName + "\x00" + c.World.Sexp().String() + "\x00" + c.Schema.Sexp().String() + fmt.Sprintf("\x00%d", c.AsyncSeed))
	run.Case(key, nontrivial(ev))
	if ev.Ref.RequestError {
		run.Count("ref:request-error")
	} else {
		run.Count(fmt.Sprintf("ref:crossed-nonnull=%d", min(ev.Ref.Crossed, 4)))
		run.Count(fmt.Sprintf("ref:nulled=%d", min(ev.Ref.Nulled, 4)))
		run.Count(fmt.Sprintf("ref:errors-all=%d", min(len(ev.Ref.All), 5)))
		if ev.Ref.Data == "null" {
			run.Count("ref:data-null")
		}
		if len(ev.Ref.All) > len(ev.Ref.Req) {
			run.Count("ref:all>req")
		}
		if ev.Ref.Undef {
			run.Count("ref:undef")
		}
	}
	for _, e := range ev.Real.Errors {
		m := e.Msg
		if strings.HasPrefix(m, "text:boom") {
			m = "resolver"
		} else if strings.HasPrefix(m, "text:") {
			m = "arg-coercion"
		} else if strings.HasPrefix(m, "enumResult") {
			m = "enumResult"
		}
		run.Count("error:" + m)
		if strings.Count(e.Locs, "(") > 1 {
			run.Count("error:multi-location")
		}
	}
	if s := ev.Stats; s != nil {
		run.Count(fmt.Sprintf("doc:depth=%d", min(s.MaxDepth, 6)))
		if s.Spreads > 0 {
			run.Count("doc:has-spread")
		}
		if s.Inlines > 0 {
			run.Count("doc:has-inline")
		}
		if s.Directives > 0 {
			run.Count("doc:has-directive")
		}
		if s.VarDirectives > 0 {
			run.Count("doc:has-variable-directive")
		}
		if s.Aliases > 0 {
			run.Count("doc:has-alias")
		}
		if s.ArgErrs > 0 {
			run.Count("doc:has-arg-coercion-error")
		}
		if s.Typenames > 0 {
			run.Count("doc:has-typename")
		}
	}
	okProp := ev.Kind != "property" && ev.Kind != "crash"
	run.Oblige("oracle: data = Ref.data (ordered), required ⊆ errors ⊆ all by (path, locations), each failure-null explained exactly once", "oracle", 1, okProp, ev.What)
	if len(c.Meta) > 0 {
		run.Oblige("oracle: `__schema` / `__type` selected wherever the query type is the parent (root and beneath it) yield the root-level introspection value at the placeholder's key, nothing else in data / errors changes", "oracle", 1, !strings.HasPrefix(ev.Oracle, "meta-"), ev.What)
	}
	if h.model != nil {
		run.Oblige("correspondence: model observable = graphql.Execute observable (ordered data, errors in order)", "correspondence", 1, !(ev.Kind == "correspondence" && ev.Oracle != "leanspec-vs-goref" && ev.Oracle != "positions-not-distinct" && ev.Oracle != "theorem-hypotheses"), ev.What)
		run.Oblige("correspondence: Lean Spec (data, all, required) = Go Ref", "correspondence", 1, !(ev.Kind == "correspondence" && ev.Oracle == "leanspec-vs-goref"), ev.What)
	}
	if h.model != nil {
		run.Oblige("hypothesis: the decidable hypotheses of exec_correct_total_driver / exec_correct_total_validated (closedCheck, wfCheck, condsCheck, noSpreadCycle, typeCheck, typed, mergeOK, positions, keys) hold for every validated (schema, document)", "srcfact", 1, ev.Oracle != "theorem-hypotheses", ev.What)
	}
	run.Oblige("hypothesis: selection nodes of the parsed document have pairwise distinct (line, column) and non-empty response keys", "srcfact", 1, ev.Oracle != "positions-not-distinct", ev.What)
}

// check evaluates a case, records it, and on failure shrinks and reports it.
func (h *harness) check(c *Case, family string) *Eval {
	ev := h.evaluate(c)
	h.record(c, ev, family)
	if ev.Kind == "" {
		if ev.Status == "ok" && !ev.Ref.RequestError && !c.World.HasAsync() && family != "corpus" {
			h.asyncVariants(c, ev, family)
		}
		return ev
	}
	h.failures++
	if h.failures > maxFailures {
		return ev
	}
	small, sev := h.shrink(c, ev)
	what := fmt.Sprintf("[%s] %s\nquery: %s\nopName=%q variables=%v", sev.Oracle, sev.What, small.Query, small.OpName, small.Variables)
	h.run.Violate(sev.Kind, what, findingKey(sev), sev.Kind == "correspondence", small)
	return ev
}

func min(a, b int) int {
	if a < b {
		return a
	}
	return b
}

func main() {
	run := hx.Init("C01")
	h := &harness{run: run, schemas: map[string]*gqlgen.Built{}}
	if run.ModelPath != "" {
		m, err := hx.StartModel(run.ModelPath)
		if err != nil {
			fmt.Fprintln(os.Stderr, "cannot start model:", err)
			os.Exit(2)
		}
		h.model = m
		defer m.Close()
	}
	run.SetRule("cases = (generated schema: objects/interfaces/unions/enums with list/non-null nesting) × (type-directed document: fragments on abstract types, merged fields, aliases, @skip/@include by literal and variable, __typename; rejected by the real validator → discarded and counted) × (world: resolver outcome tree with 0–4 injected failures); plus every {value,null,error} assignment to the field invocations of fixed small (schema, document) pairs. distinct = hash of (schema, query text, operation name, world); non-trivial = the reference execution has at least one failure (error or null) that propagates through a non-null position")

	if run.Replay != "" {
		var c Case
		if err := hx.LoadReplayCase(run.Replay, &c); err != nil {
			fmt.Fprintln(os.Stderr, err)
			os.Exit(2)
		}
		ev := h.evaluate(&c)
		fmt.Printf("replay: status=%s kind=%q oracle=%q\n", ev.Status, ev.Kind, ev.Oracle)
		fmt.Printf("query: %s\n", c.Query)
		fmt.Printf("implementation: %s\n", ev.Real)
		fmt.Printf("response json:  %s\n", ev.RealJSON)
		if ev.Model != nil {
			fmt.Printf("model:          %s\n", ev.Model.Model)
		}
		if ev.Async != nil {
			fmt.Printf("asynchronous:   %s (%s)\nasync json:     %s\n", *ev.Async, ev.AsyncInfo, ev.AsyncJSON)
		}
		fmt.Printf("reference:      data=%s required=%v all=%v requestError=%v\n", ev.Ref.Data, ev.Ref.Req, ev.Ref.All, ev.Ref.RequestError)
		if ev.Kind != "" {
			fmt.Printf("verdict: %s\n", ev.What)
			run.Violate(ev.Kind, ev.What, findingKey(ev), ev.Kind == "correspondence", &c)
		} else {
			fmt.Println("verdict: property holds, model agrees")
		}
		run.Finish(h.model)
		return
	}

	for _, f := range run.CorpusFiles() {
		var c Case
		if err := hx.LoadReplayCase(f, &c); err != nil || c.Schema == nil || c.World == nil {
			run.Note("unreadable corpus file %s: %v", f, err)
			continue
		}
		ev := h.check(&c, "corpus")
		if ev.Status != "ok" {
			run.Note("corpus file %s no longer runs: %s %s", f, ev.Status, ev.Detail)
		}
	}

	h.selfTest()
	// development knob (not used by ./check): C01_DEV_RANDOM=n runs only n random cases
	devN := 0
	if v := os.Getenv("C01_DEV_RANDOM"); v != "" {
		fmt.Sscanf(v, "%d", &devN)
	}
	if devN == 0 {
		h.leafSweep()
		h.exhaustive()
		h.cloneEdit()
	}

	// hx.NewRand(k+1) is hx.NewRand(k) advanced by one draw; fork once so that different seeds give
	// unrelated case streams
	root := run.Rand.Fork()
	n := run.Scale(30000, 600000)
	if devN > 0 {
		n = devN
	}
	for i := 0; i < n; i++ {
		r := root.Fork()
		c := randomCase(r)
		if c == nil {
			run.Count("status:no-operation-generated")
			continue
		}
		ev := h.check(c, "random")
		if devN > 0 && ev.Status == "rejected" && os.Getenv("C01_DEV_REJECTS") != "" && strings.Contains(c.Note, os.Getenv("C01_DEV_REJECTS")) {
			fmt.Fprintf(os.Stderr, "REJECT [%s] %s\n  %s\n", c.Note, ev.Detail, c.Query)
		}
		for _, cl := range strings.Split(c.Note, "+") {
			if cl != "" {
				run.Count("gen:" + cl + ":" + ev.Status)
			}
		}
		if c.CloneOf != nil {
			run.Count("gen:clone-edit-rebuild:" + ev.Status)
		}
		if ev.Status == "ok" {
			run.Sample(map[string]interface{}{"query": c.Query, "variables": c.Variables, "response": ev.RealJSON})
		}
		if h.failures >= maxFailures {
			run.Note("stopped after %d failing cases", h.failures)
			break
		}
	}
	run.Finish(h.model)
}

// randomCase draws schema, request and world.
func randomCase(r *hx.Rand) *Case {
	s := gqlgen.RandomSchema(r)
	req := gqlgen.RandomRequest(r, s)
	note := ""
	if r.Chance(1, 3) && gqlgen.Sandwich(r.Fork(), s, req) {
		// one composite field several times under one response key, the middle occurrences under different
		// type conditions with equally long sub-selections (merged lists that differ only in the middle)
		note = "sandwich"
	}
	// input classes drawn inside the generators (gqlgen/classes.go, worldgen.go)
	for _, cl := range req.Classes {
		if note != "" {
			note += "+"
		}
		note += cl
	}
	if s.HasLongNames() {
		if note != "" {
			note += "+"
		}
		note += "long-schema-names"
	}
	var meta []gqlgen.MetaUse
	if (s.HasNestedRoot() && r.Chance(2, 3)) || r.Chance(1, 12) {
		// `__schema` / `__type` wherever the query type is the parent, at the root and beneath it
		if meta = gqlgen.AddMetaPlaceholders(r.Fork(), s, req); len(meta) > 0 {
			if note != "" {
				note += "+"
			}
			note += "meta-fields"
		}
	}
	c := &Case{Schema: s, Doc: req.Doc, Layout: gqlgen.RandomLayout(r), Variables: req.Variables, OpName: req.OpName, Note: note, Meta: meta}
	c.Query = req.Doc.Print(c.Layout)
	op := req.Doc.SelectedOp(req.OpName)
	if op == nil {
		op = &req.Doc.Ops[0] // the request fails before execution; any world will do
	}
	if r.Chance(1, 6) {
		// the same request on a schema reached by build, Clone, edit of enum values, build again; the world
		// draws its enum results from the edited values
		if edited := gqlgen.EditEnums(r.Fork(), s); edited != nil {
			c.CloneOf, c.Schema = s, edited
			s = edited
		}
	}
	c.World = gqlgen.RandomWorld(r, s, req, op)
	if c.World.HasOverlap() {
		if c.Note != "" {
			c.Note += "+"
		}
		c.Note += "overlapping-istypeof"
	}
	return c
}

// selfTest feeds the differ a deliberately wrong model answer and expects it to notice.
func (h *harness) selfTest() {
	a := Obs{Data: `{"a":1,"b":2}`, Errors: []ObsErr{{Msg: "nullNonNull", Path: `["a"]`, Locs: "(1,3)"}}}
	b := Obs{Data: `{"b":2,"a":1}`, Errors: a.Errors}
	c := Obs{Data: a.Data, Errors: []ObsErr{{Msg: "nullNonNull", Path: `["a",0]`, Locs: "(1,3)"}}}
	ok := !a.Equal(b) && !a.Equal(c) && a.Equal(a)
	v1, _ := parseOrdered([]byte(`{"b":1,"a":[1.0,2e0,"x"]}`))
	ok = ok && v1.Canon() == `{"b":1,"a":[1,2,"x"]}`
	h.run.Oblige("self-test: the differ distinguishes key order and error paths", "srcfact", 1, ok, "differ self-test failed")
}
