package main

// Ref: an independent Go implementation of the GraphQL June-2018 execution algorithm (§6), used as
// the model-free oracle. It never calls the executor. It reads the parsed document (real AST, for
// the node positions), the schema *description*, the world (outcome tree) directly — no resolvers
// are invoked — and uses the library's exported input-coercion functions only for what C01 treats
// as given: the value of a directive's `if` and a field's coerced arguments.
//
// It evaluates every field of every selection set (no early exit) and computes
//   data — the response data (nil pointer = an error propagated to the root),
//   all  — every field error some evaluation order could report,
//   req  — for every null that a failure leaves visible in data, the error that caused it.

import (
	"fmt"
	"math"
	"math/big"

	"github.com/ccbrown/api-fu/graphql/ast"
	"github.com/ccbrown/api-fu/graphql/schema"
	"github.com/ccbrown/api-fu/graphql/validator"

	"verifharness/gqlgen"
)

type refOut struct {
	data *JV // nil: a field error propagates out of this position
	all  []ObsErr
	req  []ObsErr
	// prop: when data is nil, the errors one of which propagates out of this position (which one
	// depends on the order of evaluation); groups: for every failure-null visible in data, the errors one
	// of which must explain it. Used for runs whose evaluation order is not the synchronous one.
	prop    []ObsErr
	groups  [][]ObsErr
	undef   bool
	crossed int // non-null positions a failure propagated through (for the non-triviality rule)
	nulled  int // nullable positions that absorbed a failure
}

type RefResult struct {
	RequestError bool
	Data         string
	All, Req     []ObsErr
	// Alts: per failure-null visible in data (or for null data), the alternative explaining errors
	Alts    [][]ObsErr
	Undef   bool
	Crossed int
	Nulled  int
}

type ref struct {
	b     *gqlgen.Built
	desc  *gqlgen.SchemaDesc
	doc   *ast.Document
	vars  map[string]interface{}
	frags map[string]*ast.FragmentDefinition
}

func refErr(class string, path []interface{}, locs ...[2]int) ObsErr {
	e := ObsErr{Msg: class, Path: canonPath(path)}
	for _, l := range locs {
		e.Locs += fmt.Sprintf("(%d,%d)", l[0], l[1])
	}
	return e
}

func fail(e ObsErr) refOut {
	return refOut{all: []ObsErr{e}, req: []ObsErr{e}, prop: []ObsErr{e}}
}

func done(v *JV) refOut { return refOut{data: v} }

func withPath(path []interface{}, seg interface{}) []interface{} {
	return append(append([]interface{}{}, path...), seg)
}

// RunRef executes the request by the specification.
func RunRef(b *gqlgen.Built, doc *ast.Document, opName string, coercedVars map[string]interface{}, world *gqlgen.Outcome) RefResult {
	r := &ref{b: b, desc: b.Desc, doc: doc, vars: coercedVars, frags: map[string]*ast.FragmentDefinition{}}
	// GetOperation
	var ops []*ast.OperationDefinition
	for _, d := range doc.Definitions {
		switch d := d.(type) {
		case *ast.OperationDefinition:
			ops = append(ops, d)
		case *ast.FragmentDefinition:
			r.frags[d.Name.Name] = d
		}
	}
	var op *ast.OperationDefinition
	if opName == "" {
		if len(ops) != 1 {
			return RefResult{RequestError: true}
		}
		op = ops[0]
	} else {
		n := 0
		for _, o := range ops {
			if o.Name != nil && o.Name.Name == opName {
				op = o
				n++
			}
		}
		if n != 1 {
			return RefResult{RequestError: true}
		}
	}
	root := r.desc.Query
	if op.OperationType != nil {
		switch op.OperationType.Value {
		case "mutation":
			root = r.desc.Mutation
		case "subscription":
			root = r.desc.Subscription
		}
	}
	if root == "" || r.desc.Type(root) == nil {
		return RefResult{RequestError: true}
	}
	out := r.executeSelectionSet(op.SelectionSet.Selections, root, world, nil)
	res := RefResult{All: out.all, Req: out.req, Undef: out.undef, Crossed: out.crossed, Nulled: out.nulled, Data: "null", Alts: out.groups}
	if out.data == nil {
		res.Alts = [][]ObsErr{out.prop}
	}
	if out.data != nil {
		res.Data = out.data.Canon()
	}
	return res
}

type group struct {
	key    string
	fields []*ast.Field
}

type grouped struct{ items []*group }

func (g *grouped) add(key string, fs ...*ast.Field) {
	for _, it := range g.items {
		if it.key == key {
			it.fields = append(it.fields, fs...)
			return
		}
	}
	g.items = append(g.items, &group{key: key, fields: append([]*ast.Field{}, fs...)})
}

func (r *ref) excluded(ds []*ast.Directive) bool {
	for _, d := range ds {
		def := r.b.Schema.Directives()[d.Name.Name]
		if def == nil || (d.Name.Name != "skip" && d.Name.Name != "include") {
			continue
		}
		args, err := validator.CoerceArgumentValues(d, def.Arguments, d.Arguments, r.vars)
		if err != nil {
			continue
		}
		v, ok := args["if"].(bool)
		if !ok {
			continue
		}
		if (d.Name.Name == "skip" && v) || (d.Name.Name == "include" && !v) {
			return true
		}
	}
	return false
}

func (r *ref) applies(obj string, cond string) bool {
	for _, p := range r.desc.PossibleTypes(cond) {
		if p == obj {
			return true
		}
	}
	return false
}

// collectFields is CollectFields of §6.3.2: a fresh grouped set per call, merged by the caller.
func (r *ref) collectFields(obj string, sels []ast.Selection, visited map[string]bool) *grouped {
	g := &grouped{}
	for _, sel := range sels {
		if r.excluded(sel.SelectionDirectives()) {
			continue
		}
		switch sel := sel.(type) {
		case *ast.Field:
			key := sel.Name.Name
			if sel.Alias != nil {
				key = sel.Alias.Name
			}
			g.add(key, sel)
		case *ast.FragmentSpread:
			name := sel.FragmentName.Name
			if visited[name] {
				continue
			}
			visited[name] = true
			f := r.frags[name]
			if f == nil || !r.applies(obj, f.TypeCondition.Name.Name) {
				continue
			}
			for _, it := range r.collectFields(obj, f.SelectionSet.Selections, visited).items {
				g.add(it.key, it.fields...)
			}
		case *ast.InlineFragment:
			if sel.TypeCondition != nil && !r.applies(obj, sel.TypeCondition.Name.Name) {
				continue
			}
			for _, it := range r.collectFields(obj, sel.SelectionSet.Selections, visited).items {
				g.add(it.key, it.fields...)
			}
		}
	}
	return g
}

func pos(f *ast.Field) [2]int { p := f.Position(); return [2]int{p.Line, p.Column} }

// atPosition is §6.4.4: a nullable position absorbs a propagating error and becomes null.
func atPosition(nonNull bool, o refOut) refOut {
	if o.data == nil {
		if nonNull {
			o.crossed++
		} else {
			o.data = jvNull()
			o.nulled++
			o.groups = [][]ObsErr{o.prop}
			o.prop = nil
		}
	}
	return o
}

func (r *ref) executeSelectionSet(sels []ast.Selection, obj string, objVal *gqlgen.Outcome, path []interface{}) refOut {
	ot := r.desc.Type(obj)
	g := r.collectFields(obj, sels, map[string]bool{})
	result := &JV{Kind: "obj"}
	out := refOut{}
	var firstFail *refOut
	for _, it := range g.items {
		f0 := it.fields[0]
		here := withPath(path, it.key)
		var fo refOut
		if f0.Name.Name == "__typename" {
			fo = done(jvStr(obj))
		} else {
			fd := ot.Field(f0.Name.Name)
			if fd == nil {
				out.undef = true
				continue
			}
			fo = atPosition(fd.Type.IsNonNull(), r.executeField(ot, fd, objVal, it.fields, here))
		}
		out.all = append(out.all, fo.all...)
		out.undef = out.undef || fo.undef
		out.crossed += fo.crossed
		out.nulled += fo.nulled
		if fo.data == nil {
			if firstFail == nil {
				c := fo
				firstFail = &c
			}
			out.prop = append(out.prop, fo.prop...)
			continue
		}
		out.req = append(out.req, fo.req...)
		out.groups = append(out.groups, fo.groups...)
		result.set(it.key, fo.data)
	}
	if firstFail != nil {
		out.req = firstFail.req
		out.groups = nil
		return out
	}
	out.data = result
	return out
}

func (r *ref) executeField(ot *gqlgen.TypeDesc, fd *gqlgen.FieldDesc, objVal *gqlgen.Outcome, fields []*ast.Field, path []interface{}) refOut {
	f0 := fields[0]
	// CoerceArgumentValues (input coercion is given: the library's exported function)
	def := r.b.Named[ot.Name].(*schema.ObjectType).Fields[fd.Name]
	args, cerr := validator.CoerceArgumentValues(f0, def.Arguments, f0.Arguments, r.vars)
	if cerr != nil {
		var locs [][2]int
		for _, l := range cerr.Locations {
			locs = append(locs, [2]int{l.Line, l.Column})
		}
		return fail(refErr("text:"+cerr.Message, path, locs...))
	}
	// ResolveFieldValue: the generic resolver's meaning
	var resolved *gqlgen.Outcome
	if objVal != nil && objVal.Kind == "obj" {
		resolved = objVal.Get(gqlgen.WorldKey(fd.Name, args))
	}
	if resolved == nil {
		resolved = gqlgen.Null()
	}
	if resolved.Kind == "err" {
		var locs [][2]int
		for _, f := range fields {
			locs = append(locs, pos(f))
		}
		return fail(refErr("text:"+resolved.Msg, path, locs...))
	}
	return r.completeValue(fd.Type, fields, resolved, path)
}

func (r *ref) completeValue(t gqlgen.TypeRef, fields []*ast.Field, v *gqlgen.Outcome, path []interface{}) refOut {
	f0 := fields[0]
	if t.Kind == "nonnull" {
		o := r.completeValue(*t.Of, fields, v, path)
		if o.data != nil && o.data.Kind == "null" {
			e := refErr("nullNonNull", path, pos(f0))
			o.data = nil
			o.all = append(o.all, e)
			o.req = []ObsErr{e}
			o.prop = []ObsErr{e}
			o.groups = nil
		}
		return o
	}
	if v.Kind == "null" || v.Kind == "tnil" {
		return done(jvNull())
	}
	if t.Kind == "list" {
		if v.Kind != "list" {
			return fail(refErr("notList", path, pos(f0)))
		}
		arr := &JV{Kind: "arr", Arr: []*JV{}}
		out := refOut{}
		var firstFail *refOut
		for i, item := range v.Items {
			io := atPosition(t.Of.IsNonNull(), r.completeValue(*t.Of, fields, item, withPath(path, i)))
			out.all = append(out.all, io.all...)
			out.undef = out.undef || io.undef
			out.crossed += io.crossed
			out.nulled += io.nulled
			if io.data == nil {
				if firstFail == nil {
					c := io
					firstFail = &c
				}
				out.prop = append(out.prop, io.prop...)
				continue
			}
			out.req = append(out.req, io.req...)
			out.groups = append(out.groups, io.groups...)
			arr.Arr = append(arr.Arr, io.data)
		}
		if firstFail != nil {
			out.req = firstFail.req
			out.groups = nil
			return out
		}
		out.data = arr
		return out
	}
	// named types
	if gqlgen.IsBuiltinScalar(t.Name) {
		if v.Kind == "leaf" {
			if j := refCoerceScalar(t.Name, *v.Val); j != nil {
				return done(j)
			}
		}
		return fail(refErr("scalarResult", path, pos(f0)))
	}
	td := r.desc.Type(t.Name)
	switch td.Kind {
	case "enum":
		if v.Kind == "leaf" {
			for _, ev := range td.Values {
				if ev.Value.Same(*v.Val) {
					return done(jvStr(ev.Name))
				}
			}
		}
		return fail(refErr("enumResult:"+t.Name, path, pos(f0)))
	case "object":
		return r.executeSelectionSet(mergeSelectionSets(fields), t.Name, v, path)
	default:
		// ResolveAbstractType: the possible type the value is a node of
		if v.Kind == "obj" {
			for _, p := range r.desc.PossibleTypes(t.Name) {
				if p == v.Type {
					return r.executeSelectionSet(mergeSelectionSets(fields), p, v, path)
				}
			}
		}
		return fail(refErr("noObjectType", path, pos(f0)))
	}
}

func mergeSelectionSets(fields []*ast.Field) []ast.Selection {
	var out []ast.Selection
	for _, f := range fields {
		if f.SelectionSet != nil {
			out = append(out, f.SelectionSet.Selections...)
		}
	}
	return out
}

// refCoerceScalar is result coercion of the built-in scalars (§3.5), with the latitude api-fu
// documents: Int takes integral numbers within 32 bits and booleans; Float takes numbers and
// booleans; String strings; Boolean booleans; ID strings and integers.
func refCoerceScalar(name string, g gqlgen.GoVal) *JV {
	g = g.Canon()
	two31 := big.NewInt(1 << 31)
	switch name {
	case "Int":
		switch g.Kind {
		case "int":
			z := g.BigInt()
			if z.Cmp(new(big.Int).Neg(two31)) >= 0 && z.Cmp(two31) < 0 {
				return jvNum(float64(z.Int64()))
			}
		case "float":
			if g.Float == math.Trunc(g.Float) && g.Float >= -(1<<31) && g.Float <= (1<<31)-1 {
				return jvNum(g.Float)
			}
		case "bool":
			if g.Bool {
				return jvNum(1)
			}
			return jvNum(0)
		}
	case "Float":
		switch g.Kind {
		case "int":
			// the nearest double (round to nearest, ties to even)
			f, _ := new(big.Float).SetInt(g.BigInt()).Float64()
			return jvNum(f)
		case "float":
			return jvNum(g.Float)
		case "bool":
			if g.Bool {
				return jvNum(1)
			}
			return jvNum(0)
		}
	case "String":
		if g.Kind == "str" {
			return jvStr(g.Str)
		}
	case "Boolean":
		if g.Kind == "bool" {
			return jvBool(g.Bool)
		}
	case "ID":
		switch g.Kind {
		case "str":
			return jvStr(g.Str)
		case "int":
			// integers that fit a signed 64-bit integer, in decimal
			if z := g.BigInt(); z.IsInt64() {
				return jvStr(z.String())
			}
		}
	}
	return nil
}
