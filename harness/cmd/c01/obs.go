package main

import (
	"bytes"
	"encoding/json"
	"fmt"
	"math"
	"sort"
	"strconv"
	"strings"

	"verifharness/hx"
)

// JV is an ordered JSON value (object keys keep their order: the order is part of C01).
type JV struct {
	Kind string // null | bool | num | str | arr | obj
	B    bool
	N    float64
	S    string
	Arr  []*JV
	Keys []string
	Vals []*JV
}

func jvNull() *JV                 { return &JV{Kind: "null"} }
func jvStr(s string) *JV          { return &JV{Kind: "str", S: s} }
func jvNum(f float64) *JV         { return &JV{Kind: "num", N: f} }
func jvBool(b bool) *JV           { return &JV{Kind: "bool", B: b} }
func jvArr(xs []*JV) *JV          { return &JV{Kind: "arr", Arr: xs} }
func (o *JV) set(k string, v *JV) { o.Keys = append(o.Keys, k); o.Vals = append(o.Vals, v) }

// Canon renders the value canonically: key order and item order preserved, numbers by exact value.
func (v *JV) Canon() string {
	var b strings.Builder
	v.canon(&b)
	return b.String()
}

func (v *JV) canon(b *strings.Builder) {
	if v == nil {
		b.WriteString("null")
		return
	}
	switch v.Kind {
	case "null":
		b.WriteString("null")
	case "bool":
		b.WriteString(strconv.FormatBool(v.B))
	case "num":
		b.WriteString(strconv.FormatFloat(v.N, 'g', -1, 64))
	case "str":
		b.WriteString(strconv.Quote(v.S))
	case "arr":
		b.WriteByte('[')
		for i, x := range v.Arr {
			if i > 0 {
				b.WriteByte(',')
			}
			x.canon(b)
		}
		b.WriteByte(']')
	case "obj":
		b.WriteByte('{')
		for i, k := range v.Keys {
			if i > 0 {
				b.WriteByte(',')
			}
			b.WriteString(strconv.Quote(k))
			b.WriteByte(':')
			v.Vals[i].canon(b)
		}
		b.WriteByte('}')
	}
}

// parseOrdered decodes JSON text keeping object key order.
func parseOrdered(data []byte) (*JV, error) {
	dec := json.NewDecoder(bytes.NewReader(data))
	dec.UseNumber()
	v, err := decodeJV(dec)
	if err != nil {
		return nil, err
	}
	if dec.More() {
		return nil, fmt.Errorf("trailing data")
	}
	return v, nil
}

func decodeJV(dec *json.Decoder) (*JV, error) {
	tok, err := dec.Token()
	if err != nil {
		return nil, err
	}
	switch t := tok.(type) {
	case nil:
		return jvNull(), nil
	case bool:
		return jvBool(t), nil
	case json.Number:
		f, err := strconv.ParseFloat(string(t), 64)
		if err != nil {
			return nil, err
		}
		return jvNum(f), nil
	case string:
		return jvStr(t), nil
	case json.Delim:
		switch t {
		case '[':
			out := &JV{Kind: "arr", Arr: []*JV{}}
			for dec.More() {
				x, err := decodeJV(dec)
				if err != nil {
					return nil, err
				}
				out.Arr = append(out.Arr, x)
			}
			_, err := dec.Token()
			return out, err
		case '{':
			out := &JV{Kind: "obj"}
			for dec.More() {
				kt, err := dec.Token()
				if err != nil {
					return nil, err
				}
				k, ok := kt.(string)
				if !ok {
					return nil, fmt.Errorf("non-string key")
				}
				x, err := decodeJV(dec)
				if err != nil {
					return nil, err
				}
				out.set(k, x)
			}
			_, err := dec.Token()
			return out, err
		}
	}
	return nil, fmt.Errorf("unexpected token %v", tok)
}

// ObsErr is one reported error in canonical form.
type ObsErr struct {
	Msg  string `json:"msg"`  // message class (see classify)
	Path string `json:"path"` // canonical path, e.g. ["a",1,"b"]; "" when absent
	Locs string `json:"locs"` // locations in reported order, e.g. (1,3)(2,5)
}

// Key identifies an error for the multiset comparisons of the property: (path, set of locations).
func (e ObsErr) Key() string {
	parts := strings.Split(strings.Trim(e.Locs, "()"), ")(")
	sort.Strings(parts)
	return e.Path + " @ " + strings.Join(parts, " ")
}

// Obs is the canonical observable of one execution: ordered data and the error list in order.
type Obs struct {
	Data   string   `json:"data"` // canonical ordered JSON; "null" for null data; "<absent>" when the member is missing
	Errors []ObsErr `json:"errors"`
	Crash  string   `json:"crash,omitempty"`
}

func (o Obs) String() string {
	var b strings.Builder
	b.WriteString("data=" + o.Data + " errors=[")
	for i, e := range o.Errors {
		if i > 0 {
			b.WriteString("; ")
		}
		b.WriteString(e.Msg + " path=" + e.Path + " locs=" + e.Locs)
	}
	b.WriteString("]")
	if o.Crash != "" {
		b.WriteString(" CRASH " + o.Crash)
	}
	return b.String()
}

func (o Obs) Equal(p Obs) bool { return o.String() == p.String() }

var fixedMessages = map[string]string{
	"Null result for non-null field.":                "nullNonNull",
	"Result is not a list.":                          "notList",
	"Unexpected result: invalid scalar result value": "scalarResult",
	"Unable to determine object type.":               "noObjectType",
	"Multiple matching operations.":                  "multipleOps",
	"No matching operations.":                        "noOp",
	"This schema cannot perform queries.":            "cannotPerform:query",
	"This schema cannot perform mutations.":          "cannotPerform:mutation",
	"This schema cannot perform subscriptions.":      "cannotPerform:subscription",
}

// classify maps a real error message onto the model's message classes. Every class but
// enumResult is an exact text; enumResult keeps the enum type name (the message also prints the
// offending Go value with %v, which is not part of the observable).
func classify(msg string) string {
	if c, ok := fixedMessages[msg]; ok {
		return c
	}
	const p = "Unexpected result: invalid "
	if strings.HasPrefix(msg, p) {
		rest := msg[len(p):]
		if i := strings.Index(rest, " enum value: "); i > 0 {
			return "enumResult:" + rest[:i]
		}
	}
	return "text:" + msg
}

func canonPath(path []interface{}) string {
	if len(path) == 0 {
		return ""
	}
	var b strings.Builder
	b.WriteByte('[')
	for i, p := range path {
		if i > 0 {
			b.WriteByte(',')
		}
		switch p := p.(type) {
		case string:
			b.WriteString(strconv.Quote(p))
		case int:
			b.WriteString(strconv.Itoa(p))
		case float64:
			b.WriteString(strconv.Itoa(int(p)))
		default:
			fmt.Fprintf(&b, "?%v", p)
		}
	}
	b.WriteByte(']')
	return b.String()
}

// obsFromResponseJSON canonicalises the marshalled response of graphql.Execute.
func obsFromResponseJSON(body []byte) (Obs, error) {
	root, err := parseOrdered(body)
	if err != nil {
		return Obs{}, err
	}
	if root.Kind != "obj" {
		return Obs{}, fmt.Errorf("response is not an object")
	}
	o := Obs{Data: "<absent>", Errors: []ObsErr{}}
	for i, k := range root.Keys {
		v := root.Vals[i]
		switch k {
		case "data":
			o.Data = v.Canon()
		case "errors":
			for _, e := range v.Arr {
				oe := ObsErr{}
				for j, ek := range e.Keys {
					ev := e.Vals[j]
					switch ek {
					case "message":
						oe.Msg = classify(ev.S)
					case "path":
						var path []interface{}
						for _, p := range ev.Arr {
							if p.Kind == "str" {
								path = append(path, p.S)
							} else {
								path = append(path, int(p.N))
							}
						}
						if path == nil {
							path = []interface{}{}
						}
						oe.Path = canonPath(path)
					case "locations":
						for _, l := range ev.Arr {
							var line, col float64
							for m, lk := range l.Keys {
								if lk == "line" {
									line = l.Vals[m].N
								} else if lk == "column" {
									col = l.Vals[m].N
								}
							}
							oe.Locs += fmt.Sprintf("(%d,%d)", int(line), int(col))
						}
					}
				}
				o.Errors = append(o.Errors, oe)
			}
		}
	}
	return o, nil
}

// ---- model replies ---------------------------------------------------------------------------------

func jvFromSexp(x hx.Sexp) (*JV, error) {
	if !x.IsList {
		if x.Atom == "null" {
			return jvNull(), nil
		}
		return nil, fmt.Errorf("bad json atom %q", x.Atom)
	}
	if len(x.List) == 0 {
		return nil, fmt.Errorf("empty json node")
	}
	tag := x.List[0].Atom
	args := x.List[1:]
	switch tag {
	case "b":
		return jvBool(args[0].Atom == "true"), nil
	case "i":
		z, err := strconv.ParseInt(args[0].Atom, 10, 64)
		if err != nil {
			return nil, err
		}
		return jvNum(float64(z)), nil
	case "n":
		m, err1 := strconv.ParseInt(args[0].Atom, 10, 64)
		e, err2 := strconv.ParseInt(args[1].Atom, 10, 64)
		if err1 != nil || err2 != nil {
			return nil, fmt.Errorf("bad num")
		}
		return jvNum(math.Ldexp(float64(m), int(e))), nil
	case "s":
		return jvStr(args[0].Atom), nil
	case "a":
		out := &JV{Kind: "arr", Arr: []*JV{}}
		for _, a := range args {
			v, err := jvFromSexp(a)
			if err != nil {
				return nil, err
			}
			out.Arr = append(out.Arr, v)
		}
		return out, nil
	case "o":
		out := &JV{Kind: "obj"}
		for _, a := range args {
			if !a.IsList || len(a.List) != 3 {
				return nil, fmt.Errorf("bad kv")
			}
			v, err := jvFromSexp(a.List[2])
			if err != nil {
				return nil, err
			}
			out.set(a.List[1].Atom, v)
		}
		return out, nil
	}
	return nil, fmt.Errorf("bad json tag %q", tag)
}

func optDataFromSexp(x hx.Sexp) (string, error) {
	if x.IsList && len(x.List) == 1 && x.List[0].Atom == "none" {
		return "null", nil
	}
	if x.IsList && len(x.List) == 2 && x.List[0].Atom == "some" {
		v, err := jvFromSexp(x.List[1])
		if err != nil {
			return "", err
		}
		return v.Canon(), nil
	}
	return "", fmt.Errorf("bad optional data")
}

func errsFromSexp(x hx.Sexp) ([]ObsErr, error) {
	out := []ObsErr{}
	if !x.IsList || len(x.List) == 0 {
		return nil, fmt.Errorf("bad error list")
	}
	for _, e := range x.List[1:] {
		if !e.IsList || len(e.List) != 4 {
			return nil, fmt.Errorf("bad error")
		}
		oe := ObsErr{}
		m := e.List[1]
		if !m.IsList {
			oe.Msg = m.Atom
		} else {
			switch m.List[0].Atom {
			case "resolver", "arg":
				oe.Msg = "text:" + m.List[1].Atom
			case "enumResult":
				oe.Msg = "enumResult:" + m.List[1].Atom
			case "cannotPerform":
				oe.Msg = "cannotPerform:" + m.List[1].Atom
			default:
				return nil, fmt.Errorf("bad message %v", m)
			}
		}
		path := []interface{}{}
		for _, p := range e.List[2].List[1:] {
			if p.List[0].Atom == "k" {
				path = append(path, p.List[1].Atom)
			} else {
				n, _ := strconv.Atoi(p.List[1].Atom)
				path = append(path, n)
			}
		}
		oe.Path = canonPath(path)
		for _, l := range e.List[3].List[1:] {
			oe.Locs += "(" + l.List[0].Atom + "," + l.List[1].Atom + ")"
		}
		out = append(out, oe)
	}
	return out, nil
}

// ModelReply is the decoded driver answer: the model's observable and the Lean reference's.
type ModelReply struct {
	Stuck     string
	Model     Obs
	SpecKind  string // executed | requestError | stuck
	SpecData  string
	SpecAll   []ObsErr
	SpecReq   []ObsErr
	SpecUndef bool
	// HypHold: the decidable hypotheses of theorem exec_correct_total hold for this (schema, document)
	HypKnown, HypHold bool
}

func parseModelReply(line string) (*ModelReply, error) {
	x, err := hx.ParseSexp(line)
	if err != nil {
		return nil, fmt.Errorf("%v in %q", err, line)
	}
	if !x.IsList || (len(x.List) != 3 && len(x.List) != 4) {
		return nil, fmt.Errorf("unexpected reply %q", line)
	}
	r := &ModelReply{HypKnown: len(x.List) == 4}
	if len(x.List) == 4 {
		hy := x.List[3]
		r.HypHold = hy.IsList && len(hy.List) == 2 && hy.List[1].Atom == "true"
	}
	spec := x.List[2]
	if !spec.IsList || spec.List[0].Atom != "spec" {
		return nil, fmt.Errorf("unexpected spec part in %q", line)
	}
	if len(spec.List) == 2 {
		r.SpecKind = spec.List[1].Atom
	} else if len(spec.List) == 5 {
		r.SpecKind = "executed"
		if r.SpecData, err = optDataFromSexp(spec.List[1]); err != nil {
			return nil, err
		}
		if r.SpecAll, err = errsFromSexp(spec.List[2]); err != nil {
			return nil, err
		}
		if r.SpecReq, err = errsFromSexp(spec.List[3]); err != nil {
			return nil, err
		}
		r.SpecUndef = spec.List[4].Atom == "true"
	} else {
		return nil, fmt.Errorf("unexpected spec part in %q", line)
	}
	switch x.List[0].Atom {
	case "stuck":
		r.Stuck = x.List[1].Atom
		return r, nil
	case "ok":
		m := x.List[1]
		if !m.IsList || len(m.List) != 3 {
			return nil, fmt.Errorf("unexpected model part in %q", line)
		}
		if r.Model.Data, err = optDataFromSexp(m.List[1]); err != nil {
			return nil, err
		}
		if r.Model.Errors, err = errsFromSexp(m.List[2]); err != nil {
			return nil, err
		}
		return r, nil
	}
	return nil, fmt.Errorf("unexpected reply %q", line)
}
