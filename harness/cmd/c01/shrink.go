package main

import (
	"verifharness/gqlgen"
)

// shrink minimises a failing case while it still fails the same way (same kind and same oracle).
// Steps: simplify the world (replace subtrees by null, drop list items and entries), simplify the
// document (drop selections, directives, aliases, unused fragments and operations), drop variables.
func (h *harness) shrink(c *Case, ev *Eval) (*Case, *Eval) {
	cur, curEv := c, ev
	same := func(cand *Case) *Eval {
		e := h.evaluate(cand)
		if e.Status == "ok" && e.Kind == curEv.Kind && e.Oracle == curEv.Oracle {
			return e
		}
		return nil
	}
	budget := 1200 / (1 + h.failures/2)
	for changed := true; changed && budget > 0; {
		changed = false
		for _, cand := range candidates(cur) {
			budget--
			if budget <= 0 {
				break
			}
			if e := same(cand); e != nil {
				cur, curEv, changed = cand, e, true
				break
			}
		}
	}
	return cur, curEv
}

func cloneCase(c *Case) *Case {
	n := *c
	if c.Doc != nil {
		n.Doc = c.Doc.Clone()
	}
	n.World = c.World.Clone()
	if c.Variables != nil {
		n.Variables = map[string]interface{}{}
		for k, v := range c.Variables {
			n.Variables[k] = v
		}
	}
	return &n
}

// walkWorld calls f with a setter for every outcome slot below o.
func walkWorld(o *gqlgen.Outcome, f func(slot **gqlgen.Outcome, parent *gqlgen.Outcome, index int)) {
	for i := range o.Fields {
		f(&o.Fields[i].Out, o, i)
		walkWorld(o.Fields[i].Out, f)
	}
	for i := range o.Items {
		f(&o.Items[i], o, i)
		walkWorld(o.Items[i], f)
	}
}

func countSlots(o *gqlgen.Outcome) int {
	n := 0
	walkWorld(o, func(**gqlgen.Outcome, *gqlgen.Outcome, int) { n++ })
	return n
}

type selRef struct {
	list *[]*gqlgen.Sel
	i    int
}

func walkSels(list *[]*gqlgen.Sel, f func(selRef)) {
	for i := range *list {
		f(selRef{list, i})
		walkSels(&(*list)[i].Sels, f)
	}
}

func allSelRefs(d *gqlgen.DocDesc) []selRef {
	var out []selRef
	for i := range d.Ops {
		walkSels(&d.Ops[i].Sels, func(r selRef) { out = append(out, r) })
	}
	for i := range d.Frags {
		walkSels(&d.Frags[i].Sels, func(r selRef) { out = append(out, r) })
	}
	return out
}

func reprint(c *Case) { c.Query = c.Doc.Print(c.Layout) }

// candidates lists one-step simplifications of a case, most drastic first.
func candidates(c *Case) []*Case {
	var out []*Case
	// world
	nslots := countSlots(c.World)
	for k := 0; k < nslots; k++ {
		// replace slot k by null
		n := cloneCase(c)
		i := 0
		done := false
		walkWorld(n.World, func(slot **gqlgen.Outcome, parent *gqlgen.Outcome, idx int) {
			if i == k && (*slot).Kind != "null" {
				*slot = gqlgen.Null()
				done = true
			}
			i++
		})
		if done {
			out = append(out, n)
		}
	}
	for k := 0; k < nslots; k++ {
		// remove slot k from its parent (list item or entry)
		n := cloneCase(c)
		i := 0
		var par *gqlgen.Outcome
		var pidx int
		walkWorld(n.World, func(slot **gqlgen.Outcome, parent *gqlgen.Outcome, idx int) {
			if i == k {
				par, pidx = parent, idx
			}
			i++
		})
		if par != nil {
			if par.Kind == "list" {
				par.Items = append(par.Items[:pidx], par.Items[pidx+1:]...)
			} else {
				par.Fields = append(par.Fields[:pidx], par.Fields[pidx+1:]...)
			}
			out = append(out, n)
		}
	}
	// asynchronous delivery: deliver one more outcome synchronously
	for k := 0; k < nslots; k++ {
		n := cloneCase(c)
		i := 0
		done := false
		walkWorld(n.World, func(slot **gqlgen.Outcome, parent *gqlgen.Outcome, idx int) {
			if i == k && (*slot).Async {
				(*slot).Async = false
				done = true
			}
			i++
		})
		if done {
			out = append(out, n)
		}
	}
	if c.Doc == nil {
		return out
	}
	// document
	if c.Layout != (gqlgen.Layout{}) {
		n := cloneCase(c)
		n.Layout = gqlgen.Layout{}
		reprint(n)
		out = append(out, n)
	}
	nrefs := len(allSelRefs(c.Doc))
	for k := 0; k < nrefs; k++ {
		// drop selection k (if its list keeps an element)
		n := cloneCase(c)
		r := allSelRefs(n.Doc)[k]
		if len(*r.list) > 1 {
			*r.list = append(append([]*gqlgen.Sel{}, (*r.list)[:r.i]...), (*r.list)[r.i+1:]...)
			reprint(n)
			out = append(out, n)
		}
	}
	for k := 0; k < nrefs; k++ {
		s := allSelRefs(c.Doc)[k]
		sel := (*s.list)[s.i]
		if len(sel.Dirs) > 0 {
			n := cloneCase(c)
			r := allSelRefs(n.Doc)[k]
			(*r.list)[r.i].Dirs = nil
			reprint(n)
			out = append(out, n)
		}
		if sel.Alias != "" {
			n := cloneCase(c)
			r := allSelRefs(n.Doc)[k]
			(*r.list)[r.i].Alias = ""
			reprint(n)
			out = append(out, n)
		}
		if sel.Kind == "inline" {
			// replace the inline fragment by its contents
			n := cloneCase(c)
			r := allSelRefs(n.Doc)[k]
			in := (*r.list)[r.i]
			repl := append(append(append([]*gqlgen.Sel{}, (*r.list)[:r.i]...), in.Sels...), (*r.list)[r.i+1:]...)
			*r.list = repl
			reprint(n)
			out = append(out, n)
		}
		if sel.Kind == "spread" {
			// replace the spread by an inline fragment with the fragment's contents
			if f := c.Doc.Frag(sel.Name); f != nil {
				n := cloneCase(c)
				r := allSelRefs(n.Doc)[k]
				fc := n.Doc.Frag(sel.Name)
				(*r.list)[r.i] = &gqlgen.Sel{Kind: "inline", TypeCond: fc.TypeCond, Dirs: (*r.list)[r.i].Dirs, Sels: fc.Sels}
				reprint(n)
				out = append(out, n)
			}
		}
	}
	// drop fragments (valid only when unused: the validator decides) and extra operations
	for k := range c.Doc.Frags {
		n := cloneCase(c)
		n.Doc.Frags = append(n.Doc.Frags[:k], n.Doc.Frags[k+1:]...)
		n.Doc.Order = nil
		reprint(n)
		out = append(out, n)
	}
	if len(c.Doc.Ops) > 1 {
		for k := range c.Doc.Ops {
			n := cloneCase(c)
			n.Doc.Ops = append(n.Doc.Ops[:k], n.Doc.Ops[k+1:]...)
			n.Doc.Order = nil
			reprint(n)
			out = append(out, n)
		}
	}
	// drop variable definitions and values that are no longer used
	for oi := range c.Doc.Ops {
		for vi := range c.Doc.Ops[oi].Vars {
			n := cloneCase(c)
			name := n.Doc.Ops[oi].Vars[vi].Name
			n.Doc.Ops[oi].Vars = append(n.Doc.Ops[oi].Vars[:vi], n.Doc.Ops[oi].Vars[vi+1:]...)
			delete(n.Variables, name)
			reprint(n)
			out = append(out, n)
		}
	}
	return out
}
