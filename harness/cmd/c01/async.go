package main

// Asynchronous delivery. C01 quantifies over every combination of resolver outcomes, however they are
// delivered: the same (schema, document, variables, world) with some field outcomes delivered through
// graphql.ResolvePromise (gqlgen.Scheduler: the IdleHandler fulfils a seeded-random non-empty subset of
// the pending promises per round) must satisfy the same oracles against the reference — data equal,
// required ⊆ errors ⊆ all, every required error exactly once, no blank key — and give the same data as
// the synchronous run. The order of the errors is not compared (it legitimately depends on the
// schedule; the Lean model covers the synchronous order, C02 the schedules).

import (
	"context"
	"encoding/json"
	"fmt"
	"strings"

	"github.com/ccbrown/api-fu/graphql"
	"github.com/ccbrown/api-fu/graphql/ast"

	"verifharness/gqlgen"
	"verifharness/hx"
)

// runReal executes the request on the real library; with a scheduler the outcomes marked async are
// delivered through promises.
func (h *harness) runReal(b *gqlgen.Built, doc *ast.Document, c *Case, sched *gqlgen.Scheduler) (o Obs, body string) {
	defer func() {
		if p := recover(); p != nil {
			o = Obs{Crash: fmt.Sprint(p)}
		}
	}()
	req := &graphql.Request{Context: context.Background(), Document: doc, Schema: b.Schema,
		OperationName: c.OpName, VariableValues: c.Variables, InitialValue: c.World.Node()}
	if sched != nil {
		req.Context = gqlgen.WithScheduler(req.Context, sched)
		req.IdleHandler = sched.Idle
	}
	resp := graphql.Execute(req)
	raw, err := json.Marshal(resp)
	if err != nil {
		return Obs{Crash: "response cannot be marshalled: " + err.Error()}, ""
	}
	obs, err := obsFromResponseJSON(raw)
	if err != nil {
		return Obs{Crash: "response is not JSON: " + err.Error()}, string(raw)
	}
	return obs, string(raw)
}

// evalAsync runs the case with its async marks honoured and applies the oracles to that run.
func (h *harness) evalAsync(ev *Eval, b *gqlgen.Built, doc *ast.Document, c *Case) {
	for _, allAtOnce := range []bool{false, true} {
		sched := gqlgen.NewScheduler(c.AsyncSeed)
		sched.AllAtOnce = allAtOnce
		obs, body := h.runReal(b, doc, c, sched)
		ev.Async, ev.AsyncJSON, ev.AsyncInfo = &obs, body, sched.String()
		h.run.Count("async:runs")
		if sched.Promises > 0 {
			h.run.Count("async:runs-with-promises")
		}
		if obs.Crash != "" {
			ev.Kind, ev.Oracle, ev.What = "crash", "async-crash", "asynchronous run: "+obs.Crash
			return
		}
		if oracle, what := asyncVerdict(obs, ev.Ref); oracle != "" {
			ev.Kind, ev.Oracle, ev.What = "property", "async-"+oracle, "asynchronous run ("+sched.String()+"): "+what
			return
		}
		if obs.Data != ev.Real.Data {
			ev.Kind, ev.Oracle = "property", "async-vs-sync-data"
			ev.What = fmt.Sprintf("data of the asynchronous run differs from the synchronous run\nasynchronous: %s\nsynchronous:  %s", obs.Data, ev.Real.Data)
			return
		}
	}
}

// asyncVerdict evaluates the oracles that do not depend on the order of evaluation: data equal to the
// reference, no blank key, every reported error is one the reference can raise (and none twice), and
// every failure-null visible in data (or the null data) is explained by at least one of the errors that
// can cause it — with several failing non-null siblings the schedule decides which one is reported.
func asyncVerdict(real Obs, ref RefResult) (oracle, what string) {
	fail := func(o, w string) {
		if oracle == "" {
			oracle, what = o, w
		}
	}
	if ref.RequestError {
		return oracleVerdict(real, ref)
	}
	if ref.Undef {
		return
	}
	if strings.Contains(real.Data, `"":`) {
		fail("blank-key", "response contains a blank key: "+real.Data)
	}
	if real.Data != ref.Data {
		fail("data", fmt.Sprintf("data differs from the reference\nimplementation: %s\nreference:      %s\nerrors: %v", real.Data, ref.Data, real.Errors))
	}
	got, all := multiset(real.Errors), multiset(ref.All)
	if k, ok := subMultiset(got, all); !ok {
		fail("errors-allowed", fmt.Sprintf("error reported that no evaluation order produces (or reported too often): %s\nimplementation: %s\nall: %v", k, real, ref.All))
	}
	for _, group := range ref.Alts {
		hit := false
		for _, e := range group {
			if got[e.Key()] > 0 {
				hit = true
			}
		}
		if !hit {
			fail("errors-required", fmt.Sprintf("a failure-null is explained by none of the errors that can cause it: %v\nimplementation: %s", group, real))
		}
	}
	for _, e := range real.Errors {
		if e.Path == "" || e.Locs == "" {
			fail("error-shape", fmt.Sprintf("field error without path or location: %+v\nimplementation: %s", e, real))
		}
	}
	return
}

// asyncVariants re-runs a passing case with field outcomes delivered through promises (alternately every
// outcome, or a random third) — for a share of the cases that keeps the run within budget; each variant
// is run under two schedules (random subsets per idle round, everything per round).
func (h *harness) asyncVariants(c *Case, ev *Eval, family string) {
	h.asyncTick++
	share := 10 // every tenth case without a failure
	if len(ev.Ref.All) > 0 {
		share = 4 // every fourth case in which something fails
	}
	if h.run.Thorough() {
		share = (share + 1) / 2
	}
	if h.asyncTick%share != 0 {
		return
	}
	r := hx.NewRand(uint64(h.asyncTick)*0x9E3779B97F4A7C15 + uint64(h.run.Seed))
	v := cloneCase(c)
	v.AsyncSeed = r.Uint64() | 1
	marked := 0
	if (h.asyncTick/share)%2 == 0 {
		marked = v.World.MarkAsync(r, 1, 1) // every field outcome through a promise
	} else {
		marked = v.World.MarkAsync(r, 1, 3) // a random third
	}
	if marked == 0 {
		return
	}
	v.Note = "async variant"
	h.check(v, family+"+async")
}
