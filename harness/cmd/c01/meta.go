package main

import (
	"fmt"
	"sort"
	"strings"

	"verifharness/gqlgen"
)

// Introspection meta fields of the query root type, at the root and beneath it (seed C02-26).
//
// The Lean model and the Go reference do not model introspection. A case with Meta uses is therefore the
// placeholder document (every use stands as `<alias>: __typename`), which goes through model, reference and
// oracles as usual; metaCheck then runs the document with the meta selections substituted on the real
// library and requires
//
//	data  = the placeholder document's data with every placeholder value replaced by the value the same
//	        meta selection has at the ROOT of a query over the same schema (introspection results do not
//	        depend on where the query type is reached; their content is C10's),
//	errors = the placeholder document's errors by (message class, path)  (synchronous runs).
//
// In particular the key is present wherever the placeholder's key is, and no blank key appears.
func (h *harness) metaCheck(ev *Eval, b *gqlgen.Built, c *Case, sched *gqlgen.Scheduler) {
	q1 := c.Query
	var used []gqlgen.MetaUse
	for _, u := range c.Meta {
		ph := u.Alias + ": __typename"
		if strings.Contains(q1, ph) {
			q1 = strings.Replace(q1, ph, u.Alias+": "+u.Text, 1)
			used = append(used, u)
		}
	}
	if len(used) == 0 {
		return
	}
	doc1, errs, crash := parseAndValidate(q1, b.Schema)
	if crash != "" || len(errs) > 0 {
		h.run.Count("meta:rejected")
		return
	}
	// the value of each meta selection at the root of a query
	rootQ := "{"
	for _, u := range used {
		rootQ += " " + u.Alias + ": " + u.Text
	}
	rootQ += " }"
	docR, errsR, crashR := parseAndValidate(rootQ, b.Schema)
	if crashR != "" || len(errsR) > 0 {
		h.run.Count("meta:root-rejected")
		return
	}
	obsR, _ := h.runReal(b, docR, &Case{World: gqlgen.Obj(b.Desc.Query)}, nil)
	rootV, err := parseOrdered([]byte(obsR.Data))
	if obsR.Crash != "" || len(obsR.Errors) > 0 || err != nil || rootV.Kind != "obj" {
		h.run.Count("meta:root-failed")
		return
	}
	vals := map[string]*JV{}
	for i, k := range rootV.Keys {
		vals[k] = rootV.Vals[i]
	}
	c1 := *c
	c1.Query = q1
	obs, body := h.runReal(b, doc1, &c1, sched)
	h.run.Count("meta:runs")
	if sched != nil {
		h.run.Count("meta:runs-async")
	}
	if obs.Crash != "" {
		ev.Kind, ev.Oracle, ev.What = "crash", "meta-crash", "with meta fields: "+obs.Crash+"\nquery: "+q1
		return
	}
	want := ev.Real.Data
	nested := 0
	if exp, err := parseOrdered([]byte(ev.Real.Data)); err == nil {
		var subst func(v *JV, depth int)
		subst = func(v *JV, depth int) {
			switch v.Kind {
			case "arr":
				for _, x := range v.Arr {
					subst(x, depth)
				}
			case "obj":
				for i, k := range v.Keys {
					if rv, ok := vals[k]; ok && v.Vals[i].Kind == "str" {
						v.Vals[i] = rv
						if depth > 0 {
							nested++
						}
						continue
					}
					subst(v.Vals[i], depth+1)
				}
			}
		}
		subst(exp, 0)
		want = exp.Canon()
	}
	if nested > 0 {
		h.run.Count("meta:answered-beneath-the-root")
	}
	if obs.Data != want {
		ev.Kind, ev.Oracle = "property", "meta-fields-data"
		ev.What = fmt.Sprintf("__schema / __type of the query type: data differs from the placeholder document's data with the root-level introspection values put in\nquery:    %s\nresponse: %s\nexpected: %s", q1, body, want)
		return
	}
	if sched == nil {
		key := func(es []ObsErr) string {
			var xs []string
			for _, e := range es {
				xs = append(xs, e.Msg+" "+e.Path)
			}
			sort.Strings(xs)
			return strings.Join(xs, " | ")
		}
		if key(obs.Errors) != key(ev.Real.Errors) {
			ev.Kind, ev.Oracle = "property", "meta-fields-errors"
			ev.What = fmt.Sprintf("__schema / __type of the query type: errors (message class, path) differ from the placeholder document's\nquery: %s\nwith meta fields: [%s]\nplaceholders:     [%s]", q1, key(obs.Errors), key(ev.Real.Errors))
		}
	}
}
