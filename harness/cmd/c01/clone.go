package main

import (
	"encoding/json"
	"fmt"

	"verifharness/gqlgen"
)

// cloneEdit: "every schema the library accepts" includes a schema built from an edited clone of the
// definition of a schema that was built before (SchemaDefinition.Clone; apifu's
// PreprocessGraphQLSchemaDefinition route). The fixed schema is built, its definition cloned, the
// clone's enum Mood edited in every elementary way (nothing, a value renumbered, two values exchanged, a
// value added, a value removed, all of them replaced), a second schema built from the clone, and the
// enum-typed fields (a non-null one and one inside a nullable parent) return every old and new internal
// value and a few near misses. Everything (Ref, model) is computed for the edited description.
func (h *harness) cloneEdit() {
	orig := fixedSchema()
	type edit struct {
		name string
		vals []gqlgen.EnumValDesc
	}
	S, I := gqlgen.StrVal, gqlgen.IntVal
	edits := []edit{
		{"unchanged", []gqlgen.EnumValDesc{{Name: "HAPPY", Value: S("happy")}, {Name: "SAD", Value: I(2)}}},
		{"renumbered", []gqlgen.EnumValDesc{{Name: "HAPPY", Value: S("happy")}, {Name: "SAD", Value: I(3)}}},
		{"exchanged", []gqlgen.EnumValDesc{{Name: "HAPPY", Value: I(2)}, {Name: "SAD", Value: S("happy")}}},
		{"added", []gqlgen.EnumValDesc{{Name: "HAPPY", Value: S("happy")}, {Name: "SAD", Value: I(2)}, {Name: "CALM", Value: S("calm")}}},
		{"removed", []gqlgen.EnumValDesc{{Name: "HAPPY", Value: S("happy")}}},
		{"replaced", []gqlgen.EnumValDesc{{Name: "UP", Value: I(1)}, {Name: "DOWN", Value: S("SAD")}}},
	}
	results := []*gqlgen.Outcome{
		gqlgen.Leaf(S("happy")), gqlgen.Leaf(I(2)), gqlgen.Leaf(I(3)), gqlgen.Leaf(S("calm")), gqlgen.Leaf(I(1)), gqlgen.Leaf(S("SAD")),
		gqlgen.Leaf(gqlgen.SignedVal("int64", 2)), gqlgen.Leaf(S("HAPPY")), gqlgen.Null(),
	}
	q := `{ me { mood } maybe { mood friend { m: mood } } }`
	total := 0
	for _, e := range edits {
		raw, _ := json.Marshal(orig)
		edited := &gqlgen.SchemaDesc{}
		if err := json.Unmarshal(raw, edited); err != nil {
			h.run.Oblige("schemas built from an edited clone of a built schema's definition", "exhaustive", 0, false, err.Error())
			return
		}
		for i := range edited.Types {
			if edited.Types[i].Name == "Mood" {
				edited.Types[i].Values = e.vals
			}
		}
		for _, a := range results {
			for _, b := range results {
				if h.failures >= maxFailures {
					break
				}
				cp := func(o *gqlgen.Outcome) *gqlgen.Outcome { c := *o; return &c }
				w := gqlgen.Obj("Query",
					gqlgen.Entry{Key: "me", Out: gqlgen.Obj("Person", gqlgen.Entry{Key: "mood", Out: cp(a)})},
					gqlgen.Entry{Key: "maybe", Out: gqlgen.Obj("Person", gqlgen.Entry{Key: "mood", Out: cp(b)},
						gqlgen.Entry{Key: "friend", Out: gqlgen.Obj("Person", gqlgen.Entry{Key: "mood", Out: cp(a)})})})
				c := &Case{Schema: edited, CloneOf: orig, Query: q, World: w, Note: "clone, edit (" + e.name + "), rebuild"}
				ev := h.check(c, "clone-edit-"+e.name)
				if ev.Status == "ok" {
					total++
				} else {
					h.run.Note("clone-edit %s: %s %s", e.name, ev.Status, ev.Detail)
				}
			}
		}
	}
	want := len(edits) * len(results) * len(results)
	ok := total == want || h.failures >= maxFailures
	h.run.Oblige("schemas built from an edited clone of a built schema's definition (enum values renumbered, exchanged, added, removed)", "exhaustive", total, ok,
		fmt.Sprintf("%d of %d cases ran", total, want))
}
