package main

// Channel-level facts of api.go, read from the CURRENT source of the repository under test
// ($VERIF_REPO) with go/parser and compared with the committed table chanfacts_expected.json, whose rows
// name the definitions of the Lean model (Model.lean, Cancel.lean) and the theorems (Props.lean,
// PropsCancel.lean) each fact justifies.
//
// The model's steps are the statement sequences between channel operations; what makes a step enabled
// or blocked is decided by a handful of facts about the channels: the capacity every `make(chan …)` gives
// its channel, which alternatives each `select` has, which sends / receives / closes exist outside
// selects, where goroutines are started and waited for. The acceptor ties the model's *behaviour* to the
// code on generated histories; this phase ties these *facts*: every function of api.go is scanned and
// each such statement is one row (function, kind, canonical text; comments, line breaks and the
// statements in between do not matter). A select that gains or loses a case, a buffer size that
// changes, a new send or receive, a new goroutine — the row differs, and the theorems (proved for the
// old facts, e.g. `every_send_has_partner`, `idle_progress_cancelled`, and refuted for a Go task's
// select with a `<-ctx.Done()` case by `ctx_case_deadlocks`) no longer speak about this code: an
// undischarged obligation, reported as a correspondence violation without a failing input.
//
// C15_CHANFACTS_WRITE=<file> writes the table extracted from $VERIF_REPO (justifications carried over
// from the committed table where function, kind and text are unchanged).

import (
	"bytes"
	_ "embed"
	"encoding/json"
	"fmt"
	"go/ast"
	"go/parser"
	"go/printer"
	"go/token"
	"os"
	"path/filepath"
	"strings"

	"verifharness/hx"
)

//go:embed chanfacts_expected.json
var chanfactsExpectedJSON []byte

type chanRow struct {
	Func      string `json:"func"`
	Kind      string `json:"kind"` // make | select | send | recv | close | go | sync
	Text      string `json:"text"`
	Justifies string `json:"justifies"`
}

type chanTable struct {
	File  string    `json:"file"`
	About string    `json:"about"`
	Rows  []chanRow `json:"rows"`
}

func chanRepoRoot() string {
	if r := os.Getenv("VERIF_REPO"); r != "" {
		return r
	}
	return "/repo"
}

func exprText(fset *token.FileSet, n ast.Node) string {
	var b bytes.Buffer
	printer.Fprint(&b, fset, n)
	return strings.Join(strings.Fields(b.String()), " ")
}

// isChanType: `chan T` or a named channel type of the library (graphql.ResolvePromise).
func isChanType(e ast.Expr) bool {
	switch t := e.(type) {
	case *ast.ChanType:
		return true
	case *ast.SelectorExpr:
		return t.Sel.Name == "ResolvePromise"
	case *ast.Ident:
		return t.Name == "ResolvePromise"
	}
	return false
}

func commText(fset *token.FileSet, s ast.Stmt) string {
	switch c := s.(type) {
	case nil:
		return "default"
	case *ast.SendStmt:
		return "send " + exprText(fset, c.Chan)
	case *ast.ExprStmt:
		if u, ok := c.X.(*ast.UnaryExpr); ok && u.Op == token.ARROW {
			return "recv " + exprText(fset, u.X)
		}
	case *ast.AssignStmt:
		if len(c.Rhs) == 1 {
			if u, ok := c.Rhs[0].(*ast.UnaryExpr); ok && u.Op == token.ARROW {
				return "recv " + exprText(fset, u.X)
			}
		}
	}
	return "? " + exprText(fset, s)
}

// chanFactsOf extracts the rows of one file.
func chanFactsOf(path string) ([]chanRow, error) {
	fset := token.NewFileSet()
	f, err := parser.ParseFile(fset, path, nil, 0)
	if err != nil {
		return nil, err
	}
	var rows []chanRow
	for _, d := range f.Decls {
		fd, ok := d.(*ast.FuncDecl)
		if !ok || fd.Body == nil {
			continue
		}
		name := fd.Name.Name
		if fd.Recv != nil && len(fd.Recv.List) == 1 {
			name = "(" + exprText(fset, fd.Recv.List[0].Type) + ")." + name
		}
		add := func(kind, text string) { rows = append(rows, chanRow{Func: name, Kind: kind, Text: text}) }
		seenMake := map[token.Pos]bool{}
		makeText := func(call *ast.CallExpr) (string, bool) {
			id, ok := call.Fun.(*ast.Ident)
			if !ok || id.Name != "make" || len(call.Args) == 0 || !isChanType(call.Args[0]) {
				return "", false
			}
			capacity := "0"
			if len(call.Args) > 1 {
				capacity = exprText(fset, call.Args[1])
			}
			return "make(" + exprText(fset, call.Args[0]) + ") cap=" + capacity, true
		}
		var walk func(n ast.Node) bool
		walk = func(n ast.Node) bool {
			switch x := n.(type) {
			case *ast.AssignStmt:
				if len(x.Rhs) == 1 && len(x.Lhs) == 1 {
					if call, ok := x.Rhs[0].(*ast.CallExpr); ok {
						if t, ok := makeText(call); ok {
							seenMake[call.Pos()] = true
							add("make", exprText(fset, x.Lhs[0])+" = "+t)
						}
					}
				}
			case *ast.CallExpr:
				if t, ok := makeText(x); ok && !seenMake[x.Pos()] {
					add("make", t)
				}
				if id, ok := x.Fun.(*ast.Ident); ok && id.Name == "close" && len(x.Args) == 1 {
					add("close", "close "+exprText(fset, x.Args[0]))
				}
				if sel, ok := x.Fun.(*ast.SelectorExpr); ok && (sel.Sel.Name == "Wait" || sel.Sel.Name == "Add" || sel.Sel.Name == "Done") {
					add("sync", exprText(fset, x.Fun)) // WaitGroup calls (and any ctx.Done())
				}
			case *ast.GoStmt:
				add("go", strings.TrimSpace("go "+strings.SplitN(exprText(fset, x.Call.Fun), "{", 2)[0]))
			case *ast.SelectStmt:
				var cs []string
				for _, cl := range x.Body.List {
					cs = append(cs, commText(fset, cl.(*ast.CommClause).Comm))
				}
				add("select", "select { "+strings.Join(cs, " | ")+" }")
				for _, cl := range x.Body.List {
					for _, st := range cl.(*ast.CommClause).Body {
						ast.Inspect(st, walk)
					}
				}
				return false
			case *ast.SendStmt:
				add("send", "send "+exprText(fset, x.Chan))
			case *ast.UnaryExpr:
				if x.Op == token.ARROW {
					add("recv", "recv "+exprText(fset, x.X))
				}
			}
			return true
		}
		ast.Inspect(fd.Body, walk)
	}
	return rows, nil
}

const obChan = "channel facts: every make(chan …) with its capacity, every select with its cases, every send / receive / close outside selects and every goroutine start / wait in api.go, read from the current source, equal the committed table whose rows name the model definitions and theorems they justify"

// checkChanFacts compares (or, with C15_CHANFACTS_WRITE, writes) the table.
func checkChanFacts(run *hx.Run) {
	var tab chanTable
	if err := json.Unmarshal(chanfactsExpectedJSON, &tab); err != nil {
		run.Oblige(obChan, "correspondence", 1, false, "chanfacts_expected.json unreadable: "+err.Error())
		run.Violate("correspondence", "chanfacts_expected.json unreadable: "+err.Error(), "", true, nil)
		return
	}
	got, err := chanFactsOf(filepath.Join(chanRepoRoot(), tab.File))
	if write := os.Getenv("C15_CHANFACTS_WRITE"); write != "" && err == nil {
		old := map[string]string{}
		for _, r := range tab.Rows {
			old[r.Func+"|"+r.Kind+"|"+r.Text] = r.Justifies
		}
		for i := range got {
			got[i].Justifies = old[got[i].Func+"|"+got[i].Kind+"|"+got[i].Text]
		}
		tab.Rows = got
		b, _ := json.MarshalIndent(tab, "", " ")
		os.WriteFile(write, append(b, '\n'), 0o644)
		return
	}
	what := ""
	if err != nil {
		what = fmt.Sprintf("%s: %v", tab.File, err)
	}
	n := len(got)
	if len(tab.Rows) < n {
		n = len(tab.Rows)
	}
	for i := 0; i < n && what == ""; i++ {
		e := tab.Rows[i]
		if got[i].Func != e.Func || got[i].Kind != e.Kind || got[i].Text != e.Text {
			what = fmt.Sprintf("%s, fact %d: the model was written for %s: `%s` (it justifies: %s); the source now has %s: `%s`", tab.File, i+1, e.Func, e.Text, e.Justifies, got[i].Func, got[i].Text)
		}
	}
	if what == "" && len(got) > len(tab.Rows) {
		what = fmt.Sprintf("%s: %d channel facts more than the model was written for, first %s: `%s`", tab.File, len(got)-len(tab.Rows), got[n].Func, got[n].Text)
	}
	if what == "" && len(got) < len(tab.Rows) {
		what = fmt.Sprintf("%s: %d channel facts fewer than the model was written for, first missing %s: `%s` (it justifies: %s)", tab.File, len(tab.Rows)-len(got), tab.Rows[n].Func, tab.Rows[n].Text, tab.Rows[n].Justifies)
	}
	run.CountN("channel-facts-compared", len(got))
	run.Oblige(obChan, "correspondence", len(got), what == "", what)
	if what != "" {
		run.Violate("correspondence", "channel facts of api.go changed (undischarged: the theorems were proved for the old facts) — "+what, "", true, Case{Note: "chanfacts", Query: tab.File})
	}
}
