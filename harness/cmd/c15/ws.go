package main

import (
	"context"
	"encoding/json"
	"fmt"
	"net/http"
	"net/http/httptest"
	"strconv"
	"strings"
	"sync"
	"sync/atomic"
	"time"

	"github.com/gorilla/websocket"
)

// The WebSocket path (graphqlws.go): the same helpers behind HandleStart. A subscription executes
// one request per source event and all of them share a single apiRequest, so what one execution
// leaves behind (abandoned tasks, unflushed batches) meets the next execution's idle handler.

type wsHub struct {
	srv    *httptest.Server
	mu     sync.Mutex
	worlds map[string]*world
	ov     map[string]*ovWorld
	next   int
}

var hub *wsHub

func startHub() *wsHub {
	h := &wsHub{worlds: map[string]*world{}, ov: map[string]*ovWorld{}}
	h.srv = httptest.NewServer(http.HandlerFunc(func(rw http.ResponseWriter, r *http.Request) {
		h.mu.Lock()
		w := h.worlds[r.URL.Query().Get("w")]
		o := h.ov[r.URL.Query().Get("ov")]
		h.mu.Unlock()
		if o != nil {
			theAPI.ServeGraphQLWS(rw, r.WithContext(context.WithValue(r.Context(), ovKey, o)))
			return
		}
		if w == nil {
			http.Error(rw, "no such world", 404)
			return
		}
		theAPI.ServeGraphQLWS(rw, r.WithContext(context.WithValue(r.Context(), worldKey, w)))
	}))
	return h
}

type wsMsg struct {
	ID      string          `json:"id,omitempty"`
	Type    string          `json:"type"`
	Payload json.RawMessage `json:"payload,omitempty"`
}

// serveWS runs the case's operation over the graphql-ws subprotocol and returns the payloads of the
// data messages in order.
func serveWS(c *Case, forceSync bool) *served {
	w := &world{c: c, forceSync: forceSync}
	out := &served{w: w, status: 200}
	if !forceSync {
		curWorld.Store(w)
	}
	hub.mu.Lock()
	hub.next++
	id := strconv.Itoa(hub.next)
	hub.worlds[id] = w
	hub.mu.Unlock()
	defer func() {
		hub.mu.Lock()
		delete(hub.worlds, id)
		hub.mu.Unlock()
	}()
	wd := time.Duration(c.WatchdogMs) * time.Millisecond
	if wd <= 0 {
		wd = 20 * time.Second
	}
	url := "ws" + strings.TrimPrefix(hub.srv.URL, "http") + "/?w=" + id
	d := websocket.Dialer{Subprotocols: []string{"graphql-ws"}, HandshakeTimeout: 30 * time.Second}
	conn, _, err := d.Dial(url, nil)
	if err != nil {
		out.panicked = "harness: cannot dial: " + err.Error()
		return out
	}
	defer conn.Close()
	var wmu sync.Mutex // one writer at a time (the case's cancellation may write from a server-side goroutine)
	send := func(m wsMsg) error {
		b, _ := json.Marshal(m)
		wmu.Lock()
		defer wmu.Unlock()
		return conn.WriteMessage(websocket.TextMessage, b)
	}
	closeDone := make(chan struct{})
	var closeCalled atomic.Bool
	if !forceSync && c.cancels() {
		// the sources that cancel the context the resolvers see (graphqlws.go: Handler.Cancel)
		w.cn.fn = func() {
			switch c.CancelSrc {
			case "terminate":
				send(wsMsg{Type: "connection_terminate"}) //
			case "stop":
				// graphql-ws `stop`: HandleStop stops the source stream (its Run context is cancelled, not the
				// one the resolvers see) while the event is executing; the event must still complete
				send(wsMsg{ID: "1", Type: "stop"})
				return
			case "client-close":
				conn.UnderlyingConn().Close() // the peer vanishes
			default: // close-hijacked
				closeCalled.Store(true)
				go func() { theAPI.CloseHijackedConnections(); close(closeDone) }()
			}
			if c.CancelSrc == "" || c.CancelSrc == "close-hijacked" {
				if !w.awaitCancelled(30 * time.Second) {
					w.cancelNote("harness: CloseHijackedConnections did not cancel the handler's context")
				}
			} else if !w.awaitCancelled(2 * time.Second) {
				w.cancelNote("cancel-source-took-no-effect-within-2s(read loop busy?)")
			}
		}
	}
	if err := send(wsMsg{Type: "connection_init"}); err != nil {
		out.panicked = "harness: " + err.Error()
		return out
	}
	payload, _ := json.Marshal(map[string]string{"query": c.Query})
	if err := send(wsMsg{ID: "1", Type: "start", Payload: payload}); err != nil {
		out.panicked = "harness: " + err.Error()
		return out
	}
	var datas []string
	conn.SetReadDeadline(time.Now().Add(wd))
	for {
		_, p, err := conn.ReadMessage()
		if err != nil {
			if ne, ok := err.(interface{ Timeout() bool }); ok && ne.Timeout() {
				out.deadlock = true
				out.stacks = allStacks()
				return out
			}
			if w.cn.fired.Load() {
				break // the connection went away because the case closed it
			}
			out.panicked = "connection ended before the operation completed: " + err.Error()
			return out
		}
		var m wsMsg
		if json.Unmarshal(p, &m) != nil {
			continue
		}
		if m.Type == "data" && m.ID == "1" {
			datas = append(datas, string(m.Payload))
		}
		if (m.Type == "complete" || m.Type == "error") && m.ID == "1" {
			if m.Type == "error" {
				datas = append(datas, "error:"+string(m.Payload))
			}
			break
		}
	}
	if w.cn.fired.Load() {
		// whatever happened to the connection, every execution that began must return, and a
		// CloseHijackedConnections call must come back
		deadline := time.Now().Add(wd)
		for w.cn.returned.Load() < w.cn.started.Load() || (closeCalled.Load() && !chanClosed(closeDone)) {
			if time.Now().After(deadline) {
				out.deadlock = true
				out.stacks = allStacks()
				return out
			}
			time.Sleep(200 * time.Microsecond)
		}
	}
	wmu.Lock()
	conn.WriteMessage(websocket.CloseMessage, websocket.FormatCloseMessage(websocket.CloseNormalClosure, ""))
	wmu.Unlock()
	conn.SetReadDeadline(time.Now().Add(5 * time.Second))
	for {
		if _, _, err := conn.ReadMessage(); err != nil {
			break
		}
	}
	out.body = strings.Join(datas, "\n")
	out.datas = datas
	w.closeOpen()
	return out
}

func allStacks() string {
	return fmt.Sprint(func() string {
		gs := requestGoroutines()
		var b strings.Builder
		for _, g := range gs {
			b.WriteString(g.stack)
			b.WriteString("\n\n")
		}
		return b.String()
	}())
}

func chanClosed(ch chan struct{}) bool {
	select {
	case <-ch:
		return true
	default:
		return false
	}
}
