package main

import (
	"bytes"
	"encoding/json"
	"fmt"
	"sort"
	"strings"
)

type gqlResponse struct {
	Data   json.RawMessage `json:"data"`
	Errors []struct {
		Message string        `json:"message"`
		Path    []interface{} `json:"path"`
	} `json:"errors"`
}

// canonResponse returns the data bytes and the canonical error set of a response body.
//
// Errors are compared as a *set* (the order in which asynchronous failures are appended depends on
// completion order; duplicates are C02's business, F-02b). An error located inside a part of the
// response that was discarded by null propagation is mapped to the position that became null,
// without its message: which of several failing fields under one nulled position gets reported
// legitimately depends on the completion order and on which siblings were still pending when the
// parent was given up. An error whose whole path exists in the data keeps its path and message.
func canonResponse(body string) (data string, errs []string, err error) {
	var r gqlResponse
	dec := json.NewDecoder(strings.NewReader(body))
	dec.UseNumber()
	if e := dec.Decode(&r); e != nil {
		return "", nil, fmt.Errorf("response is not JSON: %v: %q", e, body)
	}
	var tree interface{}
	if len(r.Data) > 0 {
		d := json.NewDecoder(bytes.NewReader(r.Data))
		d.UseNumber()
		if e := d.Decode(&tree); e != nil {
			return "", nil, e
		}
	}
	set := map[string]bool{}
	for _, e := range r.Errors {
		if e.Path == nil {
			set["nopath|"+e.Message] = true
			continue
		}
		cur := tree
		full := true
		var loc []string
		for _, el := range e.Path {
			if cur == nil {
				full = false
				break
			}
			switch c := cur.(type) {
			case map[string]interface{}:
				k, _ := el.(string)
				cur = c[k]
			case []interface{}:
				idx := -1
				if n, ok := el.(json.Number); ok {
					if v, e := n.Int64(); e == nil {
						idx = int(v)
					}
				}
				if idx < 0 || idx >= len(c) {
					cur = nil
				} else {
					cur = c[idx]
				}
			default:
				cur = nil
			}
			loc = append(loc, fmt.Sprint(el))
		}
		if full {
			set[strings.Join(loc, "/")+"|"+e.Message] = true
		} else {
			set[strings.Join(loc, "/")+"|*"] = true
		}
	}
	for k := range set {
		errs = append(errs, k)
	}
	sort.Strings(errs)
	return string(r.Data), errs, nil
}

// batchOracle states the batching part of the property on the call log of the batch functions.
func (w *world) batchOracle() (string, string) {
	msg := w.batchOracle1()
	if msg == "" {
		return "", ""
	}
	// F-15c: the only thing wrong is that batch functions also received invocations left behind by an
	// earlier execution on the same apiRequest (subscription events)
	if w.execs > 1 && w.staleOnly() {
		return msg, findingF15c
	}
	return msg, ""
}

// staleOnly: every call is the pending invocations of its round, in order, preceded by invocations
// whose execution had returned before they were flushed; nothing else is wrong with the log.
func (w *world) staleOnly() bool {
	seen := map[int]int{}
	perRound := map[[2]int]int{}
	for _, c := range w.calls {
		perRound[[2]int{c.round, c.k}]++
		if perRound[[2]int{c.round, c.k}] > 1 || c.round < 1 || c.round > len(w.rounds) {
			return false
		}
		var fresh []int
		for _, id := range c.items {
			if id < 0 || id >= len(w.regs) || w.regs[id].k != c.k {
				return false
			}
			seen[id]++
			if seen[id] > 1 {
				return false
			}
			if w.regs[id].flushed == -1 {
				if len(fresh) > 0 {
					return false
				}
				continue
			}
			fresh = append(fresh, id)
		}
		if fmt.Sprint(fresh) != fmt.Sprint(append([]int{}, w.rounds[c.round-1].pendingBefore[c.k]...)) {
			return false
		}
	}
	for r := 1; r <= len(w.rounds); r++ {
		for k, pend := range w.rounds[r-1].pendingBefore {
			if len(pend) > 0 && perRound[[2]int{r, k}] == 0 {
				return false
			}
		}
	}
	return true
}

func (w *world) batchOracle1() string {
	byRound := map[int]map[int][]callObs{}
	for _, c := range w.calls {
		if byRound[c.round] == nil {
			byRound[c.round] = map[int][]callObs{}
		}
		byRound[c.round][c.k] = append(byRound[c.round][c.k], c)
	}
	for r := 1; r <= len(w.rounds); r++ {
		ro := w.rounds[r-1]
		for k, cs := range byRound[r] {
			if len(cs) > 1 {
				return fmt.Sprintf("idle point %d: batch resolver %d was called %d times (items %v) — all pending invocations must be delivered in a single call", r, k, len(cs), callItems(cs))
			}
			if len(ro.pendingBefore[k]) == 0 {
				return fmt.Sprintf("idle point %d: batch resolver %d was called with %v although none of its invocations was pending", r, k, w.regKeys(cs[0].items))
			}
		}
		for k, pend := range ro.pendingBefore {
			cs := byRound[r][k]
			if len(cs) == 0 {
				return fmt.Sprintf("idle point %d: invocations %v of batch resolver %d were pending but the resolver was not called", r, w.regKeys(pend), k)
			}
			if fmt.Sprint(cs[0].items) != fmt.Sprint(pend) {
				return fmt.Sprintf("idle point %d: batch resolver %d received %v, pending (in registration order) were %v", r, k, w.regKeys(cs[0].items), w.regKeys(pend))
			}
		}
	}
	if cs := byRound[0]; len(cs) > 0 {
		return "a batch function ran before any idle point"
	}
	for _, r := range w.regs {
		if r.seen > 1 {
			return fmt.Sprintf("field context %s was passed to its batch function %d times", r.key, r.seen)
		}
	}
	return ""
}

func callItems(cs []callObs) interface{} {
	var out [][]int
	big := false
	for _, c := range cs {
		out = append(out, c.items)
		if len(c.items) > 20 {
			big = true
		}
	}
	if big {
		var sizes []string
		for _, c := range cs {
			sizes = append(sizes, fmt.Sprintf("%d items", len(c.items)))
		}
		return sizes
	}
	return out
}

func (w *world) regKeys(ids []int) []string {
	var out []string
	for _, id := range ids {
		if id >= 0 && id < len(w.regs) {
			out = append(out, w.regs[id].key)
		} else {
			out = append(out, "?")
		}
	}
	return out
}

// progressOracle states "pending when execution can no longer proceed": the idle handler may only be
// called once every resolver whose object is available has been called. A field on an object that
// came out of a promise fulfilled in idle round r (a Go task's, observed in the promise buffer when
// the handler returned; a batch invocation's, in the round its batch function was called) — or out of
// a synchronous parent called after round r — must have its resolver called before idle round r+1
// begins. Otherwise later waves see only part of the invocations that belong together (one batch call
// per list item instead of one per wave) although every response is still correct.
func (w *world) progressOracle() string {
	for _, x := range w.invList {
		if x.parent == "" {
			continue
		}
		p := w.invMap[x.parent]
		if p == nil || p.exec != x.exec {
			continue
		}
		want := p.round
		how := "was resolved synchronously after"
		switch {
		case p.t != nil:
			if p.t.deliveredRound < 0 {
				continue
			}
			want, how = p.t.deliveredRound, "came out of a Go promise fulfilled at"
		case p.r != nil:
			if p.r.flushed <= 0 {
				continue
			}
			want, how = p.r.flushed, "came out of the batch call of"
		case p.conn && p.connAsync:
			// the connection's resolver returned a promise of pagination.go's own chain goroutine: its
			// delivery is visible only through api.go's trace points
			if !hookMode || p.finalPid < 0 {
				continue
			}
			w.mu.Lock()
			r, ok := w.pidRound[p.finalPid]
			w.mu.Unlock()
			if !ok {
				continue
			}
			want, how = r, "came out of the connection's promise, which the idle handler fulfilled at"
		}
		if x.round != want {
			return fmt.Sprintf("the resolver of %s was first called after idle point %d although its object (%s) %s idle point %d: the idle handler was invoked while execution could still proceed, so the invocations pending at idle point %d were not all that belong to the wave", x.key, x.round, p.key, how, want, want+1)
		}
	}
	return ""
}

// nodeOracle states "every field receives exactly the result produced for it" for apifu's built-in
// `node(id:)` / `nodes(ids:)` root fields: whatever way the lookups are fetched (one by one today; in
// one batched ResolveNodesByGlobalIds call if they are ever coalesced), the field asked for id X holds
// the node whose id is X (null when it does not exist), and `nodes` holds exactly the existing ones —
// the application returns nodes in an order of its own.
func nodeOracle(tree []Sel, body string) string {
	var r struct {
		Data map[string]json.RawMessage `json:"data"`
	}
	if json.Unmarshal([]byte(body), &r) != nil || r.Data == nil {
		return ""
	}
	exists := func(id string) bool { return len(id) == 2 && id[0] == 'N' }
	for _, s := range tree {
		raw, ok := r.Data[fmt.Sprintf("f%d", s.ID)]
		if !ok {
			continue
		}
		switch s.Name {
		case "node":
			var got *struct {
				ID string `json:"id"`
			}
			if json.Unmarshal(raw, &got) != nil {
				return fmt.Sprintf("node(id: %q) is not an object: %s", s.Args, raw)
			}
			switch {
			case got == nil && exists(s.Args):
				return fmt.Sprintf("node(id: %q) is null although the node exists", s.Args)
			case got != nil && !exists(s.Args):
				return fmt.Sprintf("node(id: %q) holds node %q although no such node exists", s.Args, got.ID)
			case got != nil && got.ID != s.Args:
				return fmt.Sprintf("node(id: %q) holds node %q: the field received the result produced for another field context", s.Args, got.ID)
			}
		case "nodes":
			var got []struct {
				ID string `json:"id"`
			}
			if json.Unmarshal(raw, &got) != nil {
				return fmt.Sprintf("nodes(ids: %s) is not a list: %s", s.Args, raw)
			}
			want := map[string]int{}
			for _, id := range strings.Split(s.Args, ",") {
				if exists(id) {
					want[id]++
				}
			}
			for _, g := range got {
				want[g.ID]--
			}
			for id, n := range want {
				if n != 0 {
					return fmt.Sprintf("nodes(ids: %s): node %q is %d time(s) off", s.Args, id, n)
				}
			}
		}
	}
	return ""
}
