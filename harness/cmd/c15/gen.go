package main

import (
	"fmt"
	"strings"

	apifu "github.com/ccbrown/api-fu"

	"verifharness/hx"
)

func renderSel(b *strings.Builder, s Sel) {
	if s.Name == "node" || s.Name == "nodes" {
		// the built-in root fields of apifu (config.go); Args holds the global id(s)
		if s.Name == "node" {
			fmt.Fprintf(b, "f%d: node(id: %q) { id ... on GNode { v ", s.ID, s.Args)
		} else {
			var ids []string
			for _, id := range strings.Split(s.Args, ",") {
				ids = append(ids, fmt.Sprintf("%q", id))
			}
			fmt.Fprintf(b, "f%d: nodes(ids: [%s]) { id ... on GNode { v ", s.ID, strings.Join(ids, ", "))
		}
		for _, x := range s.Sub {
			renderSel(b, x)
			b.WriteByte(' ')
		}
		b.WriteString("} }")
		return
	}
	fmt.Fprintf(b, "f%d: %s(id: %d%s)", s.ID, s.Name, s.ID, s.Args)
	if s.Raw != "" {
		b.WriteString(" " + s.Raw)
		return
	}
	if len(s.Parts) > 0 {
		b.WriteString(" {")
		for _, part := range s.Parts {
			switch part {
			case "edges":
				if len(s.Sub) > 0 {
					b.WriteString(" edges { cursor node { ")
					for _, x := range s.Sub {
						renderSel(b, x)
						b.WriteByte(' ')
					}
					b.WriteString("} }")
				} else {
					b.WriteString(" edges { cursor }")
				}
			case "edges2":
				b.WriteString(" e2: edges { cursor }")
			case "totalCount":
				b.WriteString(" totalCount")
			case "totalCount2":
				b.WriteString(" tc2: totalCount")
			case "pageInfo":
				b.WriteString(" pageInfo { hasNextPage hasPreviousPage startCursor endCursor }")
			case "pageInfo2":
				b.WriteString(" pi2: pageInfo { hasNextPage endCursor }")
			}
		}
		b.WriteString(" }")
		return
	}
	if len(s.Sub) == 0 {
		return
	}
	switch s.Name {
	case "c", "t", "ca", "cd", "tu":
		b.WriteString(" { edges { cursor node { ")
		for _, x := range s.Sub {
			renderSel(b, x)
			b.WriteByte(' ')
		}
		b.WriteString("} } }")
	default:
		b.WriteString(" { ")
		for _, x := range s.Sub {
			renderSel(b, x)
			b.WriteByte(' ')
		}
		b.WriteString("}")
	}
}

func render(op string, tree []Sel) string {
	var b strings.Builder
	if op != "" {
		b.WriteString(op + " ")
	}
	b.WriteString("{ ")
	for _, s := range tree {
		renderSel(&b, s)
		b.WriteByte(' ')
	}
	b.WriteString("}")
	return b.String()
}

type gen struct {
	r      *hx.Rand
	id     int
	budget int
}

func (g *gen) nextID() int { g.id++; return g.id }

func intCursor(j int) string { s, _ := apifu.SerializeCursor(j); return s }
func timeCursor(j int) string {
	s, _ := apifu.SerializeCursor(apifu.NewTimeBasedCursor(edgeTime(j), fmt.Sprintf("%03d", j)))
	return s
}

var connTails = []string{
	"{ edges { cursor } }",
	"{ pageInfo { hasNextPage hasPreviousPage startCursor endCursor } }",
	"{ edges { cursor } pageInfo { hasNextPage endCursor } }",
}

func (g *gen) sel(depth int, root bool, mutation bool) Sel {
	g.budget--
	names := []string{"i", "i", "i", "n", "o", "o", "p", "l", "c", "t", "ca", "cd", "tu"}
	if mutation && root {
		names = []string{"i", "i", "n", "o", "l", "c"}
	}
	if depth <= 0 || g.budget <= 0 {
		names = []string{"i", "i", "i", "n"}
	}
	s := Sel{Name: hx.Pick(g.r, names), ID: g.nextID()}
	switch s.Name {
	case "o", "p", "l":
		s.Sub = g.sels(depth-1, false, false)
	case "ca", "cd", "tu":
		lim := hx.Pick(g.r, []int{0, 0, 1, 2, 3})
		s.Args = connArgs(g.r, s.Name, lim)
		s.Parts = connParts(g.r, s.Name)
		if g.r.Chance(1, 3) && depth > 0 && g.budget > 0 {
			s.Sub = g.sels(depth-1, false, false)
		}
	case "c", "t":
		lim := hx.Pick(g.r, []int{0, 1, 2, 2, 3, 5})
		arg := "first"
		if g.r.Chance(1, 4) {
			arg = "last"
		}
		s.Args = fmt.Sprintf(", %s: %d", arg, lim)
		if s.Name == "c" {
			if g.r.Chance(1, 4) {
				s.Args += fmt.Sprintf(", after: %q", intCursor(g.r.Intn(2)))
			}
		} else {
			if g.r.Chance(1, 2) {
				s.Args += fmt.Sprintf(", after: %q", timeCursor(g.r.Intn(3)))
			}
			if g.r.Chance(1, 3) {
				s.Args += fmt.Sprintf(", before: %q", timeCursor(3+g.r.Intn(3)))
			}
		}
		if g.r.Chance(1, 2) && depth > 0 && g.budget > 0 {
			s.Sub = g.sels(depth-1, false, false)
		} else {
			s.Raw = hx.Pick(g.r, connTails)
		}
	}
	return s
}

func (g *gen) sels(depth int, root bool, mutation bool) []Sel {
	n := g.r.Range(1, 4)
	if root {
		n = g.r.Range(1, 5)
	}
	var out []Sel
	for i := 0; i < n; i++ {
		out = append(out, g.sel(depth, root, mutation))
	}
	return out
}

func randomCase(r *hx.Rand) Case {
	g := &gen{r: r, budget: r.Range(3, 14)}
	c := Case{
		Seed:   r.Uint64(),
		PAsync: hx.Pick(r, []int{30, 60, 90, 100}),
		PBatch: hx.Pick(r, []int{0, 30, 50, 80, 100}),
		PErr:   hx.Pick(r, []int{0, 0, 5, 15, 30}),
		PNull:  hx.Pick(r, []int{0, 5, 10}),
		MaxN:   hx.Pick(r, []int{3, 3, 3, 8}),
		PGate:  hx.Pick(r, []int{0, 50, 100, 100}),
		PPre:   hx.Pick(r, []int{0, 50, 100}),
		RoundK: hx.Pick(r, []int{1, 1, 2, 4}),
		Procs:  hx.Pick(r, []int{1, 2, 4, 16}),
	}
	mutation := r.Chance(1, 7)
	if mutation {
		c.Op = "mutation"
	}
	c.Tree = g.sels(r.Range(1, 3), true, mutation)
	c.Query = render(c.Op, c.Tree)
	return c
}

// nestedCase: two to three levels of asynchronous resolution below lists of 2..5 items and below
// sibling object fields, every level through Batch / Go / a mix: the invocations below everything one
// wave fulfilled must all be pending — and be delivered by one call per resolver — at the next idle point.
func nestedCase(r *hx.Rand) Case {
	c := Case{
		Seed:   r.Uint64(),
		PAsync: hx.Pick(r, []int{100, 100, 100, 85}),
		PBatch: hx.Pick(r, []int{100, 100, 70, 50, 30, 0}),
		PErr:   hx.Pick(r, []int{0, 0, 0, 5}),
		PGate:  hx.Pick(r, []int{0, 50, 100}),
		PPre:   hx.Pick(r, []int{0, 50, 100}),
		RoundK: hx.Pick(r, []int{1, 2, 4}),
		Procs:  hx.Pick(r, []int{1, 2, 4, 16}),
		MinN:   2, MaxN: 5,
	}
	g := &gen{r: r}
	var level func(depth int) []Sel
	level = func(depth int) []Sel {
		var out []Sel
		for i, n := 0, r.Range(1, 2); i < n; i++ {
			if depth <= 1 {
				out = append(out, Sel{Name: "i", ID: g.nextID()})
				continue
			}
			name := hx.Pick(r, []string{"o", "o", "l", "i"})
			s := Sel{Name: name, ID: g.nextID()}
			if name != "i" {
				s.Sub = level(depth - 1)
			}
			out = append(out, s)
		}
		return out
	}
	depth := r.Range(2, 3)
	if r.Chance(1, 2) {
		// below lists
		for i, n := 0, r.Range(1, 2); i < n; i++ {
			c.Tree = append(c.Tree, Sel{Name: "l", ID: g.nextID(), Sub: level(depth)})
		}
	} else {
		// below sibling object fields
		for i, n := 0, r.Range(2, 4); i < n; i++ {
			c.Tree = append(c.Tree, Sel{Name: hx.Pick(r, []string{"o", "o", "o", "p"}), ID: g.nextID(), Sub: level(depth)})
		}
	}
	if r.Chance(1, 4) {
		c.Tree = append(c.Tree, Sel{Name: "i", ID: g.nextID()})
	}
	c.Query = render(c.Op, c.Tree)
	return c
}

// addNodeLookups puts 2..4 lookups of distinct global ids through apifu's built-in `node` field (and
// sometimes a `nodes` field) among the root fields of a query, in an order that is not the order in
// which the application returns them; one id in five does not exist.
func addNodeLookups(r *hx.Rand, c *Case) {
	if c.Op != "" {
		return
	}
	maxID := 0
	var walk func(t []Sel)
	walk = func(t []Sel) {
		for _, s := range t {
			if s.ID > maxID {
				maxID = s.ID
			}
			walk(s.Sub)
		}
	}
	walk(c.Tree)
	pool := []string{"N0", "N1", "N2", "N3", "N4", "N5", "N6", "N7", "N8", "N9"}
	hx.Shuffle(r, pool)
	n := r.Range(2, 4)
	var lookups []Sel
	for i := 0; i < n; i++ {
		id := pool[i]
		if r.Chance(1, 5) {
			id = "X" + id[1:]
		}
		maxID++
		s := Sel{Name: "node", ID: maxID, Args: id}
		if r.Chance(1, 3) {
			maxID++
			s.Sub = []Sel{{Name: "i", ID: maxID}}
		}
		lookups = append(lookups, s)
	}
	if r.Chance(1, 3) {
		maxID++
		lookups = append(lookups, Sel{Name: "nodes", ID: maxID, Args: strings.Join(pool[4:4+r.Range(1, 4)], ",")})
	}
	// interleave with the existing root fields
	tree := append([]Sel{}, c.Tree...)
	for _, l := range lookups {
		at := r.Intn(len(tree) + 1)
		tree = append(tree[:at], append([]Sel{l}, tree[at:]...)...)
	}
	c.Tree = tree
	c.Query = render(c.Op, c.Tree)
}

// nodeMatrix: every ordered pair and triple of lookups over three existing ids and a missing one,
// next to an asynchronous sibling.
func nodeMatrix(procs []int) []Case {
	ids := []string{"N1", "N2", "N3", "X9"}
	var out []Case
	n := 0
	add := func(sel []string) {
		c := Case{Seed: uint64(7000 + n), RoundK: 1, Procs: procs[n%len(procs)], PAsync: 100, PBatch: []int{0, 100}[n%2], PGate: 100, PPre: []int{0, 100}[(n/2)%2]}
		for i, id := range sel {
			c.Tree = append(c.Tree, Sel{Name: "node", ID: i + 1, Args: id})
		}
		c.Tree = append(c.Tree, Sel{Name: "i", ID: 9})
		if n%3 == 0 {
			c.Tree = append(c.Tree, Sel{Name: "nodes", ID: 10, Args: strings.Join(sel, ",")})
		}
		c.Query = render("", c.Tree)
		out = append(out, c)
		n++
	}
	for _, a := range ids {
		for _, b := range ids {
			if a == b {
				continue
			}
			add([]string{a, b})
			for _, d := range ids {
				if d != a && d != b {
					add([]string{a, b, d})
				}
			}
		}
	}
	return out
}

// wideCases: scale boundaries the other families do not reach — more chain users in one executor sweep
// than any plausible per-request concurrency bound (70 / 130 aliased promise-backed connections, and a
// list of 70 parents each with one), and more pending invocations of one Batch resolver in one wave than
// any plausible chunk size (lists of 1001 / 2500 items each selecting a batched field).
func wideCases() []Case {
	var out []Case
	for _, n := range []int{70, 130} {
		c := Case{Seed: uint64(9000 + n), PAsync: 100, PBatch: 0, PGate: 0, RoundK: 4, Procs: 4, MaxN: 2, Note: fmt.Sprintf("%d aliased connections with promised edges", n)}
		for i := 1; i <= n; i++ {
			kind := []string{"c", "ca", "t"}[i%3]
			c.Tree = append(c.Tree, Sel{Name: kind, ID: i, Args: ", first: 1", Parts: []string{"edges"}})
		}
		c.Query = render("", c.Tree)
		out = append(out, c)
	}
	lp := Case{Seed: 9070, PAsync: 100, PBatch: 0, PGate: 0, RoundK: 4, Procs: 2, MinN: 70, MaxN: 70, NoNil: true, Note: "a list of 70 parents, each with a connection with promised edges",
		Over: map[string]Spec{"/l1": {Mode: "sync", Out: "val", N: 70}},
		Tree: []Sel{{Name: "l", ID: 1, Sub: []Sel{{Name: "c", ID: 2, Args: ", first: 1", Parts: []string{"edges"}}}}}}
	lp.Query = render("", lp.Tree)
	out = append(out, lp)
	for _, n := range []int{1001, 2500} {
		c := Case{Seed: uint64(9100 + n), PAsync: 100, PBatch: 100, RoundK: 1, Procs: 4, MinN: n, MaxN: n, NoNil: true, OneBatcher: true,
			Note: fmt.Sprintf("a list of %d items each selecting a field of one Batch resolver", n),
			Tree: []Sel{{Name: "l", ID: 1, Sub: []Sel{{Name: "i", ID: 2}}}, {Name: "i", ID: 3}}}
		c.Query = render("", c.Tree)
		out = append(out, c)
	}
	return out
}

var connKinds = []string{"c", "ca", "cd", "t", "tu"}

func hasCount(kind string) bool { return kind == "ca" || kind == "cd" || kind == "tu" }

func connParts(r *hx.Rand, kind string) []string {
	pool := []string{"edges", "pageInfo", "pageInfo2", "edges2"}
	if hasCount(kind) {
		pool = append(pool, "totalCount", "totalCount", "totalCount2")
	}
	hx.Shuffle(r, pool)
	n := r.Range(1, 4)
	seen := map[string]bool{}
	var out []string
	for _, x := range pool {
		if len(out) < n && !seen[x] {
			seen[x] = true
			out = append(out, x)
		}
	}
	return out
}

func connArgs(r *hx.Rand, kind string, limit int) string {
	arg := "first"
	if r.Chance(1, 3) {
		arg = "last"
	}
	args := fmt.Sprintf(", %s: %d", arg, limit)
	if kind == "t" || kind == "tu" {
		if r.Chance(1, 2) {
			args += fmt.Sprintf(", after: %q", timeCursor(r.Intn(3)))
		}
		if r.Chance(1, 3) {
			args += fmt.Sprintf(", before: %q", timeCursor(3+r.Intn(3)))
		}
	} else if r.Chance(1, 4) {
		args += fmt.Sprintf(", after: %q", intCursor(r.Intn(2)))
	}
	return args
}

// connCase: connection fields of every resolver kind (ResolveEdges / ResolveAllEdges, with and without
// ResolveTotalCount, time-based) × page size {0, 1, n} × every combination of edges / totalCount /
// pageInfo incl. the same field under two aliases × {sync, Go, Batch}: with a zero page size every
// pageInfo/totalCount field fetches the edges for itself and chains on its own promise.
func connCase(r *hx.Rand) Case {
	c := Case{
		Seed:   r.Uint64(),
		PAsync: hx.Pick(r, []int{100, 100, 70, 40}),
		PBatch: hx.Pick(r, []int{0, 0, 50, 100}),
		PErr:   hx.Pick(r, []int{0, 0, 5, 15}),
		PGate:  hx.Pick(r, []int{0, 50, 100}),
		PPre:   hx.Pick(r, []int{0, 50, 100}),
		RoundK: hx.Pick(r, []int{1, 2, 4}),
		Procs:  hx.Pick(r, []int{1, 2, 4, 16}),
	}
	g := &gen{r: r}
	mk := func() Sel {
		kind := hx.Pick(r, connKinds)
		limit := hx.Pick(r, []int{0, 0, 1, 2, 3})
		s := Sel{Name: kind, ID: g.nextID(), Args: connArgs(r, kind, limit), Parts: connParts(r, kind)}
		if r.Chance(1, 3) {
			s.Sub = []Sel{{Name: "i", ID: g.nextID()}}
		}
		return s
	}
	for i, n := 0, r.Range(1, 3); i < n; i++ {
		s := mk()
		switch r.Intn(4) {
		case 0:
			s = Sel{Name: "o", ID: g.nextID(), Sub: []Sel{s, {Name: "i", ID: g.nextID()}}}
		case 1:
			s = Sel{Name: "l", ID: g.nextID(), Sub: []Sel{s}}
		}
		c.Tree = append(c.Tree, s)
	}
	if r.Chance(1, 3) {
		c.Tree = append(c.Tree, Sel{Name: "i", ID: g.nextID()})
	}
	c.Query = render(c.Op, c.Tree)
	return c
}

// connMatrix: one connection field; kind × page size × selection × resolution mode, exhaustively.
func connMatrix(procs []int) []Case {
	selections := [][]string{{"edges"}, {"pageInfo"}, {"totalCount"}, {"edges", "pageInfo"}, {"edges", "totalCount"},
		{"totalCount", "pageInfo"}, {"edges", "totalCount", "pageInfo"}, {"pageInfo", "pageInfo2"}, {"totalCount", "totalCount2"},
		{"pageInfo", "totalCount", "pageInfo2", "totalCount2"}, {"edges", "edges2", "pageInfo"}}
	type m struct {
		mode, gate string
	}
	modes := []m{{"sync", ""}, {"go", "post"}, {"go", "pre"}, {"batch", ""}}
	var out []Case
	n := 0
	for _, kind := range connKinds {
		for _, limit := range []int{0, 1, 3} {
			for _, sel := range selections {
				usesCount := false
				for _, p := range sel {
					if strings.HasPrefix(p, "totalCount") {
						usesCount = true
					}
				}
				if usesCount && !hasCount(kind) {
					continue
				}
				for _, mm := range modes {
					arg := "first"
					if n%3 == 2 {
						arg = "last"
					}
					c := Case{Seed: uint64(5000 + n), RoundK: 1 + n%2, Procs: procs[n%len(procs)], PAsync: 100, PBatch: 0, PGate: 100, PPre: 50, Over: map[string]Spec{},
						Tree: []Sel{{Name: kind, ID: 1, Args: fmt.Sprintf(", %s: %d", arg, limit), Parts: sel}, {Name: "i", ID: 2}}}
					if mm.mode == "batch" {
						c.PBatch = 100
					}
					if mm.mode == "sync" {
						c.PAsync = 0
					}
					if mm.gate != "" {
						if mm.gate == "pre" {
							c.PPre = 100
						} else {
							c.PPre = 0
						}
					}
					c.Query = render("", c.Tree)
					out = append(out, c)
					n++
				}
			}
		}
	}
	return out
}

// wsCase: the operation goes through ServeGraphQLWS; half of them are subscriptions with 1..3 events
// whose executions share one apiRequest (with abandonment in between: a failing non-null field).
func wsCase(r *hx.Rand) Case {
	c := randomCase(r)
	c.WS = true
	if c.Op == "mutation" || r.Chance(1, 2) {
		c.Op = "subscription"
		c.Events = r.Range(1, 3)
		g := &gen{r: r, id: 100, budget: r.Range(2, 8)}
		sub := g.sels(r.Range(1, 2), false, false)
		if r.Chance(1, 2) {
			sub = append(sub, Sel{Name: "n", ID: g.nextID()})
		}
		c.Tree = []Sel{{Name: "s", ID: 1, Sub: sub}}
		c.PErr = hx.Pick(r, []int{5, 15, 30, 30})
	}
	c.Query = render(c.Op, c.Tree)
	return c
}

// abandonCase: an asynchronous field followed by a synchronously failing non-null sibling, at the
// root or below a nullable object (F-15a's shape and its neighbours: chained and batched promises).
func abandonCase(r *hx.Rand) Case {
	c := Case{Seed: r.Uint64(), PAsync: 100, PBatch: hx.Pick(r, []int{0, 0, 40, 100}), PGate: hx.Pick(r, []int{0, 100, 100}), PPre: hx.Pick(r, []int{0, 100}),
		RoundK: hx.Pick(r, []int{1, 3}), Procs: hx.Pick(r, []int{1, 2, 4, 16}), Over: map[string]Spec{}}
	g := &gen{r: r, budget: 6}
	var victims []Sel
	for i, n := 0, r.Range(1, 3); i < n; i++ {
		name := hx.Pick(r, []string{"i", "o", "l", "c", "t", "i"})
		s := Sel{Name: name, ID: g.nextID()}
		switch name {
		case "o", "l":
			s.Sub = []Sel{{Name: "i", ID: g.nextID()}}
		case "c":
			s.Args = fmt.Sprintf(", first: %d", hx.Pick(r, []int{0, 2}))
			s.Raw = hx.Pick(r, connTails)
		case "t":
			s.Args = fmt.Sprintf(", first: %d, after: %q", hx.Pick(r, []int{0, 2}), timeCursor(1))
			s.Raw = hx.Pick(r, connTails)
		}
		victims = append(victims, s)
	}
	bad := Sel{Name: "n", ID: g.nextID()}
	sels := append(victims, bad)
	prefix := ""
	if r.Chance(1, 2) {
		// below a nullable object: the request goes on after the failure
		parent := Sel{Name: "o", ID: g.nextID(), Sub: sels}
		prefix = fmt.Sprintf("/o%d", parent.ID)
		c.Over[prefix] = Spec{Mode: hx.Pick(r, []string{"sync", "go"}), Out: "val", Gate: "free"}
		c.Tree = []Sel{parent, {Name: "i", ID: g.nextID()}}
	} else {
		c.Tree = sels
	}
	c.Over[fmt.Sprintf("%s/n%d", prefix, bad.ID)] = Spec{Mode: "sync", Out: hx.Pick(r, []string{"err", "null"})}
	c.Query = render(c.Op, c.Tree)
	return c
}

// exhaustiveCases: three sibling fields, every assignment of {sync, go(pre), go(post), go(free), batch0, batch1}
// and every release order of the gated tasks.
func exhaustiveCases(procs []int) []Case {
	type m struct {
		mode, gate string
		batch      int
	}
	modes := []m{{"sync", "", 0}, {"go", "pre", 0}, {"go", "post", 0}, {"go", "free", 0}, {"batch", "", 0}, {"batch", "", 1}}
	perms := [][]int{{0, 1, 2}, {0, 2, 1}, {1, 0, 2}, {1, 2, 0}, {2, 0, 1}, {2, 1, 0}}
	var out []Case
	n := 0
	for a := range modes {
		for b := range modes {
			for cc := range modes {
				for _, perm := range perms {
					idx := []int{a, b, cc}
					gated := 0
					for _, x := range idx {
						if modes[x].mode == "go" && modes[x].gate != "free" {
							gated++
						}
					}
					if gated < 2 && (perm[0] != 0 || perm[1] != 1) {
						continue // release order is irrelevant
					}
					c := Case{Seed: uint64(1000 + n), RoundK: 1 + n%3, Procs: procs[n%len(procs)], Over: map[string]Spec{},
						Tree: []Sel{{Name: "i", ID: 1}, {Name: "o", ID: 2, Sub: []Sel{{Name: "i", ID: 4}}}, {Name: "i", ID: 3}}}
					for j, key := range []string{"/i1", "/o2", "/i3"} {
						mm := modes[idx[j]]
						c.Over[key] = Spec{Mode: mm.mode, Gate: mm.gate, Batch: mm.batch, Out: "val", Rank: perm[j], Delay: n % 4}
					}
					c.Over["/o2/i4"] = Spec{Mode: modes[(a+b+cc)%len(modes)].mode, Gate: "pre", Batch: 0, Out: "val", Rank: 5}
					c.Query = render("", c.Tree)
					out = append(out, c)
					n++
				}
			}
		}
	}
	return out
}
