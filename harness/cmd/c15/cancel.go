package main

import (
	"bytes"
	"context"
	"encoding/json"
	"fmt"
	"sync"
	"sync/atomic"
	"time"

	"verifharness/hx"
)

// Cancellation of the request's context as an event of the history.
//
// The statement promises that "the request completes for every possible order and timing in which the
// background work finishes" and that "no goroutine started on its behalf stays blocked forever" when it
// returns. A context that is cancelled while background work is in flight (the HTTP client went away:
// net/http cancels r.Context(); the WebSocket connection is closed by the peer, by
// `connection_terminate` or by CloseHijackedConnections: graphqlws.go cancels the handler's context)
// is one more timing: the helpers do not look at the context, so the request must still terminate —
// every started task is received by the idle handler or leaves through `done` — and leak nothing. What
// the response contains is weaker than without cancellation (the executor fails every field it reaches
// after the cancellation, graphql/executor executeField), so response equality is replaced by: every
// value that is present is the value the all-synchronous run has at that position.
//
// Where the cancellation falls relative to a task (the controller knows every idle point and owns the
// gates of the task bodies):
//   CancelAt n                     inside the n-th resolver call, before it calls Go/Batch: the task starts
//                                  on a cancelled context
//   CancelRound r, before-release  at idle point r before the round's gates open: the bodies return on a
//                                  cancelled context; `pre` tasks return before the handler receives
//                                  (finished, not delivered), `post` tasks while it is blocked
//   CancelRound r, after-pre       after the `pre` bodies returned, before the handler is entered
//   CancelRound r, inside          from another goroutine while the handler is blocked, before or after
//                                  (racing with) the `post` gates
// A select between a ready hand-off and a closed Done channel picks either with probability 1/2, so
// every shape is repeated under several seeds (cancelCases).

type cancelState struct {
	mu       sync.Mutex
	fn       func() // the source of the cancellation (serve / serveWS)
	fired    atomic.Bool
	started  atomic.Int32 // executions begun / returned (WS: the connection may be gone before `complete`)
	returned atomic.Int32
	ctx      context.Context // the context the resolvers of the current execution see
	notes    []string
}

func (c *Case) cancels() bool { return c.CancelAt > 0 || c.CancelRound > 0 }

func (w *world) execBegins(ctx context.Context) {
	w.cn.mu.Lock()
	w.cn.ctx = ctx
	w.cn.mu.Unlock()
	w.cn.started.Add(1)
}

func (w *world) cancelAtCall() {
	if !w.forceSync && w.c.CancelAt > 0 && w.invoked == w.c.CancelAt {
		w.cancelNow()
	}
}

// cancelNow fires the case's cancellation source once.
func (w *world) cancelNow() {
	if w.forceSync || w.cn.fired.Swap(true) {
		return
	}
	w.addEvent(event{kind: "cancel"}) // rendered as the model's (cancel) label (Cancel.lean)
	w.cn.mu.Lock()
	fn := w.cn.fn
	w.cn.mu.Unlock()
	if fn != nil {
		fn()
	}
}

// awaitCancelled waits (bounded) until the resolvers' context is actually cancelled — a WebSocket
// source acts through the connection's read/close path. It decides nothing: a source that has no
// effect while the read loop is busy (terminate / client-close during a query) is only counted.
func (w *world) awaitCancelled(max time.Duration) bool {
	w.cn.mu.Lock()
	ctx := w.cn.ctx
	w.cn.mu.Unlock()
	if ctx == nil {
		return false
	}
	select {
	case <-ctx.Done():
		return true
	case <-time.After(max):
		return false
	}
}

func (w *world) cancelNote(format string, a ...any) {
	w.cn.mu.Lock()
	w.cn.notes = append(w.cn.notes, fmt.Sprintf(format, a...))
	w.cn.mu.Unlock()
}

// subsumed: every value present in `got` (the run with cancellation) is the value `want` (the
// all-synchronous run) has at that position; a null is always acceptable (the field, or a non-null
// descendant, was reached after the cancellation).
func subsumed(got, want interface{}, path string) string {
	if got == nil {
		return ""
	}
	switch g := got.(type) {
	case map[string]interface{}:
		wm, ok := want.(map[string]interface{})
		if !ok {
			return fmt.Sprintf("%s holds an object, the all-synchronous run has %v", path, want)
		}
		for k, v := range g {
			wv, ok := wm[k]
			if !ok {
				return fmt.Sprintf("%s/%s does not exist in the all-synchronous run", path, k)
			}
			if m := subsumed(v, wv, path+"/"+k); m != "" {
				return m
			}
		}
		return ""
	case []interface{}:
		wl, ok := want.([]interface{})
		if !ok || len(wl) != len(g) {
			return fmt.Sprintf("%s holds a list of %d, the all-synchronous run has %v", path, len(g), want)
		}
		for i := range g {
			if m := subsumed(g[i], wl[i], fmt.Sprintf("%s/%d", path, i)); m != "" {
				return m
			}
		}
		return ""
	}
	if fmt.Sprint(got) != fmt.Sprint(want) {
		return fmt.Sprintf("%s holds %v, the value produced for it is %v", path, got, want)
	}
	return ""
}

func dataOf(body string) (interface{}, error) {
	var r struct {
		Data json.RawMessage `json:"data"`
	}
	if err := json.Unmarshal([]byte(body), &r); err != nil {
		return nil, err
	}
	if len(r.Data) == 0 {
		return nil, nil
	}
	var v interface{}
	d := json.NewDecoder(bytes.NewReader(r.Data))
	d.UseNumber()
	if err := d.Decode(&v); err != nil {
		return nil, err
	}
	return v, nil
}

// cancelledResponse compares the response(s) of a run in which the cancellation fired with the
// all-synchronous run. WebSocket: data messages may be missing (the connection went away).
func cancelledResponse(run, ref *served, ws bool) string {
	gotBodies, wantBodies := []string{run.body}, []string{ref.body}
	if ws {
		gotBodies, wantBodies = run.datas, ref.datas
	}
	for i, gb := range gotBodies {
		if i >= len(wantBodies) {
			return fmt.Sprintf("%d data messages, the all-synchronous run produced %d", len(gotBodies), len(wantBodies))
		}
		if len(gb) > 6 && gb[:6] == "error:" {
			continue
		}
		g, e1 := dataOf(gb)
		wv, e2 := dataOf(wantBodies[i])
		if e1 != nil || e2 != nil {
			return fmt.Sprintf("unparsable response: %v %v", e1, e2)
		}
		if m := subsumed(g, wv, ""); m != "" {
			return "after cancellation: " + m
		}
	}
	return ""
}

// withCancel turns a generated case into one of its cancellation histories.
func withCancel(r *hx.Rand, c Case) Case {
	c.Note = "cancel"
	switch r.Intn(8) {
	case 0:
		c.CancelAt = r.Range(1, 4)
	case 1, 2:
		c.CancelRound, c.CancelMode = r.Range(1, 2), "before-release"
	case 3:
		c.CancelRound, c.CancelMode = r.Range(1, 2), "after-pre"
	default:
		c.CancelRound, c.CancelMode = r.Range(1, 3), "inside"
	}
	if c.WS {
		c.Events = 1
		c.CancelSrc = "close-hijacked"
		if c.Op == "subscription" {
			// an event runs on the source stream's goroutine: the read loop is free to see the peer leave
			c.CancelSrc = hx.Pick(r, []string{"close-hijacked", "terminate", "client-close", "stop"})
		}
	}
	return c
}

// cancelMatrix: 1..3 Go siblings (optionally next to a Batch sibling, below a Go-resolved object, or as
// the promised edges of a connection) × gate kind × cancellation point × repetitions: the smallest
// histories in which the *last* outstanding task meets the cancellation.
func cancelMatrix(procs []int) []Case {
	var out []Case
	n := 0
	add := func(c Case) {
		c.Procs = procs[n%len(procs)]
		c.Seed = splitmix(uint64(n) * 7919)
		c.Query = render(c.Op, c.Tree)
		c.Note = "cancel-matrix"
		out = append(out, c)
		n++
	}
	type point struct {
		at, round int
		mode      string
	}
	points := []point{{1, 0, ""}, {0, 1, "before-release"}, {0, 1, "after-pre"}, {0, 1, "inside"}, {0, 2, "inside"}}
	for _, shape := range []string{"one", "two", "three", "with-batch", "below-go", "edges"} {
		for _, gate := range []string{"pre", "post", "free"} {
			for _, pt := range points {
				reps := 2
				if pt.mode == "inside" || gate == "free" {
					reps = 6 // a race: repeat
				}
				for rep := 0; rep < reps; rep++ {
					c := Case{PAsync: 100, RoundK: 3, Over: map[string]Spec{}, CancelAt: pt.at, CancelRound: pt.round, CancelMode: pt.mode}
					g := func(rank int) Spec {
						return Spec{Mode: "go", Out: "val", Gate: gate, Rank: rank, Delay: rep % 4, N: 1}
					}
					switch shape {
					case "one":
						c.Tree = []Sel{{Name: "i", ID: 1}}
						c.Over["/i1"] = g(1)
					case "two":
						c.Tree = []Sel{{Name: "i", ID: 1}, {Name: "i", ID: 2}}
						c.Over["/i1"], c.Over["/i2"] = g(2), g(1)
					case "three":
						c.Tree = []Sel{{Name: "i", ID: 1}, {Name: "o", ID: 2, Sub: []Sel{{Name: "i", ID: 4}}}, {Name: "i", ID: 3}}
						c.Over["/i1"], c.Over["/o2"], c.Over["/i3"] = g(1), g(3), g(2)
						c.Over["/o2/i4"] = Spec{Mode: "sync", Out: "val"}
					case "with-batch":
						c.Tree = []Sel{{Name: "i", ID: 1}, {Name: "i", ID: 2}}
						c.Over["/i1"] = Spec{Mode: "batch", Out: "val"}
						c.Over["/i2"] = g(1)
					case "below-go":
						c.Tree = []Sel{{Name: "o", ID: 1, Sub: []Sel{{Name: "i", ID: 2}, {Name: "i", ID: 3}}}}
						c.Over["/o1"] = g(1)
						c.Over["/o1/i2"], c.Over["/o1/i3"] = g(2), Spec{Mode: "batch", Out: "val"}
					case "edges":
						c.Tree = []Sel{{Name: "c", ID: 1, Args: ", first: 2", Raw: "{ edges { cursor } }"}}
						c.Over["/c1"] = g(1)
					}
					add(c)
				}
			}
		}
	}
	// the same over graphql-ws: a query closed by CloseHijackedConnections (it runs on the read loop), a
	// subscription event closed by the server, by connection_terminate and by the peer vanishing
	for _, src := range []string{"query:close-hijacked", "sub:close-hijacked", "sub:terminate", "sub:client-close", "sub:stop"} {
		for _, gate := range []string{"pre", "post"} {
			for _, pt := range points {
				for rep := 0; rep < 3; rep++ {
					c := Case{PAsync: 100, RoundK: 3, Over: map[string]Spec{}, CancelAt: pt.at, CancelRound: pt.round, CancelMode: pt.mode, WS: true, Events: 1}
					g := func(rank int) Spec {
						return Spec{Mode: "go", Out: "val", Gate: gate, Rank: rank, Delay: rep % 4, N: 1}
					}
					if src == "query:close-hijacked" {
						c.CancelSrc = "close-hijacked"
						c.Tree = []Sel{{Name: "i", ID: 1}, {Name: "i", ID: 2}}
						c.Over["/i1"], c.Over["/i2"] = g(2), g(1)
					} else {
						c.CancelSrc = src[4:]
						c.Op = "subscription"
						c.Tree = []Sel{{Name: "s", ID: 1, Sub: []Sel{{Name: "i", ID: 2}, {Name: "i", ID: 3}}}}
						c.Over["/s1@0/i2"], c.Over["/s1@0/i3"] = g(2), g(1)
						if pt.at > 0 {
							c.CancelAt = 2 // call 1 is the event's root field
						}
					}
					add(c)
				}
			}
		}
	}
	return out
}
