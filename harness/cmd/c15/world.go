package main

import (
	"context"
	"errors"
	"fmt"
	"io"
	"reflect"
	"runtime"
	"sort"
	"strconv"
	"strings"
	"sync"
	"sync/atomic"
	"time"

	apifu "github.com/ccbrown/api-fu"
	"github.com/ccbrown/api-fu/graphql"
	"github.com/sirupsen/logrus"
)

type ctxKey int

const (
	worldKey ctxKey = iota
	regKey
)

type node struct{ key string }

// gnode is what the application's ResolveNodesByGlobalIds returns for the built-in `node` / `nodes`
// root fields (config.go).
type gnode struct{ id string }

// resolveNodesByGlobalIds knows the ids N0..N9; it leaves unknown ids out and returns the nodes in
// descending id order — never in the order asked for unless that happens to be descending (the
// order is documented as arbitrary).
func resolveNodesByGlobalIds(ctx context.Context, ids []string) ([]interface{}, error) {
	var found []string
	for _, id := range ids {
		if len(id) == 2 && id[0] == 'N' && id[1] >= '0' && id[1] <= '9' {
			found = append(found, id)
		}
	}
	sort.Sort(sort.Reverse(sort.StringSlice(found)))
	out := make([]interface{}, len(found))
	for i, id := range found {
		out[i] = &gnode{id: id}
	}
	return out, nil
}

type edgeVal struct {
	key string
	idx int
}

// mres is a result as the model sees it.
type mres struct {
	val int
	err bool
}

// task is one harness-visible Go task (the body passed to apifu.Go).
type task struct {
	idx            int
	key            string
	pid            int
	spec           Spec
	gate           chan struct{} // nil: free-running with a seeded delay
	released       bool
	bodyDone       chan struct{}
	ch             graphql.ResolvePromise
	chained        bool // consumed by a chain/join goroutine of pagination.go, not by the executor
	deliveredRound int  // idle round at whose end the result was found in the promise's buffer (-1: never)
	doneRound      int  // first idle round at whose end the body had returned (-1: not by the last round)
	res            mres
	exec           int // index of the execution (request / subscription event) that started it
}

// reg is one invocation of a Batch resolver.
type reg struct {
	id      int
	k       int
	key     string
	pid     int
	result  graphql.ResolveResult
	res     mres
	chained bool
	ch      graphql.ResolvePromise
	exec    int // index of the execution that registered it
	flushed int // round in which a batch function received it (0: pending, -1: its execution returned first)
	seen    int // number of times a batch function received it
}

// inv is one resolver invocation (one field on one object).
type inv struct {
	key       string
	parent    string // the invocation that produced the object this field is resolved on ("" = a root field)
	round     int    // number of idle points that had happened when the resolver was called
	exec      int
	t         *task
	r         *reg
	conn      bool // a connection field
	connAsync bool // its edges came through promises that pagination.go's own goroutines consume: delivery not observable
	finalPid  int  // hook mode: the chain promise the connection's resolver returned (-1: unknown)
}

type event struct {
	kind  string // go | batch | chain | idle
	dep   int    // go/batch: promise of the nearest asynchronously resolved ancestor field (-1: none / not observable)
	pid   int
	waits []int
	k     int
	item  int
	round int
}

type callObs struct {
	round int
	k     int
	items []int
}

type roundObs struct {
	pendingBefore map[int][]int // batch resolver -> registration ids pending when the idle handler was entered
	delivered     []int         // visible tasks whose promise was fulfilled in this round
	released      []int
	outstanding   int
}

type openConn struct {
	key          string
	promises     []int
	tasks        []*task
	regs         []*reg
	failed       bool
	lastInternal int // hook mode: the last chain/join promise created for this invocation (-1: none)
	inv          *inv
	calls        int
	zero         bool
	isTime       bool
}

type world struct {
	c               *Case
	forceSync       bool
	mu              sync.Mutex
	events          []event
	tasks           []*task
	regs            []*reg
	rounds          []*roundObs
	calls           []callObs
	nextPid         int
	round           int
	inIdle          bool
	open            *openConn
	asyncNonNull    bool // some non-null field was resolved asynchronously
	f02a            bool // an asynchronously resolved non-null field failed / was null (F-02a territory)
	anomalies       []string
	aux             sync.WaitGroup
	invoked         int
	internal        int // chain/join goroutines inferred
	invs            []string
	pumpStop        chan struct{}
	pumpDone        chan struct{}
	pumped          int
	execs           int
	expect          *task                          // hook mode: the task whose apifu.Go call is about to happen
	chanPid         map[graphql.ResolvePromise]int // hook mode: promise -> model id
	pendingChain    []int                          // hook mode: inputs of the chain/join whose Go call comes next
	pidRound        map[int]int                    // hook mode: idle round in which the handler received the promise's resolution
	taskByPid       map[int]*task
	regByPid        map[int]*reg
	getterCalls     map[string]int
	inferenceUnsafe bool
	countCalls      int
	invMap          map[string]*inv
	invList         []*inv
	curDep          int
	cn              cancelState // cancel.go
}

// curWorld is the world of the case being served (hook mode: api.go's trace points have no context).
var curWorld worldPtr

type worldPtr struct{ v atomic.Value }

func (p *worldPtr) Load() *world {
	w, _ := p.v.Load().(*world)
	return w
}
func (p *worldPtr) Store(w *world) { p.v.Store(w) }

func worldOf(ctx context.Context) *world {
	w, _ := ctx.Value(worldKey).(*world)
	return w
}

func splitmix(x uint64) uint64 {
	x += 0x9E3779B97F4A7C15
	z := x
	z = (z ^ (z >> 30)) * 0xBF58476D1CE4E5B9
	z = (z ^ (z >> 27)) * 0x94D049BB133111EB
	return z ^ (z >> 31)
}

func mix(seed uint64, s string) uint64 {
	h := splitmix(seed ^ 0xC15C15)
	for i := 0; i < len(s); i++ {
		h = splitmix(h ^ uint64(s[i]))
	}
	return h
}

func (w *world) spec(key string) Spec {
	if s, ok := w.c.Over[key]; ok {
		if s.Out == "" {
			s.Out = "val"
		}
		if s.Mode == "" || w.forceSync {
			s.Mode = "sync"
		}
		return s
	}
	h := mix(w.c.Seed, key)
	next := func(n int) int { h = splitmix(h); return int(h % uint64(n)) }
	s := Spec{Mode: "sync", Out: "val", Gate: "free"}
	if next(100) < w.c.PAsync {
		if next(100) < w.c.PBatch {
			s.Mode = "batch"
		} else {
			s.Mode = "go"
		}
	}
	s.Batch = next(nBatchers)
	if w.c.OneBatcher {
		s.Batch = 0
	}
	if r := next(100); r < w.c.PErr {
		s.Out = "err"
	} else if r < w.c.PErr+w.c.PNull {
		s.Out = "null"
	}
	maxN := w.c.MaxN
	if maxN <= 0 {
		maxN = 3
	}
	s.N = next(maxN + 1)
	if w.c.MinN > 0 && w.c.MinN <= maxN {
		s.N = w.c.MinN + s.N%(maxN-w.c.MinN+1)
	}
	if next(100) < w.c.PGate {
		if next(100) < w.c.PPre {
			s.Gate = "pre"
		} else {
			s.Gate = "post"
		}
	}
	s.Rank = next(1000)
	s.Delay = next(4)
	if w.forceSync {
		s.Mode = "sync"
	}
	return s
}

func (w *world) intValue(key string) int { return int(mix(w.c.Seed, key+"#v")%9000) + 1000 }

func (w *world) anomaly(format string, a ...any) {
	w.mu.Lock()
	w.anomalies = append(w.anomalies, fmt.Sprintf(format, a...))
	w.mu.Unlock()
}

func (w *world) allocPid() int { p := w.nextPid; w.nextPid++; return p }

// eventLog returns a copy of the events recorded so far.
func (w *world) eventLog() []event {
	w.mu.Lock()
	defer w.mu.Unlock()
	return append([]event{}, w.events...)
}

func (w *world) addEvent(e event) {
	w.mu.Lock()
	w.events = append(w.events, e)
	w.mu.Unlock()
}

// hookEvent receives api.go's trace points (hook mode).
func (w *world) hookEvent(ev string, ps []graphql.ResolvePromise) {
	w.mu.Lock()
	defer w.mu.Unlock()
	if w.chanPid == nil {
		w.chanPid = map[graphql.ResolvePromise]int{}
		w.pidRound = map[int]int{}
	}
	pidOf := func(p graphql.ResolvePromise) int {
		if id, ok := w.chanPid[p]; ok {
			return id
		}
		for _, r := range w.regs { // a Batch promise: known to the harness since the resolver returned it
			if r.ch == p {
				return r.pid
			}
		}
		return -1
	}
	switch ev {
	case "chain", "join":
		w.pendingChain = nil
		for _, p := range ps {
			id := pidOf(p)
			w.pendingChain = append(w.pendingChain, id)
			if t := w.taskByPid[id]; t != nil {
				t.chained = true
			}
			if r := w.regByPid[id]; r != nil {
				r.chained = true
			}
		}
	case "go":
		if w.expect != nil {
			w.chanPid[ps[0]] = w.expect.pid
			w.expect = nil
			return
		}
		id := w.allocPid()
		w.chanPid[ps[0]] = id
		w.events = append(w.events, event{kind: "chain", pid: id, waits: w.pendingChain})
		w.pendingChain = nil
		w.internal++
		if w.open != nil {
			w.open.lastInternal = id
		}
	case "recv", "drain", "released":
		id := pidOf(ps[0])
		w.events = append(w.events, event{kind: ev, pid: id, round: w.round})
		if ev != "released" {
			w.pidRound[id] = w.round
		}
	}
}

// closeOpen records the chain/join goroutines pagination.go started for the connection invocation
// whose edge promises were handed out most recently. They are created on the executor's goroutine
// right after our getter returns, i.e. before the next harness-visible event.
func (w *world) closeOpen() {
	o := w.open
	w.open = nil
	if o == nil || o.failed || len(o.promises) == 0 {
		return
	}
	if o.inv != nil {
		o.inv.connAsync = true
		o.inv.finalPid = o.lastInternal
	}
	if hookMode {
		return // chain/join calls are reported by the hook
	}
	for _, t := range o.tasks {
		t.chained = true
	}
	for _, r := range o.regs {
		r.chained = true
	}
	cur := o.promises
	if o.isTime {
		j := w.allocPid()
		w.events = append(w.events, event{kind: "chain", pid: j, waits: append([]int{}, cur...)})
		w.internal++
		cur = []int{j}
	}
	q := w.allocPid()
	w.events = append(w.events, event{kind: "chain", pid: q, waits: append([]int{}, cur...)})
	w.internal++
	if o.zero {
		q2 := w.allocPid()
		w.events = append(w.events, event{kind: "chain", pid: q2, waits: []int{q}})
		w.internal++
	}
}

func (w *world) execEvent() {
	if w.inIdle {
		w.anomaly("a resolver ran on the executor while the idle handler was running")
	}
	w.closeOpen()
	w.invoked++
	w.cancelAtCall()
}

// producer maps the key of an object to the invocation that returned it: list elements and edge
// nodes carry their index in brackets.
func producer(objKey string) string {
	if n := len(objKey); n > 0 && objKey[n-1] == ']' {
		if i := strings.LastIndexByte(objKey, '['); i >= 0 {
			return objKey[:i]
		}
	}
	return objKey
}

// noteInv records the invocation `key` on the object `objKey` (once) and sets the dependency of the
// helper calls it is about to make.
func (w *world) noteInv(key, objKey string, conn bool) *inv {
	if w.invMap == nil {
		w.invMap = map[string]*inv{}
	}
	x := w.invMap[key]
	if x == nil {
		x = &inv{key: key, parent: producer(objKey), round: w.round, exec: w.execs, conn: conn, finalPid: -1}
		w.invMap[key] = x
		w.invList = append(w.invList, x)
	}
	w.curDep = -1
	for p := w.invMap[x.parent]; p != nil; p = w.invMap[p.parent] {
		if p.t != nil {
			w.curDep = p.t.pid
			break
		}
		if p.r != nil {
			w.curDep = p.r.pid
			break
		}
		if p.conn && p.connAsync {
			break
		}
		if p.parent == "" {
			break
		}
	}
	return x
}

func parentKey(obj interface{}) string {
	switch o := obj.(type) {
	case *node:
		if o != nil {
			return o.key
		}
	case edgeVal:
		return o.key
	case *gnode:
		if o != nil {
			return "/node:" + o.id
		}
	}
	return ""
}

func (w *world) newTask(key string, sp Spec, mr mres) *task {
	t := &task{idx: len(w.tasks), key: key, pid: w.allocPid(), spec: sp, bodyDone: make(chan struct{}), deliveredRound: -1, doneRound: -1, res: mr, exec: w.execs}
	if sp.Gate == "pre" || sp.Gate == "post" {
		t.gate = make(chan struct{})
	}
	w.tasks = append(w.tasks, t)
	if w.taskByPid == nil {
		w.taskByPid = map[int]*task{}
	}
	w.taskByPid[t.pid] = t
	w.addEvent(event{kind: "go", pid: t.pid, dep: w.curDep})
	w.mu.Lock()
	w.expect = t
	w.mu.Unlock()
	return t
}

func (w *world) body(t *task) {
	if t.gate != nil {
		<-t.gate
	} else {
		for i := 0; i < t.spec.Delay; i++ {
			runtime.Gosched()
		}
		if t.spec.Delay == 3 {
			time.Sleep(time.Duration(20+t.spec.Rank%80) * time.Microsecond)
		}
	}
	close(t.bodyDone)
}

// async wraps a computed outcome into the requested resolution mode.
func (w *world) async(ctx graphql.FieldContext, key string, sp Spec, val interface{}, err error) (interface{}, *task, *reg, error) {
	mr := mres{val: int(mix(w.c.Seed, key+"#m") % 100000), err: err != nil}
	switch sp.Mode {
	case "go":
		t := w.newTask(key, sp, mr)
		p := apifu.Go(ctx.Context, func() (interface{}, error) {
			w.body(t)
			return val, err
		})
		t.ch = p
		return p, t, nil, nil
	case "batch":
		r := &reg{id: len(w.regs), k: sp.Batch % nBatchers, key: key, pid: w.allocPid(), result: graphql.ResolveResult{Value: val, Error: err}, res: mr, exec: w.execs}
		w.regs = append(w.regs, r)
		if w.regByPid == nil {
			w.regByPid = map[int]*reg{}
		}
		w.regByPid[r.pid] = r
		w.addEvent(event{kind: "batch", pid: r.pid, k: r.k, item: r.id, dep: w.curDep})
		c2 := ctx
		c2.Context = context.WithValue(ctx.Context, regKey, r)
		p, e := batchers[r.k](c2)
		if rp, ok := p.(graphql.ResolvePromise); ok {
			w.mu.Lock()
			r.ch = rp
			w.mu.Unlock()
		}
		return p, nil, r, e
	}
	return val, nil, nil, err
}

// resolve implements the generic fields i n o p l.
func resolve(kind byte) func(graphql.FieldContext) (interface{}, error) {
	return func(ctx graphql.FieldContext) (interface{}, error) {
		w := worldOf(ctx.Context)
		w.execEvent()
		id, _ := ctx.Arguments["id"].(int)
		key := parentKey(ctx.Object) + "/" + string(kind) + strconv.Itoa(id)
		sp := w.spec(key)
		var val interface{}
		var err error
		switch sp.Out {
		case "err":
			err = errors.New("E" + key)
		case "null":
		default:
			switch kind {
			case 'i', 'n':
				val = w.intValue(key)
			case 'o', 'p':
				val = &node{key: key}
			case 'l':
				xs := make([]interface{}, sp.N)
				for j := range xs {
					if w.c.NoNil || mix(w.c.Seed, key+"#nil"+strconv.Itoa(j))%6 != 0 {
						xs[j] = &node{key: key + "[" + strconv.Itoa(j) + "]"}
					}
				}
				val = xs
			}
		}
		w.invs = append(w.invs, key+":"+sp.Mode+":"+sp.Out+":"+sp.Gate)
		if sp.Mode != "sync" && (kind == 'n' || kind == 'p') {
			w.asyncNonNull = true
		}
		if sp.Mode != "sync" && (kind == 'n' || kind == 'p') && sp.Out != "val" {
			w.f02a = true
		}
		x := w.noteInv(key, parentKey(ctx.Object), false)
		v, t, r, e := w.async(ctx, key, sp, val, err)
		x.t, x.r = t, r
		return v, e
	}
}

func (w *world) ensureOpen(key string, zero, isTime bool) *openConn {
	if w.open == nil || w.open.key != key {
		w.closeOpen()
		w.open = &openConn{key: key, zero: zero, isTime: isTime, lastInternal: -1}
	}
	return w.open
}

func isZeroLimit(args map[string]interface{}) bool {
	if f, ok := args["first"].(int); ok {
		return f == 0
	}
	if l, ok := args["last"].(int); ok {
		return l == 0
	}
	return false
}

func (o *openConn) add(pid int, t *task, r *reg) {
	o.promises = append(o.promises, pid)
	if t != nil {
		o.tasks = append(o.tasks, t)
	}
	if r != nil {
		o.regs = append(o.regs, r)
	}
}

// edgesResolver is the body of ConnectionConfig.ResolveEdges / ResolveAllEdges of the connection field
// `name` (c: ResolveEdges; ca: ResolveAllEdges; cd: ResolveEdges + ResolveTotalCount). With a zero page
// size pagination.go calls it once per `pageInfo` / `totalCount` field (and alias) that needs the edges.
func edgesResolver(name string) func(ctx graphql.FieldContext, zero bool) (interface{}, func(a, b interface{}) bool, error) {
	return func(ctx graphql.FieldContext, zero bool) (interface{}, func(a, b interface{}) bool, error) {
		w := worldOf(ctx.Context)
		id, _ := ctx.Arguments["id"].(int)
		key := parentKey(ctx.Object) + "/" + name + strconv.Itoa(id)
		if w.inIdle {
			w.anomaly("a resolver ran on the executor while the idle handler was running")
		}
		w.getterCall(key)
		o := w.ensureOpen(key, zero, false)
		o.inv = w.noteInv(key, parentKey(ctx.Object), true)
		w.invoked++
		w.cancelAtCall()
		sp := w.spec(key)
		w.invs = append(w.invs, key+":"+sp.Mode+":"+sp.Out+":"+sp.Gate)
		less := func(a, b interface{}) bool { return a.(int) < b.(int) }
		var err error
		edges := []edgeVal{}
		switch sp.Out {
		case "err":
			err = errors.New("E" + key)
		case "null":
		default:
			for j := 0; j < sp.N+1; j++ {
				edges = append(edges, edgeVal{key: key + "[" + strconv.Itoa(j) + "]", idx: j})
			}
		}
		if sp.Mode == "sync" {
			if err != nil {
				o.failed = true
				return nil, nil, err
			}
			return edges, less, nil
		}
		if o.zero && sp.Out == "err" {
			w.f02a = true // pageInfo: PageInfo! is resolved through a failing promise
		}
		v, t, r, _ := w.async(ctx, key, sp, edges, err)
		if t != nil {
			o.add(t.pid, t, nil)
		} else {
			o.add(r.pid, nil, r)
		}
		return v, less, nil
	}
}

// getterCall counts how often the edges of one connection invocation were asked for. More than once
// (zero page size with several pageInfo/totalCount fields) is beyond what the fallback inference of
// pagination.go's chain/join calls handles (closeOpen); the hook mode does not need it.
func (w *world) getterCall(key string) {
	if w.getterCalls == nil {
		w.getterCalls = map[string]int{}
	}
	w.getterCalls[key]++
	if w.getterCalls[key] > 1 {
		w.inferenceUnsafe = true
	}
}

// countResolver is ConnectionConfig.ResolveTotalCount of the connection field `name`: an Int! field
// resolved like any other (sync / Go / Batch).
func countResolver(name string) func(ctx graphql.FieldContext) (interface{}, error) {
	return func(ctx graphql.FieldContext) (interface{}, error) {
		w := worldOf(ctx.Context)
		w.execEvent()
		id, _ := ctx.Arguments["id"].(int)
		conn := parentKey(ctx.Object) + "/" + name + strconv.Itoa(id)
		w.countCalls++
		key := conn + "/count"
		sp := w.spec(key)
		var val interface{}
		var err error
		switch sp.Out {
		case "err", "null": // a null count is an error for Int!: keep it simple, fail alike
			err = errors.New("E" + key)
		default:
			val = w.intValue(key)
		}
		w.invs = append(w.invs, key+":"+sp.Mode+":"+sp.Out+":"+sp.Gate)
		if sp.Mode != "sync" {
			w.asyncNonNull = true
			if err != nil {
				w.f02a = true
			}
		}
		w.curDep = -1
		for p := w.invMap[conn]; p != nil; p = w.invMap[p.parent] {
			if p.t != nil {
				w.curDep = p.t.pid
				break
			}
			if p.r != nil {
				w.curDep = p.r.pid
				break
			}
			if (p.conn && p.connAsync) || p.parent == "" {
				break
			}
		}
		if w.countCalls > 1 {
			// the same count asked twice (aliases): give the second task its own identity in the logs
			key = key + "~" + strconv.Itoa(w.countCalls)
		}
		v, _, _, e := w.async(ctx, key, sp, val, err)
		return v, e
	}
}

var baseTime = time.Date(2020, 1, 1, 0, 0, 0, 0, time.UTC)

func edgeTime(idx int) time.Time { return baseTime.Add(time.Duration(idx/2) * time.Second) } // pairs share a timestamp

// edgeGetter is TimeBasedConnectionConfig.EdgeGetter of the time-based connection field `name`.
func edgeGetter(name string) func(ctx graphql.FieldContext, minTime, maxTime time.Time, limit int) (interface{}, error) {
	return func(ctx graphql.FieldContext, minTime, maxTime time.Time, limit int) (interface{}, error) {
		return edgeGetter1(name, ctx, minTime, maxTime, limit)
	}
}

func edgeGetter1(name string, ctx graphql.FieldContext, minTime, maxTime time.Time, limit int) (interface{}, error) {
	w := worldOf(ctx.Context)
	id, _ := ctx.Arguments["id"].(int)
	key := parentKey(ctx.Object) + "/" + name + strconv.Itoa(id)
	if w.inIdle {
		w.anomaly("a resolver ran on the executor while the idle handler was running")
	}
	o := w.ensureOpen(key, isZeroLimit(ctx.Arguments), true)
	o.inv = w.noteInv(key, parentKey(ctx.Object), true)
	w.invoked++
	w.cancelAtCall()
	total := w.spec(key).N + 2
	// one spec per range query, identified by the range itself (asked again for every field that needs
	// the edges when the page size is zero)
	qkey := fmt.Sprintf("%s#%d.%d.%d", key, minTime.UnixNano()%1000003, maxTime.UnixNano()%1000003, limit)
	o.calls++
	w.getterCall(qkey)
	sp := w.spec(qkey)
	w.invs = append(w.invs, qkey+":"+sp.Mode+":"+sp.Out+":"+sp.Gate)
	var err error
	edges := []edgeVal{}
	if sp.Out == "err" {
		err = errors.New("E" + key) // every range query of one connection fails alike: which one is reported first is not the helpers' business
	} else {
		for j := 0; j < total; j++ {
			if t := edgeTime(j); !t.Before(minTime) && !t.After(maxTime) {
				edges = append(edges, edgeVal{key: key + "[" + strconv.Itoa(j) + "]", idx: j})
			}
		}
		if limit > 0 && len(edges) > limit {
			edges = edges[:limit]
		} else if limit < 0 && len(edges) > -limit {
			edges = edges[len(edges)+limit:]
		}
	}
	if sp.Mode == "sync" {
		if err != nil {
			o.failed = true
			return nil, err
		}
		return edges, nil
	}
	if o.zero && sp.Out == "err" {
		w.f02a = true
	}
	v, t, r, _ := w.async(ctx, qkey, sp, edges, err)
	if t != nil {
		o.add(t.pid, t, nil)
	} else {
		o.add(r.pid, nil, r)
	}
	return v, nil
}

const nBatchers = 3

var batchers [nBatchers]func(graphql.FieldContext) (interface{}, error)

func batchFn(k int) func([]graphql.FieldContext) []graphql.ResolveResult {
	return func(items []graphql.FieldContext) []graphql.ResolveResult {
		if len(items) == 0 {
			return nil
		}
		w := worldOf(items[0].Context)
		ids := make([]int, len(items))
		out := make([]graphql.ResolveResult, len(items))
		w.mu.Lock()
		for i, it := range items {
			r, _ := it.Context.Value(regKey).(*reg)
			if r == nil || worldOf(it.Context) != w {
				w.anomalies = append(w.anomalies, fmt.Sprintf("batch function %d received a field context that was not registered with it in this request", k))
				ids[i] = -1
				continue
			}
			if r.k != k {
				w.anomalies = append(w.anomalies, fmt.Sprintf("batch function %d received an item registered with batch resolver %d", k, r.k))
			}
			r.seen++
			ids[i] = r.id
			out[i] = r.result
		}
		if !w.inIdle {
			w.anomalies = append(w.anomalies, "a batch function ran outside the idle handler")
		}
		w.calls = append(w.calls, callObs{round: w.round, k: k, items: ids})
		w.mu.Unlock()
		for i := 0; i < int(mix(w.c.Seed, "bf"+strconv.Itoa(k)+"."+strconv.Itoa(w.round))%3); i++ {
			runtime.Gosched()
		}
		return out
	}
}

func yield(n int) {
	for i := 0; i < n; i++ {
		runtime.Gosched()
	}
}

func (w *world) idleEnter() {
	w.closeOpen()
	w.mu.Lock()
	w.round++
	w.inIdle = true
	w.mu.Unlock()
	ro := &roundObs{pendingBefore: map[int][]int{}}
	for _, r := range w.regs {
		if r.flushed == 0 {
			ro.pendingBefore[r.k] = append(ro.pendingBefore[r.k], r.id)
			ro.outstanding++
		}
	}
	for _, t := range w.tasks {
		if t.deliveredRound < 0 {
			ro.outstanding++
		}
	}
	w.rounds = append(w.rounds, ro)
	w.addEvent(event{kind: "idle", round: w.round})
	cancelHere := !w.forceSync && w.c.CancelRound > 0 && w.round == w.c.CancelRound
	if cancelHere && w.c.CancelMode == "before-release" {
		w.cancelNow() // the tasks released below finish on a cancelled context
	}
	// Release the next group of gated tasks: k tasks in rank order, and further ones until a task the
	// executor itself awaits is among them — a resolution consumed by a chain/join goroutine makes the
	// idle handler loop instead of returning, so it cannot be the only thing this round provides.
	cands := w.candidates()
	rk := w.c.RoundK
	if rk < 1 {
		rk = 1
	}
	h := mix(w.c.Seed, "round"+strconv.Itoa(w.round))
	k := 1 + int(h%uint64(rk))
	if len(ro.pendingBefore) > 0 && (h>>20)%2 == 0 {
		k = 0 // a flush round needs no Go task to make progress
	}
	var post []*task
	awaited := len(ro.pendingBefore) > 0
	for i := 0; i < len(cands) && (i < k || !awaited); i++ {
		t := cands[i]
		t.released = true
		ro.released = append(ro.released, t.idx)
		if !t.chained && t.exec == w.execs {
			awaited = true // (a task left over from an earlier execution may leave through `done` without waking the handler)
		}
		if t.spec.Gate == "pre" {
			close(t.gate)
			select {
			case <-t.bodyDone:
			case <-time.After(30 * time.Second):
				w.anomaly("harness: body of task %s did not return after its gate was opened", t.key)
			}
			yield(2)
		} else {
			post = append(post, t)
		}
	}
	if cancelHere && w.c.CancelMode == "after-pre" {
		w.cancelNow() // bodies have returned, the handler has not received anything yet
	}
	cancelInside := cancelHere && w.c.CancelMode == "inside"
	if len(post) > 0 || cancelInside {
		w.aux.Add(1)
		n := int((h >> 8) % 4)
		first := (h>>12)%2 == 0
		go func() {
			defer w.aux.Done()
			yield(n)
			if n == 3 {
				time.Sleep(30 * time.Microsecond)
			}
			if cancelInside && first {
				// the handler is (about to be) blocked in its receive; the tasks finish afterwards
				time.Sleep(time.Duration(50+(h>>16)%400) * time.Microsecond)
				w.cancelNow()
			}
			for _, t := range post {
				close(t.gate)
			}
			if cancelInside && !first {
				yield(int((h >> 14) % 3)) // races with the bodies' return and the hand-off
				w.cancelNow()
			}
		}()
	}
	// Safety net, never a verdict: should the idle handler stay inside for long, keep releasing so
	// that a gate the rule above did not open can never be the reason for a hang.
	w.pumpStop = make(chan struct{})
	w.pumpDone = make(chan struct{})
	rest := w.candidates()
	go func(stop, done chan struct{}) {
		defer close(done)
		for _, t := range rest {
			select {
			case <-stop:
				return
			case <-time.After(150 * time.Millisecond):
			}
			t.released = true
			w.pumped++
			close(t.gate)
		}
	}(w.pumpStop, w.pumpDone)
}

func (w *world) candidates() []*task {
	var cands []*task
	for _, t := range w.tasks {
		if t.gate != nil && !t.released {
			cands = append(cands, t)
		}
	}
	sort.SliceStable(cands, func(i, j int) bool { return cands[i].spec.Rank < cands[j].spec.Rank })
	return cands
}

func (w *world) idleExit() {
	close(w.pumpStop)
	<-w.pumpDone
	if hookMode {
		w.addEvent(event{kind: "iret", round: w.round})
	}
	w.mu.Lock()
	w.inIdle = false
	calls := append([]callObs{}, w.calls...)
	w.mu.Unlock()
	ro := w.rounds[len(w.rounds)-1]
	for _, c := range calls {
		if c.round != w.round {
			continue
		}
		for _, id := range c.items {
			if id >= 0 && w.regs[id].flushed == 0 {
				w.regs[id].flushed = w.round
			}
		}
	}
	for _, t := range w.tasks {
		if t.doneRound < 0 {
			select {
			case <-t.bodyDone:
				t.doneRound = w.round
			default:
			}
		}
		if !t.chained && t.deliveredRound < 0 && len(t.ch) == 1 {
			t.deliveredRound = w.round
			ro.delivered = append(ro.delivered, t.idx)
		}
	}
}

// execReturned: one execution (HTTP request, WS operation or subscription event) has returned.
func (w *world) execReturned() {
	w.closeOpen()
	if hookMode {
		w.addEvent(event{kind: "ret"})
	}
	w.execs++
	for _, r := range w.regs {
		if r.flushed == 0 {
			r.flushed = -1 // not pending any more: the execution that registered it is over
		}
	}
}

func quietLogger() *logrus.Logger {
	l := logrus.New()
	l.SetOutput(io.Discard)
	return l
}

// releaseAll opens every remaining gate (after the request returned) and waits for all bodies.
func (w *world) releaseAll() error {
	var cands []*task
	for _, t := range w.tasks {
		if t.gate != nil && !t.released {
			cands = append(cands, t)
		}
	}
	sort.SliceStable(cands, func(i, j int) bool { return cands[i].spec.Rank < cands[j].spec.Rank })
	for _, t := range cands {
		t.released = true
		close(t.gate)
	}
	w.aux.Wait()
	deadline := time.After(30 * time.Second)
	for _, t := range w.tasks {
		select {
		case <-t.bodyDone:
		case <-deadline:
			return fmt.Errorf("harness: body of task %s never returned", t.key)
		}
	}
	return nil
}

// ---- schema ------------------------------------------------------------------------------------

var theAPI *apifu.API

func buildAPI() *apifu.API {
	for k := 0; k < nBatchers; k++ {
		batchers[k] = apifu.Batch(batchFn(k))
	}
	idArg := func() map[string]*graphql.InputValueDefinition {
		return map[string]*graphql.InputValueDefinition{"id": {Type: graphql.NewNonNullType(graphql.IntType)}}
	}
	obj := &graphql.ObjectType{Name: "Obj", IsTypeOf: func(v interface{}) bool { _, ok := v.(*node); return ok }}
	nodeField := &graphql.FieldDefinition{Type: obj, Resolve: func(ctx graphql.FieldContext) (interface{}, error) {
		if ev, ok := ctx.Object.(edgeVal); ok {
			return &node{key: ev.key}, nil
		}
		return nil, errors.New("edge value expected")
	}}
	mkConn := func(name, prefix string, all, count bool) *graphql.FieldDefinition {
		cfg := &apifu.ConnectionConfig{
			NamePrefix: prefix,
			Arguments:  idArg(),
			CursorType: reflect.TypeOf(int(0)),
			EdgeCursor: func(e interface{}) interface{} { return e.(edgeVal).idx },
			EdgeFields: map[string]*graphql.FieldDefinition{"node": nodeField},
		}
		er := edgesResolver(name)
		if all {
			cfg.ResolveAllEdges = func(ctx graphql.FieldContext) (interface{}, func(a, b interface{}) bool, error) {
				return er(ctx, isZeroLimit(ctx.Arguments))
			}
		} else {
			cfg.ResolveEdges = func(ctx graphql.FieldContext, after, before interface{}, limit int) (interface{}, func(a, b interface{}) bool, error) {
				return er(ctx, limit == 1 || limit == -1)
			}
		}
		if count {
			cfg.ResolveTotalCount = countResolver(name)
		}
		return apifu.Connection(cfg)
	}
	mkTime := func(name, prefix string, count bool) *graphql.FieldDefinition {
		cfg := &apifu.TimeBasedConnectionConfig{
			NamePrefix: prefix,
			Arguments:  idArg(),
			EdgeCursor: func(e interface{}) apifu.TimeBasedCursor {
				ev := e.(edgeVal)
				return apifu.NewTimeBasedCursor(edgeTime(ev.idx), fmt.Sprintf("%03d", ev.idx))
			},
			EdgeFields: map[string]*graphql.FieldDefinition{"node": nodeField},
			EdgeGetter: edgeGetter(name),
		}
		if count {
			cfg.ResolveTotalCount = countResolver(name)
		}
		return apifu.TimeBasedConnection(cfg)
	}
	connC := mkConn("c", "C", false, false)
	connT := mkTime("t", "T", false)
	fields := map[string]*graphql.FieldDefinition{
		"i":  {Type: graphql.IntType, Arguments: idArg(), Resolve: resolve('i')},
		"n":  {Type: graphql.NewNonNullType(graphql.IntType), Arguments: idArg(), Resolve: resolve('n')},
		"o":  {Type: obj, Arguments: idArg(), Resolve: resolve('o')},
		"p":  {Type: graphql.NewNonNullType(obj), Arguments: idArg(), Resolve: resolve('p')},
		"l":  {Type: graphql.NewListType(obj), Arguments: idArg(), Resolve: resolve('l')},
		"c":  connC,
		"t":  connT,
		"ca": mkConn("ca", "CA", true, false), // ResolveAllEdges: totalCount from the edges
		"cd": mkConn("cd", "CD", false, true), // ResolveEdges + ResolveTotalCount
		"tu": mkTime("tu", "TU", true),        // time-based + ResolveTotalCount
	}
	obj.Fields = fields
	cfg := &apifu.Config{ResolveNodesByGlobalIds: resolveNodesByGlobalIds}
	addOverlapFields(fields, cfg, obj)
	cfg.AddNamedType(&graphql.ObjectType{
		Name: "GNode",
		Fields: map[string]*graphql.FieldDefinition{
			"id": {Type: graphql.NewNonNullType(graphql.IDType), Resolve: func(ctx graphql.FieldContext) (interface{}, error) {
				return ctx.Object.(*gnode).id, nil
			}},
			"v": {Type: graphql.IntType, Resolve: func(ctx graphql.FieldContext) (interface{}, error) {
				return int(mix(7, ctx.Object.(*gnode).id) % 1000), nil
			}},
			"i": fields["i"],
			"o": fields["o"],
		},
		ImplementedInterfaces: []*graphql.InterfaceType{cfg.NodeInterface()},
		IsTypeOf:              func(v interface{}) bool { _, ok := v.(*gnode); return ok },
	})
	for name, def := range fields {
		cfg.AddQueryField(name, def)
	}
	for _, name := range []string{"i", "n", "o", "l", "c"} {
		cfg.AddMutation(name, fields[name])
	}
	// subscription s(id): the source stream carries Events nodes; each event is executed as a request
	cfg.AddSubscription("s", &graphql.FieldDefinition{Type: obj, Arguments: idArg(), Resolve: func(ctx graphql.FieldContext) (interface{}, error) {
		w := worldOf(ctx.Context)
		id, _ := ctx.Arguments["id"].(int)
		if ctx.IsSubscribe {
			n := w.c.Events
			if n < 1 {
				n = 1
			}
			ch := make(chan *node, n)
			for e := 0; e < n; e++ {
				ch <- &node{key: "/s" + strconv.Itoa(id) + "@" + strconv.Itoa(e)}
			}
			close(ch)
			return &apifu.SubscriptionSourceStream{EventChannel: ch, Stop: func() {}}, nil
		}
		if nd, ok := ctx.Object.(*node); ok {
			w.execEvent()
			w.noteInv(nd.key, "", false)
			return nd, nil
		}
		return nil, errors.New("subscriptions are not supported using this protocol")
	}})
	cfg.Execute = func(r *graphql.Request, info *apifu.RequestInfo) *graphql.Response {
		if w := worldOf(r.Context); w != nil && hookMode && w.execs > 0 {
			w.addEvent(event{kind: "start"})
		}
		if w := worldOf(r.Context); w != nil {
			w.execBegins(r.Context)
		}
		if w := worldOf(r.Context); w != nil && r.IdleHandler != nil {
			orig := r.IdleHandler
			r.IdleHandler = func() {
				w.idleEnter()
				orig()
				w.idleExit()
			}
		}
		resp := graphql.Execute(r)
		if w := worldOf(r.Context); w != nil {
			w.execReturned()
			w.cn.returned.Add(1)
		}
		return resp
	}
	cfg.Logger = quietLogger()
	api, err := apifu.NewAPI(cfg)
	if err != nil {
		panic(err)
	}
	return api
}
