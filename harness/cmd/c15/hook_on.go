//go:build c15hook

package main

import (
	apifu "github.com/ccbrown/api-fu"
	"github.com/ccbrown/api-fu/graphql"
)

// hookMode: api.go's trace points (repo-patches/C15/02-hook-async-trace, build tag verif) report every
// Go promise, every chain/join, every receive of the idle handler and every release through `done`:
// the observed execution is an exact label sequence of the model, nothing is inferred.
const hookMode = true

func installHook() {
	apifu.VerifAsyncTrace = func(ev string, ps ...graphql.ResolvePromise) {
		if w := curWorld.Load(); w != nil {
			w.hookEvent(ev, ps)
		}
	}
}
