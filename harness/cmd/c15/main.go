// Harness for C15 — Go/Batch helpers deliver every result, coalesce batches, never deadlock or leak.
//
// Parent process: generates cases (all randomness from VERIF_SEED), sends them to a worker child
// process (the same binary with -worker) and aggregates. The worker serves every case through the
// real apifu.API.ServeGraphQL twice (all resolvers synchronous = the reference; then with the case's
// Go/Batch/connection-promise assignment under a harness-controlled completion schedule), evaluates
// the model-free oracles (response equality, per-wave batch call log, goroutine accounting, watchdog)
// and feeds the observed execution to the Lean model c15model as an acceptor. A worker that
// deadlocks or dies is replaced; the case it was running is the replay.
package main

import (
	"bufio"
	"bytes"
	"encoding/json"
	"flag"
	"fmt"
	"io"
	"os"
	"os/exec"
	"strconv"
	"strings"
	"syscall"
	"time"

	"verifharness/hx"
)

type proc struct {
	cmd    *exec.Cmd
	in     io.WriteCloser
	out    *bufio.Reader
	stderr *bytes.Buffer
	lines  chan []byte
	f02a   bool
}

type parent struct {
	run          *hx.Run
	p            *proc
	detail       bool
	restarts     int
	modelCall    int
	seen         map[string]int
	unclassified int
	leaks        int
	deadlocks    int
}

func (pa *parent) start() error {
	args := []string{"-worker", "-model", pa.run.ModelPath}
	if pa.detail {
		args = append(args, "-detail")
	}
	cmd := exec.Command(os.Args[0], args...)
	// with a -race build: the first data race ends the worker, the case it was serving is the replay
	cmd.Env = append(os.Environ(), "GORACE=halt_on_error=1 exitcode=66")
	in, _ := cmd.StdinPipe()
	out, _ := cmd.StdoutPipe()
	var eb bytes.Buffer
	cmd.Stderr = &eb
	if err := cmd.Start(); err != nil {
		return err
	}
	p := &proc{cmd: cmd, in: in, out: bufio.NewReaderSize(out, 1<<20), stderr: &eb, lines: make(chan []byte, 4)}
	go func() {
		for {
			l, err := p.out.ReadBytes('\n')
			if len(l) > 0 {
				p.lines <- l
			}
			if err != nil {
				close(p.lines)
				return
			}
		}
	}()
	select {
	case l, ok := <-p.lines:
		if !ok {
			cmd.Wait()
			return fmt.Errorf("worker did not start: %s", eb.String())
		}
		var hello struct {
			F02a bool `json:"f02a_present"`
		}
		json.Unmarshal(l, &hello)
		p.f02a = hello.F02a
	case <-time.After(60 * time.Second):
		cmd.Process.Kill()
		return fmt.Errorf("worker did not start in time")
	}
	pa.p = p
	return nil
}

func (pa *parent) stop() {
	if pa.p == nil {
		return
	}
	pa.p.in.Close()
	done := make(chan struct{})
	go func() { pa.p.cmd.Wait(); close(done) }()
	select {
	case <-done:
	case <-time.After(5 * time.Second):
		pa.p.cmd.Process.Kill()
		<-done
	}
	pa.p = nil
}

// exec runs one case in the worker. A dead or silent worker is a result of its own. A worker that
// goes silent *outside* the request watchdog (which runs inside the worker and reports real deadlocks
// of the library with their stacks) is replaced and the case is tried once more: only a stall that
// repeats is reported.
func (pa *parent) exec(c *Case) CaseResult {
	res := pa.exec1(c)
	if res.Oracle == "deadlock" && strings.HasPrefix(res.What, "the worker did not answer") {
		pa.run.Count("worker-stalled-outside-the-request-watchdog(case retried)")
		first := res.What
		res = pa.exec1(c)
		if res.Oracle == "deadlock" && strings.HasPrefix(res.What, "the worker did not answer") {
			res.What = "twice: " + res.What
		} else {
			pa.run.Note("a worker stalled once outside the request watchdog and the case passed on retry; first report: %.600s", first)
		}
	}
	return res
}

func (pa *parent) exec1(c *Case) CaseResult {
	if pa.p == nil {
		if err := pa.start(); err != nil {
			return CaseResult{Kind: "harness", Oracle: "harness", What: err.Error()}
		}
	}
	b, _ := json.Marshal(c)
	if _, err := pa.p.in.Write(append(b, '\n')); err != nil {
		pa.stop()
		return CaseResult{Kind: "harness", Oracle: "harness", What: "cannot write to worker: " + err.Error()}
	}
	wd := time.Duration(c.WatchdogMs) * time.Millisecond
	if wd <= 0 {
		wd = 20 * time.Second
	}
	select {
	case l, ok := <-pa.p.lines:
		if !ok {
			pa.p.cmd.Wait()
			msg := pa.p.stderr.String()
			if len(msg) > 3000 {
				msg = msg[:1500] + "\n…\n" + msg[len(msg)-1500:]
			}
			pa.p = nil
			pa.restarts++
			return CaseResult{Kind: "crash", Oracle: "crash", What: "the process died while serving the case (panic on a background goroutine?): " + msg}
		}
		var res CaseResult
		if err := json.Unmarshal(l, &res); err != nil {
			return CaseResult{Kind: "harness", Oracle: "harness", What: "bad worker reply: " + err.Error()}
		}
		pa.modelCall += res.ModelCalls
		if res.Oracle == "leak" {
			// leaked goroutines stay in the worker; replace it now and then so that stack dumps stay small
			if pa.leaks++; pa.leaks%100 == 0 {
				pa.stop()
			}
		}
		if res.Fatal {
			pa.stop()
			pa.restarts++
		}
		return res
	case <-time.After(parentTimeout(wd)):
		// ask the Go runtime for all stacks (SIGQUIT) so that the replay says where it hangs
		pa.p.cmd.Process.Signal(syscall.SIGQUIT)
		waited := make(chan struct{})
		go func() { pa.p.cmd.Wait(); close(waited) }()
		select {
		case <-waited:
		case <-time.After(10 * time.Second):
			pa.p.cmd.Process.Kill()
			<-waited
		}
		var keep []string
		for _, blk := range strings.Split(pa.p.stderr.String(), "\n\n") {
			if strings.Contains(blk, "ccbrown/api-fu") || strings.Contains(blk, "main.") {
				if len(blk) > 1500 {
					blk = blk[:1500] + " …"
				}
				keep = append(keep, blk)
			}
		}
		msg := strings.Join(keep, "\n\n")
		if len(msg) > 40000 {
			msg = msg[:40000] + "\n…"
		}
		pa.p = nil
		pa.restarts++
		return CaseResult{Kind: "property", Oracle: "deadlock", What: "the worker did not answer (hang outside the request watchdog); stacks: " + msg}
	}
}

func parentTimeout(wd time.Duration) time.Duration {
	if v, err := strconv.Atoi(os.Getenv("C15_PARENT_TIMEOUT_S")); err == nil && v > 0 {
		return time.Duration(v) * time.Second
	}
	return 2*wd + 90*time.Second
}

const (
	obCorr  = "correspondence: every observed execution (Go/Batch/chain calls, idle points, batch calls, deliveries, return) is an execution of the Lean model; batch calls and final state equal"
	obResp  = "oracle: response == response of the same query with all resolvers synchronous"
	obBatch = "oracle: per idle point, one call per Batch resolver with exactly the pending field contexts in order; each context exactly once"
	obLeak  = "oracle: request completes (watchdog) and no goroutine started on its behalf is left parked after it returned"
)

// enough: the run has already failed beyond doubt; do not spend the budget on more of the same
// (every deadlock costs a full watchdog period and a worker).
func (pa *parent) enough() bool { return pa.unclassified > 12 || pa.deadlocks >= 2 }

func sameFailure(a, b CaseResult) bool {
	return !b.OK && a.Kind == b.Kind && a.Oracle == b.Oracle && a.FindingKey == b.FindingKey
}

func dropSel(tree []Sel, path []int) []Sel {
	out := append([]Sel{}, tree...)
	if len(path) == 1 {
		return append(out[:path[0]], out[path[0]+1:]...)
	}
	s := out[path[0]]
	s.Sub = dropSel(s.Sub, path[1:])
	out[path[0]] = s
	return out
}

func selAt(tree []Sel, path []int) Sel {
	s := tree[path[0]]
	if len(path) == 1 {
		return s
	}
	return selAt(s.Sub, path[1:])
}

func withParts(tree []Sel, path []int, parts []string) []Sel {
	out := append([]Sel{}, tree...)
	s := out[path[0]]
	if len(path) == 1 {
		s.Parts = parts
	} else {
		s.Sub = withParts(s.Sub, path[1:], parts)
	}
	out[path[0]] = s
	return out
}

func selPaths(tree []Sel, prefix []int, out *[][]int) {
	for i, s := range tree {
		p := append(append([]int{}, prefix...), i)
		*out = append(*out, p)
		selPaths(s.Sub, p, out)
	}
}

func (pa *parent) shrink(c Case, res CaseResult) (Case, CaseResult) {
	deadline := time.Now().Add(time.Duration(pa.run.Scale(20, 90)) * time.Second)
	budget := 200
	try := func(cand Case) bool {
		if budget <= 0 || time.Now().After(deadline) {
			return false
		}
		budget--
		if res.Oracle == "deadlock" {
			cand.WatchdogMs = 3000
		}
		r2 := pa.exec(&cand)
		if sameFailure(res, r2) {
			cand.WatchdogMs = c.WatchdogMs
			c, res = cand, r2
			return true
		}
		return false
	}
	for changed := true; changed; {
		changed = false
		if len(c.Tree) > 0 {
			var paths [][]int
			selPaths(c.Tree, nil, &paths)
			for i := len(paths) - 1; i >= 0; i-- {
				cand := c
				cand.Tree = dropSel(c.Tree, paths[i])
				if len(cand.Tree) == 0 {
					continue
				}
				cand.Query = render(cand.Op, cand.Tree)
				if try(cand) {
					changed = true
					break
				}
			}
		}
		if !changed && len(c.Tree) > 0 {
			var paths [][]int
			selPaths(c.Tree, nil, &paths)
		parts:
			for _, pth := range paths {
				sel := selAt(c.Tree, pth)
				for pi := range sel.Parts {
					if len(sel.Parts) < 2 {
						break
					}
					cand := c
					cand.Tree = withParts(c.Tree, pth, append(append([]string{}, sel.Parts[:pi]...), sel.Parts[pi+1:]...))
					cand.Query = render(cand.Op, cand.Tree)
					if try(cand) {
						changed = true
						break parts
					}
				}
			}
		}
		if changed {
			continue
		}
		for _, f := range []func(*Case) bool{
			func(x *Case) bool { ok := x.Procs != 1; x.Procs = 1; return ok },
			func(x *Case) bool { ok := x.RoundK != 1; x.RoundK = 1; return ok },
			func(x *Case) bool { ok := x.PErr != 0; x.PErr = 0; return ok },
			func(x *Case) bool { ok := x.PNull != 0; x.PNull = 0; return ok },
			func(x *Case) bool { ok := x.PGate != 0; x.PGate = 0; return ok },
			func(x *Case) bool { ok := x.PBatch != 0 && x.PBatch != 100; x.PBatch = 0; return ok },
		} {
			cand := c
			if f(&cand) && try(cand) {
				changed = true
				break
			}
		}
	}
	if res.Oracle == "deadlock" {
		// confirm with the full watchdog
		final := c
		final.WatchdogMs = 0
		if r2 := pa.exec(&final); sameFailure(res, r2) {
			return final, r2
		}
	}
	return c, res
}

func (pa *parent) record(c Case, res CaseResult, doShrink bool) {
	run := pa.run
	run.Case(res.Shape, res.Nontrivial)
	for k, v := range res.Counts {
		run.CountN(k, v)
	}
	bad := func(o string) bool { return !res.OK && res.Oracle == o }
	if res.CorrRan || bad("model") {
		run.Oblige(obCorr, "correspondence", 1, !bad("model"), res.What)
	}
	run.Oblige(obResp, "oracle", 1, !bad("response"), res.What)
	run.Oblige(obBatch, "oracle", 1, !bad("batch"), res.What)
	run.Oblige(obLeak, "oracle", 1, !(bad("leak") || bad("deadlock") || bad("crash")), res.What)
	if res.OK {
		return
	}
	if res.Kind == "harness" {
		run.Oblige("harness self-check", "oracle", 1, false, res.What)
		run.Violate("correspondence", "harness failure: "+res.What, "", true, c)
		return
	}
	vk := res.Kind + ":" + res.Oracle + ":" + res.FindingKey
	pa.seen[vk]++
	if res.FindingKey == "" {
		pa.unclassified++
	}
	if res.Oracle == "deadlock" {
		pa.deadlocks++
	}
	if pa.seen[vk] > 3 || (res.Oracle == "deadlock" && pa.seen[vk] > 1) {
		run.Count("violation-not-shrunk(" + res.Oracle + "):" + res.FindingKey)
		run.Violate(res.Kind, res.What, res.FindingKey, res.Kind == "correspondence", c) // hx keeps 3 per key, counts the rest
		return
	}
	if doShrink {
		c, res = pa.shrink(c, res)
	}
	run.Violate(res.Kind, res.What, res.FindingKey, res.Kind == "correspondence", c)
}

func main() {
	// worker mode is decided before hx.Init parses the flags
	for _, a := range os.Args[1:] {
		if a == "-worker" {
			fs := flag.NewFlagSet("worker", flag.ExitOnError)
			model := fs.String("model", "", "")
			detail := fs.Bool("detail", false, "")
			fs.Bool("worker", true, "")
			fs.Parse(os.Args[1:])
			workerMain(*model, *detail)
			return
		}
	}
	run := hx.Init("C15")
	pa := &parent{run: run, detail: run.Replay != "", seen: map[string]int{}}
	defer pa.stop()
	run.SetRule("case = query over {Int, Int!, Obj, Obj!, [Obj], connection, time-based connection} fields (queries and serial mutations) × per-invocation assignment {sync, Go, Batch k} × outcome {value, error, null} × completion schedule (gates released per idle round in rank order before/after the idle handler is entered, free tasks with seeded delays) × GOMAXPROCS; distinct = distinct (query, assignment, per-round deliveries and batch contents); non-trivial = at least one idle point with >= 2 promises outstanding")

	if run.Replay != "" {
		var c Case
		if err := hx.LoadReplayCase(run.Replay, &c); err != nil {
			fmt.Fprintln(os.Stderr, err)
			os.Exit(2)
		}
		if c.Note == "chanfacts" {
			checkChanFacts(run)
			run.Finish(nil)
			return
		}
		res := pa.exec(&c)
		fmt.Printf("replay: ok=%v kind=%q oracle=%q finding=%q\n  what: %s\n", res.OK, res.Kind, res.Oracle, res.FindingKey, res.What)
		if len(c.Tree) > 0 {
			c.Query = render(c.Op, c.Tree)
		}
		fmt.Printf("  query: %s\n", c.Query)
		if d := res.Detail; d != nil {
			fmt.Printf("  implementation: %s\n  all-synchronous: %s\n", d.Async, d.Sync)
			for _, r := range d.Rounds {
				fmt.Printf("  %s\n", r)
			}
			fmt.Printf("  abandoned Go promises: %d; goroutines left: %v\n", d.Abandoned, d.Leaked)
			fmt.Printf("  model trace: %s\n  model reply: %s\n", d.Trace, d.Model)
		}
		pa.record(c, res, false)
		run.Finish(nil)
		return
	}

	if err := pa.start(); err != nil {
		fmt.Fprintln(os.Stderr, err)
		os.Exit(2)
	}
	if pa.p.f02a {
		run.Note("the tree still has F-02a (errors of not-ready futures dropped by future.MapOk*): response equality is not evaluated for cases in which an asynchronously resolved non-null field fails (counted in the distribution)")
	}
	if run.ModelPath == "" {
		run.Note("no model driver: oracles only")
	}
	checkChanFacts(run)
	for _, f := range run.CorpusFiles() {
		if pa.enough() {
			break
		}
		var c Case
		if hx.LoadReplayCase(f, &c) == nil && (c.Query != "" || len(c.Tree) > 0) {
			pa.record(c, pa.exec(&c), false)
			run.Count("corpus")
		}
	}
	// hx.NewRand(seed) and hx.NewRand(seed+1) produce the same stream shifted by one draw; scramble the
	// seed so that consecutive VERIF_SEED values explore unrelated cases.
	rnd := hx.NewRand(splitmix(uint64(run.Seed) ^ 0xC15))
	procs := []int{1, 2, 4, 16}
	// bounded-exhaustive family
	ex := exhaustiveCases(procs)
	stride := 1
	off := int(run.Seed) % stride
	nEx := 0
	for i, c := range ex {
		if i%stride != off {
			continue
		}
		c := c
		pa.record(c, pa.exec(&c), true)
		nEx++
		if pa.enough() {
			break
		}
	}
	run.CountN("family:exhaustive-3-siblings", nEx)
	run.Note("exhaustive family: %d of %d cases (modes^3 x release orders; stride %d selected by the seed)", nEx, len(ex), stride)
	// scale boundaries
	wc := wideCases()
	for _, c := range wc {
		if pa.enough() {
			break
		}
		c := c
		pa.record(c, pa.exec(&c), false)
	}
	run.CountN("family:wide", len(wc))
	// cancellation of the request's context while background work is in flight
	cx := cancelMatrix(procs)
	for _, c := range cx {
		if pa.enough() {
			break
		}
		c := c
		pa.record(c, pa.exec(&c), true)
	}
	run.CountN("family:cancel-matrix", len(cx))
	nCancel := run.Scale(500, 8000)
	for i := 0; i < nCancel && !pa.enough(); i++ {
		cr := rnd.Fork()
		var c Case
		switch cr.Intn(5) {
		case 0:
			c = connCase(cr)
		case 1:
			c = abandonCase(cr)
		case 2:
			c = nestedCase(cr)
		default:
			c = randomCase(cr)
		}
		if i%8 == 7 {
			c = wsCase(cr) // graphql-ws: the handler's context is cancelled when the connection goes away
		}
		c = withCancel(cr, c)
		pa.record(c, pa.exec(&c), true)
		if i < 1 {
			run.Sample(c)
		}
	}
	run.CountN("family:cancel", nCancel)
	// apifu's built-in node / nodes fields
	nm := nodeMatrix(procs)
	for _, c := range nm {
		if pa.enough() {
			break
		}
		c := c
		pa.record(c, pa.exec(&c), true)
	}
	run.CountN("family:node-matrix", len(nm))
	// connection matrix (exhaustive) and random connection family
	cm := connMatrix(procs)
	for _, c := range cm {
		if pa.enough() {
			break
		}
		c := c
		pa.record(c, pa.exec(&c), true)
	}
	run.CountN("family:connection-matrix", len(cm))
	run.Note("connection matrix: %d cases (5 resolver kinds x page size {0,1,3} x 11 selections of edges/totalCount/pageInfo incl. aliased doubles x {sync, Go post, Go pre, Batch})", len(cm))
	nConn := run.Scale(500, 10000)
	for i := 0; i < nConn && !pa.enough(); i++ {
		c := connCase(rnd.Fork())
		pa.record(c, pa.exec(&c), true)
		if i < 1 {
			run.Sample(c)
		}
	}
	run.CountN("family:connections", nConn)
	// abandonment family
	nAb := run.Scale(1200, 20000)
	for i := 0; i < nAb && !pa.enough(); i++ {
		c := abandonCase(rnd.Fork())
		pa.record(c, pa.exec(&c), true)
		if i < 2 {
			run.Sample(c)
		}
	}
	run.CountN("family:abandon", nAb)
	// random family
	nRand := run.Scale(6000, 120000)
	for i := 0; i < nRand; i++ {
		cr := rnd.Fork()
		c := randomCase(cr)
		if cr.Chance(1, 4) {
			addNodeLookups(cr, &c)
		}
		pa.record(c, pa.exec(&c), true)
		if i < 3 {
			run.Sample(c)
		}
		if pa.enough() {
			break
		}
	}
	run.CountN("family:random", nRand)
	// nested-waves family
	nNest := run.Scale(800, 15000)
	for i := 0; i < nNest && !pa.enough(); i++ {
		cr := rnd.Fork()
		c := nestedCase(cr)
		if cr.Chance(1, 4) {
			addNodeLookups(cr, &c)
		}
		pa.record(c, pa.exec(&c), true)
		if i < 1 {
			run.Sample(c)
		}
	}
	run.CountN("family:nested-waves", nNest)
	// overlapping operations on one WebSocket connection
	ov := overlapCases(procs)
	for _, c := range ov {
		if pa.enough() {
			break
		}
		c := c
		pa.record(c, pa.exec(&c), false)
	}
	run.CountN("family:ws-overlap", len(ov))
	// WebSocket family
	nWS := run.Scale(400, 5000)
	for i := 0; i < nWS && !pa.enough(); i++ {
		c := wsCase(rnd.Fork())
		pa.record(c, pa.exec(&c), true)
		if i < 1 {
			run.Sample(c)
		}
	}
	run.CountN("family:websocket", nWS)
	run.CountN("worker-restarts", pa.restarts)
	pa.stop()
	m := &hx.Model{Calls: pa.modelCall}
	run.Finish(m)
}

var _ = strings.TrimSpace
