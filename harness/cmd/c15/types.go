package main

// Case is one replayable input: a query, a "world" (the behaviour of every field invocation is a pure
// function of Seed, the knobs and the invocation key, unless overridden in Over) and the scheduling
// parameters of the background work.
type Case struct {
	Query      string          `json:"query"`          // used when Tree is empty
	Op         string          `json:"op,omitempty"`   // "" (query) | mutation
	Tree       []Sel           `json:"tree,omitempty"` // structured form of the selection set (shrinkable)
	Seed       uint64          `json:"seed"`
	PAsync     int             `json:"p_async"`               // % of invocations resolved through Go or Batch
	PBatch     int             `json:"p_batch"`               // % of the asynchronous ones that use Batch
	PErr       int             `json:"p_err"`                 // % failing
	PNull      int             `json:"p_null"`                // % returning null
	PGate      int             `json:"p_gate"`                // % of Go tasks held by a harness gate (others: seeded delay)
	PPre       int             `json:"p_pre"`                 // % of gated tasks released *before* the idle handler is entered
	RoundK     int             `json:"round_k"`               // at most this many gated tasks are released per idle round (>=1)
	Procs      int             `json:"procs"`                 // GOMAXPROCS
	MinN       int             `json:"min_n,omitempty"`       // … from MinN..MaxN when set
	MaxN       int             `json:"max_n,omitempty"`       // list lengths / edge counts are drawn from 0..MaxN (default 3)
	Overlap    bool            `json:"overlap,omitempty"`     // two overlapping operations on one WebSocket connection (overlap.go)
	OvEvent    string          `json:"ov_event,omitempty"`    // helper of the gated subscription-event field: batch | go
	OvQuery    string          `json:"ov_query,omitempty"`    // helpers of the overlapping query: batch | go | both
	OneBatcher bool            `json:"one_batcher,omitempty"` // every Batch invocation goes to batch resolver 0
	NoNil      bool            `json:"no_nil,omitempty"`      // lists have no null elements
	WS         bool            `json:"ws,omitempty"`          // serve over the graphql-ws WebSocket subprotocol (graphqlws.go)
	Events     int             `json:"events,omitempty"`      // WS subscriptions: number of source events
	Over       map[string]Spec `json:"over,omitempty"`
	// Cancellation of the request's context as an event of the history (cancel.go). At most one of
	// CancelAt / CancelRound is set.
	CancelAt    int    `json:"cancel_at,omitempty"`    // inside the n-th resolver call (1-based), before it reaches a helper: the task starts on a cancelled context
	CancelRound int    `json:"cancel_round,omitempty"` // at the n-th idle point, see CancelMode
	CancelMode  string `json:"cancel_mode,omitempty"`  // before-release | after-pre (bodies returned, nothing received yet) | inside (the handler is blocked; races with the post gates)
	CancelSrc   string `json:"cancel_src,omitempty"`   // "" = the HTTP request's context (client went away) | WS: close-hijacked | terminate | client-close | stop (subscription's source stream only)
	// WatchdogMs: the request is declared deadlocked after this long (0 = default 20 s).
	WatchdogMs int    `json:"watchdog_ms,omitempty"`
	Note       string `json:"note,omitempty"`
}

// Sel is one field selection: name(id: ID, Args) { Sub } ; Raw is a verbatim sub-selection.
type Sel struct {
	Name string `json:"name"`
	ID   int    `json:"id"`
	Args string `json:"args,omitempty"`
	Sub  []Sel  `json:"sub,omitempty"`
	Raw  string `json:"raw,omitempty"`
	// Parts: the selection set of a connection field, in order, out of edges totalCount pageInfo and
	// their aliased doubles edges2 totalCount2 pageInfo2 (Sub goes below edges.node).
	Parts []string `json:"parts,omitempty"`
}

// Spec is the behaviour of one field invocation.
type Spec struct {
	Mode  string `json:"mode"`            // sync | go | batch
	Batch int    `json:"batch,omitempty"` // which of the batch resolvers
	Out   string `json:"out"`             // val | err | null
	N     int    `json:"n,omitempty"`     // list length / number of edges
	Gate  string `json:"gate,omitempty"`  // free | pre | post    (Go tasks)
	Rank  int    `json:"rank,omitempty"`  // gated tasks are released in rank order
	Delay int    `json:"delay,omitempty"` // free tasks: amount of yielding before the body returns
}

// CaseResult is what the worker reports for one case.
type CaseResult struct {
	OK         bool           `json:"ok"`
	Kind       string         `json:"kind,omitempty"`   // property | correspondence | crash | harness
	Oracle     string         `json:"oracle,omitempty"` // response | batch | leak | deadlock | crash | model | harness
	What       string         `json:"what,omitempty"`
	FindingKey string         `json:"finding_key,omitempty"`
	Fatal      bool           `json:"fatal,omitempty"` // the worker cannot continue (deadlock: goroutines are stuck)
	Counts     map[string]int `json:"counts,omitempty"`
	Nontrivial bool           `json:"nontrivial,omitempty"`
	Shape      string         `json:"shape,omitempty"` // canonical description for distinctness
	Detail     *Detail        `json:"detail,omitempty"`
	ModelCalls int            `json:"model_calls,omitempty"`
	CorrOK     bool           `json:"corr_ok"`
	CorrRan    bool           `json:"corr_ran"`
}

// Detail is printed by -replay.
type Detail struct {
	Async     string   `json:"async_response"`
	Sync      string   `json:"sync_response"`
	Rounds    []string `json:"rounds"`
	Trace     string   `json:"model_trace"`
	Model     string   `json:"model_reply"`
	Leaked    []string `json:"leaked,omitempty"`
	Abandoned int      `json:"abandoned"`
}
