//go:build !c15hook

package main

// hookMode: the tree has no repo-patches/C15/02-hook-async-trace (or the harness is built without
// the tag c15hook): deliveries to promises consumed inside pagination.go are inferred (trace.go).
const hookMode = false

func installHook() {}
