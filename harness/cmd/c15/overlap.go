package main

import (
	"context"
	"encoding/json"
	"fmt"
	"sort"
	"strings"
	"sync"
	"time"

	apifu "github.com/ccbrown/api-fu"
	"github.com/ccbrown/api-fu/graphql"
	"github.com/gorilla/websocket"
)

// Two operations that overlap on ONE WebSocket connection (graphqlws.go): a subscription whose event
// is still executing — held by a harness gate inside its batch function or its Go task — while a
// query arrives in a second start message and goes through Batch / Go itself. HandleStart runs the
// query on the read loop, the event runs on the source stream's goroutine: the helpers' per-request
// state (pending batches, hand-off channel, done) must not be shared between them.

const ovKey ctxKey = 100

type ovWorld struct {
	mu      sync.Mutex
	calls   [][]int     // ids per call of the batch function
	seen    map[int]int // id -> times a field context with this id was passed to the batch function
	entered chan struct{}
	gate    chan struct{}
	once    sync.Once
	notes   []string
}

func ovValue(id int) int { return id*10 + 7 }

func (o *ovWorld) hold(id int) {
	if id != 1 {
		return
	}
	o.once.Do(func() { close(o.entered) })
	select {
	case <-o.gate:
	case <-time.After(60 * time.Second):
		o.mu.Lock()
		o.notes = append(o.notes, "harness: the gate was never opened")
		o.mu.Unlock()
	}
}

var ovBatcher func(graphql.FieldContext) (interface{}, error)

func addOverlapFields(fields map[string]*graphql.FieldDefinition, cfg *apifu.Config, obj *graphql.ObjectType) {
	idArg := map[string]*graphql.InputValueDefinition{"id": {Type: graphql.NewNonNullType(graphql.IntType)}}
	ovBatcher = apifu.Batch(func(items []graphql.FieldContext) []graphql.ResolveResult {
		out := make([]graphql.ResolveResult, len(items))
		if len(items) == 0 {
			return out
		}
		o, _ := items[0].Context.Value(ovKey).(*ovWorld)
		ids := make([]int, len(items))
		for i, it := range items {
			ids[i], _ = it.Arguments["id"].(int)
			out[i].Value = ovValue(ids[i])
		}
		if o != nil {
			o.mu.Lock()
			o.calls = append(o.calls, ids)
			for _, id := range ids {
				o.seen[id]++
			}
			o.mu.Unlock()
			for _, id := range ids {
				o.hold(id)
			}
		}
		return out
	})
	fields["ob"] = &graphql.FieldDefinition{Type: graphql.IntType, Arguments: idArg, Resolve: func(ctx graphql.FieldContext) (interface{}, error) {
		return ovBatcher(ctx)
	}}
	fields["og"] = &graphql.FieldDefinition{Type: graphql.IntType, Arguments: idArg, Resolve: func(ctx graphql.FieldContext) (interface{}, error) {
		o, _ := ctx.Context.Value(ovKey).(*ovWorld)
		id, _ := ctx.Arguments["id"].(int)
		return apifu.Go(ctx.Context, func() (interface{}, error) {
			if o != nil {
				o.hold(id)
			}
			return ovValue(id), nil
		}), nil
	}}
	cfg.AddSubscription("sv", &graphql.FieldDefinition{Type: obj, Resolve: func(ctx graphql.FieldContext) (interface{}, error) {
		if ctx.IsSubscribe {
			ch := make(chan *node, 1)
			ch <- &node{key: "/sv"}
			close(ch)
			return &apifu.SubscriptionSourceStream{EventChannel: ch, Stop: func() {}}, nil
		}
		return ctx.Object, nil
	}})
}

// runOverlap plays one overlap scenario. evKind / opKind: which helper the gated event field and the
// overlapping query use ("batch" | "go" | "both").
func (wk *worker) runOverlap(c *Case) (res CaseResult) {
	res.Counts = map[string]int{"transport:graphql-ws": 1, "ws-overlapping-operations-on-one-connection": 1}
	res.OK, res.CorrOK, res.Nontrivial = true, true, true
	res.Shape = "overlap:" + c.OvEvent + ":" + c.OvQuery
	fail := func(oracle, format string, a ...any) CaseResult {
		if res.OK {
			res.OK, res.Kind, res.Oracle, res.What = false, "property", oracle, fmt.Sprintf(format, a...)
		}
		return res
	}
	curWorld.Store((*world)(nil))
	if pre := wk.filterKnown(settle(wk.floor)); len(pre) != 0 {
		res.OK, res.Kind, res.Oracle, res.What = false, "harness", "harness", "harness: request goroutines exist before the case starts"
		return res
	}
	o := &ovWorld{seen: map[int]int{}, entered: make(chan struct{}), gate: make(chan struct{})}
	hub.mu.Lock()
	hub.next++
	id := fmt.Sprint(hub.next)
	hub.ov[id] = o
	hub.mu.Unlock()
	defer func() {
		hub.mu.Lock()
		delete(hub.ov, id)
		hub.mu.Unlock()
	}()
	field := func(kind string, n int) string {
		if kind == "go" {
			return fmt.Sprintf("f%d: og(id: %d)", n, n)
		}
		return fmt.Sprintf("f%d: ob(id: %d)", n, n)
	}
	evFields := []string{field(c.OvEvent, 1), field("batch", 2)}
	var qFields []string
	switch c.OvQuery {
	case "go":
		qFields = []string{field("go", 3), field("go", 4)}
	case "both":
		qFields = []string{field("batch", 3), field("go", 4)}
	default:
		qFields = []string{field("batch", 3), field("batch", 4)}
	}
	q1 := "subscription { sv { " + strings.Join(evFields, " ") + " } }"
	q2 := "{ " + strings.Join(qFields, " ") + " }"
	want := map[string]string{
		"1": fmt.Sprintf(`{"data":{"sv":{"f1":%d,"f2":%d}}}`, ovValue(1), ovValue(2)),
		"2": fmt.Sprintf(`{"data":{"f3":%d,"f4":%d}}`, ovValue(3), ovValue(4)),
	}
	url := "ws" + strings.TrimPrefix(hub.srv.URL, "http") + "/?ov=" + id
	d := websocket.Dialer{Subprotocols: []string{"graphql-ws"}, HandshakeTimeout: 30 * time.Second}
	conn, _, err := d.Dial(url, nil)
	if err != nil {
		res.OK, res.Kind, res.Oracle, res.What = false, "harness", "harness", "harness: cannot dial: "+err.Error()
		return res
	}
	msgs := make(chan wsMsg, 16)
	go func() {
		defer close(msgs)
		for {
			_, p, err := conn.ReadMessage()
			if err != nil {
				return
			}
			var m wsMsg
			if json.Unmarshal(p, &m) == nil {
				msgs <- m
			}
		}
	}()
	send := func(m wsMsg) { b, _ := json.Marshal(m); conn.WriteMessage(websocket.TextMessage, b) }
	start := func(opID, q string) {
		p, _ := json.Marshal(map[string]string{"query": q})
		send(wsMsg{ID: opID, Type: "start", Payload: p})
	}
	got := map[string][]string{}
	done := map[string]bool{}
	take := func(m wsMsg) {
		switch m.Type {
		case "data":
			got[m.ID] = append(got[m.ID], string(m.Payload))
		case "complete", "error":
			done[m.ID] = true
		}
	}
	watchdog := 20 * time.Second
	send(wsMsg{Type: "connection_init"})
	start("1", q1)
	// 1. the event's gated call has begun
	select {
	case <-o.entered:
	case <-time.After(watchdog):
		close(o.gate)
		conn.Close()
		res.Fatal = true
		return fail("deadlock", "overlap: the subscription event never reached its background function")
	}
	// 2. the overlapping query; it is independent of the gate, so it normally completes at once — the
	// bounded wait only orders the schedule, it decides nothing
	start("2", q2)
	bounded := time.After(2 * time.Second)
waitQuery:
	for !done["2"] {
		select {
		case m, ok := <-msgs:
			if !ok {
				break waitQuery
			}
			take(m)
		case <-bounded:
			res.Counts["overlap: query still pending when the gate was opened"]++
			break waitQuery
		}
	}
	completedWhileHeld := done["2"]
	// 3. let the event go on; both operations must complete
	close(o.gate)
	deadline := time.After(watchdog)
waitAll:
	for !(done["1"] && done["2"]) {
		select {
		case m, ok := <-msgs:
			if !ok {
				break waitAll
			}
			take(m)
		case <-deadline:
			conn.Close()
			res.Fatal = true
			gs := requestGoroutines()
			var fr []string
			for i, g := range gs {
				if i < 5 {
					fr = append(fr, firstFrames(g, 3))
				}
			}
			return fail("deadlock", "overlap (event through %s, query through %s): operations completed: %v (query completed while the event was held: %v); batch calls %v; goroutines: %s",
				c.OvEvent, c.OvQuery, done, completedWhileHeld, o.calls, strings.Join(fr, " ; "))
		}
	}
	conn.WriteMessage(websocket.CloseMessage, websocket.FormatCloseMessage(websocket.CloseNormalClosure, ""))
	for range msgs {
	}
	conn.Close()
	left := wk.filterKnown(settle(wk.floor))
	o.mu.Lock()
	defer o.mu.Unlock()
	if len(o.notes) > 0 {
		res.OK, res.Kind, res.Oracle, res.What = false, "harness", "harness", o.notes[0]
		return res
	}
	// every field context exactly once, and no call mixes the two operations' contexts
	var ids []int
	for id := range o.seen {
		ids = append(ids, id)
	}
	sort.Ints(ids)
	for _, id := range ids {
		if o.seen[id] > 1 {
			fail("batch", "overlap: the field context ob(id: %d) was passed to the batch function %d times (calls %v)", id, o.seen[id], o.calls)
		}
	}
	for _, call := range o.calls {
		ev, qu := false, false
		for _, id := range call {
			if id <= 2 {
				ev = true
			} else {
				qu = true
			}
		}
		if ev && qu {
			fail("batch", "overlap: one batch call received field contexts of both operations: %v", call)
		}
	}
	for _, op := range []string{"1", "2"} {
		if len(got[op]) != 1 || got[op][0] != want[op] {
			fail("response", "overlap: operation %s answered %q, want %q", op, got[op], want[op])
		}
	}
	if len(left) > 0 {
		for _, g := range left {
			wk.ignore[g.id] = true
		}
		wk.floor += len(left)
		fail("leak", "overlap: %d goroutine(s) left after the connection was closed: %s", len(left), firstFrames(left[0], 3))
	}
	return res
}

// overlapCases: event held inside {its batch function, its Go task} × query through {Batch, Go, both}.
func overlapCases(procs []int) []Case {
	var out []Case
	n := 0
	for rep := 0; rep < 2; rep++ {
		for _, ev := range []string{"batch", "go"} {
			for _, qu := range []string{"batch", "go", "both"} {
				out = append(out, Case{Overlap: true, OvEvent: ev, OvQuery: qu, Procs: procs[n%len(procs)], Query: "overlap"})
				n++
			}
		}
	}
	return out
}

var _ = context.Background
