package main

import (
	"bufio"
	"context"
	"encoding/json"
	"errors"
	"fmt"
	"net/http/httptest"
	"os"
	"runtime"
	"strings"
	"time"

	apifu "github.com/ccbrown/api-fu"
	"github.com/ccbrown/api-fu/graphql"

	"verifharness/hx"
)

const findingF15a = "F-15a-abandoned-go-task-blocks-forever"
const findingF15c = "F-15c-batch-invocations-of-a-finished-subscription-event-flushed-in-the-next"
const findingF15b = "F-15b-chain-goroutine-waits-for-unflushed-batch-promise"

type worker struct {
	model       *hx.Model
	f02aPresent bool
	ignore      map[string]bool // goroutine ids already reported as leaked
	floor       int             // runtime.NumGoroutine() of the quiescent worker (plus goroutines already reported)
	detail      bool
}

// probeF02a reports whether the tree still has F-02a (future.MapOk & co. drop the error of a
// not-ready future): a *pre-filled* promise — no Go/Batch helper involved — fails a non-null field.
func probeF02a() bool {
	cfg := &apifu.Config{}
	obj := &graphql.ObjectType{Name: "PObj", Fields: map[string]*graphql.FieldDefinition{
		"nn": {Type: graphql.NewNonNullType(graphql.IntType), Resolve: func(ctx graphql.FieldContext) (interface{}, error) {
			ch := make(graphql.ResolvePromise, 1)
			ch <- graphql.ResolveResult{Error: errors.New("boom")}
			return ch, nil
		}},
	}}
	cfg.AddQueryField("obj", &graphql.FieldDefinition{Type: obj, Resolve: func(ctx graphql.FieldContext) (interface{}, error) { return 1, nil }})
	api, err := apifu.NewAPI(cfg)
	if err != nil {
		return false
	}
	req := httptest.NewRequest("POST", "/graphql", strings.NewReader(`{"query":"{obj{nn}}"}`))
	req.Header.Set("Content-Type", "application/json")
	rec := httptest.NewRecorder()
	api.ServeGraphQL(rec, req.WithContext(context.Background()))
	return !strings.Contains(rec.Body.String(), "boom")
}

func (wk *worker) filterKnown(gs []gor) []gor {
	var out []gor
	for _, g := range gs {
		if !wk.ignore[g.id] {
			out = append(out, g)
		}
	}
	return out
}

func firstFrames(g gor, n int) string {
	lines := strings.Split(g.stack, "\n")
	var fr []string
	for i := 1; i < len(lines) && len(fr) < n; i += 2 {
		fr = append(fr, strings.TrimSpace(lines[i]))
	}
	return "[" + g.state + "] " + strings.Join(fr, " <- ")
}

func (wk *worker) runCase(c *Case) (res CaseResult) {
	if c.Overlap {
		if c.Procs < 1 {
			c.Procs = 4
		}
		runtime.GOMAXPROCS(c.Procs)
		return wk.runOverlap(c)
	}
	res.Counts = map[string]int{}
	res.CorrOK = true
	count := func(k string) { res.Counts[k]++ }
	if len(c.Tree) > 0 {
		c.Query = render(c.Op, c.Tree)
	}
	if c.Procs < 1 {
		c.Procs = 4
	}
	runtime.GOMAXPROCS(c.Procs)
	count(fmt.Sprintf("gomaxprocs:%d", c.Procs))
	fail := func(kindOracle, key, format string, a ...any) CaseResult {
		res.OK = false
		if res.Kind == "" {
			ko := strings.SplitN(kindOracle, ":", 2)
			res.Kind, res.FindingKey, res.What = ko[0], key, fmt.Sprintf(format, a...)
			res.Oracle = ko[0]
			if len(ko) > 1 {
				res.Oracle = ko[1]
			}
		}
		return res
	}
	res.OK = true
	defer curWorld.Store((*world)(nil))

	// reference: every resolver synchronous
	doServe := serve
	if c.WS {
		doServe = serveWS
		count("transport:graphql-ws")
	}
	ref := doServe(c, true)
	if ref.deadlock || ref.panicked != "" {
		return fail("crash", "", "the all-synchronous run failed: deadlock=%v panic=%s", ref.deadlock, ref.panicked)
	}
	if len(ref.w.tasks)+len(ref.w.regs) > 0 {
		return fail("harness", "", "harness: the synchronous run used a helper")
	}

	if pre := wk.filterKnown(settle(wk.floor)); len(pre) != 0 {
		return fail("harness", "", "harness: %d request goroutines exist before the case starts: %s", len(pre), firstFrames(pre[0], 3))
	}
	run := doServe(c, false)
	w := run.w
	if run.deadlock {
		res.Fatal = true
		var parkedAt []string
		for _, blk := range strings.Split(run.stacks, "\n\n") {
			if strings.Contains(blk, "github.com/ccbrown/api-fu") {
				m := gorHeader.FindStringSubmatch(blk)
				if m != nil {
					parkedAt = append(parkedAt, firstFrames(gor{state: m[2], stack: blk}, 3))
				}
			}
		}
		return fail("property:deadlock", "", "deadlock: the request did not complete within the watchdog time although every released background function had returned; goroutines: %s", strings.Join(parkedAt, " ; "))
	}
	relErr := w.releaseAll()
	if run.panicked != "" {
		return fail("crash", "", "panic while serving: %s", run.panicked)
	}
	if relErr != nil {
		res.Fatal = true
		return fail("harness", "", "%v", relErr)
	}
	left := wk.filterKnown(settle(wk.floor))

	// distribution
	nGo, nBatch, nChained, nGated := len(w.tasks), len(w.regs), 0, 0
	abandoned := 0
	for _, t := range w.tasks {
		if t.chained {
			nChained++
		} else if t.deliveredRound < 0 {
			abandoned++
		}
		if t.gate != nil {
			nGated++
		}
	}
	pendingAtReturn, chainedPending := 0, 0
	for _, r := range w.regs {
		if r.chained {
			nChained++
		}
		if r.seen == 0 {
			pendingAtReturn++
			if r.chained {
				chainedPending++
			}
		}
	}
	maxOut, maxBatch, multiDeliver := 0, 0, 0
	for _, ro := range w.rounds {
		if ro.outstanding > maxOut {
			maxOut = ro.outstanding
		}
		for _, p := range ro.pendingBefore {
			if len(p) > maxBatch {
				maxBatch = len(p)
			}
		}
		if len(ro.delivered) > 1 {
			multiDeliver++
		}
	}
	bucket := func(n int) string {
		switch {
		case n == 0:
			return "0"
		case n == 1:
			return "1"
		case n <= 3:
			return "2-3"
		case n <= 8:
			return "4-8"
		}
		return "9+"
	}
	count("go-tasks:" + bucket(nGo))
	count("batch-invocations:" + bucket(nBatch))
	count("idle-rounds:" + bucket(len(w.rounds)))
	count("largest-batch:" + bucket(maxBatch))
	count("pagination-chain-goroutines:" + bucket(w.internal))
	if multiDeliver > 0 {
		count("round-with-several-go-deliveries(drain)")
	}
	flushRounds, laterWide := map[int]bool{}, false
	firstFlush := 0
	for _, cl := range w.calls {
		flushRounds[cl.round] = true
		if firstFlush == 0 || cl.round < firstFlush {
			firstFlush = cl.round
		}
	}
	for _, cl := range w.calls {
		if cl.round > firstFlush && len(cl.items) >= 2 {
			laterWide = true
		}
	}
	count("batch-waves:" + bucket(len(flushRounds)))
	if laterWide {
		count("later-wave-batch-call-with-2+-items(nested coalescing)")
	}
	nDep := 0
	for _, ev := range w.eventLog() {
		if (ev.kind == "go" || ev.kind == "batch") && ev.dep >= 0 {
			nDep++
		}
	}
	count("helper-calls-below-an-async-ancestor:" + bucket(nDep))
	if w.pumped > 0 {
		count("safety-pump-released-a-gate")
	}
	if abandoned > 0 {
		count("abandoned-go-promise")
	}
	if pendingAtReturn > 0 {
		count("batch-invocation-pending-at-return")
	}
	if strings.HasPrefix(strings.TrimSpace(c.Query), "mutation") {
		count("mutation(serial wait)")
	}
	res.Nontrivial = len(w.rounds) >= 1 && maxOut >= 2
	var shape strings.Builder
	shape.WriteString(c.Query + "|" + strings.Join(w.invs, ",") + "|")
	for _, ro := range w.rounds {
		fmt.Fprintf(&shape, "r%v%v;", ro.delivered, ro.pendingBefore)
	}
	res.Shape = hx.Hash(shape.String())

	if wk.detail {
		d := &Detail{Async: run.body, Sync: ref.body, Abandoned: abandoned}
		for i, ro := range w.rounds {
			var cs []string
			for _, cl := range w.calls {
				if cl.round == i+1 {
					cs = append(cs, fmt.Sprintf("batch%d%v", cl.k, w.regKeys(cl.items)))
				}
			}
			var dl []string
			for _, ti := range ro.delivered {
				dl = append(dl, w.tasks[ti].key)
			}
			d.Rounds = append(d.Rounds, fmt.Sprintf("round %d: outstanding=%d released=%v calls=%v go-delivered=%v", i+1, ro.outstanding, ro.released, cs, dl))
		}
		for _, g := range left {
			d.Leaked = append(d.Leaked, firstFrames(g, 3))
		}
		res.Detail = d
	}

	// ---- oracle 3: nothing started on the request's behalf stays behind
	if len(left) > 0 {
		for _, g := range left {
			wk.ignore[g.id] = true
		}
		wk.floor += len(left)
		allInSend, inSend := true, 0
		for _, g := range left {
			if leakedInGoSend(g) {
				inSend++
			} else if !waitingBehindAbandoned(g) {
				allInSend = false
			}
		}
		undelivered := abandoned + nChained + w.internal
		key := ""
		if allInSend && inSend > 0 && undelivered > 0 && len(left) <= nGo+w.internal {
			key = findingF15a
		} else if allInSend && inSend == 0 && chainedPending > 0 && len(left) <= w.internal {
			key = findingF15b
		}
		var fr []string
		for i, g := range left {
			if i < 4 {
				fr = append(fr, firstFrames(g, 3))
			}
		}
		fail("property:leak", key, "%d goroutine(s) started on behalf of the request are still parked after it returned and after every background function returned (abandoned Go promises: %d): %s", len(left), abandoned, strings.Join(fr, " ; "))
	}
	// ---- inline anomalies (batch function got a foreign item, resolver during idle, …)
	if len(w.anomalies) > 0 {
		kind := "property:batch"
		if strings.HasPrefix(w.anomalies[0], "harness:") {
			kind = "harness"
		}
		fail(kind, "", "%s", w.anomalies[0])
	}
	// ---- oracle 2: batching
	if msg, key := w.batchOracle(); msg != "" {
		fail("property:batch", key, "%s", msg)
	}
	if msg := w.progressOracle(); msg != "" {
		fail("property:batch", "", "%s", msg)
	}
	// ---- oracle 1: response == all-synchronous response
	if run.status != ref.status {
		fail("property:response", "", "HTTP status %d, all-synchronous run gives %d", run.status, ref.status)
	}
	ad, ae, e1 := canonResponse(run.body)
	sd, se, e2 := canonResponse(ref.body)
	cancelled := w.cn.fired.Load()
	if c.cancels() {
		count("cancel:" + c.CancelSrc + ":" + fmt.Sprintf("at-call=%v,%s", c.CancelAt > 0, c.CancelMode))
		if cancelled {
			count("cancel-fired-while-the-request-was-executing")
			if abandoned+nChained+nGo > 0 {
				count("cancel-fired-with-go-tasks-in-the-request")
			}
		} else {
			count("cancel-point-not-reached")
		}
		w.cn.mu.Lock()
		notes := append([]string{}, w.cn.notes...)
		w.cn.mu.Unlock()
		for _, n := range notes {
			if strings.HasPrefix(n, "harness:") {
				fail("harness", "", "%s", n)
			} else {
				count(n)
			}
		}
	}
	// While F-02a is in the tree, an error that reaches an asynchronously resolved non-null field (its
	// own, or one propagating up from its selection set) is dropped and leaves a blank key behind.
	skipResp := wk.f02aPresent && (w.f02a || (w.asyncNonNull && strings.Contains(ad, `"":null`)))
	if cancelled {
		// the executor fails what it reaches after the cancellation: every value that is present must
		// be the one produced for it
		if msg := cancelledResponse(run, ref, c.WS); msg != "" {
			fail("property:response", "", "%s (got %s, all-synchronous %s)", msg, run.body, ref.body)
		}
	} else if skipResp {
		count("response-compare-skipped(F-02a in tree, async non-null failure)")
	} else if e1 != nil || e2 != nil {
		fail("property:response", "", "unparsable response: %v %v", e1, e2)
	} else if ad != sd {
		fail("property:response", "", "data differs from the all-synchronous run: got %s want %s", ad, sd)
	} else if fmt.Sprint(ae) != fmt.Sprint(se) {
		fail("property:response", "", "errors differ from the all-synchronous run: got %v want %v (data %s)", ae, se, ad)
	}
	if len(se) > 0 {
		count("response-with-errors")
	}

	// ---- apifu's own node / nodes fields
	if !c.WS && len(c.Tree) > 0 && !cancelled {
		if msg := nodeOracle(c.Tree, run.body); msg != "" {
			fail("property:response", "", "%s (response %s)", msg, run.body)
		} else if msg := nodeOracle(c.Tree, ref.body); msg != "" {
			fail("property:response", "", "all-synchronous run: %s (response %s)", msg, ref.body)
		}
		for _, sl := range c.Tree {
			if sl.Name == "node" {
				count("node-lookup-through-apifu-root-field")
				break
			}
		}
	}
	// ---- correspondence with the Lean model (acceptor)
	if wk.model != nil && w.execs > 1 && !hookMode {
		count("model-not-consulted(several executions share one apiRequest)")
	}
	if wk.model != nil && !hookMode && w.inferenceUnsafe {
		count("model-not-consulted(edges fetched more than once for one connection: beyond the fallback inference)")
	}
	if wk.model != nil && (hookMode || (w.execs <= 1 && !w.inferenceUnsafe)) {
		res.CorrRan = true
		s := w.synthesize()
		line := "(run fixed " + strings.Join(s.labels, " ") + ")"
		reply, err := wk.model.Ask(line)
		res.ModelCalls++
		if res.Detail != nil {
			res.Detail.Trace, res.Detail.Model = line, reply
		}
		corr := ""
		if err != nil {
			corr = "model driver failed: " + err.Error()
		} else if ms, perr := parseModelReply(reply); perr != nil {
			corr = perr.Error()
		} else if ms.reject >= 0 {
			lbl := "?"
			if ms.reject < len(s.labels) {
				lbl = s.labels[ms.reject]
			}
			corr = fmt.Sprintf("the observed execution is not an execution of the model: label %d %s is not enabled (%s); trace %s", ms.reject, lbl, strings.Join(s.notes, "; "), strings.Join(s.labels, " "))
		} else {
			oc := w.observedCalls()
			switch {
			case fmt.Sprint(oc) != fmt.Sprint(ms.calls):
				corr = fmt.Sprintf("batch calls differ: implementation %v, model %v", oc, ms.calls)
			case ms.next != w.nextPid:
				corr = fmt.Sprintf("promise count differs: implementation %d, model %d", w.nextPid, ms.next)
			case len(ms.running)+len(ms.blocked) > 0:
				corr = fmt.Sprintf("model ends with tasks running %v / blocked %v", ms.running, ms.blocked)
			case ms.destFull != "false" || ms.crashed != "false":
				corr = fmt.Sprintf("model ends with destfull=%s crashed=%s", ms.destFull, ms.crashed)
			}
		}
		if corr != "" {
			res.CorrOK = false
			fail("correspondence:model", "", "%s", corr)
		}
	}
	return res
}

// workerMain: one JSON case per input line, one JSON CaseResult per output line.
func workerMain(modelPath string, detail bool) {
	installHook()
	theAPI = buildAPI()
	wk := &worker{ignore: map[string]bool{}, detail: detail, f02aPresent: probeF02a()}
	if modelPath != "" {
		m, err := hx.StartModel(modelPath)
		if err != nil {
			fmt.Fprintln(os.Stderr, "cannot start model:", err)
			os.Exit(2)
		}
		wk.model = m
		defer m.Close()
	}
	hub = startHub()
	defer hub.srv.Close()
	time.Sleep(10 * time.Millisecond)
	wk.floor = runtime.NumGoroutine()
	in := bufio.NewReaderSize(os.Stdin, 1<<20)
	out := bufio.NewWriter(os.Stdout)
	hello, _ := json.Marshal(map[string]any{"hello": true, "f02a_present": wk.f02aPresent})
	out.Write(hello)
	out.WriteByte('\n')
	out.Flush()
	for {
		line, err := in.ReadBytes('\n')
		if len(line) > 1 {
			var c Case
			var res CaseResult
			if e := json.Unmarshal(line, &c); e != nil {
				res = CaseResult{Kind: "harness", What: "bad case: " + e.Error()}
			} else {
				res = wk.runCase(&c)
			}
			b, _ := json.Marshal(res)
			out.Write(b)
			out.WriteByte('\n')
			out.Flush()
			if res.Fatal {
				os.Exit(0)
			}
		}
		if err != nil {
			return
		}
	}
}
