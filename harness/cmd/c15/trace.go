package main

import (
	"fmt"
	"sort"
	"strings"

	"verifharness/hx"
)

// The observed execution is turned into a label sequence of the Lean model (acceptor mode).
//
// Observed exactly: the order of Go / Batch / chain calls (they happen on the executor's goroutine),
// the idle points, the batch calls of every idle point, and — by looking into the promise buffers
// when the idle handler returns — which executor-awaited Go promises were fulfilled in which round.
// Not observable without instrumentation: the rounds in which promises consumed by pagination.go's
// own chain/join goroutines, and those goroutines' promises, were fulfilled ("hidden" tasks). For
// them the trace uses the laziest placement: a hidden task is received only where the idle handler
// could not have returned otherwise (a blocking round must end with a non-chained resolution), and
// everything still outstanding is received in the last round. Laziness keeps the largest set of
// hidden tasks available for later rounds, so a real execution of the modelled code always has an
// accepted trace; a round that the model cannot explain is a correspondence failure.

type stask struct {
	pid      int
	waits    []int
	vis      *task // nil for pagination.go's own goroutines
	received bool
}

type synth struct {
	w         *world
	labels    []string
	delivered map[int]mres
	chained   map[int]bool
	tasks     []*stask
	lastRound int
	notes     []string
}

func resAtom(r mres) (string, string) {
	e := "0"
	if r.err {
		e = "1"
	}
	return fmt.Sprint(r.val), e
}

func (s *synth) awaitAll(waits []int) (ready bool, failed *mres) {
	for _, p := range waits {
		r, ok := s.delivered[p]
		if !ok {
			return false, nil
		}
		if r.err {
			rr := r
			return true, &rr
		}
	}
	return true, nil
}

// finishable: could the body of t have returned by the end of idle round `round` (0 = after the return)?
func (s *synth) finishable(t *stask, round int) bool {
	if t.vis != nil {
		return round == 0 || (t.vis.doneRound > 0 && t.vis.doneRound <= round)
	}
	ok, _ := s.awaitAll(t.waits)
	return ok
}

func (s *synth) result(t *stask) mres {
	if t.vis != nil {
		return t.vis.res
	}
	if _, failed := s.awaitAll(t.waits); failed != nil {
		return *failed
	}
	return mres{val: 7}
}

func (s *synth) emit(format string, a ...any) { s.labels = append(s.labels, fmt.Sprintf(format, a...)) }

func (s *synth) receive(t *stask, how string) {
	r := s.result(t)
	v, e := resAtom(r)
	s.emit("(fin %d %s %s)", t.pid, v, e)
	s.emit("(%s %d)", how, t.pid)
	s.delivered[t.pid] = r
	t.received = true
}

func (s *synth) pickHidden(round int) *stask {
	var chainedCand *stask
	for _, t := range s.tasks {
		if t.received || (t.vis != nil && !t.vis.chained) || !s.finishable(t, round) {
			continue
		}
		if !s.chained[t.pid] {
			return t
		}
		if chainedCand == nil {
			chainedCand = t
		}
	}
	return chainedCand
}

// synthesizeExact (hook mode): the event log *is* the label sequence.
func (w *world) synthesizeExact() *synth {
	s := &synth{w: w, delivered: map[int]mres{}, chained: map[int]bool{}}
	byPid := map[int]*stask{}
	for _, t := range w.tasks {
		byPid[t.pid] = &stask{pid: t.pid, vis: t}
	}
	events := w.eventLog()
	for _, ev := range events {
		if ev.kind == "chain" {
			byPid[ev.pid] = &stask{pid: ev.pid, waits: ev.waits}
		}
	}
	callsByRound := map[int][]callObs{}
	for _, c := range w.calls {
		callsByRound[c.round] = append(callsByRound[c.round], c)
	}
	exec := 0
	finishBatches := func() {
		for _, rg := range w.regs {
			if rg.exec == exec {
				if _, ok := s.delivered[rg.pid]; !ok {
					s.delivered[rg.pid] = mres{val: 0, err: true}
				}
			}
		}
	}
	take := func(pid int, how string) {
		t := byPid[pid]
		if t == nil {
			s.notes = append(s.notes, fmt.Sprintf("%s of an unknown promise", how))
			s.emit("(%s 999999)", how)
			return
		}
		s.receive(t, how)
	}
	returned := false
	for _, ev := range events {
		switch ev.kind {
		case "go":
			if ev.dep >= 0 {
				s.emit("(go %d %d)", ev.pid, ev.dep)
			} else {
				s.emit("(go %d)", ev.pid)
			}
		case "batch":
			if ev.dep >= 0 {
				s.emit("(batch %d %d %d %d)", ev.k, ev.item, ev.pid, ev.dep)
			} else {
				s.emit("(batch %d %d %d)", ev.k, ev.item, ev.pid)
			}
		case "chain":
			ws := make([]string, len(ev.waits))
			for i, p := range ev.waits {
				ws[i] = fmt.Sprint(p)
			}
			s.emit("(chain %d (%s))", ev.pid, strings.Join(ws, " "))
		case "idle":
			s.emit("(idle)")
			if cs := callsByRound[ev.round]; len(cs) > 0 {
				sort.Slice(cs, func(i, j int) bool { return cs[i].k < cs[j].k })
				var groups []string
				for _, c := range cs {
					g := []string{fmt.Sprint(c.k)}
					for _, id := range c.items {
						if id < 0 || id >= len(w.regs) {
							continue
						}
						rg := w.regs[id]
						v, e := resAtom(rg.res)
						g = append(g, "("+v+" "+e+")")
						if _, dup := s.delivered[rg.pid]; !dup {
							s.delivered[rg.pid] = rg.res
						}
					}
					groups = append(groups, "("+strings.Join(g, " ")+")")
				}
				s.emit("(flush %s)", strings.Join(groups, " "))
			}
		case "recv":
			take(ev.pid, "recvb")
		case "drain":
			take(ev.pid, "drain")
		case "released":
			take(ev.pid, "release")
		case "iret":
			s.emit("(iret)")
		case "cancel":
			s.emit("(cancel)")
		case "ret":
			s.emit("(ret)")
			finishBatches()
			exec++
			returned = true
		case "start":
			s.emit("(start)")
			returned = false
		}
	}
	if !returned {
		s.emit("(ret)")
		finishBatches()
	}
	return s
}

func (w *world) synthesize() *synth {
	if hookMode {
		return w.synthesizeExact()
	}
	s := &synth{w: w, delivered: map[int]mres{}, chained: map[int]bool{}, lastRound: len(w.rounds)}
	byPid := map[int]*stask{}
	for _, t := range w.tasks {
		st := &stask{pid: t.pid, vis: t}
		s.tasks = append(s.tasks, st)
		byPid[t.pid] = st
	}
	for _, ev := range w.eventLog() {
		if ev.kind == "chain" {
			st := &stask{pid: ev.pid, waits: ev.waits}
			s.tasks = append(s.tasks, st)
			byPid[ev.pid] = st
		}
	}
	sort.Slice(s.tasks, func(i, j int) bool { return s.tasks[i].pid < s.tasks[j].pid })
	callsByRound := map[int][]callObs{}
	for _, c := range w.calls {
		callsByRound[c.round] = append(callsByRound[c.round], c)
	}
	for _, ev := range w.eventLog() {
		switch ev.kind {
		case "go":
			if ev.dep >= 0 {
				s.emit("(go %d %d)", ev.pid, ev.dep)
			} else {
				s.emit("(go %d)", ev.pid)
			}
		case "batch":
			if ev.dep >= 0 {
				s.emit("(batch %d %d %d %d)", ev.k, ev.item, ev.pid, ev.dep)
			} else {
				s.emit("(batch %d %d %d)", ev.k, ev.item, ev.pid)
			}
		case "chain":
			ws := make([]string, len(ev.waits))
			for i, p := range ev.waits {
				ws[i] = fmt.Sprint(p)
				s.chained[p] = true
			}
			s.emit("(chain %d (%s))", ev.pid, strings.Join(ws, " "))
		case "idle":
			r := ev.round
			ro := w.rounds[r-1]
			s.emit("(idle)")
			if cs := callsByRound[r]; len(cs) > 0 {
				sort.Slice(cs, func(i, j int) bool { return cs[i].k < cs[j].k })
				var groups []string
				for _, c := range cs {
					g := []string{fmt.Sprint(c.k)}
					for _, id := range c.items {
						if id < 0 || id >= len(w.regs) {
							continue
						}
						rg := w.regs[id]
						v, e := resAtom(rg.res)
						g = append(g, "("+v+" "+e+")")
						if _, dup := s.delivered[rg.pid]; !dup {
							s.delivered[rg.pid] = rg.res
						}
					}
					groups = append(groups, "("+strings.Join(g, " ")+")")
				}
				s.emit("(flush %s)", strings.Join(groups, " "))
				for _, ti := range ro.delivered {
					s.receive(byPid[w.tasks[ti].pid], "drain")
				}
			} else if len(ro.delivered) > 0 {
				for i, ti := range ro.delivered {
					how := "drain"
					if i == 0 {
						how = "recvb"
					}
					s.receive(byPid[w.tasks[ti].pid], how)
				}
			} else {
				for {
					h := s.pickHidden(r)
					if h == nil {
						s.notes = append(s.notes, fmt.Sprintf("round %d: no resolution could have been received", r))
						break
					}
					wasChained := s.chained[h.pid]
					s.receive(h, "recvb")
					if !wasChained {
						break
					}
					delete(s.chained, h.pid)
				}
			}
			if r == s.lastRound {
				for progress := true; progress; {
					progress = false
					for _, t := range s.tasks {
						if !t.received && (t.vis == nil || t.vis.chained) && s.finishable(t, r) {
							s.receive(t, "drain")
							progress = true
						}
					}
				}
			}
			s.emit("(iret)")
		}
	}
	s.emit("(ret)")
	// finish(): promises still pending in a batch receive an error
	for _, rg := range w.regs {
		if _, ok := s.delivered[rg.pid]; !ok {
			s.delivered[rg.pid] = mres{val: 0, err: true}
		}
	}
	for progress := true; progress; {
		progress = false
		for _, t := range s.tasks {
			if !t.received && s.finishable(t, 0) {
				s.receive(t, "release")
				progress = true
			}
		}
	}
	return s
}

type modelState struct {
	next     int
	running  []string
	blocked  []string
	calls    []string
	destFull string
	crashed  string
	reject   int
	raw      string
}

func parseModelReply(reply string) (*modelState, error) {
	x, err := hx.ParseSexp(reply)
	if err != nil || !x.IsList || len(x.List) == 0 {
		return nil, fmt.Errorf("unexpected model reply %q", reply)
	}
	ms := &modelState{reject: -1, raw: reply}
	if x.List[0].Atom == "reject" && len(x.List) == 2 {
		fmt.Sscan(x.List[1].Atom, &ms.reject)
		return ms, nil
	}
	if x.List[0].Atom != "ok" {
		return nil, fmt.Errorf("unexpected model reply %q", reply)
	}
	for _, f := range x.List[1:] {
		if !f.IsList || len(f.List) == 0 {
			continue
		}
		switch f.List[0].Atom {
		case "next":
			fmt.Sscan(f.List[1].Atom, &ms.next)
		case "running":
			for _, a := range f.List[1:] {
				ms.running = append(ms.running, a.Atom)
			}
		case "blocked":
			for _, a := range f.List[1:] {
				ms.blocked = append(ms.blocked, a.Atom)
			}
		case "calls":
			for _, c := range f.List[1:] {
				ms.calls = append(ms.calls, c.String())
			}
		case "destfull":
			ms.destFull = f.List[1].Atom
		case "crashed":
			ms.crashed = f.List[1].Atom
		}
	}
	sort.Strings(ms.calls)
	return ms, nil
}

// observedCalls renders the batch call log in the model's format: (wave key (items) (dests)).
func (w *world) observedCalls() []string {
	var out []string
	for _, c := range w.calls {
		var items, dests []hx.Sexp
		for _, id := range c.items {
			items = append(items, hx.I(int64(id)))
			if id >= 0 && id < len(w.regs) {
				dests = append(dests, hx.I(int64(w.regs[id].pid)))
			}
		}
		out = append(out, hx.L(hx.I(int64(c.round)), hx.I(int64(c.k)), hx.L(items...), hx.L(dests...)).String())
	}
	sort.Strings(out)
	return out
}
