package main

import (
	"bytes"
	"context"
	"encoding/json"
	"fmt"
	"net/http/httptest"
	"regexp"
	"runtime"
	"sort"
	"strings"
	"time"
)

type served struct {
	w        *world
	status   int
	body     string
	panicked string
	deadlock bool
	stacks   string
	datas    []string // WebSocket: payloads of the data messages
}

func serve(c *Case, forceSync bool) *served {
	w := &world{c: c, forceSync: forceSync}
	out := &served{w: w}
	if !forceSync {
		curWorld.Store(w)
	}
	q, _ := json.Marshal(map[string]string{"query": c.Query})
	req := httptest.NewRequest("POST", "/graphql", bytes.NewReader(q))
	req.Header.Set("Content-Type", "application/json")
	// the request's context is what net/http cancels when the client goes away
	rctx, cancelReq := context.WithCancel(context.WithValue(req.Context(), worldKey, w))
	defer cancelReq()
	w.cn.fn = cancelReq
	req = req.WithContext(rctx)
	rec := httptest.NewRecorder()
	done := make(chan struct{})
	go func() {
		defer close(done)
		defer func() {
			if p := recover(); p != nil {
				buf := make([]byte, 1<<14)
				out.panicked = fmt.Sprintf("%v\n%s", p, buf[:runtime.Stack(buf, false)])
			}
		}()
		theAPI.ServeGraphQL(rec, req)
	}()
	wd := time.Duration(c.WatchdogMs) * time.Millisecond
	if wd <= 0 {
		wd = 20 * time.Second
	}
	select {
	case <-done:
	case <-time.After(wd):
		out.deadlock = true
		buf := make([]byte, 1<<20)
		out.stacks = string(buf[:runtime.Stack(buf, true)])
		return out
	}
	w.closeOpen()
	out.status = rec.Code
	out.body = rec.Body.String()
	return out
}

// ---- goroutine accounting ----------------------------------------------------------------------

type gor struct {
	id    string
	state string
	stack string
}

var gorHeader = regexp.MustCompile(`^goroutine (\d+) \[([^\]]*)\]:`)

// requestGoroutines lists the goroutines whose stack mentions api-fu or the harness's task bodies
// (the serving goroutine and everything started on a request's behalf); the caller is excluded.
func requestGoroutines() []gor {
	buf := make([]byte, 1<<16)
	for {
		n := runtime.Stack(buf, true)
		if n < len(buf) {
			buf = buf[:n]
			break
		}
		buf = make([]byte, 2*len(buf))
	}
	var out []gor
	for i, blk := range strings.Split(string(buf), "\n\n") {
		if i == 0 {
			continue // the calling goroutine
		}
		m := gorHeader.FindStringSubmatch(blk)
		if m == nil {
			continue
		}
		if !strings.Contains(blk, "github.com/ccbrown/api-fu") && !strings.Contains(blk, "main.(*world)") {
			continue
		}
		out = append(out, gor{id: m[1], state: m[2], stack: blk})
	}
	return out
}

func parked(state string) bool {
	s := strings.SplitN(state, ",", 2)[0]
	switch s {
	case "chan send", "chan receive", "select", "semacquire", "sync.WaitGroup.Wait", "sync.Mutex.Lock", "sync.Cond.Wait", "chan send (nil chan)", "chan receive (nil chan)", "select (no cases)":
		return true
	}
	return false
}

// settle waits until no goroutine of a finished request is left. It returns the goroutines that are
// left once every one of them is parked on a channel/lock operation and stayed so (nothing runnable
// remains that could wake them), or once the long deadline expires.
func settle(baseline int) []gor {
	if runtime.NumGoroutine() <= baseline {
		return nil
	}
	deadline := time.Now().Add(30 * time.Second)
	stable := 0
	var lastIDs string
	for spin := 0; ; spin++ {
		gs := requestGoroutines()
		if len(gs) == 0 {
			return nil
		}
		allParked := true
		var ids []string
		for _, g := range gs {
			if !parked(g.state) {
				allParked = false
			}
			st := g.state
			if len(st) > 9 {
				st = st[:9]
			}
			ids = append(ids, g.id+st)
		}
		sort.Strings(ids)
		cur := strings.Join(ids, ",")
		if allParked && cur == lastIDs {
			stable++
		} else {
			stable = 0
		}
		lastIDs = cur
		if stable >= 6 || time.Now().After(deadline) {
			return gs
		}
		if spin < 20 {
			runtime.Gosched()
			time.Sleep(time.Duration(50*(spin+1)) * time.Microsecond)
		} else {
			time.Sleep(20 * time.Millisecond)
		}
	}
}

// leakedInGoSend reports whether g is parked in the send of the Go helper (api.go: `apiRequest.asyncResolutions <- …`).
func leakedInGoSend(g gor) bool {
	if !strings.HasPrefix(g.state, "chan send") && !strings.HasPrefix(g.state, "select") {
		return false
	}
	lines := strings.Split(g.stack, "\n")
	return len(lines) > 1 && strings.HasPrefix(lines[1], "github.com/ccbrown/api-fu.Go.func1(")
}

// waitingBehindAbandoned reports whether g is a chain/join goroutine of pagination.go parked in the
// receive from a promise (api.go: `result := <-p`), i.e. waiting behind a task that never delivers.
func waitingBehindAbandoned(g gor) bool {
	if !strings.HasPrefix(g.state, "chan receive") {
		return false
	}
	lines := strings.Split(g.stack, "\n")
	if len(lines) < 4 {
		return false
	}
	top := strings.HasPrefix(lines[1], "github.com/ccbrown/api-fu.chain.func1(") || strings.HasPrefix(lines[1], "github.com/ccbrown/api-fu.join.func1(")
	return top && strings.HasPrefix(lines[3], "github.com/ccbrown/api-fu.Go.func1(")
}
