package main

// Trees shared by the generator, the reference and the adapter of the real library. Values (Go
// values, literals, JSON, abstract client values) are S-expressions in the grammar of
// lean/ApiFu/C05/Main.lean; this file holds the printers (GraphQL text, JSON text), the
// conversion between Go values and the canonical `goval` S-expression, and the type descriptors.

import (
	"encoding/json"
	"fmt"
	"math"
	"math/big"
	"sort"
	"strconv"
	"strings"
	"time"

	"verifharness/hx"
)

// ---- types ------------------------------------------------------------------------------------

// Ty is an input type. Input object types point to a shared definition, so recursive types
// (input In { e: In, c: [In] }) are cyclic Go structures.
type Ty struct {
	K    string // scalar | custom | enum | input | list | nn
	Name string // scalar / custom scalar / enum / input-object name
	Vals []string
	Def  *InputDef
	Elem *Ty
}

type InputDef struct {
	Name   string
	Fields []*Field
	Hooked bool // the type has an InputCoercion hook
}

type Field struct {
	Name string
	Ty   *Ty
	Dflt *hx.Sexp // goval; nil = no default; atom nil = schema.Null
}

func scalarTy(n string) *Ty   { return &Ty{K: "scalar", Name: n} }
func customTy(n string) *Ty   { return &Ty{K: "custom", Name: n} }
func listTy(t *Ty) *Ty        { return &Ty{K: "list", Elem: t} }
func inputTy(d *InputDef) *Ty { return &Ty{K: "input", Name: d.Name, Def: d} }
func nnTy(t *Ty) *Ty {
	if t.K == "nn" {
		return t
	}
	return &Ty{K: "nn", Elem: t}
}
func nullable(t *Ty) *Ty {
	for t.K == "nn" {
		t = t.Elem
	}
	return t
}

func dfltSexp(d *hx.Sexp) hx.Sexp {
	if d == nil {
		return hx.A("none")
	}
	return hx.N("some", *d)
}

// Sexp is the type in the generalised model's grammar (input objects by reference).
func (t *Ty) Sexp() hx.Sexp {
	switch t.K {
	case "scalar":
		return hx.A(t.Name)
	case "custom":
		return hx.N("custom", hx.A(t.Name))
	case "enum":
		vs := make([]hx.Sexp, len(t.Vals))
		for i, v := range t.Vals {
			vs[i] = hx.A(v)
		}
		return hx.N("enum", hx.A(t.Name), hx.L(vs...))
	case "input":
		return hx.N("ref", hx.A(t.Name))
	case "list":
		return hx.N("list", t.Elem.Sexp())
	case "nn":
		return hx.N("nn", t.Elem.Sexp())
	}
	panic("bad type kind " + t.K)
}

// collectDefs gathers the input-object definitions reachable from t.
func collectDefs(t *Ty, into map[string]*InputDef) {
	switch t.K {
	case "list", "nn":
		collectDefs(t.Elem, into)
	case "input":
		if _, seen := into[t.Name]; seen {
			return
		}
		into[t.Name] = t.Def
		for _, f := range t.Def.Fields {
			collectDefs(f.Ty, into)
		}
	}
}

// envSexp renders the definitions as `((Name hooked|plain ((f ty dflt)…))…)`, sorted by name.
func envSexp(defs map[string]*InputDef) hx.Sexp {
	names := make([]string, 0, len(defs))
	for n := range defs {
		names = append(names, n)
	}
	sort.Strings(names)
	out := []hx.Sexp{}
	for _, n := range names {
		d := defs[n]
		fs := make([]hx.Sexp, len(d.Fields))
		for i, f := range d.Fields {
			fs[i] = hx.L(hx.A(f.Name), f.Ty.Sexp(), dfltSexp(f.Dflt))
		}
		h := "plain"
		if d.Hooked {
			h = "hooked"
		}
		out = append(out, hx.L(hx.A(n), hx.A(h), hx.L(fs...)))
	}
	return hx.L(out...)
}

// treeExpressible: the tree model (ApiFu/C05/Model.lean) can express the type — no recursion, no
// hook, no custom scalar.
func treeExpressible(t *Ty, onPath map[string]bool) bool {
	switch t.K {
	case "custom":
		return false
	case "list", "nn":
		return treeExpressible(t.Elem, onPath)
	case "input":
		if onPath[t.Name] || t.Def.Hooked {
			return false
		}
		onPath[t.Name] = true
		defer delete(onPath, t.Name)
		for _, f := range t.Def.Fields {
			if !treeExpressible(f.Ty, onPath) {
				return false
			}
		}
	}
	return true
}

// TreeSexp is the type in the tree model's grammar (input objects inlined); only for
// treeExpressible types.
func (t *Ty) TreeSexp() hx.Sexp {
	switch t.K {
	case "input":
		fs := make([]hx.Sexp, len(t.Def.Fields))
		for i, f := range t.Def.Fields {
			fs[i] = hx.L(hx.A(f.Name), f.Ty.TreeSexp(), dfltSexp(f.Dflt))
		}
		return hx.N("input", hx.A(t.Name), hx.L(fs...))
	case "list":
		return hx.N("list", t.Elem.TreeSexp())
	case "nn":
		return hx.N("nn", t.Elem.TreeSexp())
	}
	return t.Sexp()
}

// GraphQL spelling of the type (variable definitions).
func (t *Ty) GraphQL() string {
	switch t.K {
	case "list":
		return "[" + t.Elem.GraphQL() + "]"
	case "nn":
		return t.Elem.GraphQL() + "!"
	}
	return t.Name
}

func parseDflt(x hx.Sexp) (*hx.Sexp, error) {
	if !x.IsList && x.Atom == "none" {
		return nil, nil
	}
	if x.IsList && len(x.List) == 2 && x.List[0].Atom == "some" {
		v := x.List[1]
		return &v, nil
	}
	return nil, fmt.Errorf("bad default %s", x.String())
}

// parseEnv reads `((Name hooked|plain ((f ty dflt)…))…)`; definitions may refer to each other.
func parseEnv(x hx.Sexp) (map[string]*InputDef, error) {
	env := map[string]*InputDef{}
	for _, d := range x.List {
		env[d.List[0].Atom] = &InputDef{Name: d.List[0].Atom, Hooked: d.List[1].Atom == "hooked"}
	}
	for _, d := range x.List {
		def := env[d.List[0].Atom]
		for _, f := range d.List[2].List {
			ft, err := parseTy(f.List[1], env)
			if err != nil {
				return nil, err
			}
			dv, err := parseDflt(f.List[2])
			if err != nil {
				return nil, err
			}
			def.Fields = append(def.Fields, &Field{Name: f.List[0].Atom, Ty: ft, Dflt: dv})
		}
	}
	return env, nil
}

func parseTy(x hx.Sexp, env map[string]*InputDef) (*Ty, error) {
	if !x.IsList {
		switch x.Atom {
		case "Int", "Float", "String", "Boolean", "ID", "DateTime", "LongInt":
			return scalarTy(x.Atom), nil
		}
		return nil, fmt.Errorf("bad scalar %q", x.Atom)
	}
	if len(x.List) < 2 {
		return nil, fmt.Errorf("bad type %s", x.String())
	}
	switch x.List[0].Atom {
	case "list", "nn":
		e, err := parseTy(x.List[1], env)
		if err != nil {
			return nil, err
		}
		return &Ty{K: x.List[0].Atom, Elem: e}, nil
	case "custom":
		return customTy(x.List[1].Atom), nil
	case "enum":
		t := &Ty{K: "enum", Name: x.List[1].Atom}
		for _, v := range x.List[2].List {
			t.Vals = append(t.Vals, v.Atom)
		}
		return t, nil
	case "ref":
		d := env[x.List[1].Atom]
		if d == nil {
			return nil, fmt.Errorf("undefined input type %s", x.List[1].Atom)
		}
		return inputTy(d), nil
	}
	return nil, fmt.Errorf("bad type %s", x.String())
}

func (t *Ty) field(name string) *Field {
	if t.Def == nil {
		return nil
	}
	for _, f := range t.Def.Fields {
		if f.Name == name {
			return f
		}
	}
	return nil
}

// ---- S-expression helpers -----------------------------------------------------------------------

func tag(x hx.Sexp) string {
	if !x.IsList {
		return x.Atom
	}
	if len(x.List) == 0 {
		return ""
	}
	return x.List[0].Atom
}

func isNullX(x hx.Sexp) bool { return !x.IsList && (x.Atom == "null" || x.Atom == "nil") }

func bigOf(x hx.Sexp) *big.Int {
	z, ok := new(big.Int).SetString(x.Atom, 10)
	if !ok {
		panic("bad integer " + x.Atom)
	}
	return z
}

func bigA(z *big.Int) hx.Sexp { return hx.A(z.String()) }

func kv(k string, v hx.Sexp) hx.Sexp { return hx.L(hx.A(k), v) }

// ---- literal and JSON text ---------------------------------------------------------------------

func quoteGraphQL(s string) string {
	var b strings.Builder
	b.WriteByte('"')
	for _, c := range s {
		switch {
		case c == '"':
			b.WriteString(`\"`)
		case c == '\\':
			b.WriteString(`\\`)
		case c < 0x20 || c > 0x7e:
			fmt.Fprintf(&b, `\u%04x`, c)
		default:
			b.WriteRune(c)
		}
	}
	b.WriteByte('"')
	return b.String()
}

// halfText renders h/2 as a decimal with a fraction part (float syntax).
func halfText(h *big.Int) string {
	neg := h.Sign() < 0
	a := new(big.Int).Abs(h)
	q, r := new(big.Int).QuoRem(a, big.NewInt(2), new(big.Int))
	s := q.String()
	if r.Sign() != 0 {
		s += ".5"
	} else {
		s += ".0"
	}
	if neg {
		s = "-" + s
	}
	return s
}

// jsonNumText renders the JSON number h/2 (integers without a fraction part).
func jsonNumText(h *big.Int) string {
	if new(big.Int).Rem(h, big.NewInt(2)).Sign() == 0 {
		return new(big.Int).Quo(h, big.NewInt(2)).String()
	}
	return halfText(h)
}

func litText(x hx.Sexp) string {
	if !x.IsList {
		return "null"
	}
	switch tag(x) {
	case "var":
		return "$" + x.List[1].Atom
	case "int":
		return x.List[1].Atom
	case "float":
		return halfText(bigOf(x.List[1]))
	case "str":
		return quoteGraphQL(x.List[1].Atom)
	case "bool":
		return x.List[1].Atom
	case "enum":
		return x.List[1].Atom
	case "list":
		parts := make([]string, 0, len(x.List)-1)
		for _, e := range x.List[1:] {
			parts = append(parts, litText(e))
		}
		return "[" + strings.Join(parts, ", ") + "]"
	case "obj":
		parts := make([]string, 0, len(x.List)-1)
		for _, e := range x.List[1:] {
			parts = append(parts, e.List[0].Atom+": "+litText(e.List[1]))
		}
		return "{" + strings.Join(parts, ", ") + "}"
	}
	panic("bad literal " + x.String())
}

func jsonText(x hx.Sexp) string {
	if !x.IsList {
		return "null"
	}
	switch tag(x) {
	case "num":
		return jsonNumText(bigOf(x.List[1]))
	case "str":
		return strconv.Quote(x.List[1].Atom)
	case "bool":
		return x.List[1].Atom
	case "list":
		parts := make([]string, 0, len(x.List)-1)
		for _, e := range x.List[1:] {
			parts = append(parts, jsonText(e))
		}
		return "[" + strings.Join(parts, ",") + "]"
	case "obj":
		parts := make([]string, 0, len(x.List)-1)
		for _, e := range x.List[1:] {
			parts = append(parts, strconv.Quote(e.List[0].Atom)+":"+jsonText(e.List[1]))
		}
		return "{" + strings.Join(parts, ",") + "}"
	}
	panic("bad json " + x.String())
}

// ---- abstract client values → literal / JSON -----------------------------------------------------

func cvToLit(v hx.Sexp) hx.Sexp {
	if !v.IsList {
		return hx.A("null")
	}
	switch tag(v) {
	case "half":
		return hx.N("float", v.List[1])
	case "list":
		out := []hx.Sexp{}
		for _, e := range v.List[1:] {
			out = append(out, cvToLit(e))
		}
		return hx.N("list", out...)
	case "obj":
		out := []hx.Sexp{}
		for _, e := range v.List[1:] {
			out = append(out, kv(e.List[0].Atom, cvToLit(e.List[1])))
		}
		return hx.N("obj", out...)
	}
	return v // int str bool enum
}

func cvToJSON(v hx.Sexp) hx.Sexp {
	if !v.IsList {
		return hx.A("null")
	}
	switch tag(v) {
	case "int":
		return hx.N("num", bigA(new(big.Int).Mul(bigOf(v.List[1]), big.NewInt(2))))
	case "half":
		return hx.N("num", v.List[1])
	case "enum":
		return hx.N("str", v.List[1])
	case "list":
		out := []hx.Sexp{}
		for _, e := range v.List[1:] {
			out = append(out, cvToJSON(e))
		}
		return hx.N("list", out...)
	case "obj":
		out := []hx.Sexp{}
		for _, e := range v.List[1:] {
			out = append(out, kv(e.List[0].Atom, cvToJSON(e.List[1])))
		}
		return hx.N("obj", out...)
	}
	return v // str bool
}

// exactFloat reports whether the integer z is a float64 (so that neither strconv nor
// encoding/json rounds it).
func exactFloat(z *big.Int) bool {
	f, acc := new(big.Float).SetInt(z).Float64()
	return acc == big.Exact && !math.IsInf(f, 0)
}

// jsonExact: every number inside the client value survives JSON decoding unchanged.
func jsonExact(v hx.Sexp) bool {
	if !v.IsList {
		return true
	}
	switch tag(v) {
	case "int", "half":
		return exactFloat(bigOf(v.List[1]))
	case "list":
		for _, e := range v.List[1:] {
			if !jsonExact(e) {
				return false
			}
		}
	case "obj":
		for _, e := range v.List[1:] {
			if !jsonExact(e.List[1]) {
				return false
			}
		}
	}
	return true
}

// ---- Go values ↔ canonical goval ------------------------------------------------------------------

// enumVal is the Go value the harness schema attaches to an enum value.
type enumVal struct{ Name string }

// hookOut is what the harness's symbolic InputCoercion hook returns: the type and exactly the
// field map it was called with.
type hookOut struct {
	Type   string
	Fields map[string]interface{}
}

// customOut is what the harness's custom scalars coerce to.
type customOut struct {
	Scalar string
	Value  interface{}
}

func halfOfFloat(f float64) (hx.Sexp, bool) {
	if math.IsNaN(f) || math.IsInf(f, 0) {
		return hx.Sexp{}, false
	}
	bf := new(big.Float).SetFloat64(f)
	bf.Mul(bf, big.NewFloat(2))
	z, acc := bf.Int(nil)
	if acc != big.Exact {
		return hx.Sexp{}, false
	}
	return hx.N("float", bigA(z)), true
}

// dump renders what a resolver observed as the canonical goval S-expression.
func dump(v interface{}) hx.Sexp {
	switch v := v.(type) {
	case nil:
		return hx.A("nil")
	case int:
		return hx.N("int", hx.I(int64(v)))
	case int64:
		return hx.N("long", hx.I(v))
	case float64:
		if x, ok := halfOfFloat(v); ok {
			return x
		}
		return hx.N("floatbits", hx.A(strconv.FormatUint(math.Float64bits(v), 16)))
	case string:
		return hx.N("str", hx.A(v))
	case bool:
		return hx.N("bool", hx.B(v))
	case time.Time:
		return hx.N("time", hx.A(v.Format(time.RFC3339Nano)))
	case enumVal:
		return hx.N("enum", hx.A(v.Name))
	case hookOut:
		return hx.N("obj", kv("$fields", dump(v.Fields)), kv("$hook", hx.N("str", hx.A(v.Type))))
	case customOut:
		return hx.N("obj", kv("$scalar", hx.N("str", hx.A(v.Scalar))), kv("$value", dump(v.Value)))
	case []interface{}:
		out := make([]hx.Sexp, len(v))
		for i, e := range v {
			out[i] = dump(e)
		}
		return hx.N("list", out...)
	case map[string]interface{}:
		keys := make([]string, 0, len(v))
		for k := range v {
			keys = append(keys, k)
		}
		sort.Strings(keys)
		out := make([]hx.Sexp, len(keys))
		for i, k := range keys {
			out[i] = kv(k, dump(v[k]))
		}
		return hx.N("obj", out...)
	}
	return hx.N("gotype", hx.A(fmt.Sprintf("%T", v)), hx.A(fmt.Sprintf("%v", v)))
}

// dumpArgs renders an argument map as `(name goval)…` sorted by name.
func dumpArgs(m map[string]interface{}) hx.Sexp {
	keys := make([]string, 0, len(m))
	for k := range m {
		keys = append(keys, k)
	}
	sort.Strings(keys)
	out := make([]hx.Sexp, len(keys))
	for i, k := range keys {
		out[i] = kv(k, dump(m[k]))
	}
	return hx.N("ok", out...)
}

// goOf builds the Go value of a declared default from its goval. `nil` (schema.Null) is handled
// by the caller.
func goOf(x hx.Sexp) interface{} {
	if !x.IsList {
		return nil
	}
	switch tag(x) {
	case "int":
		return int(bigOf(x.List[1]).Int64())
	case "long":
		return bigOf(x.List[1]).Int64()
	case "float":
		f, _ := new(big.Float).SetInt(bigOf(x.List[1])).Float64()
		return f / 2
	case "str":
		return x.List[1].Atom
	case "bool":
		return x.List[1].Atom == "true"
	case "time":
		t, err := time.Parse(time.RFC3339Nano, x.List[1].Atom)
		if err != nil {
			panic(err)
		}
		return t
	case "enum":
		return enumVal{x.List[1].Atom}
	case "list":
		out := make([]interface{}, 0, len(x.List)-1)
		for _, e := range x.List[1:] {
			out = append(out, goOf(e))
		}
		return out
	case "obj":
		out := map[string]interface{}{}
		for _, e := range x.List[1:] {
			out[e.List[0].Atom] = goOf(e.List[1])
		}
		return out
	}
	panic("bad goval " + x.String())
}

// ---- raw variable values of every Go kind ------------------------------------------------------------

// jsonKindsOnly: the raw value consists of the kinds encoding/json produces.
func jsonKindsOnly(x hx.Sexp) bool {
	if !x.IsList {
		return true
	}
	switch tag(x) {
	case "num", "str", "bool":
		return true
	case "list":
		for _, e := range x.List[1:] {
			if !jsonKindsOnly(e) {
				return false
			}
		}
		return true
	case "obj":
		for _, e := range x.List[1:] {
			if !jsonKindsOnly(e.List[1]) {
				return false
			}
		}
		return true
	}
	return false
}

func halfToFloat(h *big.Int) float64 {
	f, _ := new(big.Float).SetInt(h).Float64()
	return f / 2
}

// goIn builds the Go value a caller of graphql.Execute would put into Request.VariableValues.
func goIn(x hx.Sexp) interface{} {
	if !x.IsList {
		return nil
	}
	switch tag(x) {
	case "num":
		return halfToFloat(bigOf(x.List[1]))
	case "str":
		return x.List[1].Atom
	case "bool":
		return x.List[1].Atom == "true"
	case "list":
		out := make([]interface{}, 0, len(x.List)-1)
		for _, e := range x.List[1:] {
			out = append(out, goIn(e))
		}
		return out
	case "obj":
		out := map[string]interface{}{}
		for _, e := range x.List[1:] {
			out[e.List[0].Atom] = goIn(e.List[1])
		}
		return out
	case "intk":
		z := bigOf(x.List[2])
		switch x.List[1].Atom {
		case "i8":
			return int8(z.Int64())
		case "u8":
			return uint8(z.Uint64())
		case "i16":
			return int16(z.Int64())
		case "u16":
			return uint16(z.Uint64())
		case "i32":
			return int32(z.Int64())
		case "u32":
			return uint32(z.Uint64())
		case "i64":
			return z.Int64()
		case "u64":
			return z.Uint64()
		case "int":
			return int(z.Int64())
		case "uint":
			return uint(z.Uint64())
		}
	case "f32":
		return float32(halfToFloat(bigOf(x.List[1])))
	case "nonfinite":
		switch x.List[1].Atom {
		case "nan":
			return math.NaN()
		case "pinf":
			return math.Inf(1)
		case "ninf":
			return math.Inf(-1)
		case "nan32":
			return float32(math.NaN())
		}
	case "jsonnumber":
		return json.Number(x.List[1].Atom)
	case "bytes":
		return []byte(x.List[1].Atom)
	case "other":
		switch x.List[1].Atom {
		case "nilptr":
			return (*int)(nil)
		case "intslice":
			return []int{1, 2}
		case "strslice":
			return []string{"a"}
		case "strmap":
			return map[string]string{"a": "b"}
		case "struct":
			return struct{ A int }{1}
		case "time":
			return time.Date(2020, 1, 2, 3, 4, 5, 0, time.UTC)
		case "intptr":
			n := 5
			return &n
		case "complex":
			return complex(1, 2)
		}
	}
	panic("bad raw value " + x.String())
}

var otherTags = []string{"nilptr", "intslice", "strslice", "strmap", "struct", "time", "intptr", "complex"}

// rawText is a readable rendering of a raw value with Go kinds (replay files, messages).
func rawText(x hx.Sexp) string {
	if jsonKindsOnly(x) {
		return jsonText(x)
	}
	switch tag(x) {
	case "list":
		parts := []string{}
		for _, e := range x.List[1:] {
			parts = append(parts, rawText(e))
		}
		return "[" + strings.Join(parts, ",") + "]"
	case "obj":
		parts := []string{}
		for _, e := range x.List[1:] {
			parts = append(parts, strconv.Quote(e.List[0].Atom)+":"+rawText(e.List[1]))
		}
		return "{" + strings.Join(parts, ",") + "}"
	case "intk":
		return x.List[1].Atom + "(" + x.List[2].Atom + ")"
	case "f32":
		return "float32(" + jsonNumText(bigOf(x.List[1])) + ")"
	}
	return x.String()
}

// parseDateTime is Go's own RFC 3339 parser (what DateTimeType uses): the parameter P of the model.
func parseDateTime(s string) (string, bool) {
	t := time.Time{}
	if err := t.UnmarshalText([]byte(s)); err != nil {
		return "", false
	}
	return t.Format(time.RFC3339Nano), true
}
